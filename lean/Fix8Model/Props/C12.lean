import Fix8Model.Tables.SortedSetLemmas
import Fix8Model.Gen.TablesUTEST
/-!
C12 – Metadata lookup tables behave as exact maps.
(1) `GeneratedTable::_find` is `lower_bound` + equality, i.e. `getRlmIdxSet`: hit exactly when the key
is present, returning that key's entry; generated fact: the field table, the message table and every
per-message trait table of the compiled schema are strictly sorted.
(2) `presorted_set` refines a set of unique keys under every history of insert / find / clear.
-/
namespace Fix8Model.Props.C12
open Fix8Model.Realm Fix8Model.SortedSet Fix8Model.Gen

/-- generated tables: hit exactly for present keys, with the key's own entry -/
theorem C12_table_find (l : List Int) (k : Int) (hs : Sorted l) (i : Nat) :
    getRlmIdxSet l k = some i ↔ (i < l.length ∧ el l i = k) := getRlmIdxSet_iff l k hs i

/-- and miss exactly for absent keys: no entry of the table carries the key (the "exact map" reading of a miss) -/
theorem C12_table_miss (l : List Int) (k : Int) (hs : Sorted l) :
    getRlmIdxSet l k = none ↔ ∀ i, i < l.length → el l i ≠ k := by
  constructor
  · intro h i hi he
    have := (C12_table_find l k hs i).mpr ⟨hi, he⟩
    rw [h] at this; cases this
  · intro h
    cases hg : getRlmIdxSet l k with
    | none => rfl
    | some i =>
      have := (C12_table_find l k hs i).mp hg
      exact absurd this.2 (h i this.1)

theorem C12_utest_tables_sorted :
    Sorted fieldKeys ∧ Sorted msgKeys ∧ ∀ r ∈ traitTags, Sorted r.2 := by
  have h1 : sortedB fieldKeys = true := by decide +kernel
  have h2 : sortedB msgKeys = true := by decide +kernel
  have h3 : traitTags.all (fun r => sortedB r.2) = true := by decide +kernel
  exact ⟨sortedB_sound _ h1, sortedB_sound _ h2, fun r hr => sortedB_sound _ (List.all_eq_true.mp h3 r hr)⟩

inductive Op | ins (v : Int) | fnd (v : Int) | clr
deriving Repr, DecidableEq

/-- implementation model: outputs are the `bool`s returned by insert / find (clear returns nothing) -/
def step (s : PSet) : Op → PSet × Option Bool
  | .ins v => let r := SortedSet.insert s v; (r.1, some r.2)
  | .fnd v => (s, some (find s v).2)
  | .clr => (clear s, none)

def run (s : PSet) : List Op → PSet × List (Option Bool)
  | [] => (s, [])
  | op :: ops => let r := step s op; let rr := run r.1 ops; (rr.1, r.2 :: rr.2)

/-- specification: a plain set of keys (list without order) -/
def specStep (m : List Int) : Op → List Int × Option Bool
  | .ins v => if v ∈ m then (m, some false) else (v :: m, some true)
  | .fnd v => (m, some (decide (v ∈ m)))
  | .clr => ([], none)

def specRun (m : List Int) : List Op → List Int × List (Option Bool)
  | [] => (m, [])
  | op :: ops => let r := specStep m op; let rr := specRun r.1 ops; (rr.1, r.2 :: rr.2)

theorem insert_ok (s : PSet) (v : Int) (hs : Sorted s.arr) :
    Sorted (SortedSet.insert s v).1.arr ∧ ((SortedSet.insert s v).2 = true ↔ v ∉ s.arr) ∧
      (∀ x, x ∈ (SortedSet.insert s v).1.arr ↔ (x ∈ s.arr ∨ ((SortedSet.insert s v).2 = true ∧ x = v))) := by
  unfold SortedSet.insert
  by_cases h0 : s.arr.length = 0
  · have hnil : s.arr = [] := List.length_eq_zero_iff.mp h0
    simp only [h0, if_true]
    refine ⟨?_, by simp [hnil], by intro x; simp [hnil]⟩
    intro i j hij hj; simp at hj; omega
  · simp only [h0, if_false]
    have hf := find_found_iff s v hs
    by_cases hfound : (find s v).2 = true
    · have hm := hf.mp hfound
      simp only [find] at hfound ⊢
      simp only [hfound, if_true]
      refine ⟨hs, by simp [hm], by intro x; simp⟩
    · have hm : v ∉ s.arr := fun h => hfound (hf.mpr h)
      have hfalse : (find s v).2 = false := by simpa using hfound
      obtain ⟨sp1, sp2⟩ := splice_sorted s.arr v hs hm
      simp only [find] at hfalse ⊢
      simp only [hfalse]
      have hff : (false = true) = False := by simp
      simp only [hff, if_false]
      by_cases hsp : s.arr.length < s.rsz
      · simp only [hsp, if_true]
        refine ⟨sp1, by simp [hm], ?_⟩
        intro x; rw [sp2 x]; simp
      · simp only [hsp, if_false]
        refine ⟨sp1, by simp [hm], ?_⟩
        intro x; rw [sp2 x]; simp

/-- refinement: on every history the implementation answers as the set does, and stays sorted -/
theorem C12_presorted_history (ops : List Op) : ∀ (s : PSet) (m : List Int), Sorted s.arr →
    (∀ x, x ∈ s.arr ↔ x ∈ m) →
      (run s ops).2 = (specRun m ops).2 ∧ Sorted (run s ops).1.arr ∧
        (∀ x, x ∈ (run s ops).1.arr ↔ x ∈ (specRun m ops).1) := by
  induction ops with
  | nil => intro s m hs hr; exact ⟨rfl, hs, hr⟩
  | cons op ops ih =>
    intro s m hs hr
    cases op with
    | ins v =>
      obtain ⟨i1, i2, i3⟩ := insert_ok s v hs
      simp only [run, specRun, step, specStep]
      by_cases hm : v ∈ m
      · have hin : v ∈ s.arr := (hr v).mpr hm
        have hb : (SortedSet.insert s v).2 = false := by
          cases hb : (SortedSet.insert s v).2 with
          | false => rfl
          | true => exact absurd hin (i2.mp hb)
        simp only [hm, if_true, hb]
        have hr' : ∀ x, x ∈ (SortedSet.insert s v).1.arr ↔ x ∈ m := by
          intro x; rw [i3 x, hb]; simp [hr x]
        obtain ⟨a, b, c⟩ := ih (SortedSet.insert s v).1 m i1 hr'
        exact ⟨by rw [a], b, c⟩
      · have hin : v ∉ s.arr := fun h => hm ((hr v).mp h)
        have hb : (SortedSet.insert s v).2 = true := i2.mpr hin
        simp only [hm, if_false, hb]
        have hr' : ∀ x, x ∈ (SortedSet.insert s v).1.arr ↔ x ∈ v :: m := by
          intro x; rw [i3 x, hb, List.mem_cons]; simp [hr x, or_comm]
        obtain ⟨a, b, c⟩ := ih (SortedSet.insert s v).1 (v :: m) i1 hr'
        exact ⟨by rw [a], b, c⟩
    | fnd v =>
      simp only [run, specRun, step, specStep]
      obtain ⟨a, b, c⟩ := ih s m hs hr
      refine ⟨?_, b, c⟩
      rw [a]
      congr 2
      have := find_found_iff s v hs
      rw [hr v] at this
      cases hf : (find s v).2 <;> simp_all
    | clr =>
      simp only [run, specRun, step, specStep]
      have hs' : Sorted (clear s).arr := by intro i j _ hj; simp [clear] at hj
      obtain ⟨a, b, c⟩ := ih (clear s) [] hs' (by intro x; simp [clear])
      exact ⟨by rw [a], b, c⟩

/-- non-vacuity: a history with a duplicate insert, a clear and a re-insert -/
example : (run ⟨[], 4, 4⟩ [.ins 5, .ins 3, .ins 5, .fnd 3, .clr, .fnd 3, .ins 3]).2
    = [some true, some true, some false, some true, none, some false, some true] := by decide

end Fix8Model.Props.C12
