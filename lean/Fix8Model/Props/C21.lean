import Fix8Model.Session.DuoInv
/-!
C21 – Two fix8 sessions deliver every application message across failures.

Objects (Fix8Model/Session/Duo.lean): TWO instances of the session step function – the initiator `Sess.step` of C16–C19
(unchanged) and the acceptor `Sess.stepAcc` (Fix8Model/Session/Acceptor.lean: the same `process` with the acceptor branch of
`handle_logon` and of `start`) – each over its own persister (the C26/C27 store specification; re-opening the files of a
restarted process gives back the same store), joined by two FIFO channels.  A schedule is a list of `DEv`:
`connect`, `sendA pid`, `sendB pid`, `dAB`, `dBA` (delivery of the oldest frame in flight), `drop` (frames in flight lost, both
sessions stopped), `restartA`, `restartB` (as `drop`, and that side's Session object is rebuilt from its persister at the next
`connect`), `tick`.

The FULL property (every schedule) is FALSE of the code; two classes, each with a witness replayed on two real sessions:
* `LossAtDrop` (loss-at-disconnect): a frame is in flight when the connection is lost.  The sender has numbered and persisted
  it, the receiver has not seen it, so the Logon (or Logon reply) of the next connection is ABOVE the expected number; fix8
  answers that with a Logout and stops (C20 class `logon-ahead`) – at every later attempt too.  The lost message is never
  delivered although it sits in the sender's persister.  fix8 <-> fix8 therefore recovers from NO loss at all; the
  ResendRequest machinery is reachable between two fix8 sessions only by frames lost on an open connection.
* `EarlySend` (send-before-logon): the acceptor's application sends before the initiator's Logon has been processed
  (state wait_for_logon: the numbers are not recovered yet and `_sid` is empty; the message goes out with number 1 and empty
  CompIDs, the control record is overwritten, and the initiator – not yet established – silently drops the frame).  This is a
  misuse of the API rather than a protocol defect, but nothing in the library refuses the send.

PROVED for every schedule outside the two classes (`CleanD`): `C21_delivery`, `C21_reestablishes`.  In that class nothing is
ever re-delivered, so "re-deliveries are flagged PossDup" holds in the strong form "no delivery carries PossDupFlag and
nothing is delivered twice" (stated, not hidden: the PossDup clause is not exercised by the proved class).
-/
namespace Fix8Model.Props.C21
open Fix8Model.Session

theorem dinv_run : ∀ (h : List DEv) (d : Duo), DInv d → CleanD d h → DInv (d.run h).1 := by
  intro h
  induction h with
  | nil => intro d hi _; exact hi
  | cons ev r ih =>
    intro d hi hc
    obtain ⟨h1, h2, h3⟩ := hc
    exact ih _ (dinv_step hi ev h1 h2) h3

theorem run_append (h1 h2 : List DEv) : ∀ (d : Duo), (d.run (h1 ++ h2)).1 = ((d.run h1).1.run h2).1 := by
  induction h1 with
  | nil => intro d; rfl
  | cons ev r ih => intro d; simp [Duo.run, ih]

theorem clean_append (h1 h2 : List DEv) : ∀ (d : Duo), CleanD d h1 → CleanD (d.run h1).1 h2 → CleanD d (h1 ++ h2) := by
  induction h1 with
  | nil => intro d _ h; exact h
  | cons ev r ih => intro d hc h; exact ⟨hc.1, hc.2.1, ih _ hc.2.2 h⟩

/-- the ClOrdIDs of the application messages among frames in flight -/
def appPids (l : List Msg) : List Nat := pidsOf (l.filter fun m => !m.admin)

theorem appPids_flight {snd tgt : Nat} : ∀ {l : List Msg} {k e : Nat}, Flight snd tgt k l e → appPids l = pidsOf l := by
  intro l
  induction l with
  | nil => intro _ _ _; rfl
  | cons m r ih =>
    intro k e h
    have := ih h.2
    simp only [appPids, pidsOf, List.filter, h.1.admin, Bool.not_false, List.map_cons] at this ⊢
    rw [this]

theorem appPids_logon {lg : Msg} {a b c : Nat} (h : IsLogon lg a b c) (l : List Msg) : appPids (lg :: l) = appPids l := by
  simp [appPids, List.filter, h.admin]

/-- **C21, delivery.**  For every schedule of connects, application sends on either side, deliveries of frames in flight in
any interleaving, connection drops, process restarts of either side and clock ticks that stays outside the two classes,
with CompID enforcement on or off:
(a) while connected neither session has been stopped – nobody terminated anybody, for a sequence reason or otherwise;
(b) in each direction the messages delivered to the application, followed by the application messages still in flight,
    are exactly the messages sent, in send order – every message is delivered at most once, in order, and none is lost;
(c) no delivery carried PossDupFlag (there are no re-deliveries, and first deliveries are not flagged);
(d) whenever nothing is in flight every message sent has been delivered – exactly once, in send order – and, if connected,
    both sessions are established (continuous) and each expects exactly the other's next number. -/
theorem C21_delivery (enforce : Bool) (t0 : Nat) (h : List DEv) (hc : CleanD (Duo.init enforce t0) h) :
    let d := ((Duo.init enforce t0).run h).1
    (d.up = true → Duo.accepts d.a = true ∧ Duo.accepts d.b = true) ∧
    (d.dlvB ++ appPids d.ab = d.sentA ∧ d.dlvA ++ appPids d.ba = d.sentB) ∧
    (d.dupA = 0 ∧ d.dupB = 0) ∧
    (d.ab = [] → d.ba = [] → d.dlvB = d.sentA ∧ d.dlvA = d.sentB ∧ (d.up = true → d.a.state = .continuous ∧ d.b.state = .continuous) ∧
      (d.up = true → d.b.nr = d.a.ns ∧ d.a.nr = d.b.ns)) := by
  intro d
  have hi : DInv d := dinv_run h _ (dinv_init enforce t0) hc
  rcases hi.phase with p | p | p | p
  · obtain ⟨p1, p2, p3, _, _, _, _, d1, d2⟩ := p
    refine ⟨(fun hu => by rw [p1] at hu; cases hu), ⟨(by rw [p2]; simpa [appPids, pidsOf] using d1), (by rw [p3]; simpa [appPids, pidsOf] using d2)⟩,
      ⟨hi.dupA, hi.dupB⟩, fun _ _ => ⟨d1, d2, (fun hu => by rw [p1] at hu; cases hu), (fun hu => by rw [p1] at hu; cases hu)⟩⟩
  · obtain ⟨_, la, _, b1, b2, _, _, _, _, ⟨lg, F, e, il, fl, dd⟩, p11, _, p13⟩ := p
    refine ⟨fun _ => ⟨la.accepts, by simp [Duo.accepts, b1, b2]⟩, ⟨?_, by rw [p11]; simpa [appPids, pidsOf] using p13⟩, ⟨hi.dupA, hi.dupB⟩,
      fun hab _ => by rw [hab] at e; cases e⟩
    rw [e, appPids_logon il, appPids_flight fl]; exact dd
  · obtain ⟨_, la, _, lb, _, fl, dd, ⟨lg, G, e, il, fg, dg⟩⟩ := p
    refine ⟨fun _ => ⟨la.accepts, lb.accepts⟩, ⟨by rw [appPids_flight fl]; exact dd, ?_⟩, ⟨hi.dupA, hi.dupB⟩,
      fun _ hba => by rw [hba] at e; cases e⟩
    rw [e, appPids_logon il, appPids_flight fg]; exact dg
  · obtain ⟨_, la, p3, lb, p5, fl, dd, fg, dg⟩ := p
    refine ⟨fun _ => ⟨la.accepts, lb.accepts⟩, ⟨by rw [appPids_flight fl]; exact dd, by rw [appPids_flight fg]; exact dg⟩, ⟨hi.dupA, hi.dupB⟩, ?_⟩
    intro hab hba
    rw [hab] at dd; rw [hba] at dg
    rw [hab] at fl; rw [hba] at fg
    exact ⟨by simpa [pidsOf] using dd, by simpa [pidsOf] using dg, fun _ => ⟨p3, p5⟩, fun _ => ⟨fl, fg⟩⟩

/-- **C21, the sessions re-establish after every reconnect.**  After any schedule outside the two classes that ends
disconnected (a drop, a restart of either side, or nothing yet), a connect followed by the delivery of the two Logons leaves
both sessions established and running – nobody is terminated for a sequence reason; the extended schedule is again outside
the classes (so `C21_delivery` applies to it: once the channels are empty each side expects exactly the other's next number). -/
theorem C21_reestablishes (enforce : Bool) (t0 : Nat) (h : List DEv) (hc : CleanD (Duo.init enforce t0) h)
    (hdown : ((Duo.init enforce t0).run h).1.up = false) :
    let d := ((Duo.init enforce t0).run (h ++ [.connect, .dAB, .dBA])).1
    CleanD (Duo.init enforce t0) (h ++ [.connect, .dAB, .dBA]) ∧
    d.up = true ∧ Duo.accepts d.a = true ∧ Duo.accepts d.b = true ∧ d.a.state = .continuous ∧ d.b.state = .continuous := by
  intro d
  have hi := dinv_run h _ (dinv_init enforce t0) hc
  have hcl : ∀ (x : Duo), CleanD x [.connect, .dAB, .dBA] := by
    intro x
    have nl : ∀ (y : Duo) (ev : DEv), ev = .connect ∨ ev = .dAB ∨ ev = .dBA → ¬ LossAtDrop y ev ∧ ¬ EarlySend y ev := by
      intro y ev hev
      constructor
      · rintro ⟨h1, _⟩; rcases hev with rfl | rfl | rfl <;> rcases h1 with h1 | h1 | h1 <;> cases h1
      · rintro ⟨_, h1, _⟩; rcases hev with rfl | rfl | rfl <;> cases h1
    exact ⟨(nl _ _ (Or.inl rfl)).1, (nl _ _ (Or.inl rfl)).2, (nl _ _ (Or.inr (Or.inl rfl))).1, (nl _ _ (Or.inr (Or.inl rfl))).2,
      (nl _ _ (Or.inr (Or.inr rfl))).1, (nl _ _ (Or.inr (Or.inr rfl))).2, trivial⟩
  have e : d = ((((((Duo.init enforce t0).run h).1.step .connect).1.step .dAB).1).step .dBA).1 := by
    show ((Duo.init enforce t0).run (h ++ [.connect, .dAB, .dBA])).1 = _
    rw [run_append]; rfl
  obtain ⟨i1, q1⟩ := dinv_connect hi
  obtain ⟨i2, q2⟩ := dinv_dAB i1
  obtain ⟨_, q3⟩ := dinv_dBA i2
  have ph3 := q3 (q2 (q1 hdown))
  rw [← e] at ph3
  obtain ⟨p1, la, p3, lb, p5, _⟩ := ph3
  exact ⟨clean_append h _ _ hc (hcl _), p1, la.accepts, lb.accepts, p3, p5⟩

/-! ### non-vacuity -/

/-- traffic in both directions interleaved with deliveries, early sends of the initiator, a drop, a restart of each side -/
def exSchedule : List DEv :=
  [.connect, .sendA 1, .dAB, .sendB 2, .dAB, .dBA, .dBA, .sendA 3, .sendB 4, .sendA 5, .dBA, .dAB, .dAB, .drop,
   .connect, .dAB, .dBA, .sendB 6, .dBA, .restartA, .connect, .dAB, .dBA, .sendA 7, .tick 9, .dAB, .restartB, .connect, .dAB, .dBA, .sendB 8, .dBA]

example : CleanD (Duo.init true) exSchedule := by decide
example : ((Duo.init true).run exSchedule).1.dlvB = [1, 3, 5, 7] ∧ ((Duo.init true).run exSchedule).1.dlvA = [2, 4, 6, 8] := by decide
example : ((Duo.init true).run exSchedule).1.up = true ∧ ((Duo.init true).run exSchedule).1.a.nr = 9 := by decide

/-! ### the full property is false: witnesses (each replayed on two real sessions by the check) -/

/-- the full statement for one schedule, at its end: nothing in flight, nobody was stopped while connected, everything sent was delivered -/
def FullPropertyD (d0 : Duo) (h : List DEv) : Prop :=
  ((d0.run h).1.up = true → Duo.accepts (d0.run h).1.a = true ∧ Duo.accepts (d0.run h).1.b = true) ∧
  (d0.run h).1.dlvB = (d0.run h).1.sentA ∧ (d0.run h).1.dlvA = (d0.run h).1.sentB

instance (d0 : Duo) (h : List DEv) : Decidable (FullPropertyD d0 h) := by unfold FullPropertyD; infer_instance

/-- finding `loss-at-disconnect`, initiator's message lost: the acceptor answers the next Logon (5 where 4 is expected) with a
Logout and stops, the initiator stops on the Logout; message 1 is never delivered; the next attempt fails the same way -/
def witLossA : List DEv := [.connect, .dAB, .dBA, .sendA 1, .drop, .connect, .dAB, .dBA, .drop, .connect, .dAB, .dBA]

theorem C21_finding_loss_at_disconnect :
    ¬ FullPropertyD (Duo.init true) witLossA ∧
    ((Duo.init true).run witLossA).1.up = true ∧ ((Duo.init true).run witLossA).1.ab = [] ∧ ((Duo.init true).run witLossA).1.ba = [] ∧
    ((Duo.init true).run witLossA).1.a.shutdown = true ∧ ((Duo.init true).run witLossA).1.b.shutdown = true ∧
    ((Duo.init true).run witLossA).1.sentA = [1] ∧ ((Duo.init true).run witLossA).1.dlvB = [] ∧
    LossAtDrop ((Duo.init true).run (witLossA.take 4)).1 .drop ∧ CleanD (Duo.init true) (witLossA.take 4) := by decide

/-- the same with the acceptor's message lost: the initiator answers the Logon reply with a Logout and stops -/
def witLossB : List DEv := [.connect, .dAB, .dBA, .sendB 1, .restartB, .connect, .dAB, .dBA, .dAB]

theorem C21_finding_loss_at_disconnect_acceptor_side :
    ¬ FullPropertyD (Duo.init true) witLossB ∧
    ((Duo.init true).run witLossB).1.a.shutdown = true ∧ ((Duo.init true).run witLossB).1.b.shutdown = true ∧
    ((Duo.init true).run witLossB).1.sentB = [1] ∧ ((Duo.init true).run witLossB).1.dlvA = [] ∧
    LossAtDrop ((Duo.init true).run (witLossB.take 4)).1 .restartB := by decide

/-- finding `send-before-logon`: the acceptor's application sends before the initiator's Logon has been processed.  The
message goes out with number 1 and an empty SessionID, the control record is overwritten with (2, 1); the initiator, still in
logon_sent, counts the frame and drops it without delivering it; the logon exchange then completes as if nothing had happened:
both sessions continuous, nothing in flight, message 9 lost for good -/
def witEarly : List DEv := [.connect, .sendB 9, .dAB, .dBA, .dBA]

theorem C21_finding_send_before_logon :
    ¬ FullPropertyD (Duo.init true) witEarly ∧
    ((Duo.init true).run witEarly).1.ab = [] ∧ ((Duo.init true).run witEarly).1.ba = [] ∧
    ((Duo.init true).run witEarly).1.a.state = .continuous ∧ ((Duo.init true).run witEarly).1.b.state = .continuous ∧
    ((Duo.init true).run witEarly).1.sentB = [9] ∧ ((Duo.init true).run witEarly).1.dlvA = [] ∧
    EarlySend ((Duo.init true).run (witEarly.take 1)).1 (.sendB 9) := by decide

/-- the initiator, by contrast, may send as soon as it has written its Logon -/
example : CleanD (Duo.init true) [.connect, .sendA 5, .dAB, .dAB, .dBA] ∧
    ((Duo.init true).run [.connect, .sendA 5, .dAB, .dAB, .dBA]).1.dlvB = [5] := by decide

end Fix8Model.Props.C21
