import Fix8Model.Conc.MpmcStep
/-!
C30 – The inter-thread queue (`ff::uMPMC_Ptr_Queue`, used through `ff_unbounded_queue`) never loses,
duplicates or reorders.

Model: `Fix8Model.Conc.Mpmc` – `n = mask+1 ≥ 1` slots, any number of threads, any interleaving of the
atomic steps of `push` / `pop` (`Reachable n σ`: no bound on threads, slots or steps).  History variables
of a state `σ`:

* `σ.pushLog[t]? = some (p, d)`: push ticket `t` (the value of `preadP` that the successful CAS of a push
  replaced) was won by thread `p` for payload `d`; the log is appended at that CAS, so position = ticket =
  order in which pushes completed their slot reservation, and a producer's entries appear in the order it
  issued its pushes;
* `σ.rets`: one entry `(c, r, got)` per inner pop, in the order the inner pops happened: consumer thread,
  pop ticket (value of `preadC` replaced by the pop's successful CAS), what the pop delivers to its caller.

Clauses of the property and the theorems that decide them (all for every reachable state):

* "every pushed element is popped exactly once": `C30_ticket` (what pop ticket `r` delivers is exactly the
  payload of push ticket `r` – so everything popped was pushed before), `C30_no_duplicate` (no ticket is
  delivered twice), `C30_no_loss` (every reserved push ticket is in flight in its producer, stored in its
  slot, or delivered), `C30_quiescent_complete`;
* "popped in the order their pushes completed their slot reservation, so each producer's elements keep their
  order": `C30_ticket` again (pop ticket order = push ticket order), `C30_consumer_order` (the tickets one
  consumer obtains grow with time), `C30_consumer_subsequence` (what one consumer has received, in the order
  it received it, is a subsequence of the push log – in particular the elements of any one producer arrive
  in the order that producer pushed them);
* "a pop reports empty only if no element was fully pushed ahead of it": `C30_empty` – `pop` returns false
  only when the push that holds the pop's ticket (the head ticket `preadC`) has not completed: that ticket is
  either not reserved at all (then `preadP = preadC`: every reserved push is already claimed by a pop) or its
  producer is still between its CAS and its `seqP` store.  `C30_finding_empty_while_later_push_complete` records, with a
  concrete schedule that is also replayed on the real queue, that the reading "no push whatsoever has
  completed" is NOT what the code provides: a later ticket may be completely pushed while the head ticket is
  still in flight (the queue orders by reservation, and `ff_unbounded_queue::pop` simply retries).
-/
namespace Fix8Model.Props.C30
open Fix8Model.Conc.Mpmc

/-- the invariant is inductive (re-exported: initial state and every transition) -/
theorem C30_inv_init (n : Nat) : Inv n init := inv_init n

theorem C30_inv_step {n : Nat} (hn : 0 < n) {σ σ' : State} (inv : Inv n σ) (st : Step n σ σ') : Inv n σ' :=
  inv_step hn inv st

/-- the pop that won ticket `r` delivers exactly the payload of the push that won ticket `r`
(and always delivers something) -/
theorem C30_ticket {n : Nat} (hn : 0 < n) {σ : State} (r : Reachable n σ) :
    ∀ e ∈ σ.rets, ∃ p d, e.2.2 = some d ∧ σ.pushLog[e.2.1]? = some (p, d) :=
  fun e he => ((inv_reachable hn r).retOk e he).2.2

/-- no ticket (hence no pushed element) is delivered twice -/
theorem C30_no_duplicate {n : Nat} (hn : 0 < n) {σ : State} (r : Reachable n σ) :
    (σ.rets.map (fun e => e.2.1)).Pairwise (· ≠ ·) := by
  rw [List.pairwise_map]
  exact (inv_reachable hn r).retOrd.imp (fun h => h.1)

/-- nothing is lost: a reserved push ticket is still in its producer's hands (between CAS and inner push),
or its payload sits in its slot's FIFO, or it has been delivered -/
theorem C30_no_loss {n : Nat} (hn : 0 < n) {σ : State} (r : Reachable n σ) (t : Nat) (ht : t < σ.P) :
    (∃ u d, σ.pc u = .pWon d t) ∨ (∃ d, (t, d) ∈ σ.buf (t % n)) ∨ (∃ e ∈ σ.rets, e.2.1 = t) := by
  have inv := inv_reachable hn r
  have hidx : t % n < n := Nat.mod_lt _ hn
  rcases Nat.lt_or_ge t (σ.ic (t % n)) with h1 | h1
  · exact .inr (.inr (inv.retAll t h1))
  · rcases Nat.lt_or_ge t (σ.ip (t % n)) with h2 | h2
    · right; left
      have hm := chain_mem (inv.chain _ hidx) h1 h2 (by rw [inv.modIc _ hidx])
      obtain ⟨e, he, het⟩ := List.mem_map.mp hm
      have hpair : (t, e.2) = e := by rw [← het]
      exact ⟨e.2, by rw [hpair]; exact he⟩
    · left
      have h3 := inv.ipGe _ hidx
      have h4 := inv.sPlo _ hidx
      have hst : σ.sP (t % n) = t :=
        mod_close_eq (n := n) (by omega) (by omega) (by rw [inv.modP _ hidx])
      obtain ⟨u, hu⟩ := inv.exP _ hidx (by omega)
      rw [hst] at hu
      have hthr := inv.thr u
      cases hpc : σ.pc u <;> rw [hpc] at hu hthr <;> simp [holdP] at hu
      case pWon d t' => subst hu; exact ⟨u, d, hpc⟩
      case pPushed t' =>
        subst hu
        simp only [ThreadOk] at hthr
        omega

/-- in a quiescent state (no operation in progress) every pushed element is either still stored in its slot
or has been delivered: pushed = stored + popped -/
theorem C30_quiescent_complete {n : Nat} (hn : 0 < n) {σ : State} (r : Reachable n σ)
    (hq : ∀ u, σ.pc u = .idle) (t : Nat) (ht : t < σ.P) :
    (∃ d, (t, d) ∈ σ.buf (t % n)) ∨ (∃ e ∈ σ.rets, e.2.1 = t) := by
  rcases C30_no_loss hn r t ht with ⟨u, d, h⟩ | h | h
  · rw [hq u] at h; cases h
  · exact .inl h
  · exact .inr h

/-- the tickets obtained by one consumer thread grow with time: if `a` was delivered before `b` to the same
thread then `a`'s ticket is smaller, i.e. (by `C30_ticket`) `a` was reserved by its producer before `b` -/
theorem C30_consumer_order {n : Nat} (hn : 0 < n) {σ : State} (r : Reachable n σ) :
    σ.rets.Pairwise (fun a b => a.1 = b.1 → a.2.1 < b.2.1) :=
  (inv_reachable hn r).retOrd.imp (fun h => h.2)

/-- what one consumer thread `c` has received so far, in the order it received it, is (the payloads of) a
subsequence `l` of the push log.  `l` keeps the producer ids, so restricting to one producer `p`
(`List.Sublist.filter`) shows that `c` sees `p`'s elements in the order `p` pushed them; with a single
consumer the received sequence follows the reservation order of all pushes. -/
theorem C30_consumer_subsequence {n : Nat} (hn : 0 < n) {σ : State} (r : Reachable n σ) (c : Tid) :
    ∃ l : List (Tid × Data), l.Sublist σ.pushLog ∧
      (σ.rets.filter (fun e => e.1 = c)).map (fun e => e.2.2) = l.map (fun x => some x.2) := by
  have inv := inv_reachable hn r
  let mine := σ.rets.filter (fun e => e.1 = c)
  let ts := mine.map (fun e => e.2.1)
  have hts : ts.Pairwise (· < ·) := by
    show (mine.map _).Pairwise _
    rw [List.pairwise_map]
    have h1 : mine.Pairwise (fun a b => a.1 = b.1 → a.2.1 < b.2.1) := (C30_consumer_order hn r).filter _
    have hmem : ∀ a ∈ mine, a.1 = c := by
      intro a ha; have := (List.mem_filter.mp ha).2; simpa using this
    clear_value mine
    induction h1 with
    | nil => exact List.Pairwise.nil
    | @cons a l ha _ ih =>
      refine List.Pairwise.cons ?_ (ih (fun b hb => hmem b (List.mem_cons_of_mem _ hb)))
      intro b hb
      exact ha b hb (by rw [hmem a List.mem_cons_self, hmem b (List.mem_cons_of_mem _ hb)])
  refine ⟨ts.filterMap (fun t => σ.pushLog[t - 0]?), lookup_increasing_sublist σ.pushLog 0 ts hts (by simp), ?_⟩
  have hsub : ∀ e ∈ mine, e ∈ σ.rets := fun e he => (List.mem_filter.mp he).1
  show mine.map _ = ((mine.map _).filterMap _).map _
  clear_value mine
  clear hts ts
  induction mine with
  | nil => rfl
  | cons e l ih =>
    obtain ⟨p, d, h1, h2⟩ := inv.retOk e (hsub e List.mem_cons_self) |>.2.2
    have ih' := ih (fun b hb => hsub b (List.mem_cons_of_mem _ hb))
    simp only [List.map_cons, List.filterMap_cons, Nat.sub_zero, h2, h1]
    simp only [Nat.sub_zero] at ih'
    rw [ih']

/-- `pop` reports empty (the `seqP[idx] <= seq` test of a thread that read `pr == seq` succeeds) only if
`pr` is the head ticket and the push holding ticket `pr` has not completed: nobody has reserved it yet
(`preadP ≤ pr`), or its producer has not yet published it (is between its CAS and its `seqP` store). -/
theorem C30_empty {n : Nat} (hn : 0 < n) {σ : State} (r : Reachable n σ) (u : Tid) (pr : Nat)
    (hpc : σ.pc u = .cTest pr) (hempty : σ.sP (pr % n) ≤ pr) :
    σ.C = pr ∧ (σ.P ≤ pr ∨ ∃ v, (∃ d, σ.pc v = .pWon d pr) ∨ σ.pc v = .pPushed pr) := by
  have inv := inv_reachable hn r
  have hidx : pr % n < n := Nat.mod_lt _ hn
  have hu := inv.thr u
  rw [hpc] at hu; simp only [ThreadOk] at hu
  have hC : σ.C = pr := by
    rcases Nat.lt_or_ge pr σ.C with h | h
    · have := inv.popReady pr h; omega
    · omega
  refine ⟨hC, ?_⟩
  rcases Nat.lt_or_ge pr σ.P with h | h
  · right
    have h4 := inv.sPlo _ hidx
    have hst : σ.sP (pr % n) = pr :=
      mod_close_eq (n := n) hempty (by omega) (by rw [inv.modP _ hidx])
    obtain ⟨v, hv⟩ := inv.exP _ hidx (by omega)
    rw [hst] at hv
    refine ⟨v, ?_⟩
    cases hpv : σ.pc v <;> rw [hpv] at hv <;> simp [holdP] at hv
    case pWon d t => subst hv; exact .inl ⟨d, rfl⟩
    case pPushed t => subst hv; exact .inr rfl
  · exact .inl h

/-- the same clause read forwards: once the push holding the head ticket has published it
(`seqP[preadC & mask] > preadC`), a pop that tests for emptiness at the head does not report empty -/
theorem C30_not_empty_when_head_pushed {n : Nat} (hn : 0 < n) {σ : State} (r : Reachable n σ) (u : Tid) (pr : Nat)
    (hpc : σ.pc u = .cTest pr) (hhead : σ.C < σ.sP (σ.C % n)) : retOf n σ u ≠ .empty := by
  intro h
  simp only [retOf, hpc] at h
  split at h
  next hle => have := (C30_empty hn r u pr hpc hle).1; subst this; omega
  next => cases h

/-! ## non-vacuity and the reading that does NOT hold -/

/-- two producers (threads 0, 1) and one consumer (thread 2) on a 2-slot queue: thread 0 reserves ticket 0
and stalls before its inner push, thread 1 pushes completely (ticket 1), thread 2's pop tests the head -/
def stalledHead : List Cmd :=
  [.call 0 (.push 10), .call 1 (.push 11), .run 0, .run 0, .run 0,
   .run 1, .run 1, .run 1, .run 1, .run 1, .call 2 .pop, .run 2, .run 2]

def stalledHeadState : State := (exec 2 init stalledHead).getD init

theorem stalledHead_reachable : Reachable 2 stalledHeadState :=
  reachable_exec (cs := stalledHead) .init (by rfl)

/-- FINDING (reading of the emptiness clause): a pop can report empty although another push has completely
finished and its element has not been popped – here ticket 1 (payload 11, thread 1 is idle again) is stored
while ticket 0 is still in flight.  The code guarantees `C30_empty`, not "empty iff nothing was pushed". -/
theorem C30_finding_empty_while_later_push_complete :
    ∃ σ, Reachable 2 σ ∧ retOf 2 σ 2 = .empty ∧ σ.pc 1 = .idle ∧ σ.buf 1 = [(1, 11)] ∧ σ.rets = [] ∧
      σ.pushLog = [(0, 10), (1, 11)] :=
  ⟨stalledHeadState, stalledHead_reachable, by decide, by decide, by decide, by decide, by decide⟩

/-- a complete run: two pushes by different producers, the consumer overtaken by a second consumer -/
def overtake : List Cmd :=
  [.call 0 (.push 10), .call 1 (.push 11)] ++ List.replicate 5 (.run 0) ++ List.replicate 5 (.run 1) ++
  [.call 2 .pop, .call 3 .pop] ++ List.replicate 4 (.run 2) ++ List.replicate 6 (.run 3) ++ List.replicate 2 (.run 2)

def overtakeState : State := (exec 2 init overtake).getD init

/-- the hypotheses of the theorems are satisfiable on a non-trivial history: consumer 3 (ticket 1) finishes
before consumer 2 (ticket 0); each receives the payload of its own ticket -/
example : Reachable 2 overtakeState ∧ overtakeState.rets = [(3, 1, some 11), (2, 0, some 10)] ∧
    overtakeState.pushLog = [(0, 10), (1, 11)] ∧ (∀ u, u < 4 → overtakeState.pc u = .idle) :=
  ⟨reachable_exec (cs := overtake) .init (by rfl), by decide, by decide, by decide⟩

example : ∃ σ u pr, Reachable 2 σ ∧ σ.pc u = .cTest pr ∧ σ.sP (pr % 2) ≤ pr :=
  ⟨stalledHeadState, 2, 0, stalledHead_reachable, by decide, by decide⟩

end Fix8Model.Props.C30
