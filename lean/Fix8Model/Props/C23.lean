import Fix8Model.Session.Logon
/-!
C23 – Logon acceptance and CompID identity are enforced consistently.

`processLogon s now seq (some m)` is `Session::process` on a decoded Logon `m` with MsgSeqNum `seq` (model:
`Session/Logon.lean`).  `s` is ANY session object (all members universally quantified: requested numbers, control
record of the persister, client list, flags …) that is not already logged on.
"completes logon" = the session ends `continuous` and not shut down.
-/
namespace Fix8Model.Props.C23
open Fix8Model.SessLH

abbrev Completes (r : Sess × List Frame) : Prop := r.1.state = .continuous ∧ r.1.shutdown = false

/-- `_next_receive_seq` at the moment the acceptor checks the Logon's MsgSeqNum: 1 after ResetSeqNumFlag=Y, else the
recovered / requested number -/
def expectedRecv (s : Sess) (m : LogonIn) : Nat :=
  if m.reset = some true then 1 else (recoverSeq { s with lastRecv := 0 } s.reqSend s.reqRecv).nextRecv

private theorem recoverSeq_nextRecv_irrel (s : Sess) (t : Nat) (st : SessState) (a b : Nat) :
    (recoverSeq { s with lastRecv := t, state := st } a b).nextRecv = (recoverSeq { s with lastRecv := 0 } a b).nextRecv := by
  unfold recoverSeq
  cases s.hasPersist <;> cases s.ctrl <;> simp <;> (repeat' split) <;> simp_all

/-- **Acceptance, exactly.**  An acceptor that is not logged on completes logon on a decoded Logon iff
(CompID enforcement is off or TargetCompID = its own SenderCompID) and (no client list, or the sender's entry exists and
its address is "any" or the peer's) and `authenticate` agrees and the MsgSeqNum passes the sequence check against the
(reset / recovered / requested) expected number and the login schedule does not block. -/
theorem C23_acceptor_completes_iff (s : Sess) (now seq : Nat) (m : LogonIn)
    (hrole : s.cfg.role = .acceptor) (hst : s.state ≠ .continuous) (hsd : s.shutdown = false) :
    Completes (processLogon s now seq (some m)) ↔
      ((s.cfg.enforce = true → m.target = s.sci) ∧
       (s.cfg.clients = [] ∨ clientErr s.cfg m.sender = false) ∧
       s.cfg.auth = true ∧
       enforceLogon (expectedRecv s m) seq m = .ok ∧
       s.cfg.schedBlocks = false) := by
  unfold Completes processLogon
  have hst' : (s.state == SessState.continuous) = false := by simpa using hst
  simp only [hst', Bool.false_eq_true, if_false]
  unfold handleLogonBody
  simp only [hrole]
  by_cases henf : (s.sci != m.target && s.cfg.enforce) = true
  · simp only [henf, if_true]
    simp only [Bool.and_eq_true, bne_iff_ne, ne_eq] at henf
    simp [Sess.received, Sess.stop]
    intro h; exact absurd (h henf.2).symm henf.1
  · simp only [henf, Bool.false_eq_true, if_false]
    have henf' : s.cfg.enforce = true → m.target = s.sci := by
      intro h; simp [h] at henf; exact henf.symm
    by_cases hcl : (!s.cfg.clients.isEmpty && clientErr s.cfg m.sender) = true
    · simp only [hcl, if_true]
      simp [Sess.received, Sess.stop]
      simp only [Bool.and_eq_true, Bool.not_eq_true', List.isEmpty_eq_false_iff] at hcl
      intro _ h; rcases h with h | h
      · exact absurd h hcl.1
      · simp [hcl.2] at h
    · simp only [hcl, Bool.false_eq_true, if_false]
      have hcl' : s.cfg.clients = [] ∨ clientErr s.cfg m.sender = false := by
        cases hc : s.cfg.clients with
        | nil => exact Or.inl rfl
        | cons a l => right; simp [hc] at hcl; simpa [hc] using hcl
      by_cases hreset : m.reset = some true
      · simp only [hreset, beq_self_eq_true, if_true, expectedRecv]
        by_cases hauth : s.cfg.auth = true
        · simp only [hauth, if_true]
          cases he : enforceLogon 1 seq m <;> simp [he, forceLogoff, Sess.received, Sess.stop, Sess.send, henf', hcl', hsd]
          · by_cases hsb : s.cfg.schedBlocks = true <;> simp [hsb, Sess.stop, hsd, henf', hcl']
            · intro h; exact henf' h
          all_goals (by_cases hsil : s.cfg.silent = true <;> simp [hsil])
        · simp [hauth, Sess.received, Sess.stop]
      · have hr : (m.reset == some true) = false := by simpa using hreset
        simp only [hr, Bool.false_eq_true, if_false, expectedRecv, hreset]
        have hcfg : (recoverSeq { s with lastRecv := now, state := .logonReceived } s.reqSend s.reqRecv).cfg = s.cfg := by
          unfold recoverSeq; cases s.hasPersist <;> cases s.ctrl <;> simp <;> (repeat' split) <;> simp_all
        have hsd2 : (recoverSeq { s with lastRecv := now, state := .logonReceived } s.reqSend s.reqRecv).shutdown = false := by
          unfold recoverSeq; cases s.hasPersist <;> cases s.ctrl <;> simp <;> (repeat' split) <;> simp_all
        have hst2 : (recoverSeq { s with lastRecv := now, state := .logonReceived } s.reqSend s.reqRecv).state = .logonReceived := by
          unfold recoverSeq; cases s.hasPersist <;> cases s.ctrl <;> simp <;> (repeat' split) <;> simp_all
        have hnr := recoverSeq_nextRecv_irrel s now .logonReceived s.reqSend s.reqRecv
        generalize recoverSeq { s with lastRecv := now, state := .logonReceived } s.reqSend s.reqRecv = s1 at hcfg hsd2 hst2 hnr
        rw [← hnr]
        by_cases hauth : s.cfg.auth = true
        · simp only [hcfg, hauth, if_true]
          cases he : enforceLogon s1.nextRecv seq m <;>
            simp [he, forceLogoff, Sess.received, Sess.stop, Sess.send, henf', hcl', hsd2, hcfg, hst2]
          · by_cases hsb : s.cfg.schedBlocks = true <;> simp [hsb, Sess.stop, hsd2, henf', hcl']
            · intro h; exact henf' h
          all_goals (by_cases hsil : s.cfg.silent = true <;> simp [hsil])
        · simp [hcfg, hauth, Sess.received, Sess.stop]

/-- a sender that passes the client-list test is listed -/
theorem clientErr_false_listed (c : Cfg) (snd : String) (h : clientErr c snd = false) :
    ∃ e ∈ c.clients, e.1 = snd := by
  unfold clientErr at h
  split at h
  · simp at h
  · rename_i e he
    have := List.find?_some he
    exact ⟨e, List.mem_of_find?_eq_some he, by simpa using this⟩

/-- **The property's "only when" clause.**  Whenever an acceptor completes logon, the Logon's TargetCompID equals its
own SenderCompID if CompID enforcement is on, and the sender is in the client list if one is configured. -/
theorem C23_acceptor_only_when (s : Sess) (now seq : Nat) (m : LogonIn)
    (hrole : s.cfg.role = .acceptor) (hst : s.state ≠ .continuous) (hsd : s.shutdown = false)
    (h : Completes (processLogon s now seq (some m))) :
    (s.cfg.enforce = true → m.target = s.sci) ∧ (s.cfg.clients ≠ [] → ∃ e ∈ s.cfg.clients, e.1 = m.sender) := by
  have := (C23_acceptor_completes_iff s now seq m hrole hst hsd).1 h
  refine ⟨this.1, fun hne => ?_⟩
  rcases this.2.1 with h0 | h0
  · exact absurd h0 hne
  · exact clientErr_false_listed _ _ h0

/-- every frame the acceptor writes while handling a Logon when not logged on -/
theorem acceptor_frames (s : Sess) (now seq : Nat) (m : LogonIn)
    (hrole : s.cfg.role = .acceptor) (hst : s.state ≠ .continuous) :
    ∀ f ∈ (processLogon s now seq (some m)).2,
      (f.msgType = "5") ∨
      (f.msgType = "A" ∧ f.hbi = some m.hbi ∧ f.sender = m.target ∧ f.target = m.sender ∧
        f.seq = (if m.reset = some true then 1 else (recoverSeq { s with lastRecv := now, state := .logonReceived } s.reqSend s.reqRecv).nextSend)) := by
  unfold processLogon
  have hst' : (s.state == SessState.continuous) = false := by simpa using hst
  simp only [hst', Bool.false_eq_true, if_false]
  unfold handleLogonBody
  simp only [hrole]
  intro f
  by_cases henf : (s.sci != m.target && s.cfg.enforce) = true
  · simp [henf]
  · simp only [henf, Bool.false_eq_true, if_false]
    by_cases hcl : (!s.cfg.clients.isEmpty && clientErr s.cfg m.sender) = true
    · simp [hcl]
    · simp only [hcl, Bool.false_eq_true, if_false]
      by_cases hreset : m.reset = some true
      · simp only [hreset, beq_self_eq_true, if_true]
        by_cases hauth : s.cfg.auth = true
        · simp only [hauth, if_true]
          cases he : enforceLogon 1 seq m
          · by_cases hsb : s.cfg.schedBlocks = true <;> simp [hsb, Sess.send] <;> (intro h; simp [h])
          all_goals (simp [forceLogoff, Sess.send]; by_cases hsil : s.cfg.silent = true <;> simp [hsil] <;> (intro h; simp [h]))
        · simp [hauth]
      · have hr : (m.reset == some true) = false := by simpa using hreset
        simp only [hr, Bool.false_eq_true, if_false, hreset]
        have hcfg : (recoverSeq { s with lastRecv := now, state := .logonReceived } s.reqSend s.reqRecv).cfg = s.cfg := by
          unfold recoverSeq; cases s.hasPersist <;> cases s.ctrl <;> simp <;> (repeat' split) <;> simp_all
        have hst2 : (recoverSeq { s with lastRecv := now, state := .logonReceived } s.reqSend s.reqRecv).state = .logonReceived := by
          unfold recoverSeq; cases s.hasPersist <;> cases s.ctrl <;> simp <;> (repeat' split) <;> simp_all
        generalize recoverSeq { s with lastRecv := now, state := .logonReceived } s.reqSend s.reqRecv = s1 at hcfg hst2
        by_cases hauth : s.cfg.auth = true
        · simp only [hcfg, hauth, if_true]
          cases he : enforceLogon s1.nextRecv seq m
          · by_cases hsb : s.cfg.schedBlocks = true <;> simp [hsb, hcfg, Sess.send] <;> (intro h; simp [h])
          all_goals (simp [forceLogoff, Sess.send, hst2, hcfg]; by_cases hsil : s.cfg.silent = true <;> simp [hsil] <;> (intro h; simp [h]))
        · simp [hcfg, hauth]

/-- **The response echoes HeartBtInt.**  Any Logon the acceptor writes in answer carries the inbound HeartBtInt and is
addressed back (SenderCompID = inbound TargetCompID, TargetCompID = inbound SenderCompID). -/
theorem C23_response_echoes_hbi (s : Sess) (now seq : Nat) (m : LogonIn)
    (hrole : s.cfg.role = .acceptor) (hst : s.state ≠ .continuous) :
    ∀ f ∈ (processLogon s now seq (some m)).2, f.msgType = "A" →
      f.hbi = some m.hbi ∧ f.sender = m.target ∧ f.target = m.sender := by
  intro f hf hA
  rcases acceptor_frames s now seq m hrole hst f hf with h | h
  · rw [h] at hA; exact absurd hA (by decide)
  · exact ⟨h.2.1, h.2.2.1, h.2.2.2.1⟩

/-- a completed logon HAS written exactly one frame, the Logon response, and the connection's heartbeat interval is
the inbound one -/
theorem C23_completes_answers (s : Sess) (now seq : Nat) (m : LogonIn)
    (hrole : s.cfg.role = .acceptor) (hst : s.state ≠ .continuous) (hsd : s.shutdown = false)
    (h : Completes (processLogon s now seq (some m))) :
    (∃ f, (processLogon s now seq (some m)).2 = [f] ∧ f.msgType = "A" ∧ f.hbi = some m.hbi) ∧
    (processLogon s now seq (some m)).1.hb = toU32 m.hbi := by
  have hc := (C23_acceptor_completes_iff s now seq m hrole hst hsd).1 h
  obtain ⟨h1, h2, h3, h4, h5⟩ := hc
  unfold processLogon
  have hst' : (s.state == SessState.continuous) = false := by simpa using hst
  simp only [hst', Bool.false_eq_true, if_false]
  unfold handleLogonBody
  simp only [hrole]
  have henf : (s.sci != m.target && s.cfg.enforce) = false := by
    cases he : s.cfg.enforce <;> simp [he]
    exact (h1 he).symm
  have hcl : (!s.cfg.clients.isEmpty && clientErr s.cfg m.sender) = false := by
    rcases h2 with h | h <;> simp [h]
  simp only [henf, hcl, Bool.false_eq_true, if_false]
  by_cases hreset : m.reset = some true
  · simp only [hreset, beq_self_eq_true, if_true, h3]
    simp only [expectedRecv, hreset, if_true] at h4
    simp [h4, h5, Sess.send, Sess.received]
  · have hr : (m.reset == some true) = false := by simpa using hreset
    simp only [hr, Bool.false_eq_true, if_false]
    simp only [expectedRecv, hreset, if_false] at h4
    rw [← recoverSeq_nextRecv_irrel s now .logonReceived] at h4
    have hcfg : (recoverSeq { s with lastRecv := now, state := .logonReceived } s.reqSend s.reqRecv).cfg = s.cfg := by
      unfold recoverSeq; cases s.hasPersist <;> cases s.ctrl <;> simp <;> (repeat' split) <;> simp_all
    generalize recoverSeq { s with lastRecv := now, state := .logonReceived } s.reqSend s.reqRecv = s1 at hcfg h4
    simp [hcfg, h3, h4, h5, Sess.send, Sess.received]

/-- **ResetSeqNumFlag=Y resets both numbers to 1** – whatever numbers were requested at `start` and whatever the
persister recovered: the Logon response (if one is written) has MsgSeqNum 1, and a completed logon leaves
next-send = 2 (after the response) and next-receive = 2 (after the Logon, which therefore was checked against 1). -/
theorem C23_reset_both_one (s : Sess) (now seq : Nat) (m : LogonIn)
    (hrole : s.cfg.role = .acceptor) (hst : s.state ≠ .continuous) (hsd : s.shutdown = false)
    (hreset : m.reset = some true) :
    (∀ f ∈ (processLogon s now seq (some m)).2, f.msgType = "A" → f.seq = 1) ∧
    (Completes (processLogon s now seq (some m)) →
      (processLogon s now seq (some m)).1.nextSend = 2 ∧ (processLogon s now seq (some m)).1.nextRecv = 2 ∧
      enforceLogon 1 seq m = .ok) := by
  constructor
  · intro f hf hA
    rcases acceptor_frames s now seq m hrole hst f hf with h | h
    · rw [h] at hA; exact absurd hA (by decide)
    · simpa [hreset] using h.2.2.2.2
  · intro h
    have hc := (C23_acceptor_completes_iff s now seq m hrole hst hsd).1 h
    obtain ⟨h1, h2, h3, h4, h5⟩ := hc
    simp only [expectedRecv, hreset, if_true] at h4
    refine ⟨?_, ?_, h4⟩ <;>
    · unfold processLogon
      have hst' : (s.state == SessState.continuous) = false := by simpa using hst
      simp only [hst', Bool.false_eq_true, if_false]
      unfold handleLogonBody
      simp only [hrole]
      have henf : (s.sci != m.target && s.cfg.enforce) = false := by
        cases he : s.cfg.enforce <;> simp [he]
        exact (h1 he).symm
      have hcl : (!s.cfg.clients.isEmpty && clientErr s.cfg m.sender) = false := by
        rcases h2 with h | h <;> simp [h]
      simp [henf, hcl, hreset, h3, h4, h5, Sess.send, Sess.received]

/-- the Logon's CompIDs mirror the initiator's session identity -/
abbrev Mirrored (s : Sess) (m : LogonIn) : Prop := m.sender = s.sid.target ∧ m.target = s.sid.sender

/-- **Initiator: mismatch ⇔ not mirrored.**  With CompID enforcement on, an initiator that is not logged on terminates
the session on a Logon response exactly when the response's CompIDs do not mirror its own identity (whatever the
sequence number, flags, …). -/
theorem C23_initiator_mismatch_iff (s : Sess) (now seq : Nat) (m : LogonIn)
    (hrole : s.cfg.role = .initiator) (hst : s.state ≠ .continuous) (henf : s.cfg.enforce = true) :
    (processLogon s now seq (some m)).1.state = .sessionTerminated ↔ ¬ Mirrored s m := by
  unfold processLogon Mirrored
  have hst' : (s.state == SessState.continuous) = false := by simpa using hst
  simp only [hst', Bool.false_eq_true, if_false]
  unfold handleLogonBody
  simp only [hrole, henf, Bool.and_true]
  by_cases hne : (SessionID.ne ⟨s.cfg.beginStr, m.target, m.sender⟩ s.sid) = true
  · simp only [hne, if_true]
    simp [Sess.received, Sess.stop]
    simp [SessionID.ne] at hne
    intro h1 h2
    rcases hne with h | h
    · exact h h2.symm
    · exact h h1.symm
  · simp only [hne, Bool.false_eq_true, if_false]
    have hm : m.sender = s.sid.target ∧ m.target = s.sid.sender := by
      simp [SessionID.ne] at hne; exact ⟨hne.2.symm, hne.1.symm⟩
    cases he : enforceLogon s.nextRecv seq m <;> simp [forceLogoff, Sess.received, Sess.stop, Sess.send, hm]
    all_goals (by_cases hsil : s.cfg.silent = true <;> simp [hsil])

/-- a mirrored Logon with the expected number completes the initiator's logon -/
theorem C23_initiator_mirrored_completes (s : Sess) (now : Nat) (m : LogonIn)
    (hrole : s.cfg.role = .initiator) (hst : s.state ≠ .continuous) (hsd : s.shutdown = false) (hm : Mirrored s m) :
    Completes (processLogon s now s.nextRecv (some m)) := by
  unfold processLogon Completes
  have hst' : (s.state == SessState.continuous) = false := by simpa using hst
  simp only [hst', Bool.false_eq_true, if_false]
  unfold handleLogonBody
  have hne : (SessionID.ne ⟨s.cfg.beginStr, m.target, m.sender⟩ s.sid) = false := by
    simp [SessionID.ne, hm.1, hm.2]
  simp [hrole, hne, enforceLogon, Sess.received, hsd]

/-- without CompID enforcement the CompIDs of the response play no role (a mismatch is only logged) -/
theorem C23_initiator_no_enforcement (s : Sess) (now : Nat) (m : LogonIn)
    (hrole : s.cfg.role = .initiator) (hst : s.state ≠ .continuous) (hsd : s.shutdown = false) (henf : s.cfg.enforce = false) :
    Completes (processLogon s now s.nextRecv (some m)) := by
  unfold processLogon Completes
  have hst' : (s.state == SessState.continuous) = false := by simpa using hst
  simp only [hst', Bool.false_eq_true, if_false]
  unfold handleLogonBody
  simp [hrole, henf, enforceLogon, Sess.received, hsd]

/-- **Session identities compare unequal exactly when they are not equal** (on the code after
`fix: SessionID::operator!= is the negation of operator==`) -/
theorem C23_sessionid_ne_iff (a b : SessionID) : a.ne b = !(a.eq b) := by
  unfold SessionID.ne SessionID.eq
  cases h1 : (b.sender == a.sender) <;> cases h2 : (b.target == a.target) <;> simp [bne, h1, h2]

/-- what `operator==` compares: the two CompIDs (not the BeginString) -/
theorem C23_sessionid_eq_iff (a b : SessionID) : a.eq b = true ↔ a.sender = b.sender ∧ a.target = b.target := by
  unfold SessionID.eq
  simp only [Bool.and_eq_true, beq_iff_eq]
  constructor <;> (intro h; exact ⟨h.1.symm, h.2.symm⟩)

/-- **Finding (fixed).**  At the base commit `operator!=` was the conjunction: two identities that differ in ONE CompID
were neither equal nor unequal. -/
theorem C23_finding_ne_as_was :
    ∃ a b : SessionID, a.eq b = false ∧ a.neAsWas b = false :=
  ⟨⟨"FIX.4.2", "A", "B"⟩, ⟨"FIX.4.2", "A", "C"⟩, by decide +kernel, by decide +kernel⟩

/-- the class of the finding, exactly: the old operator was the negation of `==` iff both or neither CompID differed -/
theorem C23_ne_as_was_class (a b : SessionID) :
    (a.neAsWas b = !(a.eq b)) ↔ ((a.sender = b.sender) ↔ (a.target = b.target)) := by
  unfold SessionID.neAsWas SessionID.eq
  by_cases h1 : b.sender = a.sender <;> by_cases h2 : b.target = a.target
  · simp [bne, h1, h2]
  · have h2' : ¬ a.target = b.target := fun h => h2 h.symm
    have e2 : (b.target == a.target) = false := by simpa using h2
    simp [bne, h1, e2, h2']
  · have h1' : ¬ a.sender = b.sender := fun h => h1 h.symm
    have e1 : (b.sender == a.sender) = false := by simpa using h1
    simp [bne, h2, e1, h1']
  · have h1' : ¬ a.sender = b.sender := fun h => h1 h.symm
    have h2' : ¬ a.target = b.target := fun h => h2 h.symm
    have e1 : (b.sender == a.sender) = false := by simpa using h1
    have e2 : (b.target == a.target) = false := by simpa using h2
    simp [bne, e1, e2, h1', h2']

/-! non-vacuity: the hypotheses are satisfiable, with both outcomes -/

def exCfg : Cfg :=
  { role := .acceptor, enforce := true, clients := [("CLI", 0), ("OTHER", 7)], peerIp := 1, silent := false,
    resetOnStart := false, auth := true, schedBlocks := false, beginStr := "FIX.4.2" }
def exAcc : Sess := (start (fresh exCfg "SRV" ⟨"", "", ""⟩ 30 true (some (7, 9))) 5 50 60).1
def exLogon : LogonIn := { sender := "CLI", target := "SRV", hbi := 20, reset := some true, possDup := none, origLater := false }

example : exAcc.cfg.role = .acceptor ∧ exAcc.state ≠ .continuous ∧ exAcc.shutdown = false := by decide +kernel
example : Completes (processLogon exAcc 5 1 (some exLogon)) := by decide +kernel
example : (processLogon exAcc 5 1 (some exLogon)).1.nextSend = 2 ∧ (processLogon exAcc 5 1 (some exLogon)).1.nextRecv = 2 := by decide +kernel
example : ¬ Completes (processLogon exAcc 5 1 (some { exLogon with target := "SRW" })) := by decide +kernel
example : ¬ Completes (processLogon exAcc 5 1 (some { exLogon with sender := "NOBODY" })) := by decide +kernel
example : Completes (processLogon exAcc 5 60 (some { exLogon with reset := none })) := by decide +kernel

def exIni : Sess := (start (fresh { exCfg with role := .initiator, clients := [] } "" ⟨"FIX.4.2", "CLI", "SRV"⟩ 30 false none) 5 0 0).1
example : exIni.cfg.role = .initiator ∧ exIni.state ≠ .continuous ∧ exIni.cfg.enforce = true := by decide +kernel
example : Mirrored exIni { exLogon with sender := "SRV", target := "CLI" } := by decide +kernel
example : ¬ Mirrored exIni { exLogon with sender := "SRV", target := "CLX" } := by decide +kernel
example : (processLogon exIni 5 1 (some { exLogon with sender := "SRV", target := "CLX" })).1.state = .sessionTerminated := by decide +kernel

end Fix8Model.Props.C23
