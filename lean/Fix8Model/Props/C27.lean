import Fix8Model.Store.CrashLemmas
/-!
C27 – File persister survives process crashes without corruption.
A crash after the k-th completed `write` is a write budget of k; the history starts with a control
store (the case "message stored before any control record" is a known finding, see
`C27_finding_message_before_control`).
-/
namespace Fix8Model.Props.C27
open Fix8Model.Store

/-- state after running `cput a b :: ops` with a crash after `k` completed writes (`none` = no crash),
then reopening the files -/
def afterCrash (k : Option Nat) (a b : Nat) (ops : List COp) : FS :=
  (((({ FS.init with budget := k } : FS).cput a b).1).run ops).reopen

theorem reopen_mem (s : FS) (hi : s.Inv) : s.reopen.mem = s.recs := by
  unfold FS.reopen
  simp only
  have := reopen_fold s.recs hi.nodup (fun r hr => (hi.recs_ok r hr).1) [] (by intro r _; rfl)
  simpa using this

/-- for every consistent disk state, reopening gives: (1) every message whose store completed is
returned byte-identical; (2) no sequence number returns bytes that were never stored for it;
(3) the control record equals the last completed control store -/
theorem reopen_safe (t : FS) (hi : t.Inv) :
    (∀ p ∈ t.reopen.done, t.reopen.get p.1 = some p.2) ∧
    (∀ seq m, t.reopen.get seq = some m → (seq, m) ∈ t.reopen.started) ∧ t.reopen.memCtrl = t.reopen.ctrlDone := by
  have hmem := reopen_mem t hi
  have hd : t.reopen.done = t.done := rfl
  have hs : t.reopen.started = t.started := rfl
  have hdata : t.reopen.data = t.data := rfl
  refine ⟨?_, ?_, hi.ctrl_ok⟩
  · intro p hp
    rw [hd] at hp
    obtain ⟨r, hr, e1, e2⟩ := hi.done_ok p hp
    obtain ⟨hz, hb, _⟩ := hi.recs_ok r hr
    unfold FS.get
    rw [hmem, hdata, ← e1, if_neg hz, lookup_mem t.recs hi.nodup r hr]
    simp only [hb, if_true]
    exact congrArg some e2
  · intro seq m hg
    unfold FS.get at hg
    rw [hmem, hdata] at hg
    split at hg
    · cases hg
    · cases hl : lookup t.recs seq with
      | none => rw [hl] at hg; cases hg
      | some v =>
        rw [hl] at hg
        have hm := lookup_some_mem t.recs seq v hl
        obtain ⟨_, hb, hst⟩ := hi.recs_ok (seq, v) hm
        obtain ⟨off, sz⟩ := v
        simp only at hb hst hg
        simp only [hb, if_true] at hg
        rw [hs]
        have : m = slice t.data (seq, (off, sz)) := by cases hg; rfl
        rw [this]; exact hst

/-- C27 for every history that starts with a control store, every crash point `k` (number of
completed writes; `none` = no crash) -/
theorem C27_crash_safe (k : Option Nat) (a b : Nat) (ops : List COp) :
    let s := afterCrash k a b ops
    (∀ p ∈ s.done, s.get p.1 = some p.2) ∧ (∀ seq m, s.get seq = some m → (seq, m) ∈ s.started) ∧
      s.memCtrl = s.ctrlDone :=
  reopen_safe _ (inv_run ops _ (inv_first k a b))

theorem ctrl_some_step (s : FS) (op : COp) (h : s.ctrlSlot.isSome = true) : (s.step op).ctrlSlot.isSome = true := by
  cases op with
  | put seq m =>
    simp only [FS.step, FS.put]
    split
    · exact h
    · cases h1 : s.spend with
      | none => exact h
      | some s1 =>
        have f := spend_fields s s1 h1
        simp only
        cases h2 : FS.spend { s1 with data := s1.data ++ m, started := s1.started ++ [(seq, m)] } with
        | none => simp only; rw [f.2.2.1]; exact h
        | some s3 =>
          have g := spend_fields _ s3 h2
          simp only at g ⊢
          rw [g.2.2.1, f.2.2.1]; exact h
  | cput a b =>
    simp only [FS.step, FS.cput]
    cases h1 : FS.spend { s with memCtrl := some (a, b) } with
    | none => exact h
    | some s1 => rfl

theorem cput_ctrl_some (s : FS) (a b : Nat) (hb : s.budget ≠ some 0) : (s.cput a b).1.ctrlSlot.isSome = true := by
  unfold FS.cput
  cases h1 : FS.spend { s with memCtrl := some (a, b) } with
  | none => exact absurd (spend_none _ h1) hb
  | some s1 => try simp only [h1]
               rfl

/-- (4) after the reopen the store is consistent again for every further history (provided the very
first control write had completed, i.e. the store is not simply empty): the invariant holds, hence
`reopen_safe` applies to whatever is stored next, across any further crash -/
theorem C27_further_stores (k : Option Nat) (hk : k ≠ some 0) (a b : Nat) (ops more : List COp) :
    ((afterCrash k a b ops).run more).Inv := by
  have h0 : (({ FS.init with budget := k } : FS).cput a b).1.ctrlSlot.isSome = true :=
    cput_ctrl_some _ a b hk
  have hc : ∀ (l : List COp) (s : FS), s.ctrlSlot.isSome = true → (s.run l).ctrlSlot.isSome = true := by
    intro l
    induction l with
    | nil => intro s h; exact h
    | cons op l ih => intro s h; exact ih _ (ctrl_some_step s op h)
  have hi := inv_run ops _ (inv_first k a b)
  have hcs := hc ops _ h0
  apply inv_run
  unfold afterCrash
  generalize (({ FS.init with budget := k } : FS).cput a b).1.run ops = t at hi hcs
  have hmem := reopen_mem t hi
  refine ⟨hi.recs_ok, hi.nodup, hi.done_ok, hi.ctrl_ok, Or.inl hcs, ?_⟩
  intro r hr
  rw [hmem]
  unfold hasKey
  rw [lookup_mem t.recs hi.nodup r hr]; rfl

/-- reopening a consistent store whose control record exists gives a consistent store whose control record exists -/
theorem inv_reopen (t : FS) (hi : t.Inv) (hcs : t.ctrlSlot.isSome = true) :
    t.reopen.Inv ∧ t.reopen.ctrlSlot.isSome = true := by
  have hmem := reopen_mem t hi
  refine ⟨⟨hi.recs_ok, hi.nodup, hi.done_ok, hi.ctrl_ok, Or.inl hcs, ?_⟩, hcs⟩
  intro r hr
  rw [hmem]
  unfold hasKey
  rw [lookup_mem t.recs hi.nodup r hr]; rfl

theorem ctrl_some_run (l : List COp) : ∀ s : FS, s.ctrlSlot.isSome = true → (s.run l).ctrlSlot.isSome = true := by
  induction l with
  | nil => intro s h; exact h
  | cons op l ih => intro s h; exact ih _ (ctrl_some_step s op h)

/-- a life of the store after the first one: a crash point, a history, the reopen that follows the crash -/
def _root_.Fix8Model.Store.FS.epoch (s : FS) (e : Option Nat × List COp) : FS := (({ s with budget := e.1 } : FS).run e.2).reopen

/-- any number of further lives, each with its own crash point and history -/
def _root_.Fix8Model.Store.FS.epochs (s : FS) (es : List (Option Nat × List COp)) : FS := es.foldl FS.epoch s

/-- what a reopen establishes: consistent files, an existing control record, and an in-memory index that is
exactly the index file -/
structure Reopened (s : FS) : Prop where
  inv : s.Inv
  ctrl : s.ctrlSlot.isSome = true
  mem : s.mem = s.recs
  memCtrl : s.memCtrl = s.ctrlSlot

theorem reopened_reopen (t : FS) (hi : t.Inv) (hcs : t.ctrlSlot.isSome = true) : Reopened t.reopen :=
  ⟨(inv_reopen t hi hcs).1, hcs, reopen_mem t hi, rfl⟩

theorem reopened_epochs (es : List (Option Nat × List COp)) : ∀ s : FS, Reopened s → Reopened (s.epochs es) := by
  induction es with
  | nil => intro s h; exact h
  | cons e es ih =>
    intro s h
    have hi0 : ({ s with budget := e.1 } : FS).Inv :=
      ⟨h.inv.recs_ok, h.inv.nodup, h.inv.done_ok, h.inv.ctrl_ok, Or.inl h.ctrl, h.inv.mem_has⟩
    have h1 := inv_run e.2 _ hi0
    have h2 := ctrl_some_run e.2 ({ s with budget := e.1 } : FS) h.ctrl
    exact ih _ (reopened_reopen _ h1 h2)

/-- the guarantees read off a freshly reopened store -/
theorem reopened_safe (s : FS) (h : Reopened s) :
    (∀ p ∈ s.done, s.get p.1 = some p.2) ∧ (∀ seq m, s.get seq = some m → (seq, m) ∈ s.started) ∧
      s.memCtrl = s.ctrlDone := by
  have hs := reopen_safe s h.inv
  have hfix : s.reopen.mem = s.mem := by rw [reopen_mem s h.inv, h.mem]
  have hget : ∀ q, s.reopen.get q = s.get q := by intro q; unfold FS.get; rw [hfix]; rfl
  refine ⟨?_, ?_, ?_⟩
  · intro p hp; rw [← hget]; exact hs.1 p hp
  · intro seq m hg; rw [← hget] at hg; exact hs.2.1 seq m hg
  · rw [h.memCtrl]; exact h.inv.ctrl_ok

/-- C27 across any number of crashes: a first life `cput a b :: ops` crashed at any point `k` after its first
control write, then any number of further lives, each crashed at its own point and reopened; after the last reopen
every completed store (of any life) is returned byte-identical, nothing is returned that was never stored for its
number, and the control record is the last completed control store -/
theorem C27_repeated_crashes (k : Option Nat) (hk : k ≠ some 0) (a b : Nat) (ops : List COp)
    (es : List (Option Nat × List COp)) :
    let s := (afterCrash k a b ops).epochs es
    (∀ p ∈ s.done, s.get p.1 = some p.2) ∧ (∀ seq m, s.get seq = some m → (seq, m) ∈ s.started) ∧
      s.memCtrl = s.ctrlDone := by
  have h0 : (({ FS.init with budget := k } : FS).cput a b).1.ctrlSlot.isSome = true := cput_ctrl_some _ a b hk
  have hi := inv_run ops _ (inv_first k a b)
  have hcs := ctrl_some_run ops _ h0
  exact reopened_safe _ (reopened_epochs es _ (reopened_reopen _ hi hcs))

/-- non-vacuity: two further lives; the second store of the first life is lost to the crash, a store of the
second life is cut between its data write and its index write, the third life stores it again -/
example : let s := (afterCrash (some 4) 1 1 [.put 2 [65], .put 3 [66, 67]]).epochs [(some 1, [COp.put 3 [70], COp.cput 9 9]), (none, [COp.put 3 [71], COp.cput 5 6])]
    s.done = [(2, [65]), (3, [71])] ∧ s.get 2 = some [65] ∧ s.get 3 = some [71] ∧ s.memCtrl = some (5, 6) := by decide

/-- known finding (excluded above): a message stored before any control record loses its index
slot when the first control record is written -/
theorem C27_finding_message_before_control :
    let s := (FS.init.run [.put 5 [65, 66], .cput 6 1]).reopen
    (5, [65, 66]) ∈ s.done ∧ s.get 5 = none := by decide

/-- non-vacuity: a history with a crash between the data write and the index write of the second store -/
example : let s := afterCrash (some 4) 1 1 [.put 2 [65], .put 3 [66, 67], .cput 4 1]
    s.done = [(2, [65])] ∧ s.get 2 = some [65] ∧ s.get 3 = none ∧ s.memCtrl = some (1, 1) := by decide

end Fix8Model.Props.C27
