import Fix8Model.Props.C16
import Fix8Model.Session.ClosureLemmas
/-!
C17 – Sent application messages are stored exactly as transmitted.

In the model a frame on the wire and the bytes handed to the persister are the same abstract record `Msg`
(`Out.wire m` / `Rec.frame m`); the harness compares the real bytes.  `C17_stored` / `C17_history`: for EVERY plain history
(sends, batches of any size, administrative and inbound traffic of every kind, resend answers, restarts) over a persister,
every NEW APPLICATION message written (no PossDupFlag, not administrative) is, at the end of the run (and at every moment
after it was written: `Grows`), retrievable from the store under its MsgSeqNum as exactly that frame; and
(`C17_only_application`) everything the store holds is such a frame, i.e. administrative messages are never stored.

The model is the code AFTER the fix of DESIGN section 8 row 13 (`Code.fixed`): `_persist->put(_next_send_seq, optr)`.
`C17_finding_batch_tail` is the witness on the base code (`Code.base`): the last message of a batch of ≥ 2 is stored as the
empty string.  Excluded: sends with custom_seqnum / no_increment (`C16.Flagged`, witness `C17_finding_custom_seqnum`).
-/
namespace Fix8Model.Props.C17
open Fix8Model.Session Fix8Model.Store Fix8Model.Props.C16

/-! ### lookups in the store's association list -/

theorem lookup_append_left {α : Type} (l : List (Nat × α)) (x : Nat × α) (k : Nat) (r : α) (h : lookup l k = some r) :
    lookup (l ++ [x]) k = some r := by
  unfold lookup at h ⊢
  rw [List.find?_append]
  cases hf : l.find? (fun p => p.1 == k) with
  | none => rw [hf] at h; cases h
  | some y => rw [hf] at h; simp_all

theorem lookup_append_new {α : Type} (l : List (Nat × α)) (k : Nat) (r : α) (h : lookup l k = none) :
    lookup (l ++ [(k, r)]) k = some r := by
  unfold lookup at h ⊢
  rw [List.find?_append]
  cases hf : l.find? (fun p => p.1 == k) with
  | none => simp
  | some y => rw [hf] at h; simp at h

theorem lookup_append_inv {α : Type} (l : List (Nat × α)) (k' : Nat) (r' : α) (k : Nat) (r : α)
    (h : lookup (l ++ [(k', r')]) k = some r) : lookup l k = some r ∨ (k = k' ∧ r = r') := by
  unfold lookup at h ⊢
  rw [List.find?_append] at h
  cases hf : l.find? (fun p => p.1 == k) with
  | some y => rw [hf] at h; left; simp_all
  | none =>
    rw [hf] at h
    right
    by_cases hk : k' = k
    · subst hk; simp at h; exact ⟨rfl, h.symm⟩
    · have : (k' == k) = false := by simpa using hk
      simp [List.find?, this] at h

/-! ### what the inbound path does to the store and which frames it writes -/

/-- relation respected by `process`: stored messages and code variant untouched, the batch buffer stays empty, and every
frame written is administrative or a retransmission -/
def Inbound (s s' : Sess) (outs : List Session.Out) : Prop :=
  s'.store.map (·.msgs) = s.store.map (·.msgs) ∧ s'.code = s.code ∧
  (s.buf = [] → s'.buf = [] ∧ ∀ m, Out.wire m ∈ outs → m.admin = true ∨ m.possDup ≠ none)

theorem inbound_closed : Closed Inbound where
  refl s := ⟨rfl, rfl, fun h => ⟨h, fun m hm => by cases hm⟩⟩
  trans := by
    intro a b c o1 o2 h1 h2
    refine ⟨h2.1.trans h1.1, h2.2.1.trans h1.2.1, fun hb => ?_⟩
    obtain ⟨b1, w1⟩ := h1.2.2 hb
    obtain ⟨b2, w2⟩ := h2.2.2 b1
    refine ⟨b2, fun m hm => ?_⟩
    rcases List.mem_append.mp hm with hm | hm
    · exact w1 m hm
    · exact w2 m hm
  send := by
    intro s q he hq
    refine ⟨?_, rfl, fun hb => ?_⟩
    · unfold sendProcess
      simp only []
      cases hs : s.store with
      | none => simp
      | some st =>
        by_cases h1 : q.hasSeq = true
        · simp [h1]
        · rcases hq with hq | hq
          · by_cases h2 : q.m.possDup.isSome = true
            · simp [h1, h2]
            · simp [h1, h2, hq, SpecG.cput]
          · exact absurd hq h1
    · obtain ⟨h1, h2⟩ := sendProcess_outs s q hb he
      refine ⟨h2, fun m hm => ?_⟩
      rw [h1] at hm
      simp at hm
      subst hm
      rcases hq with hq | hq
      · left; rw [builtFrame_admin]; exact hq
      · right; exact builtFrame_replay_possDup s q hq
  upd s st ns nr sd := ⟨rfl, rfl, fun h => ⟨h, fun m hm => by cases hm⟩⟩
  ctrl s a b := ⟨by cases s.store <;> rfl, rfl, fun h => ⟨h, fun m hm => by cases hm⟩⟩
  deliver := by
    intro s s' o raw m h
    refine ⟨h.1, h.2.1, fun hb => ⟨(h.2.2 hb).1, fun w hw => ?_⟩⟩
    rcases List.mem_append.mp hw with hw | hw
    · exact (h.2.2 hb).2 w hw
    · simp at hw
  admin := by
    intro s s' o raw h
    refine ⟨h.1, h.2.1, fun hb => ⟨(h.2.2 hb).1, fun w hw => ?_⟩⟩
    rcases List.mem_append.mp hw with hw | hw
    · simp at hw
    · exact (h.2.2 hb).2 w hw

/-! ### invariant -/

/-- everything stored is a new application frame under its own MsgSeqNum, below the persisted next-send number -/
def StoreOK (s : Sess) : Prop :=
  ∀ st, s.store = some st → ∀ k r, lookup st.msgs k = some r →
    1 ≤ k ∧ k < ctrlS s ∧ ∃ m, r = Rec.frame m ∧ m.seq = k ∧ m.admin = false ∧ m.possDup = none

/-- the frame is retrievable under its MsgSeqNum exactly as written -/
def StoredAt (s : Sess) (m : Msg) : Prop := ∃ st, s.store = some st ∧ st.get m.seq = some (Rec.frame m)

/-- nothing stored is lost or replaced -/
def Grows (s s' : Sess) : Prop :=
  ∀ st, s.store = some st → ∃ st', s'.store = some st' ∧ ∀ k r, lookup st.msgs k = some r → lookup st'.msgs k = some r

theorem Grows.refl (s : Sess) : Grows s s := fun st h => ⟨st, h, fun _ _ h => h⟩
theorem Grows.trans {a b c : Sess} (h1 : Grows a b) (h2 : Grows b c) : Grows a c := by
  intro st hst
  obtain ⟨st1, hs1, g1⟩ := h1 st hst
  obtain ⟨st2, hs2, g2⟩ := h2 st1 hs1
  exact ⟨st2, hs2, fun k r h => g2 k r (g1 k r h)⟩
theorem Grows.of_msgs {a b : Sess} (h : b.store.map (·.msgs) = a.store.map (·.msgs)) : Grows a b := by
  intro st hst
  rw [hst] at h
  cases hb : b.store with
  | none => rw [hb] at h; cases h
  | some st' => rw [hb] at h; simp at h; exact ⟨st', rfl, fun k r hk => by rw [h]; exact hk⟩

theorem StoredAt.grows {s s' : Sess} {m : Msg} (h : StoredAt s m) (g : Grows s s') : StoredAt s' m := by
  obtain ⟨st, hst, hget⟩ := h
  obtain ⟨st', hst', gg⟩ := g st hst
  refine ⟨st', hst', ?_⟩
  unfold SpecG.get at hget ⊢
  split at hget
  · cases hget
  · rename_i h0; rw [if_neg h0]; exact gg _ _ hget

def Inv (s : Sess) : Prop := Good s ∧ StoreOK s ∧ 1 ≤ ctrlS s ∧ s.code.tailFromBuffer = false

/-- `send_process` of a NewOrderSingle (inside or at the end of a batch, any buffer) from an active state whose control
record carries the counter: the frame is appended to the store under the counter -/
theorem order_send (s : Sess) (p : Nat) (eob : Bool) (st : SpecG Rec) (b : Nat)
    (hst : s.store = some st) (hctrl : st.ctrl = some (s.ns, b)) (h1 : 1 ≤ s.ns) (hok : StoreOK s)
    (hcode : s.code.tailFromBuffer = false) :
    (sendProcess s { m := mkOrder s p, eob := eob }).1.store =
        some ⟨st.msgs ++ [(s.ns, Rec.frame { mkOrder s p with seq := s.ns, st := s.now })], some (s.ns + 1, s.nr)⟩ ∧
    (sendProcess s { m := mkOrder s p, eob := eob }).1.ns = s.ns + 1 ∧
    (sendProcess s { m := mkOrder s p, eob := eob }).1.buf = (if eob then [] else s.buf ++ [{ mkOrder s p with seq := s.ns, st := s.now }]) ∧
    (sendProcess s { m := mkOrder s p, eob := eob }).2 =
        (if eob then (s.buf ++ [{ mkOrder s p with seq := s.ns, st := s.now }]).map Out.wire else []) := by
  have hcs : ctrlS s = s.ns := by simp [ctrlS, hst, hctrl]
  have hnk : hasKey st.msgs s.ns = false := by
    unfold hasKey
    cases hl : lookup st.msgs s.ns with
    | none => rfl
    | some r => have := (hok st hst _ _ hl).2.1; omega
  have hne : s.ns ≠ 0 := by omega
  unfold sendProcess
  simp [mkOrder, Sess.fresh, hst, hcode, SpecG.put, SpecG.cput, hnk, hne]

/-- batch-internal invariant (the buffer may hold frames that are already stored) -/
structure BInv (s : Sess) : Prop where
  started : s.started = true
  active : s.shutdown = false
  store : ∃ st b, s.store = some st ∧ st.ctrl = some (s.ns, b)
  one : 1 ≤ s.ns
  ok : StoreOK s
  code : s.code.tailFromBuffer = false

private theorem binv_after (s : Sess) (p : Nat) (eob : Bool) (h : BInv s) :
    BInv (sendProcess s { m := mkOrder s p, eob := eob }).1 ∧ Grows s (sendProcess s { m := mkOrder s p, eob := eob }).1 ∧
    (∃ st', (sendProcess s { m := mkOrder s p, eob := eob }).1.store = some st' ∧
      lookup st'.msgs s.ns = some (Rec.frame { mkOrder s p with seq := s.ns, st := s.now })) := by
  obtain ⟨st, b, hst, hctrl⟩ := h.store
  obtain ⟨e1, e2, e3, e4⟩ := order_send s p eob st b hst hctrl h.one h.ok h.code
  have hcs : ctrlS s = s.ns := by simp [ctrlS, hst, hctrl]
  have hnone : lookup st.msgs s.ns = none := by
    cases hl : lookup st.msgs s.ns with
    | none => rfl
    | some r => have := (h.ok st hst _ _ hl).2.1; omega
  refine ⟨⟨h.started, h.active, ⟨_, s.nr, e1, by rw [e2]⟩, by rw [e2]; omega, ?_, h.code⟩, ?_, ⟨_, e1, lookup_append_new _ _ _ hnone⟩⟩
  · intro st' hst' k r hk
    rw [e1] at hst'; cases hst'
    have hcs' : ctrlS (sendProcess s { m := mkOrder s p, eob := eob }).1 = s.ns + 1 := by simp [ctrlS, e1]
    rw [hcs']
    rcases lookup_append_inv _ _ _ _ _ hk with hk | ⟨hk1, hk2⟩
    · obtain ⟨a1, a2, a3⟩ := h.ok st hst k r hk
      exact ⟨a1, by omega, a3⟩
    · subst hk1; subst hk2
      exact ⟨h.one, by omega, _, rfl, rfl, rfl, rfl⟩
  · intro st0 hst0
    rw [hst] at hst0; cases hst0
    exact ⟨_, e1, fun k r hk => lookup_append_left _ _ _ _ hk⟩

/-- a batch: every frame written (the buffered ones and the last) is stored, provided the buffered ones were -/
theorem batch_stored : ∀ (pids : List Nat) (s : Sess), pids ≠ [] → BInv s →
    (∀ f ∈ s.buf, ∃ st, s.store = some st ∧ lookup st.msgs f.seq = some (Rec.frame f)) →
    BInv (sendBatch s pids).1 ∧ Grows s (sendBatch s pids).1 ∧ (sendBatch s pids).1.buf = [] ∧
    ∀ m, Out.wire m ∈ (sendBatch s pids).2 → ∃ st, (sendBatch s pids).1.store = some st ∧ lookup st.msgs m.seq = some (Rec.frame m)
  | [], _, h, _, _ => absurd rfl h
  | [p], s, _, hi, hbuf => by
    obtain ⟨st, b, hst, hctrl⟩ := hi.store
    obtain ⟨e1, e2, e3, e4⟩ := order_send s p true st b hst hctrl hi.one hi.ok hi.code
    obtain ⟨i1, i2, st', hs', hl'⟩ := binv_after s p true hi
    simp only [sendBatch]
    refine ⟨i1, i2, by rw [e3]; rfl, fun m hm => ?_⟩
    rw [e4, if_pos rfl, List.mem_map] at hm
    obtain ⟨f, hf, hfe⟩ := hm
    have hfm : f = m := by injection hfe
    subst hfm
    rcases List.mem_append.mp hf with hf | hf
    · obtain ⟨st0, hs0, hl0⟩ := hbuf f hf
      obtain ⟨st1, hs1, g⟩ := i2 st0 hs0
      exact ⟨st1, hs1, g _ _ hl0⟩
    · rw [List.mem_singleton] at hf; subst hf
      exact ⟨st', hs', hl'⟩
  | p :: q :: rest, s, _, hi, hbuf => by
    obtain ⟨st, b, hst, hctrl⟩ := hi.store
    obtain ⟨e1, e2, e3, e4⟩ := order_send s p false st b hst hctrl hi.one hi.ok hi.code
    obtain ⟨i1, i2, st', hs', hl'⟩ := binv_after s p false hi
    have hbuf' : ∀ f ∈ (sendProcess s { m := mkOrder s p, eob := false }).1.buf,
        ∃ st, (sendProcess s { m := mkOrder s p, eob := false }).1.store = some st ∧ lookup st.msgs f.seq = some (Rec.frame f) := by
      intro f hf
      rw [e3] at hf
      simp only [Bool.false_eq_true, if_false, List.mem_append, List.mem_singleton] at hf
      rcases hf with hf | hf
      · obtain ⟨st0, hs0, hl0⟩ := hbuf f hf
        obtain ⟨st1, hs1, g⟩ := i2 st0 hs0
        exact ⟨st1, hs1, g _ _ hl0⟩
      · subst hf; exact ⟨st', hs', hl'⟩
    obtain ⟨j1, j2, j3, j4⟩ := batch_stored (q :: rest) _ (by simp) i1 hbuf'
    simp only [sendBatch]
    refine ⟨j1, i2.trans j2, j3, fun m hm => ?_⟩
    rw [e4] at hm
    simp only [Bool.false_eq_true, if_false, List.nil_append] at hm
    exact j4 m hm

theorem lookup_get {α : Type} (st : SpecG α) (k : Nat) (h1 : 1 ≤ k) : st.get k = lookup st.msgs k := by
  unfold SpecG.get; rw [if_neg (by omega)]

/-- **C17, one step**: from a state satisfying the invariant every plain event preserves it, nothing stored is lost, and
every new application frame written by the step is stored under its MsgSeqNum exactly as written. -/
theorem C17_step (s : Sess) (ev : Ev) (hi : Inv s) (hp : PlainEv ev) :
    Inv (s.step ev).1 ∧ Grows s (s.step ev).1 ∧
    ∀ m, Out.wire m ∈ (s.step ev).2 → m.possDup = none → m.admin = false → StoredAt (s.step ev).1 m := by
  obtain ⟨hg, hok, h1, hcode⟩ := hi
  obtain ⟨g', k, n1, n2, _⟩ := C16_step s ev hg hp
  obtain ⟨hb, hs, st, a, b, hst, hctrl, hact⟩ := hg
  have hcs : ctrlS s = a := by simp [ctrlS, hst, hctrl]
  have idle : Inv s ∧ Grows s s ∧ ∀ m, Out.wire m ∈ ([] : List Session.Out) → m.possDup = none → m.admin = false → StoredAt s m :=
    ⟨⟨⟨hb, hs, st, a, b, hst, hctrl, hact⟩, hok, h1, hcode⟩, Grows.refl s, fun m hm => by cases hm⟩
  -- a step that leaves the stored messages alone and writes only administrative frames or retransmissions
  have quiet : ∀ (s' : Sess) (outs : List Session.Out), s.step ev = (s', outs) → s'.store.map (·.msgs) = s.store.map (·.msgs) → s'.code = s.code →
      (∀ m, Out.wire m ∈ outs → m.admin = true ∨ m.possDup ≠ none) →
      Inv (s.step ev).1 ∧ Grows s (s.step ev).1 ∧
      ∀ m, Out.wire m ∈ (s.step ev).2 → m.possDup = none → m.admin = false → StoredAt (s.step ev).1 m := by
    intro s' outs he hm hc hw
    rw [he] at g' n2 ⊢
    have n2' : ctrlS s + k ≤ ctrlS s' := n2
    refine ⟨⟨g', ?_, (by show 1 ≤ ctrlS s'; omega), by rw [hc]; exact hcode⟩, Grows.of_msgs hm, fun m hmm h2 h3 => ?_⟩
    · intro st' hst' k' r hk
      have hst'' : s'.store = some st' := hst'
      rw [hst, hst''] at hm
      simp at hm
      rw [hm] at hk
      obtain ⟨a1, a2, a3⟩ := hok st hst k' r hk
      exact ⟨a1, (by show k' < ctrlS s'; omega), a3⟩
    · rcases hw m hmm with h | h
      · rw [h] at h3; cases h3
      · exact absurd h2 h
  cases ev with
  | clock ms => exact quiet (s.step (.clock ms)).1 (s.step (.clock ms)).2 rfl rfl rfl (fun m hm => by cases hm)
  | start ss rs =>
    have key : ∀ x : Sess, x.buf = [] → x.store = s.store → x.code = s.code →
        ({ (sendProcess x { m := mkLogon x }).1 with state := .logonSent } : Sess).store.map (·.msgs) = s.store.map (·.msgs) ∧
        ({ (sendProcess x { m := mkLogon x }).1 with state := .logonSent } : Sess).code = s.code ∧
        ∀ m, Out.wire m ∈ (sendProcess x { m := mkLogon x }).2 → m.admin = true ∨ m.possDup ≠ none := by
      intro x hxb hxs hxc
      have := inbound_closed.send x { m := mkLogon x } rfl (Or.inl rfl)
      exact ⟨by rw [← hxs]; exact this.1, by rw [← hxc]; exact this.2.1, (this.2.2 hxb).2⟩
    have hall : (s.step (.start ss rs)).1.store.map (·.msgs) = s.store.map (·.msgs) ∧ (s.step (.start ss rs)).1.code = s.code ∧
        ∀ m, Out.wire m ∈ (s.step (.start ss rs)).2 → m.admin = true ∨ m.possDup ≠ none := by
      simp only [Sess.step, startSession]
      cases hq : s.store.bind (·.ctrl) with
      | none => exact key _ rfl rfl rfl
      | some ab => obtain ⟨a', b'⟩ := ab; exact key _ rfl rfl rfl
    exact quiet (s.step (.start ss rs)).1 (s.step (.start ss rs)).2 rfl hall.1 hall.2.1 hall.2.2
  | inbound scan dec =>
    simp only [Sess.step] at *
    split
    · have hin := inbound_closed.process s scan dec
      have := hin.2.2 hb
      rename_i hact2
      have he : s.step (.inbound scan dec) = ((process s scan dec).1, (process s scan dec).2) := by simp [Sess.step, hact2]
      have r := quiet _ _ he hin.1 hin.2.1 this.2
      simpa [Sess.step, hact2] using r
    · exact idle
  | admSend c n =>
    have hf : c = 0 ∧ n = false := by
      have := hp.1; simp only [Flagged, not_or] at this
      exact ⟨by simpa using this.1, by simpa using this.2⟩
    obtain ⟨hc0, hn⟩ := hf; subst hc0; subst hn
    by_cases hact2 : s.started = true ∧ s.shutdown = false
    · have hsd := inbound_closed.send s { m := mkHeartbeat s none, custom := 0, noInc := false } rfl (Or.inl rfl)
      have he : s.step (.admSend 0 false) = ((sendProcess s { m := mkHeartbeat s none, custom := 0, noInc := false }).1,
          (sendProcess s { m := mkHeartbeat s none, custom := 0, noInc := false }).2) := by simp [Sess.step, hact2]
      exact quiet _ _ he hsd.1 hsd.2.1 (hsd.2.2 hb).2
    · have he : s.step (.admSend 0 false) = (s, []) := by simp [Sess.step, hact2]
      rw [he]; exact idle
  | appSend pid c n =>
    have hf : c = 0 ∧ n = false := by
      have := hp.1; simp only [Flagged, not_or] at this
      exact ⟨by simpa using this.1, by simpa using this.2⟩
    obtain ⟨hc0, hn⟩ := hf; subst hc0; subst hn
    by_cases hact2 : s.started = true ∧ s.shutdown = false
    · have hns : a = s.ns := hact hact2.2
      subst hns
      have hbi : BInv s := ⟨hs, hact2.2, ⟨st, b, hst, hctrl⟩, by omega, hok, hcode⟩
      obtain ⟨j1, j2, j3, j4⟩ := batch_stored [pid] s (by simp) hbi (by rw [hb]; intro f hf; cases hf)
      have he : s.step (.appSend pid 0 false) = sendBatch s [pid] := by simp [Sess.step, hact2, sendBatch]
      rw [he] at g' n2 ⊢
      refine ⟨⟨g', j1.ok, by omega, j1.code⟩, j2, fun m hm _ _ => ?_⟩
      obtain ⟨st', hs', hl'⟩ := j4 m hm
      obtain ⟨a1, _, _⟩ := j1.ok st' hs' _ _ hl'
      exact ⟨st', hs', by rw [lookup_get _ _ a1]; exact hl'⟩
    · have he : s.step (.appSend pid 0 false) = (s, []) := by simp [Sess.step, hact2]
      rw [he]; exact idle
  | batch pids =>
    by_cases hact2 : s.started = true ∧ s.shutdown = false
    · cases pids with
      | nil =>
        have he : s.step (.batch []) = (s, []) := by simp [Sess.step, sendBatch]
        rw [he]; exact idle
      | cons p ps =>
        have hns : a = s.ns := hact hact2.2
        subst hns
        have hbi : BInv s := ⟨hs, hact2.2, ⟨st, b, hst, hctrl⟩, by omega, hok, hcode⟩
        obtain ⟨j1, j2, j3, j4⟩ := batch_stored (p :: ps) s (by simp) hbi (by rw [hb]; intro f hf; cases hf)
        have he : s.step (.batch (p :: ps)) = sendBatch s (p :: ps) := by simp [Sess.step, hact2]
        rw [he] at g' n2 ⊢
        refine ⟨⟨g', j1.ok, by omega, j1.code⟩, j2, fun m hm _ _ => ?_⟩
        obtain ⟨st', hs', hl'⟩ := j4 m hm
        obtain ⟨a1, _, _⟩ := j1.ok st' hs' _ _ hl'
        exact ⟨st', hs', by rw [lookup_get _ _ a1]; exact hl'⟩
    · have he : s.step (.batch pids) = (s, []) := by simp [Sess.step, hact2]
      rw [he]; exact idle

/-- **C17 over histories**: after EVERY plain history from a state satisfying the invariant, every new application frame
written anywhere in the run is retrievable under its MsgSeqNum exactly as written. -/
theorem C17_run (h : List Ev) : ∀ (s : Sess), Inv s → (∀ ev ∈ h, PlainEv ev) →
    Inv (s.run h).1 ∧ Grows s (s.run h).1 ∧
    ∀ m, Out.wire m ∈ (s.run h).2 → m.possDup = none → m.admin = false → StoredAt (s.run h).1 m := by
  induction h with
  | nil => intro s hi _; exact ⟨hi, Grows.refl s, fun m hm => by cases hm⟩
  | cons ev rest ih =>
    intro s hi hp
    obtain ⟨i1, g1, s1⟩ := C17_step s ev hi (hp ev List.mem_cons_self)
    obtain ⟨i2, g2, s2⟩ := ih _ i1 (fun e he => hp e (List.mem_cons_of_mem _ he))
    simp only [Sess.run]
    refine ⟨i2, g1.trans g2, fun m hm h2 h3 => ?_⟩
    rcases List.mem_append.mp hm with hm | hm
    · exact (s1 m hm h2 h3).grows g2
    · exact s2 m hm h2 h3

/-- the first start over a fresh persister establishes the invariant (fixed code) -/
theorem first_inv (cfg : Cfg) (ss rs : Nat) : Inv ((Sess.init cfg Code.fixed true).step (.start ss rs)).1 := by
  obtain ⟨g, _, c⟩ := first_start cfg Code.fixed ss rs
  refine ⟨g, ?_, by rw [c]; omega, rfl⟩
  intro st hst k r hk
  by_cases h : ss = 0 <;> by_cases h2 : rs = 0 <;>
    simp [Sess.step, startSession, Sess.init, sendProcess, mkLogon, Sess.fresh, SpecG.cput, h, h2] at hst <;>
    (rw [← hst] at hk; simp [lookup] at hk)

/-- **C17**: a session over a fresh persister is started; then ANY plain history (single sends, batches of any size,
administrative sends, inbound traffic, resend answers, restarts): every new application message that went on the wire can
be read back from the persister under its MsgSeqNum as exactly the frame that was written. -/
theorem C17_stored (cfg : Cfg) (ss rs : Nat) (rest : List Ev) (hp : ∀ ev ∈ rest, PlainEv ev) (m : Msg)
    (hm : Out.wire m ∈ ((Sess.init cfg Code.fixed true).run (.start ss rs :: rest)).2)
    (hnew : m.possDup = none) (happ : m.admin = false) :
    StoredAt ((Sess.init cfg Code.fixed true).run (.start ss rs :: rest)).1 m := by
  obtain ⟨_, _, s2⟩ := C17_run rest _ (first_inv cfg ss rs) hp
  simp only [Sess.run] at hm ⊢
  rcases List.mem_append.mp hm with hm | hm
  · -- the Logon is administrative
    exfalso
    have : ∀ w, Out.wire w ∈ ((Sess.init cfg Code.fixed true).step (.start ss rs)).2 → w.admin = true := by
      intro w hw
      by_cases h : ss = 0 <;>
        simp [Sess.step, startSession, Sess.init, sendProcess, mkLogon, Sess.fresh, h] at hw <;> (rw [hw])
    rw [this m hm] at happ; cases happ
  · exact s2 m hm hnew happ

/-- **C17, administrative messages are not stored**: after any such history everything the store holds is a new
application frame (not administrative, no PossDupFlag) under its own MsgSeqNum. -/
theorem C17_only_application (cfg : Cfg) (ss rs : Nat) (rest : List Ev) (hp : ∀ ev ∈ rest, PlainEv ev)
    (st : SpecG Rec) (hst : ((Sess.init cfg Code.fixed true).run (.start ss rs :: rest)).1.store = some st) (k : Nat) (r : Rec)
    (hk : st.get k = some r) : ∃ m, r = Rec.frame m ∧ m.seq = k ∧ m.admin = false ∧ m.possDup = none := by
  obtain ⟨i, _, _⟩ := C17_run rest _ (first_inv cfg ss rs) hp
  simp only [Sess.run] at hst
  unfold SpecG.get at hk
  split at hk
  · cases hk
  · exact (i.2.1 st hst k r hk).2.2

/-! ### non-vacuity and findings -/

def cfg0 : Cfg := ⟨true, 1, 2⟩
def logonReply (seq : Nat) : Msg := { mtype := .logon, seq := seq, snd := 2, tgt := 1 }
def hist : List Ev := [.start 0 0, .inbound (some 1) (.ok (logonReply 1)), .appSend 7 0 false, .batch [8, 9, 10], .admSend 0 false]

/-- fixed code: the batch 8,9,10 goes out as 3,4,5 and 5 (the batch tail) is stored as the frame; 6 (a Heartbeat) is not stored -/
example : (((Sess.init cfg0 Code.fixed true).run hist).1.store.bind (·.get 5))
    = some (Rec.frame { mtype := .app 68, seq := 5, snd := 1, tgt := 2, pid := some 10, admin := false }) := by decide
example : (((Sess.init cfg0 Code.fixed true).run hist).1.store.bind (·.get 6)) = none := by decide

/-- finding (fixed by a `fix:` commit, DESIGN section 8 row 13): on the base code the last message of the batch is
stored as the empty string, not as the frame that was written -/
theorem C17_finding_batch_tail :
    Out.wire { mtype := .app 68, seq := 5, snd := 1, tgt := 2, pid := some 10, admin := false } ∈ ((Sess.init cfg0 Code.base true).run hist).2 ∧
    (((Sess.init cfg0 Code.base true).run hist).1.store.bind (·.get 5)) = some Rec.empty := by
  constructor <;> decide

/-- excluded class (`C16.Flagged`): an application message sent with a custom sequence number is stored under the
counter (3), not under its MsgSeqNum (40), and the next plain message (again 3) finds its slot taken -/
theorem C17_finding_custom_seqnum :
    let r := (Sess.init cfg0 Code.fixed true).run [.start 0 0, .inbound (some 1) (.ok (logonReply 1)), .appSend 7 0 false, .appSend 8 40 false, .appSend 9 0 false]
    (r.1.store.bind (·.get 40)) = none ∧
    (r.1.store.bind (·.get 3)) = some (Rec.frame { mtype := .app 68, seq := 40, snd := 1, tgt := 2, pid := some 8, admin := false }) ∧
    Out.wire { mtype := .app 68, seq := 3, snd := 1, tgt := 2, pid := some 9, admin := false } ∈ r.2 := by
  refine ⟨by decide, by decide, by decide⟩

/-! ### extended events (`Sess.stepX`): application retransmissions alone and inside batches, failing socket writes -/

private theorem binv_buf (s : Sess) (b : List Msg) (h : BInv s) : BInv { s with buf := b } :=
  ⟨h.started, h.active, h.store, h.one, h.ok, h.code⟩

/-- a mixed batch: every NEW frame written (buffered or last) is stored, provided the new ones in the buffer were -/
theorem batchX_stored : ∀ (els : List BEl) (s : Sess), els ≠ [] → BInv s →
    (∀ f ∈ s.buf, f.possDup = none → ∃ st, s.store = some st ∧ lookup st.msgs f.seq = some (Rec.frame f)) →
    BInv (sendBatchX s els).1 ∧ Grows s (sendBatchX s els).1 ∧ (sendBatchX s els).1.buf = [] ∧
    ∀ m, Out.wire m ∈ (sendBatchX s els).2 → m.possDup = none →
      ∃ st, (sendBatchX s els).1.store = some st ∧ lookup st.msgs m.seq = some (Rec.frame m)
  | [], _, h, _, _ => absurd rfl h
  | [.new p], s, _, hi, hbuf => by
    obtain ⟨st, b, hst, hctrl⟩ := hi.store
    obtain ⟨e1, e2, e3, e4⟩ := order_send s p true st b hst hctrl hi.one hi.ok hi.code
    obtain ⟨i1, i2, st', hs', hl'⟩ := binv_after s p true hi
    simp only [sendBatchX, sndOf]
    refine ⟨i1, i2, by rw [e3]; rfl, fun m hm hnd => ?_⟩
    rw [e4, if_pos rfl, List.mem_map] at hm
    obtain ⟨f, hf, hfe⟩ := hm
    have hfm : f = m := by injection hfe
    subst hfm
    rcases List.mem_append.mp hf with hf | hf
    · obtain ⟨st0, hs0, hl0⟩ := hbuf f hf hnd
      obtain ⟨st1, hs1, g⟩ := i2 st0 hs0
      exact ⟨st1, hs1, g _ _ hl0⟩
    · rw [List.mem_singleton] at hf; subst hf
      exact ⟨st', hs', hl'⟩
  | [.dup p k], s, _, hi, hbuf => by
    obtain ⟨e1, e2⟩ := sendProcess_dup s p k true
    simp only [sendBatchX]
    rw [e1, e2]
    refine ⟨binv_buf s _ hi, Grows.refl s, rfl, fun m hm hnd => ?_⟩
    rw [if_pos rfl, List.mem_map] at hm
    obtain ⟨f, hf, hfe⟩ := hm
    have hfm : f = m := by injection hfe
    subst hfm
    rcases List.mem_append.mp hf with hf | hf
    · exact hbuf f hf hnd
    · rw [List.mem_singleton] at hf; subst hf
      exact absurd hnd (fwdFrame_dup s p k)
  | .new p :: q :: rest, s, _, hi, hbuf => by
    obtain ⟨st, b, hst, hctrl⟩ := hi.store
    obtain ⟨e1, e2, e3, e4⟩ := order_send s p false st b hst hctrl hi.one hi.ok hi.code
    obtain ⟨i1, i2, st', hs', hl'⟩ := binv_after s p false hi
    have hbuf' : ∀ f ∈ (sendProcess s { m := mkOrder s p, eob := false }).1.buf, f.possDup = none →
        ∃ st, (sendProcess s { m := mkOrder s p, eob := false }).1.store = some st ∧ lookup st.msgs f.seq = some (Rec.frame f) := by
      intro f hf hnd
      rw [e3] at hf
      simp only [Bool.false_eq_true, if_false, List.mem_append, List.mem_singleton] at hf
      rcases hf with hf | hf
      · obtain ⟨st0, hs0, hl0⟩ := hbuf f hf hnd
        obtain ⟨st1, hs1, g⟩ := i2 st0 hs0
        exact ⟨st1, hs1, g _ _ hl0⟩
      · subst hf; exact ⟨st', hs', hl'⟩
    obtain ⟨j1, j2, j3, j4⟩ := batchX_stored (q :: rest) _ (by simp) i1 hbuf'
    simp only [sendBatchX, sndOf]
    refine ⟨j1, i2.trans j2, j3, fun m hm hnd => ?_⟩
    rw [e4] at hm
    simp only [Bool.false_eq_true, if_false, List.nil_append] at hm
    exact j4 m hm hnd
  | .dup p k :: q :: rest, s, _, hi, hbuf => by
    obtain ⟨e1, e2⟩ := sendProcess_dup s p k false
    have hbuf' : ∀ f ∈ ({ s with buf := s.buf ++ [fwdFrame s p k] } : Sess).buf, f.possDup = none →
        ∃ st, ({ s with buf := s.buf ++ [fwdFrame s p k] } : Sess).store = some st ∧ lookup st.msgs f.seq = some (Rec.frame f) := by
      intro f hf hnd
      simp only [List.mem_append, List.mem_singleton] at hf
      rcases hf with hf | hf
      · exact hbuf f hf hnd
      · subst hf; exact absurd hnd (fwdFrame_dup s p k)
    obtain ⟨j1, j2, j3, j4⟩ := batchX_stored (q :: rest) { s with buf := s.buf ++ [fwdFrame s p k] } (by simp) (binv_buf s _ hi) hbuf'
    simp only [sendBatchX]
    rw [e1, e2]
    simp only [Bool.false_eq_true, if_false, List.nil_append]
    exact ⟨j1, (fun st hst => j2 st hst), j3, j4⟩

/-- **C17, one extended step** -/
theorem C17X_step (s : Sess) (ev : EvX) (hi : Inv s) (hp : PlainEvX ev) :
    Inv (s.stepX ev).1 ∧ Grows s (s.stepX ev).1 ∧
    ∀ m, Out.wire m ∈ (s.stepX ev).2 → m.possDup = none → m.admin = false → StoredAt (s.stepX ev).1 m := by
  have idle : Inv s ∧ Grows s s ∧ ∀ m, Out.wire m ∈ ([] : List Session.Out) → m.possDup = none → m.admin = false → StoredAt s m :=
    ⟨hi, Grows.refl s, fun m hm => by cases hm⟩
  cases ev with
  | base e => exact C17_step s e hi hp
  | wfail p => exact idle
  | fwd p k =>
    simp only [Sess.stepX]
    split
    · obtain ⟨hg, hok, h1, hcode⟩ := hi
      obtain ⟨hb, hs, hrest⟩ := hg
      obtain ⟨e1, e2⟩ := sendProcess_dup s p k true
      rw [e1, e2]
      refine ⟨⟨⟨rfl, hs, hrest⟩, hok, h1, hcode⟩, fun st hst => ⟨st, hst, fun _ _ h => h⟩, fun m hm hnd _ => ?_⟩
      rw [if_pos rfl, hb] at hm
      simp at hm
      subst hm
      exact absurd hnd (fwdFrame_dup s p k)
    · exact idle
  | dbatch els =>
    simp only [Sess.stepX]
    split
    · rename_i hact2
      cases els with
      | nil => exact idle
      | cons e es =>
        obtain ⟨g', k, n1, n2, _⟩ := C16X_step s (.dbatch (e :: es)) hi.1 trivial
        have he : s.stepX (.dbatch (e :: es)) = sendBatchX s (e :: es) := by simp [Sess.stepX, hact2]
        rw [he] at g' n2
        obtain ⟨hg, hok, h1, hcode⟩ := hi
        obtain ⟨hb, hs, st, a, b, hst, hctrl, hact⟩ := hg
        have hns : a = s.ns := hact hact2.2
        subst hns
        have hcs : ctrlS s = s.ns := by simp [ctrlS, hst, hctrl]
        have hbi : BInv s := ⟨hs, hact2.2, ⟨st, b, hst, hctrl⟩, by omega, hok, hcode⟩
        obtain ⟨j1, j2, j3, j4⟩ := batchX_stored (e :: es) s (by simp) hbi (by rw [hb]; intro f hf; cases hf)
        refine ⟨⟨g', j1.ok, by omega, j1.code⟩, j2, fun m hm hnd _ => ?_⟩
        obtain ⟨st', hs', hl'⟩ := j4 m hm hnd
        obtain ⟨a1, _, _⟩ := j1.ok st' hs' _ _ hl'
        exact ⟨st', hs', by rw [lookup_get _ _ a1]; exact hl'⟩
    · exact idle

/-- **C17 over extended histories** -/
theorem C17X_run (h : List EvX) : ∀ (s : Sess), Inv s → (∀ ev ∈ h, PlainEvX ev) →
    Inv (s.runX h).1 ∧ Grows s (s.runX h).1 ∧
    ∀ m, Out.wire m ∈ (s.runX h).2 → m.possDup = none → m.admin = false → StoredAt (s.runX h).1 m := by
  induction h with
  | nil => intro s hi _; exact ⟨hi, Grows.refl s, fun m hm => by cases hm⟩
  | cons ev rest ih =>
    intro s hi hp
    obtain ⟨i1, g1, s1⟩ := C17X_step s ev hi (hp ev List.mem_cons_self)
    obtain ⟨i2, g2, s2⟩ := ih _ i1 (fun e he => hp e (List.mem_cons_of_mem _ he))
    simp only [Sess.runX]
    refine ⟨i2, g1.trans g2, fun m hm h2 h3 => ?_⟩
    rcases List.mem_append.mp hm with hm | hm
    · exact (s1 m hm h2 h3).grows g2
    · exact s2 m hm h2 h3

/-- **C17, extended histories**: after the first start over a fresh persister and ANY history that also contains application
retransmissions (alone, inside and at the tail of batches) and failed socket writes, every new application message that
went on the wire is read back from the persister under its MsgSeqNum exactly as written – in particular a failed write
leaves nothing behind that a later message with the same number could collide with. -/
theorem C17X_stored (cfg : Cfg) (ss rs : Nat) (rest : List EvX) (hp : ∀ ev ∈ rest, PlainEvX ev) (m : Msg)
    (hm : Out.wire m ∈ ((((Sess.init cfg Code.fixed true).step (.start ss rs)).1).runX rest).2)
    (hnew : m.possDup = none) (happ : m.admin = false) :
    StoredAt ((((Sess.init cfg Code.fixed true).step (.start ss rs)).1).runX rest).1 m :=
  (C17X_run rest _ (first_inv cfg ss rs) hp).2.2 m hm hnew happ

/-- and everything the store holds after such a history is a new application frame under its own MsgSeqNum -/
theorem C17X_only_application (cfg : Cfg) (ss rs : Nat) (rest : List EvX) (hp : ∀ ev ∈ rest, PlainEvX ev)
    (st : SpecG Rec) (hst : ((((Sess.init cfg Code.fixed true).step (.start ss rs)).1).runX rest).1.store = some st) (k : Nat) (r : Rec)
    (hk : st.get k = some r) : ∃ m, r = Rec.frame m ∧ m.seq = k ∧ m.admin = false ∧ m.possDup = none := by
  obtain ⟨i, _, _⟩ := C17X_run rest _ (first_inv cfg ss rs) hp
  unfold SpecG.get at hk
  split at hk
  · cases hk
  · exact (i.2.1 st hst k r hk).2.2

end Fix8Model.Props.C17
