import Fix8Model.Store.Refine
/-!
C26 – Persisters honour the store contract: both persister models produce, on every operation
history, exactly the outputs of the map-plus-control-record specification.
-/
namespace Fix8Model.Props.C26
open Fix8Model.Store

/-- memory persister: every history, same outputs as the specification -/
theorem C26_mem (ops : List Op) : runWith Mem.step ⟨[], none⟩ ops = runWith Spec.step ⟨[], none⟩ ops :=
  mem_run ops ⟨[], none⟩

/-- file persister: every history, same outputs as the specification (index + append-only data file) -/
theorem C26_file (ops : List Op) : runWith File.step ⟨[], none, []⟩ ops = runWith Spec.step ⟨[], none⟩ ops := by
  have := file_run ops ⟨[], none, []⟩ (by intro e he; simp at he)
  simpa [File.abs] using this

/-- the specification's nearest-highest search: a non-zero answer is a stored number in
[requested, last] and no smaller number in that interval is stored -/
theorem C26_nearest (has : Nat → Bool) (req last k : Nat) (h : nearest has req last = k) (hk : k ≠ 0) :
    has k = true ∧ req ≤ k ∧ k ≤ last ∧ ∀ j, req ≤ j → j < k → has j = false := by
  unfold nearest at h
  split at h
  · omega
  · cases hf : (List.range' req (last + 1 - req)).find? has with
    | none => rw [hf] at h; simp at h; omega
    | some x =>
      rw [hf] at h; simp at h; subst h
      have h1 := List.find?_some hf
      have h2 := List.mem_of_find?_eq_some hf
      rw [List.mem_range'_1] at h2
      refine ⟨h1, h2.1, by omega, ?_⟩
      intro j hj1 hj2
      rw [List.find?_eq_some_iff_append] at hf
      obtain ⟨_, as, bs, hab, hall⟩ := hf
      have hjm : j ∈ List.range' req (last + 1 - req) := by rw [List.mem_range'_1]; omega
      rw [hab, List.mem_append, List.mem_cons] at hjm
      rcases hjm with hjm | hjm | hjm
      · have := hall j hjm; simpa using this
      · omega
      · -- j would come after x in an ascending range: impossible since j < x
        exfalso
        have hs : (List.range' req (last + 1 - req)).Pairwise (· < ·) := List.pairwise_lt_range'
        rw [hab, List.pairwise_append] at hs
        have := (List.pairwise_cons.mp hs.2.1).1 j hjm
        omega

/-- and it is 0 only when no number in [requested, last] is stored -/
theorem C26_nearest_zero (has : Nat → Bool) (req last : Nat) (h0 : has 0 = false)
    (h : nearest has req last = 0) : ∀ j, req ≤ j → j ≤ last → 0 < last → has j = false := by
  intro j hj1 hj2 hl
  unfold nearest at h
  split at h
  · omega
  · cases hf : (List.range' req (last + 1 - req)).find? has with
    | none =>
      have := List.find?_eq_none.mp hf j (by rw [List.mem_range'_1]; omega)
      simpa using this
    | some x =>
      rw [hf] at h; simp at h; subst h
      have := List.find?_some hf
      rw [h0] at this; cases this

/-- non-vacuity: a history with a refused duplicate, a refused 0, control updates and a range -/
example : runWith File.step ⟨[], none, []⟩
    [.cput 1 1, .put 2 [65], .put 2 [66], .put 0 [67], .put 5 [68, 69], .cput 6 3, .get 2, .get 5, .get 3, .cget, .last,
     .near 3, .range 1 0]
  = [.bool true, .bool true, .bool false, .bool false, .bool true, .bool true, .msg (some [65]), .msg (some [68, 69]),
     .msg none, .ctrl (some (6, 3)), .num 5, .num 5, .visit [2, 5] true] := by decide

end Fix8Model.Props.C26
