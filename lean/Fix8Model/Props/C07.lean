import Fix8Model.Checksum.Final
/-!
C07 – Checksum function computes the byte sum mod 256 within bounds.
Property theorems only; helper lemmas are in `Fix8Model/Checksum/*`.
-/
namespace Fix8Model.Props.C07
open Fix8Model.Checksum

/-- the routine returns the sum of exactly the bytes `[off, off+elen)` modulo 256, for every
buffer, offset and length; `len = none` is "no length given". -/
theorem C07_value (buf : List Nat) (hwf : WFBytes buf) (sz off : Nat) (len : Option Nat) :
    calcChksum buf sz off len = sumBytes buf off (effLen sz off len) % 256 :=
  calcChksum_eq buf hwf sz off len

/-- every index read lies inside the summed range -/
theorem C07_reads (sz off : Nat) (len : Option Nat) :
    ∀ i ∈ readIdx sz off len, off ≤ i ∧ i < off + effLen sz off len :=
  fun i h => readIdx_bound sz off len i h

/-- with no length the range is the remainder of the buffer (false before fix 76cca35) -/
theorem C07_remainder (sz off : Nat) (h : off ≤ sz) : off + effLen sz off none = sz := by
  simp only [effLen, Option.getD_none]; omega

/-- hence no byte outside the buffer is read when the range fits the buffer -/
theorem C07_in_buffer (buf : List Nat) (sz off : Nat) (len : Option Nat) (hsz : sz = buf.length)
    (hfit : off + effLen sz off len ≤ sz) : ∀ i ∈ readIdx sz off len, i < buf.length := by
  intro i h
  have := C07_reads sz off len i h
  omega

/-- the value is a byte -/
theorem C07_lt (buf : List Nat) (hwf : WFBytes buf) (sz off : Nat) (len : Option Nat) :
    calcChksum buf sz off len < 256 := by
  rw [C07_value buf hwf]; exact Nat.mod_lt _ (by decide)

theorem sumBytes_add (buf : List Nat) (off a : Nat) : ∀ b, sumBytes buf off (a + b) = sumBytes buf off a + sumBytes buf (off + a) b
  | 0 => by simp [sumBytes]
  | b + 1 => by
    have ih := sumBytes_add buf off a b
    show sumBytes buf off (a + b) + byteAt buf (off + (a + b)) = sumBytes buf off a + (sumBytes buf (off + a) b + byteAt buf (off + a + b))
    rw [ih, Nat.add_assoc off a b]; omega

/-- the value does not depend on how a range is cut: the checksum of `[off, off+a+b)` is the sum, modulo 256, of the
checksums of `[off, off+a)` and `[off+a, off+a+b)` (header and body summed separately or in one call) -/
theorem C07_split (buf : List Nat) (hwf : WFBytes buf) (sz off a b : Nat) :
    calcChksum buf sz off (some (a + b)) = (calcChksum buf sz off (some a) + calcChksum buf sz (off + a) (some b)) % 256 := by
  rw [C07_value buf hwf, C07_value buf hwf, C07_value buf hwf]
  simp only [effLen, Option.getD_some]
  rw [sumBytes_add]; omega

/-- non-vacuity: a concrete buffer with carries in every lane and a flush (300 bytes of 0xFF) -/
example : WFBytes (List.replicate 300 255) ∧
    calcChksum (List.replicate 300 255) 300 3 none = (297 * 255) % 256 := by decide +kernel

end Fix8Model.Props.C07
