import Fix8Model.Tables.RealmLemmas
import Fix8Model.Gen.TablesUTEST
/-!
C10 – Enumerated-value lookups describe only the actual value.
General theorems for every strictly sorted domain table, plus the generated fact that every
enumerated domain of the freshly compiled FIX42UTEST schema is strictly sorted.
-/
namespace Fix8Model.Props.C10
open Fix8Model.Realm Fix8Model.Gen

/-- set domains: an index is reported exactly for members and it is the member's own index, so the
description `descriptions[idx]` belongs to that exact value -/
theorem C10_set_index (l : List Int) (v : Int) (hs : Sorted l) (i : Nat) :
    getRlmIdxSet l v = some i ↔ (i < l.length ∧ el l i = v) := getRlmIdxSet_iff l v hs i

/-- no index for non-members -/
theorem C10_set_none (l : List Int) (v : Int) (hs : Sorted l) : getRlmIdxSet l v = none ↔ v ∉ l := by
  rw [mem_iff_at]
  constructor
  · intro h ⟨i, hi⟩
    have := (getRlmIdxSet_iff l v hs i).mpr hi
    rw [h] at this; cases this
  · intro h
    cases hr : getRlmIdxSet l v with
    | none => rfl
    | some i => exact absurd ⟨i, (getRlmIdxSet_iff l v hs i).mp hr⟩ h

/-- validity of a set domain is set membership -/
theorem C10_set_valid (l : List Int) (v : Int) (hs : Sorted l) : isValidSet l v = true ↔ v ∈ l :=
  isValidSet_iff l v hs

/-- range domains: validity is range inclusion; only the two bounds have an index (and a description) -/
theorem C10_range_valid (lo hi v : Int) : isValidRange lo hi v = true ↔ lo ≤ v ∧ v ≤ hi := by
  simp [isValidRange]

theorem C10_range_index (lo hi v : Int) (i : Nat) :
    getRlmIdxRange lo hi v = some i → (i = 0 ∧ v = lo) ∨ (i = 1 ∧ v = hi) := by
  unfold getRlmIdxRange
  split
  · intro h; left; exact ⟨by injection h with h; omega, by omega⟩
  · split
    · intro h; right; exact ⟨by injection h with h; omega, by omega⟩
    · intro h; cases h

/-- generated fact: every enumerated domain of the compiled schema is strictly sorted, so the
theorems above apply to each of them -/
theorem C10_utest_sorted : ∀ r ∈ realmTables, Sorted r.2.2.2 := by
  have h : realmTables.all (fun r => sortedB r.2.2.2) = true := by decide +kernel
  intro r hr
  exact sortedB_sound _ (List.all_eq_true.mp h r hr)

/-- non-vacuity: Side (54) -/
example : getRlmIdxSet [49, 50, 51, 52, 53, 54, 55, 56, 57] 48 = none ∧
    getRlmIdxSet [49, 50, 51, 52, 53, 54, 55, 56, 57] 49 = some 0 := by decide

end Fix8Model.Props.C10
