import Fix8Model.Codec.CloneLemmas
import Fix8Model.Gen.SchemaUTEST
/-!
C11 – Cloning and field transfer preserve message content (`Message::clone`, `MessageBase::copy_legal`,
`MessageBase::move_legal`, `force = false`; model: `Codec/Clone.lean`).

The predicate `Canonical S ts items` (defined in `Codec/CloneLemmas.lean`, Bool-valued, structurally recursive over
items/elements) describes a section as the API builds it: legal tags, strictly increasing schema positions, groups
only on group traits, every group element canonical again.  `C11_placeAll_canonical` shows that every section built
with `add_field` in any insertion order is of this shape.  The two `C11_finding_*`/`C11_clone_drops_unknown`
witnesses show that outside this class (decoded messages keep ARRIVAL order; fields sharing a schema position keep
INSERTION order; permissive-mode unknown bytes) the clone does NOT encode to the same bytes.
-/
namespace Fix8Model.Props.C11
open Fix8Model Fix8Model.Codec

/-! ## sections built through the API are canonical -/

/-- built through `add_field` in ANY insertion order (no tag twice, distinct tags at distinct schema positions):
the section's fields are all legal and lie in strictly increasing schema position – the top-level part of
`Canonical` -/
theorem C11_placeAll_canonical (ts : List Trait) (ins : List Item) (out : List (Nat × Item))
    (h : placeAll ts [] ins = .ok out) (hnd : (ins.map (·.tag)).Nodup)
    (hpos : (ins.map fun it => ((findTrait ts it.tag).map (·.pos)).getD 0).Nodup) :
    topOk ts (out.map (·.2)) = true ∧
      (∀ it ∈ out.map (·.2), ∃ tr, findTrait ts it.tag = some tr) ∧
      (out.map (·.2)).Pairwise (fun a b => posOf ts a < posOf ts b) := by
  have hinv := placeAll_inv ts ins [] out List.Pairwise.nil (by intro e he; cases he) h
  obtain ⟨keyed, hp, hm, _⟩ := placeAll_perm ts ins [] out (by intro _ _ e he; cases he) hnd h
  rw [List.append_nil] at hp
  have hperm : (out.map (·.2)).Perm ins := by
    have := hp.map (·.2)
    rw [hm] at this
    exact this.trans (List.reverse_perm ins)
  have hle := sorted_items hinv.1 hinv.2
  have hne : (out.map (·.2)).Pairwise (fun a b => posOf ts a ≠ posOf ts b) := by
    have : ((out.map (·.2)).map (posOf ts)).Nodup := ((hperm.map (posOf ts)).nodup_iff).mpr hpos
    unfold List.Nodup at this
    exact List.pairwise_map.mp this
  have hlt : (out.map (·.2)).Pairwise (fun a b => posOf ts a < posOf ts b) :=
    (hle.and hne).imp (fun h => Nat.lt_of_le_of_ne h.1 h.2)
  have hleg : ∀ it ∈ out.map (·.2), ∃ tr, findTrait ts it.tag = some tr := by
    intro it hit
    obtain ⟨e, he, rfl⟩ := List.mem_map.mp hit
    obtain ⟨tr, htr, _⟩ := hinv.2 e he
    exact ⟨tr, htr⟩
  exact ⟨(topOk_iff ts _).mpr ⟨hleg, hlt⟩, hleg, hlt⟩

/-- … and when the groups that were put in are themselves canonical, the whole section is `Canonical` -/
theorem C11_placeAll_canonical_deep (S : Schema) (ts : List Trait) (ins : List Item) (out : List (Nat × Item))
    (h : placeAll ts [] ins = .ok out) (hnd : (ins.map (·.tag)).Nodup)
    (hpos : (ins.map fun it => ((findTrait ts it.tag).map (·.pos)).getD 0).Nodup)
    (hdeep : deepOk S ts ins = true) :
    Canonical S ts (out.map (·.2)) = true := by
  have htop := (C11_placeAll_canonical ts ins out h hnd hpos).1
  obtain ⟨keyed, hp, hm, _⟩ := placeAll_perm ts ins [] out (by intro _ _ e he; cases he) hnd h
  rw [List.append_nil] at hp
  unfold Canonical
  rw [htop, Bool.true_and, deepOk_iff_forall]
  intro it hit
  have : it ∈ keyed.map (·.2) := ((hp.map (·.2)).mem_iff).mp hit
  rw [hm, List.mem_reverse] at this
  exact (deepOk_iff_forall S ts ins).mp hdeep it this

/-! ## copy_legal -/

/-- `copy_legal` into an empty (deep-constructed) section of the same type transfers every field and every group
element, groups nested to any depth: the target's field list IS the source's -/
theorem C11_copy_legal_all (S : Schema) (ts : List Trait) (items : List Item) (hc : Canonical S ts items = true) :
    (copyLegal S ts ts items []).map (·.2) = items := by
  unfold Canonical at hc
  rw [Bool.and_eq_true] at hc
  unfold copyLegal
  rw [copyItems_same S ts items hc.2, transfer_same ts items hc.1]

/-- each transferring iteration of `copy_legal` is `add_field` (`placeItem`) on the target: legal and absent, so
`placeItem` takes its insert branch and cannot throw -/
theorem C11_copy_step_is_add_field (tts : List Trait) (items : List Item) (tgt : List (Nat × Item)) (pp : Trait)
    (it : Item) (ttr : Trait) (hp : items.find? (·.tag == pp.tag) = some it) (hl : findTrait tts pp.tag = some ttr)
    (ha : tgt.any (·.2.tag == pp.tag) = false) :
    placeItem tts tgt it = .ok (transferStep tts items tgt pp) ∧
      transferStep tts items tgt pp = insertByPos ttr.pos (ttr.pos, it) tgt := by
  refine ⟨transferStep_eq_placeItem tts items tgt pp it ttr hp hl ha, ?_⟩
  unfold transferStep
  rw [hp]
  simp only [hl, ha, Bool.false_eq_true, if_false]

/-! ## move_legal -/

/-- `move_legal` into an empty section of the same type: the target's field list is the source's, the source keeps
no positioned field -/
theorem C11_move_legal_same (S : Schema) (ts : List Trait) (items : List Item) (hc : Canonical S ts items = true) :
    (moveLegal S ts ts items []).1.map (·.2) = items ∧ (moveLegal S ts ts items []).2 = [] := by
  unfold Canonical at hc
  rw [Bool.and_eq_true] at hc
  exact ⟨transfer_same ts items hc.1, rfl⟩

/-! ## clone -/

/-- `clone` never carries the permissive-mode unknown bytes over, and keeps the message type -/
theorem C11_clone_unknown_empty (S : Schema) (bodyTs : List Trait) (m : Msg) :
    (clone S bodyTs m).hUnknown = [] ∧ (clone S bodyTs m).bUnknown = [] ∧ (clone S bodyTs m).tUnknown = [] ∧
      (clone S bodyTs m).msgType = m.msgType := ⟨rfl, rfl, rfl, rfl⟩

/-- the clone of a canonical message: the body is the original's body; header and trailer are the original's up to
the fields that are never encoded (`suppress`: the pre-set 8, 9, 10 whose values the constructor chose) -/
theorem C11_clone_visible_same (S : Schema) (bodyTs : List Trait) (m : Msg)
    (hh : Canonical S S.header m.header = true) (hb : Canonical S bodyTs m.body = true)
    (ht : Canonical S S.trailer m.trailer = true)
    (hph : presetOk S.header (freshMsg S m.msgType).1 m.header = true)
    (hpt : presetOk S.trailer (freshMsg S m.msgType).2.2 m.trailer = true) :
    (clone S bodyTs m).body = m.body ∧
      (clone S bodyTs m).header.filter (visible S.header) = m.header.filter (visible S.header) ∧
      (clone S bodyTs m).trailer.filter (visible S.trailer) = m.trailer.filter (visible S.trailer) := by
  refine ⟨C11_copy_legal_all S bodyTs m.body hb, ?_, ?_⟩
  · unfold Canonical at hh
    rw [Bool.and_eq_true] at hh
    have fi := freshHeader_inv S m.msgType
    show ((copyLegal S S.header S.header m.header (freshHeader S m.msgType)).map (·.2)).filter _ = _
    unfold copyLegal
    rw [copyItems_same S S.header m.header hh.2]
    exact transfer_visible_same S.header m.header _ hh.1 fi.1 fi.2.1 fi.2.2 (presetOk_spec _ _ _ hph)
  · unfold Canonical at ht
    rw [Bool.and_eq_true] at ht
    have fi := freshTrailer_inv S
    show ((copyLegal S S.trailer S.trailer m.trailer (freshTrailer S)).map (·.2)).filter _ = _
    unfold copyLegal
    rw [copyItems_same S S.trailer m.trailer ht.2]
    exact transfer_visible_same S.trailer m.trailer _ ht.1 fi.1 fi.2.1 fi.2.2 (presetOk_spec _ _ _ hpt)

/-- a clone encodes to the same bytes as the original – for every message whose three sections are canonical (built
through the API), that carries no permissive-mode unknown bytes, and whose fields pre-set by the constructor are
either never encoded or identical in the original (MsgType) -/
theorem C11_clone_same_bytes (S : Schema) (bodyTs : List Trait) (m : Msg)
    (hh : Canonical S S.header m.header = true) (hb : Canonical S bodyTs m.body = true)
    (ht : Canonical S S.trailer m.trailer = true)
    (hu : m.hUnknown = [] ∧ m.bUnknown = [] ∧ m.tUnknown = [])
    (hph : presetOk S.header (freshMsg S m.msgType).1 m.header = true)
    (hpt : presetOk S.trailer (freshMsg S m.msgType).2.2 m.trailer = true) :
    encodeMsg S bodyTs (clone S bodyTs m) = encodeMsg S bodyTs m := by
  have fh := freshHeader_inv S m.msgType
  have ft := freshTrailer_inv S
  have e1 : encodeItems S.header S (clone S bodyTs m).header = encodeItems S.header S m.header :=
    copyLegal_encode_same S S.header m.header _ hh fh.1 fh.2.1 fh.2.2 hph
  have e2 : (clone S bodyTs m).body = m.body := C11_copy_legal_all S bodyTs m.body hb
  have e3 : encodeItems S.trailer S (clone S bodyTs m).trailer = encodeItems S.trailer S m.trailer :=
    copyLegal_encode_same S S.trailer m.trailer _ ht ft.1 ft.2.1 ft.2.2 hpt
  have u1 : (clone S bodyTs m).hUnknown = [] := rfl
  have u2 : (clone S bodyTs m).bUnknown = [] := rfl
  have u3 : (clone S bodyTs m).tUnknown = [] := rfl
  unfold encodeMsg
  simp only [e1, e2, e3, u1, u2, u3, hu.1, hu.2.1, hu.2.2]

/-- sufficient for the header's `presetOk`: 8 and 9 are `suppress` (or not in the schema), MsgType occurs identically -/
theorem C11_presetOk_header (S : Schema) (m : Msg)
    (h8 : (findTrait S.header 8).all (·.suppress) = true) (h9 : (findTrait S.header 9).all (·.suppress) = true)
    (h35 : hasFld m.header 35 m.msgType = true) :
    presetOk S.header (freshMsg S m.msgType).1 m.header = true := by
  have step : ∀ (acc : List (Nat × Item)) (tag : Nat) (val : Bytes),
      presetOk S.header acc m.header = true →
      ((findTrait S.header tag).all (·.suppress) = true ∨ hasFld m.header tag val = true) →
      presetOk S.header (placePreset S.header acc tag val) m.header = true := by
    intro acc tag val hacc hor
    unfold placePreset
    cases hf : findTrait S.header tag with
    | none => exact hacc
    | some tr =>
      cases ha : acc.any (·.2.tag == tag) with
      | true => simpa using hacc
      | false =>
        simp only [Bool.false_eq_true, if_false]
        unfold presetOk at hacc ⊢
        rw [List.all_eq_true] at hacc ⊢
        intro e he
        rw [insertByPos_mem] at he
        rcases he with he | he
        · subst he
          rw [hf] at hor
          rcases hor with h | h
          · simp only [Item.tag, hf]; simp at h; simp [h]
          · simp [h]
        · exact hacc e he
  show presetOk S.header (freshHeader S m.msgType) m.header = true
  unfold freshHeader
  refine step _ 35 _ (step _ 9 _ (step _ 8 _ ?_ (Or.inl h8)) (Or.inl h9)) (Or.inr h35)
  simp [presetOk]

/-- sufficient for the trailer's `presetOk`: CheckSum is `suppress` (or not in the schema) -/
theorem C11_presetOk_trailer (S : Schema) (m : Msg) (h10 : (findTrait S.trailer 10).all (·.suppress) = true) :
    presetOk S.trailer (freshMsg S m.msgType).2.2 m.trailer = true := by
  show presetOk S.trailer (freshTrailer S) m.trailer = true
  unfold freshTrailer placePreset
  cases hf : findTrait S.trailer 10 with
  | none => simp [presetOk]
  | some tr =>
    rw [hf] at h10
    simp at h10
    simp [presetOk, insertByPos, Item.tag, hf, h10]

/-! ## non-vacuity: a schema with a group nested two levels deep -/

/-- traits: tag, kind, pos, mandatory, group, suppress, automatic, preset, sub; lists in tag order (`Presence`) -/
def demoSchema : Schema :=
  { fieldTable := [8, 9, 10, 11, 34, 35, 49, 55, 67, 73, 78, 79, 80, 93]
    beginStr := [70, 73, 88]
    header := [⟨8, .string, 1, true, false, true, true, true, 0⟩, ⟨9, .length, 2, true, false, true, true, true, 0⟩,
               ⟨34, .int, 5, true, false, false, false, false, 0⟩, ⟨35, .string, 3, true, false, false, true, true, 0⟩,
               ⟨49, .string, 4, true, false, false, false, false, 0⟩]
    trailer := [⟨10, .string, 2, true, false, true, true, true, 0⟩, ⟨93, .length, 1, false, false, false, false, false, 0⟩]
    msgs := [([68], [⟨11, .string, 2, true, false, false, false, false, 0⟩, ⟨55, .string, 1, true, false, false, false, false, 0⟩,
                     ⟨73, .int, 3, false, true, false, false, false, 0⟩])]
    groups := [[⟨67, .int, 1, true, false, false, false, false, 0⟩, ⟨78, .int, 2, false, true, false, false, false, 1⟩],
               [⟨79, .string, 1, true, false, false, false, false, 0⟩, ⟨80, .int, 2, false, false, false, false, false, 0⟩]] }

def demoBodyTs : List Trait :=
  [⟨11, .string, 2, true, false, false, false, false, 0⟩, ⟨55, .string, 1, true, false, false, false, false, 0⟩,
   ⟨73, .int, 3, false, true, false, false, false, 0⟩]

def demoBody : List Item :=
  [.fld 55 [88], .fld 11 [89],
   .grp 73 [50] [[.fld 67 [49], .grp 78 [50] [[.fld 79 [65], .fld 80 [53]], [.fld 79 [66]]]], [.fld 67 [50]]]]

def demoMsg : Msg :=
  { msgType := [68]
    header := [.fld 8 [70, 73, 88], .fld 9 [48], .fld 35 [68], .fld 49 [65], .fld 34 [49]]
    body := demoBody
    trailer := [.fld 93 [48], .fld 10 []] }

example : Canonical demoSchema demoSchema.header demoMsg.header = true := by decide +kernel
example : Canonical demoSchema demoBodyTs demoMsg.body = true := by decide +kernel
example : Canonical demoSchema demoSchema.trailer demoMsg.trailer = true := by decide +kernel
example : presetOk demoSchema.header (freshMsg demoSchema demoMsg.msgType).1 demoMsg.header = true := by decide +kernel
example : presetOk demoSchema.trailer (freshMsg demoSchema demoMsg.msgType).2.2 demoMsg.trailer = true := by decide +kernel
/-- not canonical: schema positions out of order / a group on a non-group trait -/
example : Canonical demoSchema demoBodyTs [.fld 11 [89], .fld 55 [88]] = false := by decide +kernel
example : Canonical demoSchema demoBodyTs [.grp 55 [49] [[]]] = false := by decide +kernel

/-- `copy_legal` evaluated: the nested groups arrive complete, in the source's order -/
example : (copyLegal demoSchema demoBodyTs demoBodyTs demoBody []).map (·.2) = demoBody := by with_unfolding_all rfl
example : (copyLegal demoSchema demoBodyTs demoBodyTs demoBody []).map (·.1) = [1, 2, 3] := by decide +kernel
/-- a field already present in the target is left alone (`force = false`), the rest is placed around it -/
example : (copyLegal demoSchema demoBodyTs demoBodyTs demoBody [(2, .fld 11 [90])]).map (·.2) =
    [.fld 55 [88], .fld 11 [90], .grp 73 [50] [[.fld 67 [49], .grp 78 [50] [[.fld 79 [65], .fld 80 [53]], [.fld 79 [66]]]], [.fld 67 [50]]]] := by with_unfolding_all rfl
/-- a field that is not legal for the target is not copied: the group element traits do not know tag 55 -/
example : (copyLegal demoSchema demoBodyTs (demoSchema.group 0) [.fld 55 [88], .fld 11 [89]] []).map (·.2) = [] := by with_unfolding_all rfl
example : (moveLegal demoSchema demoBodyTs demoBodyTs demoBody []).1.map (·.2) = demoBody := by with_unfolding_all rfl
example : clone demoSchema demoBodyTs demoMsg = demoMsg := by with_unfolding_all rfl
/-- the fresh message of the model on this schema -/
example : freshMsg demoSchema [68] = ([(1, .fld 8 [70, 73, 88]), (2, .fld 9 [48]), (3, .fld 35 [68])], [], [(2, .fld 10 [])]) := by with_unfolding_all rfl
/-- a section built through the API out of order is canonical (hypotheses of `C11_placeAll_canonical`) -/
example : ∃ out, placeAll demoBodyTs [] [.fld 11 [89], .grp 73 [48] [], .fld 55 [88]] = .ok out ∧
    topOk demoBodyTs (out.map (·.2)) = true := ⟨_, by with_unfolding_all rfl, by decide +kernel⟩
example : deepOk demoSchema demoBodyTs demoBody = true := by decide +kernel

/-- `freshMsg` reproduces the positions the generated FIX42UTEST constructors hard-code (`add_preamble`: 8 at 1,
9 at 2, 35 at 3; trailer 10 at 3), i.e. the driver's `hInit`/`tInit` (trait tables extracted from /repo) -/
example :
    let S : Schema :=
      { fieldTable := [], beginStr := Gen.utestBeginStr, msgs := [], groups := []
        header := Gen.utestHeader.map fun r => ⟨r.tag, .string, r.pos, false, false, false, false, false, 0⟩
        trailer := Gen.utestTrailer.map fun r => ⟨r.tag, .string, r.pos, false, false, false, false, false, 0⟩ }
    freshMsg S [48] =
      ([(1, .fld 8 Gen.utestBeginStr), (2, .fld 9 [48]), (3, .fld 35 [48])], [], [(3, .fld 10 [])]) := by with_unfolding_all rfl

/-! ## what `clone` does NOT preserve (witnesses on a tiny schema) -/

def tinySchema : Schema :=
  { fieldTable := [8, 9, 10, 11, 35, 55]
    beginStr := [70]
    header := [⟨8, .string, 1, true, false, true, true, true, 0⟩, ⟨9, .length, 2, true, false, true, true, true, 0⟩,
               ⟨35, .string, 3, true, false, false, true, true, 0⟩]
    trailer := [⟨10, .string, 1, true, false, true, true, true, 0⟩]
    msgs := [([68], [⟨11, .string, 2, false, false, false, false, false, 0⟩, ⟨55, .string, 1, false, false, false, false, false, 0⟩])]
    groups := [] }

def tinyBodyTs : List Trait :=
  [⟨11, .string, 2, false, false, false, false, false, 0⟩, ⟨55, .string, 1, false, false, false, false, false, 0⟩]

/-- a permissively decoded message: canonical sections, but unknown bytes `99=Z|` kept in the body -/
def tinyUnknown : Msg :=
  { msgType := [68], header := [.fld 8 [70], .fld 9 [48], .fld 35 [68]], body := [.fld 55 [88]], trailer := [.fld 10 []],
    bUnknown := [57, 57, 61, 90, 1] }

/-- unknown bytes are encoded by the original but dropped by the clone: the hypothesis `no unknown bytes` of
`C11_clone_same_bytes` cannot be removed -/
theorem C11_clone_drops_unknown :
    Canonical tinySchema tinySchema.header tinyUnknown.header = true ∧
    Canonical tinySchema tinyBodyTs tinyUnknown.body = true ∧
    Canonical tinySchema tinySchema.trailer tinyUnknown.trailer = true ∧
    tinyUnknown.bUnknown ≠ [] ∧
    encodeMsg tinySchema tinyBodyTs (clone tinySchema tinyBodyTs tinyUnknown) ≠ encodeMsg tinySchema tinyBodyTs tinyUnknown := by
  decide +kernel

/-- a DECODED message keeps its fields in ARRIVAL order (`add_field_decoder(tv, ++pos, bf)`): here 11 arrived before
55 although the schema puts 55 first -/
def tinyDecoded : Msg :=
  { msgType := [68], header := [.fld 8 [70], .fld 9 [48], .fld 35 [68]], body := [.fld 11 [89], .fld 55 [88]], trailer := [.fld 10 []] }

/-- FINDING (candidate): `clone` re-places every field by SCHEMA position (`add_field`), so the clone of a decoded
message whose fields arrived out of schema order encodes to DIFFERENT bytes than the original, which re-encodes in
arrival order.  No unknown bytes, every field legal, no tag twice – only `Canonical` fails. -/
theorem C11_finding_clone_reorders_decoded :
    Canonical tinySchema tinyBodyTs tinyDecoded.body = false ∧
    (clone tinySchema tinyBodyTs tinyDecoded).body.map (·.tag) = [55, 11] ∧
    tinyDecoded.body.map (·.tag) = [11, 55] ∧
    encodeMsg tinySchema tinyBodyTs (clone tinySchema tinyBodyTs tinyDecoded) ≠ encodeMsg tinySchema tinyBodyTs tinyDecoded := by
  decide +kernel

/-- the arrival-order message above really is what the decoder produces for an out-of-order wire message -/
theorem C11_finding_decoded_is_arrival_order :
    ∃ wire, (factory tinySchema false wire).toOption.map (·.body.map (·.tag)) = some [11, 55] :=
  ⟨encodeMsg tinySchema tinyBodyTs tinyDecoded, by decide +kernel⟩

/-- body traits with two user-defined fields that have NO schema position (`FieldTraits::getPos` reports 0 for both –
the fields 9991 / 9999 of FIX42UTEST, added with `f8c -F`), in `Presence` (tag) order -/
def tinyBodyTs2 : List Trait :=
  [⟨55, .string, 1, false, false, false, false, false, 0⟩, ⟨9991, .string, 0, false, false, false, false, false, 0⟩,
   ⟨9999, .string, 0, false, false, false, false, false, 0⟩]

/-- built through the API with 9999 added BEFORE 9991: both sit at key 0 of `_pos`, the multimap keeps them in
insertion order -/
def tinyEqualPos : Msg :=
  { msgType := [68], header := [.fld 8 [70], .fld 9 [48], .fld 35 [68]],
    body := [.fld 9999 [74], .fld 9991 [75], .fld 55 [88]], trailer := [.fld 10 []] }

/-- FINDING (confirmed on the real code by the `clone` stream: clone, copy and moved agree with each other but not with
orig): fields that share a schema position keep their INSERTION order in the original, but `copy_legal`/`move_legal`
walk the `Presence` container in TAG order and re-insert, so clone / copy / moved come out in tag order.  The message
is built purely through the API, has no unknown bytes and no tag twice – only the `strictly increasing positions`
clause of `Canonical` fails. -/
theorem C11_finding_clone_reorders_equal_pos :
    (placeAll tinyBodyTs2 [] [.fld 9999 [74], .fld 55 [88], .fld 9991 [75]]).toOption.map
        (·.map fun e => (e.1, e.2.tag, e.2.val)) = some [(0, 9999, [74]), (0, 9991, [75]), (1, 55, [88])] ∧
    tinyEqualPos.body.map (fun it => (it.tag, it.val)) = [(9999, [74]), (9991, [75]), (55, [88])] ∧
    Canonical tinySchema tinyBodyTs2 tinyEqualPos.body = false ∧
    (clone tinySchema tinyBodyTs2 tinyEqualPos).body.map (·.tag) = [9991, 9999, 55] ∧
    (moveLegal tinySchema tinyBodyTs2 tinyBodyTs2 tinyEqualPos.body []).1.map (·.2.tag) = [9991, 9999, 55] ∧
    encodeMsg tinySchema tinyBodyTs2 (clone tinySchema tinyBodyTs2 tinyEqualPos) ≠ encodeMsg tinySchema tinyBodyTs2 tinyEqualPos := by
  decide +kernel

end Fix8Model.Props.C11
