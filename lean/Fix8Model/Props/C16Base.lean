import Fix8Model.Session.StepLemmas
/-!
C16 – Outbound sequence numbers are consecutive and persisted.

NEW messages = frames that are neither a retransmission (PossDupFlag) nor a SequenceReset/gap fill (`newSeqs`).
Statements are about `Sess.step` / `Sess.run` (Fix8Model/Session/Step.lean) for EVERY history of events
(application sends, batches, administrative sends, inbound traffic of every kind, restarts over the same store).

Numbering (`C16_step`, `C16_consecutive`, `C16_no_repeats`): with a persister, the new messages of the whole run carry
`first, first+1, …` across sends, batches, replies and restarts (the restart recovers the persisted number); the only
place where numbers are skipped is the answer to a ResendRequest (`Renumbers`), where numbering continues from the last
NewSeqNo announced (that clause belongs to C18) – there the list is still strictly increasing (no repeats).
Excluded (`Flagged`): sends with the public `custom_seqnum` / `no_increment` arguments – they renumber on request
(`C16_finding_no_increment_repeat`).

Control record (`C16_control_step`, `C16_control_history`): after every step the persisted record equals
(next send, next receive), except (known finding, `CtrlExcluded`)
 * `control-ahead-after-no-increment` (DESIGN section 8 row 25): after a send that does not increment (no_increment, custom
   number, and the Logout of the forced-logoff exit) the record is one ahead in its send number.
The reject exit of `process` is covered (`C16_regression_control_after_reject`): it used to increment the expected
number without `update_persist_seqnums()`; repaired in /repo (class `control-behind-after-reject`, now `fixed`).
-/
namespace Fix8Model.Props.C16
open Fix8Model.Session Fix8Model.Store

/-- sends with the `custom_seqnum` / `no_increment` arguments of `Session::send` -/
def Flagged : Ev → Prop
  | .appSend _ c n => c ≠ 0 ∨ n = true
  | .admSend c n => c ≠ 0 ∨ n = true
  | _ => False

/-- a decodable ResendRequest: its answer ends with a gap fill that may announce a higher next number -/
def Renumbers : Ev → Prop
  | .inbound _ (.ok m) => m.mtype = .resendRequest
  | _ => False

/-- events of the numbering theorems: no flagged sends; a restart recovers (no explicit send number) -/
def PlainEv (ev : Ev) : Prop := ¬ Flagged ev ∧ ∀ ss rs, ev = .start ss rs → ss = 0

/-- invariant of the numbering theorems: a session object over a persister whose control record carries the number
the next new message will get (for a stopped session: the number a restart recovers) -/
def Good (s : Sess) : Prop :=
  s.buf = [] ∧ s.started = true ∧ ∃ st a b, s.store = some st ∧ st.ctrl = some (a, b) ∧ (s.shutdown = false → a = s.ns)

private theorem ctrlS_of {s : Sess} {st : SpecG Rec} {a b : Nat} (h1 : s.store = some st) (h2 : st.ctrl = some (a, b)) : ctrlS s = a := by
  simp [ctrlS, h1, h2]

private theorem good_of_ctrl {s : Sess} (hb : s.buf = []) (hs : s.started = true) (hsome : s.store.isSome = true)
    (b : Nat) (hc : ∀ st, s.store = some st → st.ctrl = some (s.ns, b)) : Good s ∧ ctrlS s = s.ns := by
  cases hst : s.store with
  | none => rw [hst] at hsome; cases hsome
  | some st => exact ⟨⟨hb, hs, st, s.ns, b, hst, hc st hst, fun _ => rfl⟩, ctrlS_of hst (hc st hst)⟩

/-- **C16, one step**: from a good state, every plain event yields a good state; its new messages carry
`c, c+1, …, c+k-1` where `c` is the persisted next-send number, and afterwards that number is `c + k` – larger only
after answering a ResendRequest. -/
theorem C16_step (s : Sess) (ev : Ev) (hg : Good s) (hp : PlainEv ev) :
    Good (s.step ev).1 ∧
    ∃ k, newSeqs (s.step ev).2 = List.range' (ctrlS s) k ∧ ctrlS s + k ≤ ctrlS (s.step ev).1 ∧
      (¬ Renumbers ev → ctrlS (s.step ev).1 = ctrlS s + k) := by
  obtain ⟨hb, hs, st, a, b, hst, hctrl, hact⟩ := hg
  have hc : ctrlS s = a := ctrlS_of hst hctrl
  have same : Good s := ⟨hb, hs, st, a, b, hst, hctrl, hact⟩
  have idle : Good s ∧ ∃ k, newSeqs ([] : List Session.Out) = List.range' (ctrlS s) k ∧ ctrlS s + k ≤ ctrlS s ∧ (¬ Renumbers ev → ctrlS s = ctrlS s + k) :=
    ⟨same, 0, rfl, by omega, fun _ => rfl⟩
  -- a plain send from an active state
  have plain : ∀ q : Snd, q.plain → s.shutdown = false →
      Good (sendProcess s q).1 ∧ ∃ k, newSeqs (sendProcess s q).2 = List.range' (ctrlS s) k ∧ ctrlS s + k ≤ ctrlS (sendProcess s q).1 ∧
        (¬ Renumbers ev → ctrlS (sendProcess s q).1 = ctrlS s + k) := by
    intro q hq hsd
    obtain ⟨h1, h2, h3, h4, h5, h6⟩ := sendProcess_plain s q hb hq
    have hk := sendProcess_kept s q
    have hns : s.ns = a := (hact hsd).symm
    have hg' := good_of_ctrl (s := (sendProcess s q).1) h5 (hk.1.trans hs) (by rw [hk.2, hst]; rfl) s.nr (by
      intro st' hst'
      rw [h6, hst] at hst'; simp at hst'
      rw [← hst', h4]; rfl)
    refine ⟨hg'.1, 1, ?_, by rw [hg'.2, h4, hc]; omega, fun _ => by rw [hg'.2, h4, hc, hns]⟩
    rw [h1, hc, ← hns]; simp [newSeqs, h3, h2, builtFrame_mtype, hq.2.2.2.2.2]
  cases ev with
  | clock ms => exact ⟨⟨hb, hs, st, a, b, hst, hctrl, hact⟩, 0, rfl, by simp [Sess.step, ctrlS], fun _ => by simp [Sess.step, ctrlS]⟩
  | start ss rs =>
    have hss : ss = 0 := hp.2 ss rs rfl
    subst hss
    -- recover_seqnums restores a, the Logon carries it
    have hb2 : ∀ x : Sess, x.buf = [] → x.store = some st → x.ns = a → x.started = true →
        Good ({ (sendProcess x { m := mkLogon x }).1 with state := .logonSent }) ∧
        newSeqs (sendProcess x { m := mkLogon x }).2 = List.range' a 1 ∧
        ctrlS ({ (sendProcess x { m := mkLogon x }).1 with state := .logonSent }) = a + 1 := by
      intro x hxb hxs hxn hxst
      obtain ⟨h1, h2, h3, h4, h5, h6⟩ := sendProcess_plain x _ hxb (plain_logon x)
      have hk := sendProcess_kept x { m := mkLogon x }
      have hg' := good_of_ctrl (s := { (sendProcess x { m := mkLogon x }).1 with state := .logonSent }) h5 (hk.1.trans hxst)
        (by show (sendProcess x { m := mkLogon x }).1.store.isSome = true; rw [hk.2, hxs]; rfl) x.nr (by
          intro st' hst'
          have : (sendProcess x { m := mkLogon x }).1.store = some st' := hst'
          rw [h6, hxs] at this; simp at this
          rw [← this]; show _ = some ((sendProcess x { m := mkLogon x }).1.ns, x.nr); rw [h4]; rfl)
      refine ⟨hg'.1, ?_, ?_⟩
      · have hm : (builtFrame x { m := mkLogon x }).mtype = .logon := by rw [builtFrame_mtype]; rfl
        rw [h1]; simp [newSeqs, h3, h2, hm, hxn]
      · rw [hg'.2]; show (sendProcess x { m := mkLogon x }).1.ns = a + 1; rw [h4, hxn]
    have hstep : ∃ x : Sess, x.buf = [] ∧ x.store = some st ∧ x.ns = a ∧ x.started = true ∧
        s.step (.start 0 rs) = ({ (sendProcess x { m := mkLogon x }).1 with state := .logonSent }, (sendProcess x { m := mkLogon x }).2) := by
      refine ⟨{ cfg := s.cfg, code := s.code, started := true, state := .notLoggedIn, ns := a, nr := (if rs ≠ 0 then rs else b), buf := [],
                store := s.store, shutdown := false, now := s.now }, rfl, hst, rfl, rfl, ?_⟩
      simp [Sess.step, startSession, hst, hctrl]
    obtain ⟨x, x1, x2, x3, x4, x5⟩ := hstep
    obtain ⟨g1, g2, g3⟩ := hb2 x x1 x2 x3 x4
    rw [x5]
    exact ⟨g1, 1, by rw [hc]; exact g2, by rw [g3, hc]; omega, fun _ => by rw [g3, hc]⟩
  | appSend pid c n =>
    have hf : c = 0 ∧ n = false := by
      have := hp.1; simp only [Flagged, not_or] at this
      exact ⟨by simpa using this.1, by simpa using this.2⟩
    simp only [Sess.step]
    split
    · rename_i hact2
      obtain ⟨hc0, hn⟩ := hf
      subst hc0; subst hn
      exact plain { m := mkOrder s pid, custom := 0, noInc := false } (plain_order s pid) hact2.2
    · exact idle
  | admSend c n =>
    have hf : c = 0 ∧ n = false := by
      have := hp.1; simp only [Flagged, not_or] at this
      exact ⟨by simpa using this.1, by simpa using this.2⟩
    simp only [Sess.step]
    split
    · rename_i hact2
      obtain ⟨hc0, hn⟩ := hf
      subst hc0; subst hn
      exact plain { m := mkHeartbeat s none, custom := 0, noInc := false } (plain_heartbeat s none) hact2.2
    · exact idle
  | batch pids =>
    simp only [Sess.step]
    split
    · rename_i hact2
      cases pids with
      | nil => exact idle
      | cons p ps =>
        obtain ⟨h1, h2, h3, h4, h5, h6⟩ := sendBatch_spec (p :: ps) s (by simp)
        have hns : s.ns = a := (hact hact2.2).symm
        obtain ⟨st', hst', hc'⟩ := h5 st hst
        have hg' := good_of_ctrl (s := (sendBatch s (p :: ps)).1) h4 (h6.1.trans hs) (by rw [hst']; rfl) s.nr (by
          intro st2 hst2; rw [hst'] at hst2; cases hst2; rw [hc', h2])
        refine ⟨hg'.1, (p :: ps).length, ?_, by rw [hg'.2, h2, hc]; omega, fun _ => by rw [hg'.2, h2, hc, hns]⟩
        rw [h1, hb, hc, hns]; rfl
    · exact idle
  | inbound scan dec =>
    simp only [Sess.step]
    split
    · rename_i hact2
      have hns : s.ns = a := (hact hact2.2).symm
      obtain ⟨p1, p2, k, p3, p4⟩ := process_spec s scan dec hb
      have hsome : (process s scan dec).1.store.isSome = true := by rw [p2.2, hst]; rfl
      have hstarted : (process s scan dec).1.started = true := p2.1.trans hs
      cases hpath : pathOf s scan dec with
      | ignored =>
        rw [hpath] at p4; rw [p4.2]; exact idle
      | normal =>
        rw [hpath] at p4
        obtain ⟨q1, q2, q3⟩ := p4
        have hg' := good_of_ctrl p1 hstarted hsome _ q3
        refine ⟨hg'.1, k, by rw [hc, ← hns]; exact p3, by rw [hg'.2, hc, ← hns]; exact q1, fun hr => ?_⟩
        rw [hg'.2, hc, ← hns]
        apply q2
        intro m hm; subst hm; exact hr
      | reject =>
        rw [hpath] at p4
        obtain ⟨q1, q2, q3⟩ := p4
        have hg' := good_of_ctrl p1 hstarted hsome _ q3
        exact ⟨hg'.1, k, by rw [hc, ← hns]; exact p3, by rw [hg'.2, hc, ← hns, q1]; omega, fun _ => by rw [hg'.2, hc, ← hns, q1]⟩
      | logoffQuiet =>
        rw [hpath] at p4
        obtain ⟨q0, q1, q2, q3, q4⟩ := p4
        subst q0
        have hcs : ctrlS (process s scan dec).1 = a := ctrlS_of (by rw [q4]; exact hst) hctrl
        refine ⟨⟨p1, hstarted, st, a, b, by rw [q4]; exact hst, hctrl, fun h => by rw [q1] at h; cases h⟩, 0, by rw [hc, ← hns]; exact p3,
          by rw [hcs, hc]; omega, fun _ => by simp [hcs, hc]⟩
      | logoffLogout =>
        rw [hpath] at p4
        obtain ⟨q0, q1, q2, q3, q4⟩ := p4
        subst q0
        have hst' : (process s scan dec).1.store = some (st.cput (s.ns + 1) s.nr) := by rw [q4, hst]; rfl
        have hcs : ctrlS (process s scan dec).1 = s.ns + 1 := ctrlS_of hst' rfl
        refine ⟨⟨p1, hstarted, _, s.ns + 1, s.nr, hst', rfl, fun h => by rw [q1] at h; cases h⟩, 1, by rw [hc, ← hns]; exact p3,
          by rw [hcs, hc, hns]; omega, fun _ => by rw [hcs, hc, hns]⟩
    · exact idle

/-! ### every history -/

/-- **C16 over histories, numbering**: in the run of EVERY plain history from a good state the new messages carry
strictly increasing numbers (no two share one), none below the persisted next-send number; when no ResendRequest is
answered in between they are exactly consecutive: `c, c+1, c+2, …`. -/
theorem C16_run (h : List Ev) : ∀ (s : Sess), Good s → (∀ ev ∈ h, PlainEv ev) →
    Good (s.run h).1 ∧
    (newSeqs (s.run h).2).Pairwise (· < ·) ∧
    (∀ x ∈ newSeqs (s.run h).2, ctrlS s ≤ x ∧ x < ctrlS (s.run h).1) ∧
    ctrlS s ≤ ctrlS (s.run h).1 ∧
    ((∀ ev ∈ h, ¬ Renumbers ev) →
      newSeqs (s.run h).2 = List.range' (ctrlS s) (ctrlS (s.run h).1 - ctrlS s)) := by
  induction h with
  | nil =>
    intro s hg _
    simp only [Sess.run, newSeqs]
    refine ⟨hg, List.Pairwise.nil, ?_, Nat.le_refl _, ?_⟩
    · intro x hx; cases hx
    · intro _; simp
  | cons ev rest ih =>
    intro s hg hp
    obtain ⟨g1, k, n1, n2, n3⟩ := C16_step s ev hg (hp ev (List.mem_cons_self))
    obtain ⟨i1, i2, i3, i4, i5⟩ := ih (s.step ev).1 g1 (fun e he => hp e (List.mem_cons_of_mem _ he))
    simp only [Sess.run]
    rw [newSeqs_append, n1]
    refine ⟨i1, ?_, ?_, by omega, ?_⟩
    · rw [List.pairwise_append]
      refine ⟨List.pairwise_lt_range', i2, ?_⟩
      intro x hx y hy
      rw [List.mem_range'_1] at hx
      have := (i3 y hy).1
      omega
    · intro x hx
      rcases List.mem_append.mp hx with hx | hx
      · rw [List.mem_range'_1] at hx; omega
      · have := i3 x hx; omega
    · intro hr
      have e1 := n3 (hr ev (List.mem_cons_self))
      rw [i5 (fun e he => hr e (List.mem_cons_of_mem _ he)), e1]
      obtain ⟨d, hd⟩ := Nat.exists_eq_add_of_le i4
      rw [hd, e1, show ctrlS s + k + d - (ctrlS s + k) = d by omega, show ctrlS s + k + d - ctrlS s = k + d by omega,
        List.range'_append_1]

/-- the first start of a session over a fresh persister: the Logon carries the configured start number (or 1) -/
theorem first_start (cfg : Cfg) (code : Code) (ss rs : Nat) :
    Good ((Sess.init cfg code true).step (.start ss rs)).1 ∧
    newSeqs ((Sess.init cfg code true).step (.start ss rs)).2 = [if ss ≠ 0 then ss else 1] ∧
    ctrlS ((Sess.init cfg code true).step (.start ss rs)).1 = (if ss ≠ 0 then ss else 1) + 1 := by
  refine ⟨⟨rfl, rfl, ?_⟩, ?_, ?_⟩
  · by_cases h : ss = 0 <;> by_cases h2 : rs = 0 <;>
      simp [Sess.step, startSession, Sess.init, sendProcess, mkLogon, Sess.fresh, SpecG.cput, h, h2]
  · by_cases h : ss = 0 <;> simp [Sess.step, startSession, Sess.init, sendProcess, mkLogon, Sess.fresh, newSeqs, h]
  · by_cases h : ss = 0 <;> by_cases h2 : rs = 0 <;>
      simp [Sess.step, startSession, Sess.init, sendProcess, mkLogon, Sess.fresh, SpecG.cput, ctrlS, h, h2]

/-- **C16, consecutive**: a session over a fresh persister is started with a configured (or default 1) send number;
then ANY history of plain sends, batches, inbound traffic and restarts, without a ResendRequest to answer: the new
messages of the whole run (all incarnations) carry exactly `first, first+1, first+2, …`. -/
theorem C16_consecutive (cfg : Cfg) (code : Code) (ss rs : Nat) (rest : List Ev)
    (hp : ∀ ev ∈ rest, PlainEv ev) (hr : ∀ ev ∈ rest, ¬ Renumbers ev) :
    newSeqs ((Sess.init cfg code true).run (.start ss rs :: rest)).2 =
      List.range' (if ss ≠ 0 then ss else 1) (newSeqs ((Sess.init cfg code true).run (.start ss rs :: rest)).2).length := by
  obtain ⟨g, n, c⟩ := first_start cfg code ss rs
  obtain ⟨_, _, _, i4, i5⟩ := C16_run rest _ g hp
  have e := i5 hr
  simp only [Sess.run]
  rw [newSeqs_append, n, e, c]
  simp only [List.length_append, List.length_cons, List.length_nil, List.length_range']
  rw [show (0 + 1 + (ctrlS (((Sess.init cfg code true).step (.start ss rs)).1.run rest).1 - ((if ss ≠ 0 then ss else 1) + 1)))
        = 1 + (ctrlS (((Sess.init cfg code true).step (.start ss rs)).1.run rest).1 - ((if ss ≠ 0 then ss else 1) + 1)) by omega,
      ← List.range'_append_1]
  rfl

/-- **C16, no repeats**: the same with ResendRequests allowed: strictly increasing, so no two new messages share a number. -/
theorem C16_no_repeats (cfg : Cfg) (code : Code) (ss rs : Nat) (rest : List Ev) (hp : ∀ ev ∈ rest, PlainEv ev) :
    (newSeqs ((Sess.init cfg code true).run (.start ss rs :: rest)).2).Pairwise (· < ·) := by
  obtain ⟨g, n, c⟩ := first_start cfg code ss rs
  obtain ⟨_, i2, i3, _, _⟩ := C16_run rest _ g hp
  simp only [Sess.run]
  rw [newSeqs_append, n, List.pairwise_append]
  refine ⟨List.pairwise_singleton _ _, i2, ?_⟩
  intro x hx y hy
  rw [List.mem_singleton] at hx; subst hx
  have := (i3 y hy).1
  omega

/-! ### the control record -/

/-- the known-finding class of the control-record clause -/
def CtrlExcluded (s : Sess) (ev : Ev) : Prop :=
  Flagged ev ∨
  ∃ scan dec, ev = .inbound scan dec ∧ s.started = true ∧ s.shutdown = false ∧ pathOf s scan dec = .logoffLogout

/-- **C16, control record, one step**: in every state with an empty batch buffer whose control record is right, every
event outside the excluded classes leaves it equal to (next send, next receive). -/
theorem C16_control_step (s : Sess) (ev : Ev) (hb : s.buf = []) (hc : CtrlOK s) (hx : ¬ CtrlExcluded s ev) :
    CtrlOK (s.step ev).1 ∧ (s.step ev).1.buf = [] := by
  have plain : ∀ q : Snd, q.plain → CtrlOK (sendProcess s q).1 ∧ (sendProcess s q).1.buf = [] := by
    intro q hq
    obtain ⟨h1, h2, h3, h4, h5, h6⟩ := sendProcess_plain s q hb hq
    refine ⟨?_, h5⟩
    intro st hst
    rw [h6] at hst
    cases hs : s.store with
    | none => rw [hs] at hst; cases hst
    | some st0 => rw [hs] at hst; simp at hst; rw [← hst, h4]; rfl
  cases ev with
  | clock ms => exact ⟨hc, hb⟩
  | start ss rs =>
    have logon_ctrl : ∀ x : Sess, x.buf = [] →
        CtrlOK { (sendProcess x { m := mkLogon x }).1 with state := .logonSent } ∧
        ({ (sendProcess x { m := mkLogon x }).1 with state := .logonSent } : Sess).buf = [] := by
      intro x hxb
      obtain ⟨h1, h2, h3, h4, h5, h6⟩ := sendProcess_plain x _ hxb (plain_logon x)
      refine ⟨?_, h5⟩
      intro st hst
      have hst' : (sendProcess x { m := mkLogon x }).1.store = some st := hst
      rw [h6] at hst'
      show st.ctrl = some ((sendProcess x { m := mkLogon x }).1.ns, x.nr)
      cases hs : x.store with
      | none => rw [hs] at hst'; cases hst'
      | some st0 => rw [hs] at hst'; simp at hst'; rw [← hst', h4]; rfl
    simp only [Sess.step, startSession]
    cases hq : s.store.bind (·.ctrl) with
    | none => exact logon_ctrl _ rfl
    | some ab => obtain ⟨a, b⟩ := ab; exact logon_ctrl _ rfl
  | appSend pid c n =>
    have hf : c = 0 ∧ n = false := by
      have : ¬ Flagged (.appSend pid c n) := fun h => hx (Or.inl h)
      simp only [Flagged, not_or] at this
      exact ⟨by simpa using this.1, by simpa using this.2⟩
    simp only [Sess.step]
    split
    · obtain ⟨hc0, hn⟩ := hf; subst hc0; subst hn
      exact plain { m := mkOrder s pid, custom := 0, noInc := false } (plain_order s pid)
    · exact ⟨hc, hb⟩
  | admSend c n =>
    have hf : c = 0 ∧ n = false := by
      have : ¬ Flagged (.admSend c n) := fun h => hx (Or.inl h)
      simp only [Flagged, not_or] at this
      exact ⟨by simpa using this.1, by simpa using this.2⟩
    simp only [Sess.step]
    split
    · obtain ⟨hc0, hn⟩ := hf; subst hc0; subst hn
      exact plain { m := mkHeartbeat s none, custom := 0, noInc := false } (plain_heartbeat s none)
    · exact ⟨hc, hb⟩
  | batch pids =>
    simp only [Sess.step]
    split
    · cases pids with
      | nil => exact ⟨hc, hb⟩
      | cons p ps =>
        obtain ⟨h1, h2, h3, h4, h5, h6⟩ := sendBatch_spec (p :: ps) s (by simp)
        refine ⟨?_, h4⟩
        intro st hst
        cases hs : s.store with
        | none =>
          have := h6.2; rw [hs, hst] at this; cases this
        | some st0 =>
          obtain ⟨st', hst', hc'⟩ := h5 st0 hs
          rw [hst'] at hst; cases hst; rw [hc', h2, h3]
    · exact ⟨hc, hb⟩
  | inbound scan dec =>
    simp only [Sess.step]
    split
    · rename_i hact
      obtain ⟨p1, p2, k, p3, p4⟩ := process_spec s scan dec hb
      refine ⟨?_, p1⟩
      cases hpath : pathOf s scan dec with
      | ignored => rw [hpath] at p4; rw [p4.2]; exact hc
      | normal => rw [hpath] at p4; exact p4.2.2
      | reject => rw [hpath] at p4; exact p4.2.2
      | logoffLogout => exact absurd (Or.inr ⟨scan, dec, rfl, hact.1, hact.2, hpath⟩) hx
      | logoffQuiet =>
        rw [hpath] at p4
        obtain ⟨_, _, q2, q3, q4⟩ := p4
        intro st hst
        rw [q4] at hst; rw [q2, q3]; exact hc st hst
    · exact ⟨hc, hb⟩

/-- the excluded classes are avoided along the whole run -/
def Along (P : Sess → Ev → Prop) : Sess → List Ev → Prop
  | _, [] => True
  | s, ev :: rest => P s ev ∧ Along P (s.step ev).1 rest

theorem Along_append {P : Sess → Ev → Prop} (a b : List Ev) : ∀ s, Along P s (a ++ b) → Along P s a := by
  induction a with
  | nil => intro s _; trivial
  | cons x xs ih => intro s h; exact ⟨h.1, ih _ h.2⟩

/-- **C16 over histories, control record**: after EVERY history that stays outside the excluded classes (and, `Along`
being prefix-closed, after every step of it) the persisted control record equals (next send, next receive). -/
theorem C16_control_history (h : List Ev) : ∀ (s : Sess), s.buf = [] → CtrlOK s →
    Along (fun s ev => ¬ CtrlExcluded s ev) s h → CtrlOK (s.run h).1 := by
  induction h with
  | nil => intro s _ hc _; exact hc
  | cons ev rest ih =>
    intro s hb hc ha
    obtain ⟨c1, b1⟩ := C16_control_step s ev hb hc ha.1
    exact ih _ b1 c1 ha.2

/-- ... in particular from the very first start over a fresh persister (the empty world is vacuously right:
its record is compared only once a session wrote one) -/
theorem C16_control_from_start (cfg : Cfg) (code : Code) (ss rs : Nat) (rest : List Ev)
    (ha : Along (fun s ev => ¬ CtrlExcluded s ev) ((Sess.init cfg code true).step (.start ss rs)).1 rest) :
    CtrlOK ((Sess.init cfg code true).run (.start ss rs :: rest)).1 := by
  simp only [Sess.run]
  have h1 : CtrlOK ((Sess.init cfg code true).step (.start ss rs)).1 ∧ ((Sess.init cfg code true).step (.start ss rs)).1.buf = [] := by
    refine ⟨?_, rfl⟩
    intro st hst
    by_cases h : ss = 0 <;> by_cases h2 : rs = 0 <;>
      simp [Sess.step, startSession, Sess.init, sendProcess, mkLogon, Sess.fresh, SpecG.cput, h, h2] at hst ⊢ <;>
      (rw [← hst])
  exact C16_control_history rest _ h1.2 h1.1 ha

/-! ### non-vacuity -/

def cfg0 : Cfg := ⟨true, 1, 2⟩
def logonReply (seq : Nat) : Msg := { mtype := .logon, seq := seq, snd := 2, tgt := 1 }
def order (seq : Nat) : Msg := { mtype := .app 68, seq := seq, snd := 2, tgt := 1, pid := some 9, admin := false }

/-- a history with handshake, sends, a batch, inbound traffic incl. an undecodable frame, a restart and more sends:
numbers 1..9 without a hole -/
example : newSeqs ((Sess.init cfg0 Code.fixed true).run
    [.start 0 0, .inbound (some 1) (.ok (logonReply 1)), .appSend 7 0 false, .batch [8, 9, 10], .inbound (some 2) (.ok (order 2)),
     .inbound (some 3) (.throws false), .admSend 0 false, .start 0 0, .inbound (some 4) (.ok (logonReply 4)), .appSend 11 0 false]).2
    = [1, 2, 3, 4, 5, 6, 7, 8, 9] := by decide

example : PlainEv (.appSend 7 0 false) := ⟨by simp [Flagged], fun _ _ h => by cases h⟩
example : PlainEv (.start 0 5) := ⟨by simp [Flagged], fun ss rs h => by cases h; rfl⟩
example : ¬ Renumbers (.inbound (some 2) (.ok (order 2))) := by simp [Renumbers, order]

/-! ### findings -/

/-- a session in the `continuous` state with a right control record -/
def s7 : Sess := { cfg := cfg0, started := true, state := .continuous, ns := 7, nr := 5, store := some ⟨[], some (7, 5)⟩ }

/-- KNOWN finding `control-ahead-after-no-increment` (row 25): after `send(msg, 0, no_increment = true)` the session's next
send number is still 7 but the control record says 8. -/
theorem C16_finding_control_ahead :
    CtrlOK s7 ∧ Flagged (.appSend 1 0 true) ∧
    (s7.step (.appSend 1 0 true)).1.ns = 7 ∧ ((s7.step (.appSend 1 0 true)).1.store.bind (·.ctrl)) = some (8, 5) ∧
    ¬ CtrlOK (s7.step (.appSend 1 0 true)).1 := by
  refine ⟨by intro st h; cases h; rfl, Or.inr rfl, by decide, by decide, ?_⟩
  intro h
  have := h _ rfl
  revert this; decide

/-- the same class: the Logout written by the forced-logoff exit (state `logon_received`) does not increment -/
theorem C16_finding_control_ahead_logout :
    pathOf { s7 with state := .logonSent } (some 9) (.ok (logonReply 9)) = .logoffLogout ∧
    (({ s7 with state := .logonSent }.step (.inbound (some 9) (.ok (logonReply 9)))).1.store.bind (·.ctrl)) = some (8, 5) ∧
    ({ s7 with state := .logonSent }.step (.inbound (some 9) (.ok (logonReply 9)))).1.ns = 7 := by
  refine ⟨by decide, by decide, by decide⟩

/-- regression of the repaired finding `control-behind-after-reject`: an undecodable frame is answered by a Reject, the
expected number goes from 5 to 6 and the control record follows (it kept receive number 5 before the repair). -/
theorem C16_regression_control_after_reject :
    pathOf s7 (some 5) (.throws false) = .reject ∧ ¬ CtrlExcluded s7 (.inbound (some 5) (.throws false)) ∧
    (s7.step (.inbound (some 5) (.throws false))).1.nr = 6 ∧ (s7.step (.inbound (some 5) (.throws false))).1.ns = 8 ∧
    ((s7.step (.inbound (some 5) (.throws false))).1.store.bind (·.ctrl)) = some (8, 6) := by
  refine ⟨by decide, ?_, by decide, by decide, by decide⟩
  rintro (h | ⟨scan, dec, he, _, _, hp⟩)
  · exact h
  · cases he; revert hp; decide

/-- `Flagged` sends are excluded from the numbering clause because they renumber by request: after a `no_increment`
send the next plain message carries the same number. -/
theorem C16_finding_no_increment_repeat :
    newSeqs (s7.run [.appSend 1 0 true, .appSend 2 0 false]).2 = [7, 7] := by decide

end Fix8Model.Props.C16
