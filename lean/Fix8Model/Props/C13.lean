import Fix8Model.Compiler.CompileLemmas
/-!
C13 – Schema compiler output implements the schema (model lemmas; the correspondence of the model with the real f8c + g++
is established per generated schema by the translation-validation stream `f8c`, see tools/props/c13.py).

`compile : Schema → Option Metadata` (Fix8Model/Compiler/Compile.lean) follows f8precomp.cpp / f8c.cpp / f8cutils.cpp path by path.
Proved about it, for EVERY schema (no well-formedness hypothesis beyond "the compiler accepts it"):

* `C13_tables_sorted`      field table strictly ordered by number, message table strictly ordered by msgtype, every trait array
                           of every message and of every generated group level strictly ordered by tag (so the lookup theorems of
                           C12 apply to every table the compiler can emit).
* `C13_message_rows`       every message-table entry stems from the header, the trailer or one `<message>`: key = msgtype,
                           name, admin flag ↔ msgcat is "admin" (case-insensitively); every trait of the message is the image of ONE child
                           of the component-expanded body (`RowOf`: tag and type of the named field, component index of the `component`
                           attribute, mandatory bit ↔ `required == "Y"`, group bit ↔ `<group>`, position bit, special handling of
                           8/9/10/35) and its position is 1 + the number of traits whose child comes earlier: the positions are
                           exactly 1..n and strictly increasing in schema order.
* `C13_group_rows`         the same for every repeating group definition the compiler stores (any depth); there the position is the
                           child index itself (f8c never renumbers group levels: `process_group_ordering` only touches copies).
* `C13_fields_present`     every tag of every generated trait array (all messages, all group levels) has an entry in the field
                           table, and every entry of the field table is a declared field (number, name, known type, its domain).
* `C13_domains_sorted`     every enumerated domain is strictly ordered by value (ints, chars, decimals numerically, strings lexicographically).
* `C13_nesting_preserved`  every group of every message is generated from its own definition, nested groups included – for every
                           schema with fewer than 2^32 group occurrences (the bound the 32-bit probing loop of the fixed
                           `parse_groups` needs, `Props.C14.C14_probe_exits`); no hypothesis on the structural hash any more.
* `C13_expansion_*`        component expansion: fields outside components keep their `required`; below a non-required reference
                           `Y` becomes `N`; the depth-3 rule of `process_component` (known finding `optional-outer-component-ignored`).
-/
namespace Fix8Model.Props.C13
open Fix8Model.Compiler Fix8Model.Gen

/-- `compile` is `load` followed by emission -/
theorem compile_load (s : Schema) (md : Metadata) (h : compile s = some md) :
    ∃ l, load s = some l ∧
      Rel2 (fun ms mm => emitMsg (buildMap l.occs) (maxDepth l.occs + 1) ms = some mm) l.msgs md.msgs ∧
      md.fields = (l.ctx.fspec.filter fun f => (usedTags l).contains f.number).map (fun f => ⟨f.number, f.name, f.realm⟩) ∧
      md.comps = l.ctx.compNames := by
  unfold compile at h
  cases hl : load s with
  | none => simp [hl] at h
  | some l =>
    simp only [hl] at h
    cases hm : optMapM (emitMsg (buildMap l.occs) (maxDepth l.occs + 1)) l.msgs with
    | none => simp [hm] at h
    | some msgs =>
      simp only [hm, Option.some.injEq] at h
      subst h
      exact ⟨l, rfl, optMapM_forall _ _ _ hm, rfl, rfl⟩

theorem emitMsg_fields (m : CGMap) (fuel : Nat) (ms : MsgSpec) (mm : MsgMeta) (h : emitMsg m fuel ms = some mm) :
    mm.key = ms.key ∧ mm.name = ms.name ∧ mm.admin = ms.admin ∧ mm.traits = processOrdering ms.lvl.ts ∧
      optMapGroups (resolve m fuel) ms.lvl.gs = some mm.groups := by
  simp only [emitMsg, Option.map_eq_some_iff] at h
  obtain ⟨gs, hgs, rfl⟩ := h
  exact ⟨rfl, rfl, rfl, rfl, hgs⟩

/-- all generated tables are strictly ordered by their key -/
theorem C13_tables_sorted (s : Schema) (md : Metadata) (h : compile s = some md) :
    (md.fields.map (·.number)).Pairwise (· < ·) ∧ (md.msgs.map (·.key)).Pairwise (· < ·) ∧
      ∀ mm ∈ md.msgs, SortedTags mm.traits ∧ ∀ g ∈ mm.groups, AllLevels SortedTags g.2 := by
  obtain ⟨l, hl, hrel, hf, _⟩ := compile_load s md h
  obtain ⟨hnum, _, hkeys, _, hgood, hmsgs⟩ := load_spec s l hl
  refine ⟨?_, ?_, ?_⟩
  · rw [hf, List.map_map]
    have : ((fun f : FieldMeta => f.number) ∘ fun f : FSpec => (⟨f.number, f.name, f.realm⟩ : FieldMeta)) = (·.number) := rfl
    rw [this]
    exact List.Pairwise.sublist (List.Sublist.map _ List.filter_sublist) hnum
  · have : l.msgs.map (·.key) = md.msgs.map (·.key) :=
      forall₂_map_eq _ _ (fun a b hab => (emitMsg_fields _ _ a b hab).1.symm) hrel
    rw [← this]; exact hkeys
  · intro mm hmm
    obtain ⟨ms, hms, hem⟩ := forall₂_mem_right hrel mm hmm
    obtain ⟨_, _, _, htr, hgs⟩ := emitMsg_fields _ _ ms mm hem
    obtain ⟨depth, body, pb, _, hp, _⟩ := (hmsgs ms hms).1
    refine ⟨?_, ?_⟩
    · unfold SortedTags
      rw [htr, processOrdering_tags]
      exact (parseMsgBody_rows l.ctx pb ms.lvl hp).1
    · intro g hg
      obtain ⟨g0, _, _, hr⟩ := optMapGroups_forall _ _ _ hgs g hg
      refine resolve_levels l.occs SortedTags ?_ _ _ _ _ hr
      intro o ho
      have := (hgood o ho).1
      cases ho2 : o.2 with
      | mk ts gs => rw [ho2] at this; simp only [SortedSpec, AllLevels] at this; exact this.1

/-- every message-table entry and every one of its traits comes from the schema -/
theorem C13_message_rows (s : Schema) (md : Metadata) (h : compile s = some md) (mm : MsgMeta) (hmm : mm ∈ md.msgs) :
    ∃ l depth body pb ts, load s = some l ∧ Src s mm.key mm.name mm.admin depth body ∧ expBody s depth body = some pb ∧
      SortedTags ts ∧ (∀ t ∈ ts, RowOf l.ctx pb t) ∧
      mm.traits = ts.map (fun t => { t with pos := before ts t + 1 }) ∧
      (mm.traits.map (·.pos)).Perm (List.range' 1 ts.length) ∧
      (∀ a ∈ ts, ∀ b ∈ ts, (before ts a + 1 < before ts b + 1 ↔ a.pos < b.pos)) := by
  obtain ⟨l, hl, hrel, _, _⟩ := compile_load s md h
  obtain ⟨_, _, _, _, _, hmsgs⟩ := load_spec s l hl
  obtain ⟨ms, hms, hem⟩ := forall₂_mem_right hrel mm hmm
  obtain ⟨hk, hn, ha, htr, _⟩ := emitMsg_fields _ _ ms mm hem
  obtain ⟨depth, body, pb, he, hp, hsrc⟩ := (hmsgs ms hms).1
  obtain ⟨hsort, hrows⟩ := parseMsgBody_rows l.ctx pb ms.lvl hp
  have htags := sorted_nodup_tags ms.lvl.ts hsort
  have hpos := rows_nodup_pos l.ctx pb ms.lvl.ts hsort hrows
  refine ⟨l, depth, body, pb, ms.lvl.ts, hl, by rw [hk, hn, ha]; exact hsrc, he, hsort, hrows, ?_, ?_, ?_⟩
  · rw [htr, processOrdering_rank _ htags hpos]
  · rw [htr]; exact processOrdering_positions _ htags hpos
  · intro a ha b hb
    have := before_lt_iff ms.lvl.ts a b ha hb
    omega

/-- every stored group definition (any depth): ordered by tag, each trait the image of one child of the group element,
position = child index; its nested definitions are stored as well -/
theorem C13_group_rows (s : Schema) (l : Loaded) (h : load s = some l) (o : Nat × GSpec) (ho : o ∈ l.occs) :
    AllLevels SortedTags o.2 ∧ (∀ t ∈ o.2.traits, KnownTag l.ctx t.tag) ∧ (∀ g ∈ o.2.groups, g ∈ l.occs) := by
  obtain ⟨_, _, _, hcl, hgood, _⟩ := load_spec s l h
  refine ⟨?_, (hgood o ho).2, hcl o ho⟩
  exact (hgood o ho).1

/-- every tag the generated traits mention is in the generated field table; the field table holds declared fields only -/
theorem C13_fields_present (s : Schema) (md : Metadata) (h : compile s = some md) :
    (∀ mm ∈ md.msgs, ∀ t ∈ mm.traits, ∃ f ∈ md.fields, f.number = t.tag) ∧
    (∀ mm ∈ md.msgs, ∀ g ∈ mm.groups, AllLevels (fun ts => ∀ t ∈ ts, ∃ f ∈ md.fields, f.number = t.tag) g.2) ∧
    (∀ f ∈ md.fields, ∃ d ∈ s.fields, f.number = d.number ∧ f.name = d.name ∧ ∃ ft, baseTypeMap.lookup (upperA d.type) = some ft ∧ mkRealm ft d.values = some f.realm) := by
  obtain ⟨l, hl, hrel, hf, _⟩ := compile_load s md h
  obtain ⟨_, hlf, _, _, hgood, hmsgs⟩ := load_spec s l hl
  -- a known tag that is used is in the emitted table
  have emit : ∀ tag, KnownTag l.ctx tag → tag ∈ usedTags l → ∃ f ∈ md.fields, f.number = tag := by
    intro tag ⟨fs, hfs, hnum⟩ hu
    refine ⟨⟨fs.number, fs.name, fs.realm⟩, ?_, hnum⟩
    rw [hf]
    refine List.mem_map.mpr ⟨fs, List.mem_filter.mpr ⟨hfs, ?_⟩, rfl⟩
    rw [hnum]; simpa using hu
  have specTags_mem : ∀ (occs : List (Nat × GSpec)) (o : Nat × GSpec), o ∈ occs → ∀ t ∈ o.2.traits, t.tag ∈ specTagsList occs := by
    intro occs
    induction occs with
    | nil => intro o ho; simp at ho
    | cons x xs ih =>
      intro o ho t ht
      obtain ⟨xt, xg⟩ := x
      simp only [specTagsList]
      rcases List.mem_cons.mp ho with rfl | ho
      · cases xg with
        | mk ts gs =>
          simp only [GSpec.traits] at ht
          simp only [specTags]
          exact List.mem_append.mpr (Or.inl (List.mem_append.mpr (Or.inl (List.mem_map.mpr ⟨t, ht, rfl⟩))))
      · exact List.mem_append.mpr (Or.inr (ih o ho t ht))
  refine ⟨?_, ?_, ?_⟩
  · intro mm hmm t ht
    obtain ⟨ms, hms, hem⟩ := forall₂_mem_right hrel mm hmm
    obtain ⟨_, _, _, htr, _⟩ := emitMsg_fields _ _ ms mm hem
    obtain ⟨depth, body, pb, _, hp, _⟩ := (hmsgs ms hms).1
    have hrows := (parseMsgBody_rows l.ctx pb ms.lvl hp).2
    -- the tag of t is the tag of a row of the level
    have : t.tag ∈ ms.lvl.ts.map (·.tag) := by
      rw [← processOrdering_tags, ← htr]; exact List.mem_map.mpr ⟨t, ht, rfl⟩
    obtain ⟨t0, ht0, he⟩ := List.mem_map.mp this
    rw [← he]
    refine emit t0.tag (rowOf_known l.ctx pb t0 (hrows t0 ht0)) ?_
    simp only [usedTags]
    exact List.mem_append.mpr (Or.inl (List.mem_flatMap.mpr ⟨ms, hms, List.mem_map.mpr ⟨t0, ht0, rfl⟩⟩))
  · intro mm hmm g hg
    obtain ⟨ms, hms, hem⟩ := forall₂_mem_right hrel mm hmm
    obtain ⟨_, _, _, _, hgs⟩ := emitMsg_fields _ _ ms mm hem
    obtain ⟨g0, _, _, hr⟩ := optMapGroups_forall _ _ _ hgs g hg
    refine resolve_levels l.occs _ ?_ _ _ _ _ hr
    intro o ho t ht
    refine emit t.tag ((hgood o ho).2 t ht) ?_
    simp only [usedTags]
    exact List.mem_append.mpr (Or.inr (specTags_mem l.occs o ho t ht))
  · intro f hfm
    rw [hf] at hfm
    obtain ⟨fs, hfs, rfl⟩ := List.mem_map.mp hfm
    have hmem := (List.mem_filter.mp hfs).1
    rcases loadFields_from s.fields [] l.ctx.fspec hlf fs hmem with h0 | ⟨d, hd, h1, h2, h3, h4⟩
    · simp at h0
    · exact ⟨d, hd, h1, h2, fs.ftype, h3, h4⟩

/-- every enumerated domain of the field table is strictly ordered by value (so the C10 lookup theorems apply to it) -/
theorem C13_domains_sorted (s : Schema) (md : Metadata) (h : compile s = some md) (f : FieldMeta) (hf : f ∈ md.fields)
    (r : Realm) (hr : f.realm = some r) : SortedR r.vals := by
  obtain ⟨d, _, _, _, ft, _, hm⟩ := (C13_fields_present s md h).2.2 f hf
  rw [hr] at hm
  exact mkRealm_sorted ft d.values r hm

/-- group nesting is preserved (since the fix of C14: without any hypothesis on the structural hash) -/
theorem C13_nesting_preserved (s : Schema) (md : Metadata) (h : compile s = some md) (l : Loaded) (hl : load s = some l)
    (hb : l.occs.length < 2 ^ 32) :
    Rel2 (fun ms mm => mm.groups = ms.lvl.gs ∧ mm.key = ms.key) l.msgs md.msgs := by
  obtain ⟨l', hl', hrel, _, _⟩ := compile_load s md h
  rw [hl] at hl'; cases hl'
  obtain ⟨_, _, _, hcl, _, hmsgs⟩ := load_spec s l hl
  have conv : ∀ (a : List MsgSpec) (b : List MsgMeta), (∀ ms ∈ a, ms ∈ l.msgs) →
      Rel2 (fun ms mm => emitMsg (buildMap l.occs) (maxDepth l.occs + 1) ms = some mm) a b →
      Rel2 (fun ms mm => mm.groups = ms.lvl.gs ∧ mm.key = ms.key) a b := by
    intro a b hsub hr
    induction hr with
    | nil => exact Rel2.nil
    | @cons ms mm la lb hab _ ih =>
      refine Rel2.cons ?_ (ih (fun x hx => hsub x (by simp [hx])))
      obtain ⟨hk, _, _, _, hgs⟩ := emitMsg_fields _ _ ms mm hab
      have hin := (hmsgs ms (hsub ms (by simp))).2
      have : optMapGroups (resolve (buildMap l.occs) (maxDepth l.occs + 1)) ms.lvl.gs = some ms.lvl.gs := by
        apply optMapGroups_id
        intro g hg
        exact resolve_own l.occs hcl hb _ g (hin g hg) (Nat.le_succ_of_le (le_maxDepth l.occs g (hin g hg)))
      rw [this] at hgs
      exact ⟨(Option.some.inj hgs).symm, hk⟩
  exact conv l.msgs md.msgs (fun _ h => h) hrel

/-! ### component expansion (f8precomp.cpp) -/

/-- a field written directly in a message / group body is copied with its own `required` when nothing above it is optional -/
theorem C13_expansion_plain (look : String → Bool → Nat → Option (List PElem)) (depth : Nat) (compon name req : String) :
    expElem look depth compon true (.field name req) = some [.field name req compon] := by
  simp [expElem, rwReq]

/-- below a non-required reference every `required='Y'` becomes `'N'` -/
theorem C13_expansion_optional (look : String → Bool → Nat → Option (List PElem)) (depth : Nat) (compon name : String) :
    expElem look depth compon false (.field name "Y") = some [.field name "N" compon] := by
  simp [expElem, rwReq]

/-- the rule for a component reference: at depth 3 (children of a message) the reference's own `required` alone is handed
down – an enclosing optional reference is forgotten; at every other depth it is the conjunction -/
theorem C13_expansion_component (look : String → Bool → Nat → Option (List PElem)) (depth : Nat) (compon name req : String) (required : Bool) :
    expElem look depth compon required (.comp name req) =
      look name (if depth == 3 then reqBool req else reqBool req && required) depth := by
  simp [expElem]

/-- FINDING `optional-outer-component-ignored`: message level, `Outer` referenced with required='N', its definition references
`Inner` with required='Y', `Inner` holds a required field: the field stays mandatory in the message … -/
def exComps : List (String × List Elem) := [("Inner", [.field "F1" "Y"]), ("Outer", [.field "F2" "Y", .comp "Inner" "Y"])]

/-- flat rendering of expanded field elements (name, required, component) for evaluation by `decide` -/
def renderFields : List PElem → List (String × String × String)
  | [] => []
  | .field n r c :: rest => (n, r, c) :: renderFields rest
  | .group n r c _ :: rest => (n, r, c) :: renderFields rest

theorem C13_finding_depth3 :
    (expList (expComp exComps 3) 3 "" true [.comp "Outer" "N"]).map renderFields = some [("F2", "N", "Outer"), ("F1", "Y", "Inner")] := by decide

/-- … while the same structure inside a repeating group (depth 4) gives `N` for both -/
theorem C13_finding_depth3_in_group :
    (expList (expComp exComps 3) 4 "" true [.comp "Outer" "N"]).map renderFields = some [("F2", "N", "Outer"), ("F1", "N", "Inner")] := by decide

/-! ### non-vacuity: a schema with a component, a nested group and a shared group that the model compiles -/

def exSchema : Schema :=
  { kind := "FIX", major := 4, minor := 4, revision := 0,
    fields := [⟨8, "BeginString", "STRING", []⟩, ⟨9, "BodyLength", "LENGTH", []⟩, ⟨35, "MsgType", "STRING", [⟨"A", "ALPHA", ""⟩, ⟨"B", "", ""⟩]⟩,
               ⟨10, "CheckSum", "STRING", []⟩, ⟨2, "F2", "int", []⟩, ⟨3, "F3", "CHAR", [⟨"x", "EX", ""⟩, ⟨"a", "AY", ""⟩]⟩, ⟨100, "F100", "STRING", []⟩,
               ⟨200, "F200", "PRICE", [⟨"5", "UP", "upper"⟩, ⟨"1.5", "LO", "lower"⟩]⟩, ⟨300, "NoG", "NUMINGROUP", []⟩, ⟨301, "NoH", "NUMINGROUP", []⟩,
               ⟨201, "F201", "STRING", []⟩, ⟨999, "Unused", "STRING", []⟩, ⟨998, "Odd", "WIBBLE", []⟩],
    comps := [("Opt", [.field "F201" "Y"]), ("Blk", [.field "F200" "Y", .group "NoG" "Y" [.field "F2" "Y", .group "NoH" "N" [.field "F3" "Y"]]])],
    header := [.field "BeginString" "Y", .field "BodyLength" "Y", .field "MsgType" "Y"],
    trailer := [.field "CheckSum" "Y"],
    msgs := [⟨"Alpha", "A", "admin", [.field "F100" "Y", .comp "Blk" "Y", .comp "Opt" "N"]⟩, ⟨"Beta", "B", "app", [.comp "Blk" "Y", .field "F100" "N"]⟩] }

example : (compile exSchema).isSome = true := by decide

example : ((compile exSchema).map (fun md => (md.fields.map (·.number), md.msgs.map (fun m => (m.key, m.admin, m.traits.map (fun t => (t.tag, t.pos, t.flags)))))) ==
    some ([2, 3, 8, 9, 10, 35, 100, 200, 201, 300, 301],
          [("A", true, [(100, 1, 5), (200, 2, 21), (201, 4, 20), (300, 3, 29)]), ("B", false, [(100, 3, 4), (200, 1, 21), (300, 2, 29)]),
           ("header", false, [(8, 1, 100), (9, 2, 100), (35, 3, 68)]), ("trailer", false, [(10, 1, 100)])])) = true := by decide

example : ∃ l, load exSchema = some l ∧ l.occs.length < 2 ^ 32 := by
  cases hl : load exSchema with
  | none => exact absurd hl (by decide)
  | some l =>
    refine ⟨l, rfl, ?_⟩
    have key : ∀ l', load exSchema = some l' → l'.occs.length < 2 ^ 32 := by decide
    exact key l hl

/-- regression for the former finding `group-hash-collision` as seen from C13: the component `Blk` holds the group `NoG` and is
referenced required='N' by Alpha and required='Y' by Beta, so the two definitions of `NoG` differ only in mandatory flags
(equal structural hash).  Each message now gets its own flags (before the fix Beta got Alpha's). -/
def exFlagSchema : Schema :=
  { exSchema with
    msgs := [⟨"Alpha", "A", "admin", [.field "F100" "Y", .comp "Blk" "N"]⟩, ⟨"Beta", "B", "app", [.comp "Blk" "Y", .field "F100" "N"]⟩] }

def groupFlags (md : Metadata) : List (String × List (Nat × List (Nat × Nat))) :=
  md.msgs.map fun m => (m.key, m.groups.map fun g => (g.1, g.2.traits.map fun t => (t.tag, t.flags)))

theorem C13_fixed_component_flags :
    ((compile exFlagSchema).map groupFlags ==
      some [("A", [(300, [(2, 4), (301, 12)])]), ("B", [(300, [(2, 5), (301, 12)])]), ("header", []), ("trailer", [])]) = true := by decide

end Fix8Model.Props.C13
