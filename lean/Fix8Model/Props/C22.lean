import Fix8Model.Session.HeartbeatLemmas
import Fix8Model.Session.Logon
/-!
C22 – Heartbeat and test-request supervision follows the protocol.

Model: `Session/Heartbeat.lean`.  A timeline is a list of events (`tick t` = one call of `heartbeat_service` at
virtual time `t` ns, `recv t k` = an inbound frame, `appSend t` = the application writes a message) applied to ANY
session object `s0` (all members universally quantified, every heartbeat interval).  `final s0 evs` is the session
after the timeline, `lastEmit s0 s0.lastSent evs` the time of the last event at which the session wrote anything,
`lastIn s0.lastRecv evs` the time of the last inbound frame.  A theorem about `tick (final s0 evs) now` is a statement
about the supervision tick at `now` after an arbitrary history.
H = `s.hb` seconds; `hb20 H = H + H/5` (integer division, `unsigned`) is the code's "H plus 20 percent";
`secsBetween now t = ⌊(now - t) / 10^9⌋` is the code's `(now - t).secs()`.
-/
namespace Fix8Model.Props.C22
open Fix8Model.SessLH Fix8Model

def isHeartbeat (f : Frame) : Prop := f.msgType = "0" ∧ f.testReqId = none
def isTestRequest (f : Frame) : Prop := f.msgType = "1"
def isLogout (f : Frame) : Prop := f.msgType = "5"

/-! ### 1. Heartbeat when nothing was sent for at least H seconds -/

/-- on the state: a tick of a live session whose `_last_sent` is at least H s old writes a Heartbeat (first) -/
theorem tick_heartbeat (s : Sess) (now : Nat) (hlive : s.isShutdown = false) (hidle : s.lastSent + s.hb * nsPerSec ≤ now) :
    ∃ f rest, (tick s now).2 = f :: rest ∧ isHeartbeat f := by
  have h : secsBetween now s.lastSent ≥ s.hb := (secs_ge_iff _ _ _).2 (by omega)
  simp only [tick, hlive, Bool.false_eq_true, if_false, tickHeartbeat_out, h, if_true]
  exact ⟨_, _, rfl, by simp [isHeartbeat, hbFrame]⟩

/-- **Whenever nothing has been sent for at least H seconds the session sends a Heartbeat at its next supervision
tick** – after every timeline `evs` from every session `s0`, for the true time of the last write. -/
theorem C22_heartbeat_when_idle (s0 : Sess) (evs : List Ev) (now : Nat)
    (hlive : (final s0 evs).isShutdown = false)
    (hidle : lastEmit s0 s0.lastSent evs + s0.hb * nsPerSec ≤ now) :
    ∃ f ∈ (tick (final s0 evs) now).2, isHeartbeat f := by
  have h := tick_heartbeat (final s0 evs) now hlive (by rw [final_lastSent s0 s0.lastSent evs rfl, final_hb]; exact hidle)
  obtain ⟨f, rest, h1, h2⟩ := h
  exact ⟨f, by rw [h1]; simp, h2⟩

/-- and never earlier: a tick writes a (supervision) Heartbeat only when the last write is at least H s old -/
theorem C22_heartbeat_only_when_idle (s0 : Sess) (evs : List Ev) (now : Nat)
    (h : ∃ f ∈ (tick (final s0 evs) now).2, f.msgType = "0") :
    lastEmit s0 s0.lastSent evs + s0.hb * nsPerSec ≤ now ∨
      (s0.hb = 0 ∧ now < lastEmit s0 s0.lastSent evs) := by
  obtain ⟨f, hf, h0⟩ := h
  rw [← final_lastSent s0 s0.lastSent evs rfl, ← final_hb s0 evs]
  generalize final s0 evs = s at hf
  unfold tick at hf
  split at hf
  · simp at hf
  · simp only [List.mem_append, tickHeartbeat_out] at hf
    rcases hf with hf | hf
    · split at hf
      · rename_i hge
        have := (secs_ge_iff _ _ _).1 hge
        by_cases hz : s.hb = 0
        · by_cases hl : s.lastSent ≤ now
          · left; simp [hz]; exact hl
          · right; exact ⟨hz, by omega⟩
        · left
          have : 0 < s.hb * nsPerSec := Nat.mul_pos (by omega) (by decide)
          omega
      · simp at hf
    · exfalso
      unfold tickSilence at hf
      (repeat' split at hf) <;> simp [Sess.send, logoutFrame, trFrame] at hf <;> (rw [hf] at h0; simp at h0)

/-! ### 2. TestRequest when nothing was received for more than H plus 20 percent -/

/-- on the state: exactly when a tick writes a TestRequest -/
theorem tick_testreq_iff (s : Sess) (now : Nat) :
    (∃ f ∈ (tick s now).2, isTestRequest f) ↔
      (s.isShutdown = false ∧ s.state ≠ .testRequestSent ∧ secsBetween now s.lastRecv > hb20 s.hb) := by
  unfold tick
  by_cases hsd : s.isShutdown = true
  · simp [hsd]
  · have hsd' : s.isShutdown = false := by simpa using hsd
    have hnt : s.state ≠ .sessionTerminated := by
      intro h; simp [Sess.isShutdown, h] at hsd'
    simp only [hsd', Bool.false_eq_true, if_false, List.mem_append, tickHeartbeat_out]
    obtain ⟨e1, e2, e3, _, _⟩ := tickHeartbeat_frame s now
    unfold tickSilence
    rw [e1, e2, e3]
    by_cases h1 : secsBetween now s.lastRecv > hb20 s.hb
    · by_cases h2 : s.state = .testRequestSent
      · simp [h1, h2, Sess.send, logoutFrame, isTestRequest, hbFrame]
      · have h2' : (s.state == SessState.testRequestSent) = false := by simpa using h2
        have h3 : (s.state != SessState.sessionTerminated) = true := by simpa using hnt
        simp [h1, h2, h2', h3, Sess.send, trFrame, isTestRequest]
    · simp [h1, isTestRequest, hbFrame]

/-- **TestRequest exactly when nothing was received for `⌊silence⌋ > H + ⌊H/5⌋` seconds** (session live, no TestRequest
pending) – after every timeline, for the true time of the last inbound frame. -/
theorem C22_testreq_iff (s0 : Sess) (evs : List Ev) (now : Nat) (hlive : (final s0 evs).isShutdown = false) :
    (∃ f ∈ (tick (final s0 evs) now).2, isTestRequest f) ↔
      ((final s0 evs).state ≠ .testRequestSent ∧
        (hb20 s0.hb + 1) * nsPerSec ≤ now - lastIn s0.lastRecv evs) := by
  rw [tick_testreq_iff, final_lastRecv s0 evs hlive, final_hb, secs_gt_iff]
  simp [hlive]

/-- without `unsigned` wrap-around (H < 3.5·10^9) the allowance is H + ⌊H/5⌋ -/
theorem hb20_eq (h : Nat) (hh : h + h / 5 < 4294967296) : hb20 h = h + h / 5 := by
  unfold hb20 wrap32
  show (h + h / 5) % 4294967296 = h + h / 5
  exact Nat.mod_eq_of_lt hh

/-- **never premature**: a TestRequest is written only when the silence is strictly more than 1.2·H seconds
(`5·silence_ns > 6·H·10^9`) -/
theorem C22_testreq_only_after_120pc (s0 : Sess) (evs : List Ev) (now : Nat) (hlive : (final s0 evs).isShutdown = false)
    (hh : s0.hb + s0.hb / 5 < 4294967296)
    (h : ∃ f ∈ (tick (final s0 evs) now).2, isTestRequest f) :
    6 * (s0.hb * nsPerSec) < 5 * (now - lastIn s0.lastRecv evs) := by
  have := ((C22_testreq_iff s0 evs now hlive).1 h).2
  rw [hb20_eq _ hh] at this
  have e : (s0.hb + s0.hb / 5 + 1) * nsPerSec = s0.hb * nsPerSec + (s0.hb / 5) * nsPerSec + nsPerSec := by
    simp [Nat.add_mul]
  rw [e] at this
  have h5 : s0.hb < 5 * (s0.hb / 5) + 5 := by omega
  have : s0.hb * nsPerSec < (5 * (s0.hb / 5) + 5) * nsPerSec := Nat.mul_lt_mul_of_pos_right h5 (by decide)
  simp only [Nat.add_mul, Nat.mul_assoc] at this
  omega

/-- **never late by more than the truncation**: once the silence has reached `H + ⌊H/5⌋ + 1` whole seconds – which is
less than one second (one supervision period) beyond 1.2·H – the tick of a live session without pending TestRequest
writes one -/
theorem C22_testreq_by (s0 : Sess) (evs : List Ev) (now : Nat) (hlive : (final s0 evs).isShutdown = false)
    (hh : s0.hb + s0.hb / 5 < 4294967296) (hst : (final s0 evs).state ≠ .testRequestSent)
    (hsil : (s0.hb + s0.hb / 5 + 1) * nsPerSec ≤ now - lastIn s0.lastRecv evs) :
    ∃ f ∈ (tick (final s0 evs) now).2, isTestRequest f := by
  apply (C22_testreq_iff s0 evs now hlive).2
  rw [hb20_eq _ hh]
  exact ⟨hst, hsil⟩

/-- the threshold `H + ⌊H/5⌋ + 1` s exceeds 1.2·H s by at most one second -/
theorem C22_testreq_threshold_within_1s (h : Nat) :
    6 * (h * nsPerSec) < 5 * ((h + h / 5 + 1) * nsPerSec) ∧ 5 * ((h + h / 5 + 1) * nsPerSec) ≤ 6 * (h * nsPerSec) + 5 * nsPerSec := by
  have e : (h + h / 5 + 1) * nsPerSec = h * nsPerSec + (h / 5) * nsPerSec + nsPerSec := by simp [Nat.add_mul]
  rw [e]
  have h5 : h < 5 * (h / 5) + 5 := by omega
  have h6 : 5 * (h / 5) ≤ h := by omega
  have a : h * nsPerSec < (5 * (h / 5) + 5) * nsPerSec := Nat.mul_lt_mul_of_pos_right h5 (by decide)
  have b : (5 * (h / 5)) * nsPerSec ≤ h * nsPerSec := Nat.mul_le_mul_right _ h6
  simp only [Nat.add_mul, Nat.mul_assoc] at a b
  omega

/-- the TestRequest carries the code's TestReqID and the session waits for the answer -/
theorem C22_testreq_shape (s : Sess) (now : Nat) (f : Frame) (hf : f ∈ (tick s now).2) (h : isTestRequest f) :
    f.testReqId = some Gen.testReqIdLiteral ∧ (tick s now).1.state = .testRequestSent ∧ (tick s now).1.isShutdown = false := by
  have hc := (tick_testreq_iff s now).1 ⟨f, hf, h⟩
  obtain ⟨hsd, h2, h1⟩ := hc
  have hnt : s.state ≠ .sessionTerminated := by
    intro h; simp [Sess.isShutdown, h] at hsd
  have hsh : s.shutdown = false := by simp [Sess.isShutdown] at hsd; exact hsd.1
  unfold tick at hf ⊢
  simp only [hsd, Bool.false_eq_true, if_false, List.mem_append, tickHeartbeat_out] at hf ⊢
  obtain ⟨e1, e2, e3, e4, _⟩ := tickHeartbeat_frame s now
  have h2' : (s.state == SessState.testRequestSent) = false := by simpa using h2
  have h3 : (s.state != SessState.sessionTerminated) = true := by simpa using hnt
  unfold tickSilence at hf ⊢
  rw [e1, e2, e3] at hf ⊢
  simp only [h1, h2', h3, if_true, Bool.false_eq_true, if_false] at hf ⊢
  refine ⟨?_, by simp, by simp [Sess.isShutdown, Sess.send, e4, hsh]⟩
  rcases hf with hf | hf
  · split at hf
    · simp at hf; rw [hf] at h; simp [isTestRequest, hbFrame] at h
    · simp at hf
  · simp [Sess.send, trFrame] at hf; rw [hf]

/-! ### 3. An inbound TestRequest is answered with a Heartbeat carrying the same TestReqID -/

theorem C22_testreq_answered (s : Sess) (now : Nat) (id : String) (hlive : s.isShutdown = false) (hid : id ≠ "") :
    ∃ f, (recv s now (.testRequest id)).2 = [f] ∧ f.msgType = "0" ∧ f.testReqId = some id := by
  have : id.isEmpty = false := by
    cases h : id.isEmpty
    · rfl
    · exact absurd (String.isEmpty_iff.1 h) hid
  simp [recv, hlive, Sess.send, hbFrame, this]

/-! ### 4. An inbound Heartbeat while a TestRequest is pending returns the session to normal operation -/

theorem C22_heartbeat_resumes (s : Sess) (now : Nat) (id : Option String) (hlive : s.isShutdown = false)
    (hst : s.state = .testRequestSent) :
    (recv s now (.heartbeat id)).1.state = .continuous ∧ (recv s now (.heartbeat id)).2 = [] ∧
    (recv s now (.heartbeat id)).1.isShutdown = false ∧ (recv s now (.heartbeat id)).1.lastRecv = now := by
  have hsh : s.shutdown = false := by simp [Sess.isShutdown] at hlive; exact hlive.1
  simp [recv, hlive, hst, Sess.received, Sess.isShutdown, hsh]

/-! ### 5. Logout -/

/-- on the state: exactly when a tick writes the Logout; the session is then terminated for good -/
theorem tick_logout_iff (s : Sess) (now : Nat) :
    (∃ f ∈ (tick s now).2, isLogout f) ↔
      (s.isShutdown = false ∧ s.state = .testRequestSent ∧ secsBetween now s.lastRecv > hb20 s.hb) := by
  unfold tick
  by_cases hsd : s.isShutdown = true
  · simp [hsd]
  · have hsd' : s.isShutdown = false := by simpa using hsd
    have hnt : s.state ≠ .sessionTerminated := by
      intro h; simp [Sess.isShutdown, h] at hsd'
    simp only [hsd', Bool.false_eq_true, if_false, List.mem_append, tickHeartbeat_out]
    obtain ⟨e1, e2, e3, _, _⟩ := tickHeartbeat_frame s now
    unfold tickSilence
    rw [e1, e2, e3]
    by_cases h1 : secsBetween now s.lastRecv > hb20 s.hb
    · by_cases h2 : s.state = .testRequestSent
      · simp [h1, h2, Sess.send, logoutFrame, isLogout]
      · have h2' : (s.state == SessState.testRequestSent) = false := by simpa using h2
        have h3 : (s.state != SessState.sessionTerminated) = true := by simpa using hnt
        simp [h1, h2, h2', h3, Sess.send, trFrame, isLogout, hbFrame]
    · simp [h1, isLogout, hbFrame]

theorem tick_logout_terminates (s : Sess) (now : Nat) (h : ∃ f ∈ (tick s now).2, isLogout f) :
    (tick s now).1.state = .sessionTerminated ∧ (tick s now).1.shutdown = true := by
  obtain ⟨hsd, h2, h1⟩ := (tick_logout_iff s now).1 h
  obtain ⟨e1, e2, e3, _, _⟩ := tickHeartbeat_frame s now
  unfold tick
  simp only [hsd, Bool.false_eq_true, if_false]
  unfold tickSilence
  rw [e1, e2, e3]
  simp [h1, h2, Sess.stop]

/-- **Logout exactly when a TestRequest is pending and (still) nothing was received for `> H + ⌊H/5⌋` s**; the session
is then terminated and never writes again. -/
theorem C22_logout_iff (s0 : Sess) (evs : List Ev) (now : Nat) (hlive : (final s0 evs).isShutdown = false) :
    (∃ f ∈ (tick (final s0 evs) now).2, isLogout f) ↔
      ((final s0 evs).state = .testRequestSent ∧ (hb20 s0.hb + 1) * nsPerSec ≤ now - lastIn s0.lastRecv evs) := by
  rw [tick_logout_iff, final_lastRecv s0 evs hlive, final_hb, secs_gt_iff]
  simp [hlive]

theorem C22_logout_terminates (s : Sess) (now : Nat) (h : ∃ f ∈ (tick s now).2, isLogout f) (later : List Ev) :
    (tick s now).1.state = .sessionTerminated ∧ (tick s now).1.shutdown = true ∧
    ∀ o ∈ outputs (tick s now).1 later, o = [] := by
  obtain ⟨a, b⟩ := tick_logout_terminates s now h
  exact ⟨a, b, outputs_shutdown _ _ (by simp [Sess.isShutdown, b])⟩

def isHeartbeatIn : Ev → Prop
  | .recv _ (.heartbeat _) => True
  | _ => False

/-- a pending TestRequest has an origin: some earlier tick wrote it and no Heartbeat has arrived since -/
theorem pending_origin (s0 : Sess) (hs0 : s0.state ≠ .testRequestSent) (rev : List Ev) :
    (final s0 rev.reverse).isShutdown = false → (final s0 rev.reverse).state = .testRequestSent →
    ∃ a t b, rev.reverse = a ++ Ev.tick t :: b ∧ (∃ f ∈ (tick (final s0 a) t).2, isTestRequest f) ∧
      ∀ e ∈ b, ¬ isHeartbeatIn e := by
  induction rev with
  | nil => intro _ h; exact absurd h hs0
  | cons e es ih =>
    intro hlv h
    simp only [List.reverse_cons, final_append] at h hlv
    have hlp : (final s0 es.reverse).isShutdown = false := live_of_final_live _ [e] hlv
    simp only [final] at h
    by_cases hp : (final s0 es.reverse).state = .testRequestSent
    · obtain ⟨a, t, b, h1, h2, h3⟩ := ih hlp hp
      refine ⟨a, t, b ++ [e], by simp [h1], h2, ?_⟩
      intro x hx
      rcases List.mem_append.1 hx with hx | hx
      · exact h3 x hx
      · simp at hx; subst hx
        intro hhb
        cases x with
        | recv t k =>
          cases k with
          | heartbeat i =>
            simp [step, recv, hlp, hp, Sess.received] at h
          | _ => exact hhb
        | _ => exact hhb
    · refine ⟨es.reverse, e.time, [], ?_, ?_, by simp⟩
      · cases e with
        | tick t => simp [Ev.time]
        | recv t k =>
          exfalso
          generalize final s0 es.reverse = s at h hp
          simp only [step, recv] at h
          split at h
          · exact hp h
          · cases k <;> simp [Sess.received, Sess.send, Sess.stop] at h <;>
              first
              | exact hp h
              | (split at h <;> simp at h <;> exact hp h)
              | (split at h <;> simp_all)
        | appSend t =>
          exfalso
          generalize final s0 es.reverse = s at h hp
          simp only [step, appSend] at h
          split at h
          · exact hp h
          · simp [Sess.send] at h; exact hp h
      · cases e with
        | tick t =>
          simp only [Ev.time]
          generalize final s0 es.reverse = s at h hp
          apply (tick_testreq_iff s t).2
          simp only [step] at h
          by_cases hsd : s.isShutdown = true
          · simp [tick, hsd] at h; exact absurd h hp
          · have hsd' : s.isShutdown = false := by simpa using hsd
            refine ⟨hsd', hp, ?_⟩
            obtain ⟨e1, e2, e3, _, _⟩ := tickHeartbeat_frame s t
            unfold tick at h
            simp only [hsd', Bool.false_eq_true, if_false] at h
            unfold tickSilence at h
            rw [e1, e2, e3] at h
            by_cases h1 : secsBetween t s.lastRecv > hb20 s.hb
            · exact h1
            · simp [h1, e1] at h; exact absurd h hp
        | recv t k =>
          exfalso
          generalize final s0 es.reverse = s at h hp
          simp only [step, recv] at h
          split at h
          · exact hp h
          · cases k <;> simp [Sess.received, Sess.send, Sess.stop] at h <;>
              first
              | exact hp h
              | (split at h <;> simp at h <;> exact hp h)
              | (split at h <;> simp_all)
        | appSend t =>
          exfalso
          generalize final s0 es.reverse = s at h hp
          simp only [step, appSend] at h
          split at h
          · exact hp h
          · simp [Sess.send] at h; exact hp h

/-- **a Logout is only ever written for an unanswered TestRequest**: on every timeline that starts without a pending
TestRequest, a tick that writes the Logout is preceded by a tick that wrote a TestRequest, with no Heartbeat received
in between, and at the Logout nothing at all has been received for `> H + ⌊H/5⌋` s -/
theorem C22_logout_only_for_unanswered_testreq (s0 : Sess) (evs : List Ev) (now : Nat)
    (hs0 : s0.state ≠ .testRequestSent)
    (h : ∃ f ∈ (tick (final s0 evs) now).2, isLogout f) :
    (∃ a t b, evs = a ++ Ev.tick t :: b ∧ (∃ f ∈ (tick (final s0 a) t).2, isTestRequest f) ∧ ∀ e ∈ b, ¬ isHeartbeatIn e) ∧
    (hb20 s0.hb + 1) * nsPerSec ≤ now - lastIn s0.lastRecv evs := by
  have hc := (tick_logout_iff _ _).1 h
  have hl := (C22_logout_iff s0 evs now hc.1).1 h
  refine ⟨?_, hl.2⟩
  have := pending_origin s0 hs0 evs.reverse (by simpa using hc.1) (by simpa using hl.1)
  simpa using this

def noInbound : List Ev → Prop
  | [] => True
  | .recv _ _ :: _ => False
  | _ :: es => noInbound es

def hasTick : List Ev → Prop
  | [] => False
  | .tick _ :: _ => True
  | _ :: es => hasTick es

/-- with a TestRequest pending and the silence already beyond the allowance, the first further tick (with no inbound
frame before it) writes the Logout -/
theorem pending_logout (s : Sess) (t1 : Nat) (b : List Ev)
    (hlive : s.isShutdown = false) (hst : s.state = .testRequestSent) (hsil : secsBetween t1 s.lastRecv > hb20 s.hb)
    (hmono : Monotone t1 b) (hno : noInbound b) (htick : hasTick b) :
    (∃ o ∈ outputs s b, ∃ f ∈ o, isLogout f) ∧ (final s b).isShutdown = true := by
  induction b generalizing s t1 with
  | nil => exact absurd htick (by simp [hasTick])
  | cons e es ih =>
    cases e with
    | recv t k => exact absurd hno (by simp [noInbound])
    | tick t =>
      have hle : t1 ≤ t := hmono.1
      have hs2 : secsBetween t s.lastRecv > hb20 s.hb := Nat.lt_of_lt_of_le hsil (secs_mono _ _ _ hle)
      have hlo : ∃ f ∈ (tick s t).2, isLogout f := (tick_logout_iff s t).2 ⟨hlive, hst, hs2⟩
      have hterm := tick_logout_terminates s t hlo
      refine ⟨⟨(tick s t).2, by simp [outputs, step], hlo⟩, ?_⟩
      simp only [final, step]
      rw [final_shutdown _ _ (by simp [Sess.isShutdown, hterm.2])]
      simp [Sess.isShutdown, hterm.2]
    | appSend t =>
      have hle : t1 ≤ t := hmono.1
      have hs2 : secsBetween t s.lastRecv > hb20 s.hb := Nat.lt_of_lt_of_le hsil (secs_mono _ _ _ hle)
      have hsh : s.shutdown = false := by simp [Sess.isShutdown] at hlive; exact hlive.1
      have hstep : (step s (.appSend t)).1.isShutdown = false ∧ (step s (.appSend t)).1.state = .testRequestSent ∧
          (step s (.appSend t)).1.lastRecv = s.lastRecv ∧ (step s (.appSend t)).1.hb = s.hb := by
        simp [step, appSend, hlive, Sess.send, Sess.isShutdown, hsh, hst]
      have := ih (step s (.appSend t)).1 t hstep.1 hstep.2.1 (by rw [hstep.2.2.1, hstep.2.2.2]; exact hs2) hmono.2
        (by simpa [noInbound] using hno) (by simpa [hasTick] using htick)
      obtain ⟨⟨o, ho, hf⟩, hfin⟩ := this
      exact ⟨⟨o, by simp [outputs]; right; exact ho, hf⟩, by simpa [final] using hfin⟩

/-- **If the TestRequest is unanswered the session sends a Logout and terminates** (the property's liveness clause –
it holds for ANY waiting period, see the finding below): after a tick at `t1` wrote a TestRequest, on every
continuation without inbound frames (times not going back) the first further supervision tick writes the Logout, and
the session is terminated. -/
theorem C22_logout_when_unanswered (s : Sess) (t1 : Nat) (b : List Ev)
    (htr : ∃ f ∈ (tick s t1).2, isTestRequest f)
    (hmono : Monotone t1 b) (hno : noInbound b) (htick : hasTick b) :
    (∃ o ∈ outputs (tick s t1).1 b, ∃ f ∈ o, isLogout f) ∧ (final (tick s t1).1 b).isShutdown = true := by
  obtain ⟨f, hf, hft⟩ := htr
  have hsh := C22_testreq_shape s t1 f hf hft
  have hc := (tick_testreq_iff s t1).1 ⟨f, hf, hft⟩
  have hlr : (tick s t1).1.lastRecv = s.lastRecv ∧ (tick s t1).1.hb = s.hb := by
    unfold tick
    simp only [hc.1, Bool.false_eq_true, if_false]
    exact ⟨by rw [(tickSilence_hb _ _).2.1, (tickHeartbeat_frame _ _).2.1], by rw [(tickSilence_hb _ _).1, (tickHeartbeat_frame _ _).2.2.1]⟩
  exact pending_logout (tick s t1).1 t1 b hsh.2.2 hsh.2.1 (by rw [hlr.1, hlr.2]; exact hc.2.2) hmono hno htick

/-! ### Finding (known, not fixed): the Logout does not wait for a second period

The property asks for the Logout only "if that [the TestRequest] is also unanswered for the same period".  The code
compares the SAME `_last_received` again (it keeps no time of the TestRequest), so the condition that triggered the
TestRequest is still true at the very next supervision tick: -/

/-- class `logout-at-next-tick`, for every session and interval: the tick after the one that wrote the TestRequest
writes the Logout, however short the time between them (even zero) -/
theorem C22_finding_logout_at_next_tick (s : Sess) (t1 t2 : Nat) (h12 : t1 ≤ t2)
    (htr : ∃ f ∈ (tick s t1).2, isTestRequest f) :
    ∃ f ∈ (tick (tick s t1).1 t2).2, isLogout f := by
  have := (C22_logout_when_unanswered s t1 [.tick t2] htr ⟨h12, trivial⟩ trivial trivial).1
  simpa [outputs, step] using this

/-- an initiator session established at time 0 with H = 30 s (via the logon model) -/
def exSess : Sess :=
  let cfg : Cfg := { role := .initiator, enforce := true, clients := [], peerIp := 1, silent := false,
                     resetOnStart := false, auth := true, schedBlocks := false, beginStr := "FIX.4.2" }
  let s1 := (start (fresh cfg "" ⟨"FIX.4.2", "CLI", "SRV"⟩ 30 false none) 0 0 0).1
  (processLogon s1 0 1 (some { sender := "SRV", target := "CLI", hbi := 30, reset := none, possDup := none, origLater := false })).1

/-- witness (replayed on the real code as corpus/C22/logout_next_tick.txt): H = 30 s, peer silent since 0; the tick at
37 s writes Heartbeat + TestRequest, the tick at 38 s – ONE second later, not 36 – writes the Logout and terminates -/
theorem C22_finding_logout_witness :
    (outputs exSess [.tick 37000000000, .tick 38000000000]).map (fun o => o.map (·.msgType)) = [["0", "1"], ["5"]] ∧
    (final exSess [.tick 37000000000, .tick 38000000000]).state = .sessionTerminated ∧
    ¬ (hb20 30 + 1) * nsPerSec ≤ 38000000000 - 37000000000 := by
  decide +kernel

/-! non-vacuity of the hypotheses used above -/
example : exSess.isShutdown = false ∧ exSess.state = .continuous ∧ exSess.hb = 30 := by decide +kernel
example : lastEmit exSess exSess.lastSent [.tick 10000000000, .appSend 12000000000, .tick 20000000000] = 12000000000 := by decide +kernel
example : (final exSess [.tick 10000000000, .appSend 12000000000]).isShutdown = false ∧
    lastEmit exSess exSess.lastSent [.tick 10000000000, .appSend 12000000000] + exSess.hb * nsPerSec ≤ 42000000000 := by decide +kernel
example : ∃ f ∈ (tick exSess 37000000000).2, isTestRequest f := (tick_testreq_iff _ _).2 (by decide +kernel)
example : Monotone 37000000000 [.appSend 37500000000, .tick 38000000000] ∧ noInbound [.appSend 37500000000, .tick 38000000000] ∧
    hasTick [.appSend 37500000000, .tick 38000000000] := by simp [Monotone, noInbound, hasTick, Ev.time]
example : (recv (tick exSess 37000000000).1 37200000000 (.heartbeat (some "TEST"))).1.state = .continuous := by decide +kernel

end Fix8Model.Props.C22
