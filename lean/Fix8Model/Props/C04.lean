import Fix8Model.Codec.SectionLemmas
import Fix8Model.Codec.ValueLemmas
import Fix8Model.Codec.Demo
/-!
C04 – Strict decoding accepts exactly schema-conforming messages.

The property as stated is FALSE of the code in several classes (see the `C04_finding_*` witnesses at the end, each
replayed against the real code by the harness).  Proved here: what DOES hold of every byte string that
`Message::factory` accepts – the theorems hold for both modes, strict mode (`perm = false`) is the instance the
property talks about.
-/
namespace Fix8Model.Props.C04
open Fix8Model Fix8Model.Codec

/- FULL STATEMENT of C04 (FALSE on the current tree – one witness theorem per class below):
     theorem C04_strict_exact (S) (b) :
       (∃ m, factory S false b = .ok m) ↔ conforming S b                         -- soundness + completeness
     theorem C04_strict_retains (S) (b) (m) (h : factory S false b = .ok m) :
       fieldsOf m = tokens b                                                       -- no token dropped, re-tagged or re-valued
   where `conforming` = correct checksum, every tag valid where it appears, no repeated non-group field, mandatory
   fields present, every element starts with the group's first field.
   What is proved instead, for every accepted `b` (names `C04_accept_*`): checksum; every DECODED field valid for its
   section and in the field table, no non-`data` field twice, none repeats a preset one; no mandatory field missing;
   every group element well-shaped; every stored value is `canon kind text` of a text occurring in the input.
   Missing for the full statement: the decoder does not consume the whole input (`C04_finding_tail_dropped`,
   `_misplaced_tail_dropped`), tags alias mod 65536 (`_tag_alias`), automatic fields may repeat (`_automatic_duplicate`),
   preamble and trailer are checked by their first characters only (`_preamble_lenient`, `_trailer_lenient`), value
   texts are not validated (`_value_not_validated`, `_nul_in_value`), a `data` field may repeat (`_data_duplicate`). -/

/-- the CheckSum kept in the message is bytes 3..5 of the last seven; the last seven start with "10"; and the number
read from the three bytes equals the sum of all bytes before the last seven, modulo 256 -/
theorem C04_accept_checksum (S : Schema) (perm : Bool) (b : Bytes) (m : Msg) (h : factory S perm b = .ok m) :
    ∃ chk, Item.fld 10 chk ∈ m.trailer ∧ chk = ((b.drop (b.length - 7)).drop 3).take 3 ∧
      (b.drop (b.length - 7)).take 2 = [49, 48] ∧ atoiU chk = byteSum (b.take (b.length - 7)) % 256 := by
  obtain ⟨run⟩ := factory_ok_inv S perm b m h
  exact ⟨_, by rw [run.trl]; simp, rfl, run.tail10, run.chk⟩

/-- in every section of an accepted message: every decoded tag is defined for that section and is in the field table;
no tag occurs twice among the non-`data` fields, none repeats a field preset by the constructor -/
theorem C04_accept_tags_valid_unique (S : Schema) (perm : Bool) (b : Bytes) (m : Msg) (h : factory S perm b = .ok m) :
    ∃ bodyTs, (m.msgType, bodyTs) ∈ S.msgs ∧
      (∀ sec ts, (sec, ts) ∈ [(hdrFields m, S.header), (m.body, bodyTs), (trlFields S m, S.trailer)] →
        (∀ it ∈ sec, (findTrait ts it.tag).isSome = true ∧ S.fieldTable.contains it.tag = true) ∧
        ((sec.filter fun it => !isData ts it.tag).map (·.tag)).Nodup ∧
        sec.Pairwise (fun a b => a.tag = b.tag → isData ts a.tag = true) ∧
        (∀ it ∈ sec, it.tag ∈ presetTags ts → isData ts it.tag = true)) := by
  obtain ⟨bodyTs, hm, v1, v2, v3⟩ := accepted_sections S perm b m h
  refine ⟨bodyTs, hm, ?_⟩
  intro sec ts hmem
  simp only [List.mem_cons, Prod.mk.injEq, List.mem_nil_iff, or_false] at hmem
  rcases hmem with ⟨rfl, rfl⟩ | ⟨rfl, rfl⟩ | ⟨rfl, rfl⟩
  · exact ⟨v1.legal, v1.unique, v1.repeatsOnlyData, v1.notPreset⟩
  · exact ⟨v2.legal, v2.unique, v2.repeatsOnlyData, v2.notPreset⟩
  · exact ⟨v3.legal, v3.unique, v3.repeatsOnlyData, v3.notPreset⟩

/-- for a section without `data` fields this is plain uniqueness of the tags -/
theorem C04_accept_tags_unique_no_data (S : Schema) (ts : List Trait) (sec : List Item) (v : SectionValid S ts sec)
    (hnd : ∀ it ∈ sec, isData ts it.tag = false) : (sec.map (·.tag)).Nodup := by
  have := v.unique
  have hf : (sec.filter fun it => !isData ts it.tag) = sec := by
    rw [List.filter_eq_self]
    intro it hit; simp [hnd it hit]
  rw [hf] at this; exact this

/-- no mandatory field of a section is missing from an accepted message (it is either preset by the constructor –
8, 9, 35, 10 – or among the decoded fields of that section) -/
theorem C04_accept_no_missing_mandatory (S : Schema) (perm : Bool) (b : Bytes) (m : Msg) (h : factory S perm b = .ok m) :
    ∃ bodyTs, (m.msgType, bodyTs) ∈ S.msgs ∧
      (∀ tr ∈ S.header, tr.mandatory = true → tr.tag ∈ presetTags S.header ∨ tr.tag ∈ (hdrFields m).map (·.tag)) ∧
      (∀ tr ∈ bodyTs, tr.mandatory = true → tr.tag ∈ presetTags bodyTs ∨ tr.tag ∈ m.body.map (·.tag)) ∧
      (∀ tr ∈ S.trailer, tr.mandatory = true → tr.tag ∈ presetTags S.trailer ∨ tr.tag ∈ (trlFields S m).map (·.tag)) := by
  obtain ⟨bodyTs, hm, v1, v2, v3⟩ := accepted_sections S perm b m h
  exact ⟨bodyTs, hm, v1.mandatory, v2.mandatory, v3.mandatory⟩

/-- what `elemOk` says of one group element, spelled out -/
theorem C04_group_element_shape (S : Schema) (gts : List Trait) (e : List Item) (h : elemOk S gts e = true) :
    (∃ it rest tr, e = it :: rest ∧ findTrait gts it.tag = some tr ∧ tr.pos = 1) ∧ (e.map (·.tag)).Nodup ∧
      (∀ it ∈ e, (findTrait gts it.tag).isSome = true) ∧
      (∀ t v els, Item.grp t v els ∈ e → ∀ e' ∈ els, elemOk S (S.group (subOf gts t)) e' = true) := by
  unfold elemOk elemShape at h
  simp only [Bool.and_eq_true, decide_eq_true_eq, List.all_eq_true] at h
  obtain ⟨⟨⟨h1, h2⟩, h3⟩, h4⟩ := h
  refine ⟨?_, h2, h3, ?_⟩
  · cases e with
    | nil => simp at h1
    | cons it rest =>
      simp only at h1
      cases hf : findTrait gts it.tag with
      | none => rw [hf] at h1; simp at h1
      | some tr =>
        rw [hf] at h1
        exact ⟨it, rest, tr, rfl, hf, by simpa using h1⟩
  · intro t v els hmem e' he'
    rw [itemsOk_iff] at h4
    have := h4 _ hmem
    rw [itemOk, elemsAllOk_iff] at this
    exact this e' he'

/-- every decoded repeating-group element of an accepted message, at any nesting depth, starts with the group's
position-1 field, has pairwise distinct tags, and all its tags belong to the group -/
theorem C04_accept_group_elements (S : Schema) (perm : Bool) (b : Bytes) (m : Msg) (h : factory S perm b = .ok m) :
    ∃ bodyTs, (m.msgType, bodyTs) ∈ S.msgs ∧
      (∀ t v els, Item.grp t v els ∈ hdrFields m → ∀ e ∈ els, elemOk S (S.group (subOf S.header t)) e = true) ∧
      (∀ t v els, Item.grp t v els ∈ m.body → ∀ e ∈ els, elemOk S (S.group (subOf bodyTs t)) e = true) ∧
      (∀ t v els, Item.grp t v els ∈ trlFields S m → ∀ e ∈ els, elemOk S (S.group (subOf S.trailer t)) e = true) := by
  obtain ⟨bodyTs, hm, v1, v2, v3⟩ := accepted_sections S perm b m h
  refine ⟨bodyTs, hm, ?_, ?_, ?_⟩
  · intro t v els hmem e he
    have := v1.groups _ hmem
    rw [itemOk, elemsAllOk_iff] at this; exact this e he
  · intro t v els hmem e he
    have := v2.groups _ hmem
    rw [itemOk, elemsAllOk_iff] at this; exact this e he
  · intro t v els hmem e he
    have := v3.groups _ hmem
    rw [itemOk, elemsAllOk_iff] at this; exact this e he

/-- every value of an accepted message, in every section and in every group element at any depth, is
`canon kind text` (= what the typed field class prints after parsing `text`) of a text that occurs contiguously in
the input, where `kind` is the type the section (or group) gives the tag: `itemFrom b S ts it` unfolds to
`∃ tr text, findTrait ts it.tag = some tr ∧ text <:+: b ∧ canon tr.kind text = some it.val`, and the same for all
elements of a group.  (It does not say WHICH token the text is: see `C04_finding_tag_alias`.) -/
theorem C04_accept_values_from_input (S : Schema) (perm : Bool) (b : Bytes) (m : Msg) (h : factory S perm b = .ok m) :
    ∃ bodyTs, (m.msgType, bodyTs) ∈ S.msgs ∧
      (∀ it ∈ hdrFields m, itemFrom b S S.header it) ∧ (∀ it ∈ m.body, itemFrom b S bodyTs it) ∧
      (∀ it ∈ trlFields S m, itemFrom b S S.trailer it) := by
  obtain ⟨run⟩ := factory_ok_inv S perm b m h
  have s1 := (token_from (List.infix_refl b) run.e1).2
  have s2 := (token_from s1 run.e2).2
  have s3 := (token_from s2 run.e3).2
  obtain ⟨i1, k1⟩ := section_from b S S.header perm _ _ _ _ _ _ _ run.dh s3 (by intro p n hp; cases hp) (by simp)
  obtain ⟨i2, k2⟩ := section_from b S run.bodyTs perm _ _ _ _ _ _ _ run.db k1 (by intro p n hp; cases hp) (by simp)
  obtain ⟨i3, _⟩ := section_from b S S.trailer perm _ _ _ _ _ _ _ run.dt
    ((List.take_prefix _ _).isInfix.trans k2) (by intro p n hp; cases hp) (by simp)
  refine ⟨run.bodyTs, List.mem_of_find?_eq_some run.hm, ?_, ?_, ?_⟩
  · have : hdrFields m = run.h.items := by unfold hdrFields; rw [run.hdr]; rfl
    rw [this]; exact i1
  · rw [run.bdy]; exact i2
  · have : trlFields S m = run.tr.items := by
      unfold trlFields; rw [run.trl]
      have hl : (List.take (chkSlot S) run.tr.items ++ [Item.fld 10 (List.take 3 (List.drop 3 (List.drop (b.length - 7) b)))] ++
          List.drop (chkSlot S) run.tr.items).length - 1 = run.tr.items.length := by
        simp only [List.length_append, List.length_take, List.length_drop, List.length_cons, List.length_nil]; omega
      rw [hl]; exact eraseIdx_insert _ _ _
    rw [this]; exact i3

/-- what `itemFrom` says of a plain field -/
theorem C04_value_from_input_unfold (b : Bytes) (S : Schema) (ts : List Trait) (t : Nat) (v : Bytes)
    (h : itemFrom b S ts (.fld t v)) : ∃ tr text, findTrait ts t = some tr ∧ text <:+: b ∧ canon tr.kind text = some v := by
  rw [itemFrom] at h; exact h

/-! ## witnesses: classes of input on which the property as stated is false (each replayed on the real code) -/

/-- the conforming message decodes to its fields -/
example : decoded (factory demoSchema false inOk) = some ([(49, [65])], [(112, [89])], [(10, [48, 56, 48])]) := by decide
/-- … a missing mandatory field, a group element not starting with its first field are refused -/
example : errorOf (factory demoSchema false inMissing) = some (.missingMandatory 49) := by decide
example : errorOf (factory demoSchema false inGroupNoFirst) = some (.missingGroupField 65) := by decide

/-- KNOWN FINDING `invalid-tag-accepted`: a tag that is not valid where it appears ends the section silently; when
no mandatory field is outstanding the message is ACCEPTED and every token from there on is dropped
(`8=F|9=0|35=0|49=A|999=X|112=Y|10=145|`: accepted with an empty body, `112=Y` is lost; without `999=X|` the body
is `112=Y`) -/
theorem C04_finding_tail_dropped :
    decoded (factory demoSchema false inTail) = some ([(49, [65])], [], [(10, [49, 52, 53])]) ∧
    decoded (factory demoSchema false inOk) = some ([(49, [65])], [(112, [89])], [(10, [48, 56, 48])]) := ⟨by decide, by decide⟩

/-- the same class with a field that is known but misplaced (a header field after a body field): the rest is dropped -/
theorem C04_finding_misplaced_tail_dropped :
    decoded (factory demoSchema false inMisplaced) = some ([(49, [65])], [(112, [89])], [(10, [48, 49, 51])]) := by decide

/-- KNOWN FINDING `tag-alias`: the tag is read with `fast_atoi<unsigned short>`; `65648=Y` is taken as `112=Y` -/
theorem C04_finding_tag_alias :
    decoded (factory demoSchema false inAlias) = some ([(49, [65])], [(112, [89])], [(10, [50, 48, 49])]) ∧
    tagNum [54, 53, 54, 52, 56] = 112 := ⟨by decide, by decide⟩

/-- KNOWN FINDING `automatic-duplicate`: repeated 35, 9, 8 (fields flagged `automatic`) with different values are
skipped without DuplicateField -/
theorem C04_finding_automatic_duplicate :
    decoded (factory demoSchema false inAutoDup) = some ([(49, [65])], [(112, [89])], [(10, [50, 52, 50])]) := by decide

/-- KNOWN FINDING `preamble-lenient`: only the first character(s) of the three preamble tags are looked at
(`89=`, `9123=`, `359=` pass for 8, 9, 35), the BeginString value is ignored and BodyLength is neither validated as
a number nor compared with the length -/
theorem C04_finding_preamble_lenient :
    decoded (factory demoSchema false inPreamble) = some ([(49, [65])], [(112, [89])], [(10, [48, 54, 55])]) := by decide

/-- KNOWN FINDING `bodylength-unchecked`: BodyLength is stored but never compared with the number of bytes between
the BodyLength field and the CheckSum field: `9=0` in front of a 16-byte payload is accepted -/
theorem C04_finding_bodylength_unchecked :
    decoded (factory demoSchema false inOk) = some ([(49, [65])], [(112, [89])], [(10, [48, 56, 48])]) ∧
    inOk.take 8 = [56, 61, 70, 1, 57, 61, 48, 1] ∧ inOk.length - 8 - 7 = 16 := ⟨by decide, by decide, by decide⟩

/-- KNOWN FINDING `trailer-lenient`: of the last seven bytes only "10" and the three checksum characters are looked
at: `10#080!` (no '=', no SOH) is accepted -/
theorem C04_finding_trailer_lenient :
    decoded (factory demoSchema false inTrailer) = some ([(49, [65])], [(112, [89])], [(10, [48, 56, 48])]) := by decide

/-- KNOWN FINDING `value-text-not-validated`: values are not validated as literals of their type – Boolean
`maybe` decodes to `N`, the char field `12` to `1` -/
theorem C04_finding_value_not_validated :
    decoded (factory demoSchema false inValues) = some ([(49, [65]), (43, [78])], [(54, [49])], [(10, [50, 50, 54])]) := by decide

/-- KNOWN FINDING `nul-in-value`: a NUL inside a value truncates it (`112=A<NUL>B` decodes to `A`) -/
theorem C04_finding_nul_in_value :
    decoded (factory demoSchema false inNul) = some ([(49, [65])], [(112, [65])], [(10, [49, 50, 50])]) := by decide

/-- FINDING `data-duplicate` (new): the data field of a Length/data pair is stored without the `present` test, so a
`data` field may occur twice in an accepted message (`96=xyz|95=3|96=abc|`) – the reason `SectionValid.unique`
excludes `data` fields -/
theorem C04_finding_data_duplicate :
    decoded (factory demoSchema false inDataDup) =
      some ([(49, [65])], [(96, [120, 121, 122]), (95, [51]), (96, [97, 98, 99])], [(10, [50, 51, 57])]) := by decide +kernel

/-- non-vacuity of the accept theorems: an accepted message with a repeating group of two elements -/
example : ∃ m, factory demoSchema false inGroup = .ok m ∧
    m.body = [.grp 146 [50] [[.fld 55 [97], .fld 65 [98]], [.fld 55 [99]]], .fld 112 [89]] := ⟨_, rfl, rfl⟩

end Fix8Model.Props.C04
