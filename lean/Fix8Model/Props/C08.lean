import Fix8Model.Basic.DigitsLemmas
import Fix8Model.Basic.DecimalLemmas
/-!
C08 – Numeric field text conversions are exact inverses.

Integer half (`itoa<int>` / `fast_atoi<int>`): proved about the model of the C++ `int` code.

Floating half (`modp_dtoa` / `fast_atof`): proved in EXACT arithmetic.  A value is a rational
`n / d` (`n : Int`, `d : Nat`, `0 < d`) or a scaled decimal `m / 10^p`; binary64 rounding is NOT
formalised (Lean's `Float` is opaque to the kernel).  The theorems say what the two routines
compute when no floating operation rounds; they are tied to the real code by the correspondence run
only on inputs whose binary64 arithmetic is exact, everywhere else the real code is judged by the
independent oracle of tools/props/c08.py.  Domain: precision 0..9 (the code clamps), and
`|v| ≤ 2147483647 = thres_max` (above it the code calls `sprintf("%e")`, which is not modelled:
`dtoa` returns `none`).
-/
namespace Fix8Model.Props.C08
open Fix8Model.Digits

/-- every integer is rendered as its canonical decimal text (optional '-', no leading zeros) -/
theorem C08_itoa (v : Int) : itoa v = decimalRepr v := itoa_eq v

/-- that text parses back to the same integer -/
theorem C08_atoi_itoa (v : Int) : fastAtoi (itoa v) = v := by
  rw [itoa_eq]; exact fastAtoi_repr v

/-- while parsing, the accumulator never leaves the interval between 0 and the value, so a 32-bit
`int` never overflows for any 32-bit value (including INT_MIN, which is accumulated downwards) -/
theorem C08_atoi_no_overflow (v : Int) (hv : inInt32 v) :
    ∀ x ∈ fastAtoiTrace (itoa v), inInt32 x := by
  intro x hx
  rw [itoa_eq] at hx
  have := fastAtoiTrace_repr v x hx
  unfold inInt32 at *
  omega

/-- the canonical text is the usual one: digits of |v| most significant first -/
example : decimalRepr (-2147483648) = [45, 50, 49, 52, 55, 52, 56, 51, 54, 52, 56] := by
  simp [decimalRepr, natDigits]
example : itoa (-30) = [45, 51, 48] ∧ fastAtoi (itoa (-30)) = -30 := by
  refine ⟨by rw [itoa_eq]; simp [decimalRepr, natDigits], C08_atoi_itoa _⟩
/-- non-vacuity of the overflow statement: INT_MIN is in range and its trace is not empty -/
example : inInt32 (-2147483648) ∧ fastAtoiTrace (itoa (-2147483648)) ≠ [] := by
  refine ⟨by unfold inInt32; omega, ?_⟩
  rw [itoa_eq]; simp [decimalRepr, natDigits, fastAtoiTrace, scan, atoiSub]


/-! ## floating half, exact arithmetic -/
open Fix8Model.Decimal Fix8Model.Gen

/-- (1a) a decimal `m / 10^p` with at most `p ≤ 9` fraction digits and `|m / 10^p| ≤ 2^31 - 1` is
printed at precision `p` as its canonical text: optional `-`, whole part without leading zeros, and
for `p > 0` a point and the fraction digits without trailing zeros but at least one (`5.0`,
`12.25`, `-0.5`); for `p = 0` the whole part only (`5`). -/
theorem C08_dtoa_decimal (m : Int) (p : Nat) (hp : p ≤ 9) (hdom : m.natAbs ≤ 2147483647 * 10 ^ p) :
    dtoa m (10 ^ p) (p : Int) = some (canonText m p) := by
  have hP := ten_pow_pos p
  have hx : m.natAbs * 10 ^ p = 10 ^ p * m.natAbs := Nat.mul_comm _ _
  rw [dtoa_eq_round m (10 ^ p) p hP hp hdom, roundK_exact _ _ _ _ hP hx]
  rfl

/-- (1b) the canonical text parses back to the decimal it denotes -/
theorem C08_atof_canon (m : Int) (p : Nat) : (atof (canonText m p)).eqv ⟨m, p⟩ := by
  obtain ⟨M, z, hz, hM, h⟩ := atof_signedText (decide (m < 0)) m.natAbs p
  unfold canonText
  rw [h]
  unfold Dec.eqv
  simp only
  have hpw : (10 : Int) ^ p = 10 ^ (p - z) * 10 ^ z := by rw [← Int.pow_add]; congr 1; omega
  have hMi : (M : Int) * 10 ^ z = (m.natAbs : Int) := by rw [← hM]; push_cast; rfl
  by_cases hneg : m < 0
  · simp only [hneg, decide_true, ↓reduceIte]
    have : m = -(m.natAbs : Int) := by omega
    rw [this, ← hMi, hpw]; grind
  · simp only [hneg, decide_false, Bool.false_eq_true, ↓reduceIte]
    have : m = (m.natAbs : Int) := by omega
    rw [this, ← hMi, hpw]; grind

/-- (1) round trip value → text → value for every decimal of the domain -/
theorem C08_atof_dtoa_decimal (m : Int) (p : Nat) (hp : p ≤ 9) (hdom : m.natAbs ≤ 2147483647 * 10 ^ p) :
    ∃ t, dtoa m (10 ^ p) (p : Int) = some t ∧ (atof t).eqv ⟨m, p⟩ :=
  ⟨canonText m p, C08_dtoa_decimal m p hp hdom, C08_atof_canon m p⟩

/-- (2) every exact value `v = n / d` with `|v| ≤ 2^31 - 1` is printed at precision `p ≤ 9` as the canonical text of a decimal `±k / 10^p` (with the
sign of `v`: a negative value that rounds to zero prints `-0.0`) such that
* `|k / 10^p - |v|| ≤ ½·10^-p`  (cross-multiplied: `2·k·d ≤ 2·|n|·10^p + d` and `2·|n|·10^p ≤ 2·k·d + d`),
* at an exact tie (`|v|·10^p = J + ½`) `k` is the even neighbour, except that for `p > 0` a tie whose
  `p` fraction digits are all zero (`J % 10^p = 0`) goes up (the `frac == 0` clause of the code),
* the text parses back to exactly `±k / 10^p`, hence to within `½·10^-p` of `v`. -/
theorem C08_dtoa_nearest (n : Int) (d p : Nat) (hd : 0 < d) (hp : p ≤ 9)
    (hdom : n.natAbs ≤ 2147483647 * d) :
    ∃ k : Nat, dtoa n d (p : Int) = some (signedText (decide (n < 0)) k p)
      ∧ (2 * (k * d) ≤ 2 * (n.natAbs * 10 ^ p) + d ∧ 2 * (n.natAbs * 10 ^ p) ≤ 2 * (k * d) + d)
      ∧ (2 * (n.natAbs * 10 ^ p % d) = d →
          k = if (n.natAbs * 10 ^ p / d) % 2 = 1 ∨ (p ≠ 0 ∧ (n.natAbs * 10 ^ p / d) % 10 ^ p = 0)
              then n.natAbs * 10 ^ p / d + 1 else n.natAbs * 10 ^ p / d)
      ∧ ∃ M z, z ≤ p ∧ M * 10 ^ z = k ∧
          atof (signedText (decide (n < 0)) k p) = ⟨if n < 0 then -(M : Int) else (M : Int), p - z⟩ := by
  refine ⟨roundK n.natAbs d p, dtoa_eq_round n d p hd hp hdom, roundK_nearest _ _ _ hd, ?_, ?_⟩
  · intro htie
    simp only [roundK]
    have n1 : ¬ (2 * (n.natAbs * 10 ^ p % d) > d) := by omega
    rw [if_neg n1]
    simp only [htie, true_and]
  · obtain ⟨M, z, hz, hM, h⟩ := atof_signedText (decide (n < 0)) (roundK n.natAbs d p) p
    refine ⟨M, z, hz, hM, ?_⟩
    rw [h]; simp

/-- the precision argument is clamped to 0..9 before anything else -/
theorem C08_dtoa_prec_clamp (n : Int) (d : Nat) (prec : Int) :
    dtoa n d prec = dtoa n d (clampPrec prec : Int) ∧ clampPrec prec ≤ 9 := by
  refine ⟨?_, clampPrec_le prec⟩
  simp only [dtoa, clampPrec_ofNat _ (clampPrec_le prec)]

/-- (3) re-encoding stability: a canonical text (at precision `p`) of the domain, parsed and printed
again at precision `p`, is reproduced byte for byte -/
theorem C08_dtoa_atof_canon (m : Int) (p : Nat) (hp : p ≤ 9) (hdom : m.natAbs ≤ 2147483647 * 10 ^ p) :
    dtoa (atof (canonText m p)).m (10 ^ (atof (canonText m p)).e) (p : Int) = some (canonText m p) := by
  obtain ⟨M, z, hz, hM, h⟩ := atof_signedText (decide (m < 0)) m.natAbs p
  unfold canonText
  rw [h]
  simp only
  have hP := ten_pow_pos (p - z)
  have hZ := ten_pow_pos z
  have hpw : 10 ^ p = 10 ^ (p - z) * 10 ^ z := by rw [← Nat.pow_add]; congr 1; omega
  have hsign : decide ((if decide (m < 0) = true then -(M : Int) else (M : Int)) < 0) = decide (m < 0) := by
    by_cases hneg : m < 0
    · have : 0 < M := by
        apply Nat.pos_of_ne_zero; intro e; rw [e] at hM; simp at hM; omega
      simp [hneg]; omega
    · simp [hneg]
  have habs : (if decide (m < 0) = true then -(M : Int) else (M : Int)).natAbs = M := by
    split <;> simp
  have hx : M * 10 ^ p = 10 ^ (p - z) * m.natAbs := by
    rw [← hM, hpw]; grind
  have hdom' : M ≤ 2147483647 * 10 ^ (p - z) := by
    apply Nat.le_of_mul_le_mul_right _ hZ
    rw [hM, Nat.mul_assoc, ← hpw]; exact hdom
  rw [dtoa_eq_round _ (10 ^ (p - z)) p hP hp (by rw [habs]; exact hdom'),
      habs, roundK_exact _ _ _ _ hP hx, hsign]

/-- inside the domain no value stored into the `int whole` exceeds INT_MAX and no value stored into
the `uint32_t frac` exceeds 10^9: the integer arithmetic of `modp_dtoa` does not overflow -/
theorem C08_dtoa_int_range (n : Int) (d : Nat) (prec : Int) (hd : 0 < d) (hdom : n.natAbs ≤ 2147483647 * d) :
    (∀ w ∈ (dtoaInts n d prec).1, w ≤ 2147483647) ∧ (∀ f ∈ (dtoaInts n d prec).2, f ≤ 1000000000) := by
  have hp := clampPrec_le prec
  have hP : 0 < 10 ^ clampPrec prec := ten_pow_pos _
  have hP9 : 10 ^ clampPrec prec ≤ 10 ^ 9 := Nat.pow_le_pow_right (by decide) hp
  obtain ⟨h1, h2, h3, h4⟩ := roundStage_range n.natAbs d (10 ^ clampPrec prec) (decide (clampPrec prec > 0)) hd hP hdom
  simp only [dtoaInts, pow10_eq _ hp]
  constructor
  · intro w hw
    simp only [List.mem_append, List.mem_cons, List.not_mem_nil, or_false] at hw
    rcases hw with (hw | hw) | hw
    · subst hw; exact h1
    · subst hw; exact h2
    · split at hw
      · rename_i h0
        simp only [List.mem_cons, List.not_mem_nil, or_false] at hw
        subst hw
        rw [h0] at *
        have hz : decide (0 > 0) = false := by decide
        rw [hz, Nat.pow_zero, roundStage_zero _ _ hd]
        exact roundK_zero_le _ _ hd hdom
      · simp at hw
  · intro f hf
    simp only [List.mem_cons, List.not_mem_nil, or_false] at hf
    have e9 : (10 : Nat) ^ 9 = 1000000000 := by decide
    rcases hf with hf | hf | hf <;> subst hf <;> omega

/-! ### fixed finding: the tie branch carries (0.995 @2 was printed as `0.1`) -/

theorem C08_fixed_tie_carry :
    dtoa 199 200 2 = some [49, 46, 48] ∧ dtoa 19 20 1 = some [49, 46, 48] ∧ dtoa 15999 2000 3 = some [56, 46, 48]
    ∧ dtoa (-199) 200 2 = some [45, 49, 46, 48] := by decide +kernel

/-! ### non-vacuity -/
example : canonText 500 2 = [53, 46, 48] ∧ canonText 1225 2 = [49, 50, 46, 50, 53] ∧ canonText (-50) 2 = [45, 48, 46, 53]
    ∧ canonText 5 0 = [53] := by decide +kernel
example : (1225 : Int).natAbs ≤ 2147483647 * 10 ^ 2 ∧ dtoa 1225 (10 ^ 2) 2 = some [49, 50, 46, 50, 53] := by decide +kernel
/-- rounding cases covered by (2): above a half, a tie to even, the `frac == 0` tie, a carry out of
the fraction (`0.996 → 1.0`), a negative value rounding to zero -/
example : dtoa 1 8 2 = some [48, 46, 49, 50] ∧ dtoa 3 8 2 = some [48, 46, 51, 56]
    ∧ dtoa 1 20 1 = some [48, 46, 49]
    ∧ dtoa 249 250 2 = some [49, 46, 48]
    ∧ dtoa (-1) 1000 2 = some [45, 48, 46, 48] ∧ dtoa 5 2 0 = some [50] ∧ dtoa 7 2 0 = some [52] := by decide +kernel
example : dtoa 2147483648 1 2 = none ∧ dtoa 2147483647 1 2 = some [50, 49, 52, 55, 52, 56, 51, 54, 52, 55, 46, 48] := by decide +kernel
example : atof [32, 45, 49, 50, 46, 50, 53, 48, 69, 49, 120] = ⟨-122500, 3⟩ ∧ atof [49, 101, 45, 50] = ⟨1, 2⟩ := by decide

end Fix8Model.Props.C08
