import Fix8Model.Basic.DigitsLemmas
/-!
C08 – Numeric field text conversions are exact inverses (integer half).
The floating half (`modp_dtoa` / `fast_atof`) is not covered by a theorem: see DESIGN.md C08.
-/
namespace Fix8Model.Props.C08
open Fix8Model.Digits

/-- every integer is rendered as its canonical decimal text (optional '-', no leading zeros) -/
theorem C08_itoa (v : Int) : itoa v = decimalRepr v := itoa_eq v

/-- that text parses back to the same integer -/
theorem C08_atoi_itoa (v : Int) : fastAtoi (itoa v) = v := by
  rw [itoa_eq]; exact fastAtoi_repr v

/-- while parsing, the accumulator never leaves the interval between 0 and the value, so a 32-bit
`int` never overflows for any 32-bit value (including INT_MIN, which is accumulated downwards) -/
theorem C08_atoi_no_overflow (v : Int) (hv : inInt32 v) :
    ∀ x ∈ fastAtoiTrace (itoa v), inInt32 x := by
  intro x hx
  rw [itoa_eq] at hx
  have := fastAtoiTrace_repr v x hx
  unfold inInt32 at *
  omega

/-- the canonical text is the usual one: digits of |v| most significant first -/
example : decimalRepr (-2147483648) = [45, 50, 49, 52, 55, 52, 56, 51, 54, 52, 56] := by
  simp [decimalRepr, natDigits]
example : itoa (-30) = [45, 51, 48] ∧ fastAtoi (itoa (-30)) = -30 := by
  refine ⟨by rw [itoa_eq]; simp [decimalRepr, natDigits], C08_atoi_itoa _⟩
/-- non-vacuity of the overflow statement: INT_MIN is in range and its trace is not empty -/
example : inInt32 (-2147483648) ∧ fastAtoiTrace (itoa (-2147483648)) ≠ [] := by
  refine ⟨by unfold inInt32; omega, ?_⟩
  rw [itoa_eq]; simp [decimalRepr, natDigits, fastAtoiTrace, scan, atoiSub]

end Fix8Model.Props.C08
