import Fix8Model.Conc.TimerLemmas
/-!
C31 – Timer events fire no earlier than scheduled and in due order.

Vocabulary (model: `Fix8Model/Conc/Timer.lean`).  An execution is ANY list `ops` of atomic steps
`advance d | schedule cb delayMs rep lag | clear | iter res` from a fresh timer whose clock reads `t0`
(`lag`: `schedule` computes the due time from a clock value it read `lag` ns before its push – it reads the clock before it takes the lock;
 `iter res` = one iteration of the loop of `Timer::operator()`, `res c` = what callback `c` would return in it).  `trace` is the
list of what the steps did, oldest first: `sched e at delay`, `cleared n`, `ran e at res` (the loop sampled `now = at`, popped `e`
– `e.due` is the `_t` it had in the queue – and its callback returned `res`), `discard e`, `sleep`, `adv now`.
`e.sid` names the `schedule` call that created `e`.  `P : Picker` is the tie-breaking of the priority queue; every theorem is
for every `P`.  `M` = `Tickval::million` (ns per ms), regenerated from the source.

Modelled assumption (not proved): the push of `schedule`, `clear` and one loop iteration including the callback are atomic with respect to
each other (all three hold `_spin_lock` for their whole critical section); the clock never goes backwards; tick values do not
overflow.  The lock is exercised for real by the threaded mode of harness/timer.cpp.
-/
namespace Fix8Model.Props.C31
open Fix8Model.Conc.Timer

/-- the trace of an execution from a fresh timer -/
def trace (P : Picker) (t0 : Nat) (ops : List Op) : List Obs := (run P (init t0) ops).2

/-- the state after an execution from a fresh timer -/
def after (P : Picker) (t0 : Nat) (ops : List Op) : State := (run P (init t0) ops).1

private theorem pairwise_get {α} {R : α → α → Prop} {l : List α} (h : l.Pairwise R) {i j : Nat} {a b : α}
    (hij : i < j) (ha : l[i]? = some a) (hb : l[j]? = some b) : R a b := by
  have hi := getElem?_lt_of_some ha
  have hj := getElem?_lt_of_some hb
  rw [List.getElem?_eq_getElem hi] at ha
  rw [List.getElem?_eq_getElem hj] at hb
  cases ha; cases hb
  exact (List.pairwise_iff_getElem.1 h) i j hi hj hij

/-- (a) A callback never runs before its due time: every run recorded at sampled time `t` belongs to an EARLIER `schedule` call
(same serial, same callback, same repeat flag) made with a non-zero delay `e.interval` when the clock read `ts`, and
`ts + delay·ms ≤ (its due time) ≤ t`. -/
theorem C31_not_before_due (P : Picker) (t0 : Nat) (ops : List Op) (i : Nat) (e : Event) (t : Nat) (r : Bool)
    (h : (trace P t0 ops)[i]? = some (Obs.ran e t r)) :
    e.due ≤ t ∧ ∃ (j : Nat) (e0 : Event) (ts : Nat), j < i ∧ (trace P t0 ops)[j]? = some (Obs.sched e0 ts e.interval) ∧
      e0.sid = e.sid ∧ e0.cb = e.cb ∧ e0.rep = e.rep ∧ 0 < e.interval ∧ ts + e.interval * M ≤ e.due := by
  have inv := inv_run P t0 ops
  obtain ⟨j, e0, ts, h1, h2, h3, h4, h5, h6, h7, _⟩ := inv.trA i e t r h
  exact ⟨(inv.times e t r (mem_of_getElem?_some h)).1, j, e0, ts, h1, h2, h3, h4, h5, h6, h7⟩

/-- what a `schedule` call records: the event it queues is due at (clock at the call) + delay·ms, or carries the empty time 0 when the
delay is 0, and its interval is the delay -/
theorem C31_schedule_due (P : Picker) (t0 : Nat) (ops : List Op) (j : Nat) (e0 : Event) (ts d : Nat)
    (h : (trace P t0 ops)[j]? = some (Obs.sched e0 ts d)) :
    e0.interval = d ∧ e0.due = (if d = 0 then 0 else ts + d * M) := by
  have := (inv_run P t0 ops).shape e0 ts d (mem_of_getElem?_some h)
  exact ⟨this.1, this.2.1⟩

/-- (b) state form, for EVERY state: the event whose callback an iteration runs is a pending event of minimal due time, it is
already due at the sampled time, and the sampled time is the clock -/
theorem C31_runs_minimum (P : Picker) (s : State) (res : Nat → Bool) (e : Event) (t : Nat) (r : Bool)
    (h : (iter P s res).2 = Obs.ran e t r) :
    e ∈ s.pending ∧ (∀ x ∈ s.pending, e.due ≤ x.due) ∧ t = s.now ∧ e.due ≤ t ∧ r = res e.cb := by
  unfold iter at h
  cases hp : P.pick s.pending with
  | none => rw [hp] at h; cases h
  | some pr =>
    obtain ⟨e', rest⟩ := pr
    obtain ⟨he, _, hmin, _, _, _⟩ := pick_facts P hp
    rw [hp] at h
    simp only at h
    split at h
    · cases h
    · split at h
      · rename_i hle
        split at h <;> (cases h; exact ⟨he, hmin, rfl, hle, rfl⟩)
      · cases h

/-- (b) for executions: at each run, the event run is one of the events pending at that moment (the state reached by the first `i`
steps) and has the minimal due time among them -/
theorem C31_due_order (P : Picker) (t0 : Nat) (ops : List Op) (i : Nat) (e : Event) (t : Nat) (r : Bool)
    (h : (trace P t0 ops)[i]? = some (Obs.ran e t r)) :
    e ∈ (after P t0 (ops.take i)).pending ∧ ∀ x ∈ (after P t0 (ops.take i)).pending, e.due ≤ x.due := by
  obtain ⟨op, _, h2⟩ := obs_at P (init t0) ops i _ h
  cases op with
  | advance d => cases h2
  | schedule cb d rep lag => cases h2
  | clear => cases h2
  | iter res =>
    have := C31_runs_minimum P _ res e t r h2.symm
    exact ⟨this.1, this.2.1⟩

/-- (b) trace form: sampled times never decrease, and a later run has a smaller due time than an earlier one ONLY IF its event was
pushed by a `schedule` call after the earlier run (possible because `schedule` reads the clock before it waits for the lock: `lag`;
see `C31_order_lag_witness`).  Among events that were in the queue together the order is the due-time order. -/
theorem C31_due_order_trace (P : Picker) (t0 : Nat) (ops : List Op) (i j : Nat) (e1 e2 : Event) (t1 t2 : Nat) (r1 r2 : Bool)
    (hij : i < j) (h1 : (trace P t0 ops)[i]? = some (Obs.ran e1 t1 r1)) (h2 : (trace P t0 ops)[j]? = some (Obs.ran e2 t2 r2)) :
    t1 ≤ t2 ∧ (e1.due ≤ e2.due ∨
      ∃ (k : Nat) (e0 : Event) (ts d : Nat), i < k ∧ k < j ∧ (trace P t0 ops)[k]? = some (Obs.sched e0 ts d) ∧ e0.sid = e2.sid) := by
  have inv := inv_run P t0 ops
  refine ⟨?_, ?_⟩
  · -- the sampled times are values of a clock that never decreases
    obtain ⟨op, _, ho⟩ := obs_at P (init t0) ops j _ h2
    have hinv := inv_run P t0 (ops.take j)
    have hmem : Obs.ran e1 t1 r1 ∈ (run P (init t0) (ops.take j)).2 := by
      obtain ⟨op1, hop1, ho1⟩ := obs_at P (init t0) ops i _ h1
      -- the first j steps produce the first j observations
      have key : ∀ (ops : List Op) (j i : Nat) (o : Obs), i < j → (run P (init t0) ops).2[i]? = some o →
          (run P (init t0) (ops.take j)).2[i]? = some o := by
        intro ops
        induction ops using snoc_induction with
        | nil => intro j i o _ h; simp [run] at h
        | snoc ops op ih =>
          intro j i o hij h
          rcases Nat.lt_or_ge ops.length j with hj | hj
          · rw [List.take_of_length_le (by simp; omega)]; exact h
          · rw [List.take_append_of_le_length hj]
            rw [run_snoc] at h
            rcases getElem?_snoc_some.1 h with h | ⟨hi, _⟩
            · exact ih j i o hij h
            · rw [run_length] at hi; omega
      exact mem_of_getElem?_some (key ops j i _ hij h1)
    have ht := (hinv.times e1 t1 r1 hmem).2.1
    cases op with
    | advance d => cases ho
    | schedule cb d rep lag => cases ho
    | clear => cases ho
    | iter res =>
      have := (C31_runs_minimum P _ res e2 t2 r2 ho.symm).2.2.1
      omega
  · rcases inv.trB i j e1 e2 t1 t2 r1 r2 hij h1 h2 with g | ⟨k, e0, ts, d, g1, g2, g3⟩
    · exact Or.inl g
    · right
      -- the schedule call of a run precedes the run
      obtain ⟨k', e0', ts', hk', g2', g3', _⟩ := inv.trA j e2 t2 r2 h2
      have : k = k' := inv.uniq k k' e0 ts d e0' ts' e2.interval g2 g2' (by rw [g3, g3'])
      exact ⟨k, e0, ts, d, g1, by omega, g2, g3⟩

/-- (c) Two runs of the same scheduled event: the earlier callback returned true and the event is a repeating one (so after a
callback returns false, and for a non-repeating event, there is no further run), both runs have the interval and callback of the
`schedule` call, and the later run is due – hence runs – no sooner than one interval after the sampled time of the earlier run. -/
theorem C31_repeat (P : Picker) (t0 : Nat) (ops : List Op) (i j : Nat) (e1 e2 : Event) (t1 t2 : Nat) (r1 r2 : Bool)
    (hij : i < j) (h1 : (trace P t0 ops)[i]? = some (Obs.ran e1 t1 r1)) (h2 : (trace P t0 ops)[j]? = some (Obs.ran e2 t2 r2))
    (hs : e1.sid = e2.sid) :
    r1 = true ∧ e1.rep = true ∧ e2.interval = e1.interval ∧ e2.cb = e1.cb ∧
      t1 + e1.interval * M ≤ e2.due ∧ t1 + e1.interval * M ≤ t2 := by
  have inv := inv_run P t0 ops
  obtain ⟨a1, a2, a3, a4, a5⟩ := pairwise_get inv.trC hij h1 h2 e1 t1 r1 e2 t2 r2 rfl rfl hs
  have := (inv.times e2 t2 r2 (mem_of_getElem?_some h2)).1
  exact ⟨a1, a2, a3, a4, a5, by omega⟩

/-- (c) corollary: once its callback has returned false (or if it does not repeat) a scheduled event never runs again -/
theorem C31_stops_after_false (P : Picker) (t0 : Nat) (ops : List Op) (i j : Nat) (e1 e2 : Event) (t1 t2 : Nat) (r1 r2 : Bool)
    (hij : i < j) (h1 : (trace P t0 ops)[i]? = some (Obs.ran e1 t1 r1)) (h2 : (trace P t0 ops)[j]? = some (Obs.ran e2 t2 r2))
    (hstop : r1 = false ∨ e1.rep = false) : e1.sid ≠ e2.sid := by
  intro hs
  obtain ⟨a1, a2, _⟩ := C31_repeat P t0 ops i j e1 e2 t1 t2 r1 r2 hij h1 h2 hs
  rcases hstop with h | h
  · rw [h] at a1; cases a1
  · rw [h] at a2; cases a2

/-- (c) state form, for EVERY state: the iteration that runs `e` at sampled time `t` re-queues exactly `e` with
`due = t + interval·ms` when the callback returned true and the event repeats, drops it otherwise, and leaves every other
pending event alone -/
theorem C31_rearm_exact (P : Picker) (s : State) (res : Nat → Bool) (e : Event) (t : Nat) (r : Bool)
    (h : (iter P s res).2 = Obs.ran e t r) :
    ∃ rest, (e :: rest).Perm s.pending ∧
      (iter P s res).1.pending = (if r && e.rep then { e with due := t + e.interval * M } :: rest else rest) := by
  unfold iter at h ⊢
  cases hp : P.pick s.pending with
  | none => rw [hp] at h; cases h
  | some pr =>
    obtain ⟨e', rest⟩ := pr
    have hperm := (P.pick_spec _ _ _ hp).1
    rw [hp] at h
    simp only at h ⊢
    split at h
    · cases h
    · rename_i hd
      rw [if_neg hd]
      split at h
      · rename_i hle
        rw [if_pos hle]
        split at h
        · rename_i hrr
          cases h
          exact ⟨rest, hperm, by rw [if_pos hrr, if_pos hrr]⟩
        · rename_i hrr
          cases h
          exact ⟨rest, hperm, by rw [if_neg hrr, if_neg hrr]⟩
      · cases h

/-- (d) After a `clear` no event scheduled before it runs: if a run is recorded after a `clear`, the `schedule` call that created
the event lies strictly between the two, and NO `schedule` call with that serial lies before the `clear` -/
theorem C31_clear (P : Picker) (t0 : Nat) (ops : List Op) (c i n : Nat) (e : Event) (t : Nat) (r : Bool)
    (hc : (trace P t0 ops)[c]? = some (Obs.cleared n)) (hi : (trace P t0 ops)[i]? = some (Obs.ran e t r)) (hci : c < i) :
    (∃ (j : Nat) (e0 : Event) (ts : Nat), c < j ∧ j < i ∧ (trace P t0 ops)[j]? = some (Obs.sched e0 ts e.interval) ∧ e0.sid = e.sid) ∧
    (∀ (j' : Nat) (e' : Event) (ts' d' : Nat), (trace P t0 ops)[j']? = some (Obs.sched e' ts' d') → e'.sid = e.sid → c < j') := by
  have inv := inv_run P t0 ops
  obtain ⟨j, e0, ts, h1, h2, h3, _, _, _, _, h8⟩ := inv.trA i e t r hi
  refine ⟨⟨j, e0, ts, h8 c n hc hci, h1, h2, h3⟩, ?_⟩
  intro j' e' ts' d' hj' hs'
  have : j' = j := inv.uniq j' j e' ts' d' e0 ts e.interval hj' h2 (by rw [hs', h3])
  rw [this]; exact h8 c n hc hci

/-- serial numbers name `schedule` calls uniquely -/
theorem C31_sid_unique (P : Picker) (t0 : Nat) (ops : List Op) (j1 j2 : Nat) (e1 e2 : Event) (ts1 d1 ts2 d2 : Nat)
    (h1 : (trace P t0 ops)[j1]? = some (Obs.sched e1 ts1 d1)) (h2 : (trace P t0 ops)[j2]? = some (Obs.sched e2 ts2 d2))
    (hs : e1.sid = e2.sid) : j1 = j2 :=
  (inv_run P t0 ops).uniq j1 j2 e1 ts1 d1 e2 ts2 d2 h1 h2 hs

/-- (d) state form: `clear` empties the queue and reports how many events were waiting -/
theorem C31_clear_empties (s : State) : (clear s).1.pending = [] ∧ (clear s).2 = Obs.cleared s.pending.length := ⟨rfl, rfl⟩

/-- zero-time events (delay 0) are popped without their callback being run (state form, every state) -/
theorem C31_zero_time_discarded (P : Picker) (s : State) (res : Nat → Bool) (e : Event) (t : Nat) (r : Bool)
    (h : (iter P s res).2 = Obs.ran e t r) : e.due ≠ 0 := by
  unfold iter at h
  cases hp : P.pick s.pending with
  | none => rw [hp] at h; cases h
  | some pr =>
    obtain ⟨e', rest⟩ := pr
    rw [hp] at h
    simp only at h
    split at h
    · cases h
    · rename_i hd
      split at h
      · split at h <;> (cases h; exact hd)
      · cases h

/-- One wake-up of the timer thread (`tick`, what the driver and the deterministic harness mode execute between two idle points)
is an execution: a run of `k` loop iterations.  So (a)–(d) apply to it. -/
theorem C31_tick_refines (P : Picker) (res : Nat → Nat → Bool) (s : State) :
    ∃ k, tick P res s = run P s (List.replicate k (Op.iter (res s.now))) := by
  obtain ⟨k, hk⟩ := tickLoop_run P res (s.pending.length + 1) s []
  exact ⟨k, by rw [tick, hk]; simp⟩

/-- In every reachable state a wake-up ends with the decision to sleep, after which nothing pending is due: every event that was due
at the wake-up has been run (or, zero-time, discarded) in it. -/
theorem C31_tick_quiescent (P : Picker) (t0 : Nat) (ops : List Op) (res : Nat → Nat → Bool) :
    ∃ pre, (tick P res (after P t0 ops)).2 = pre ++ [Obs.sleep] ∧ Obs.sleep ∉ pre ∧
      ∀ e ∈ (tick P res (after P t0 ops)).1.pending, (tick P res (after P t0 ops)).1.now < e.due := by
  have inv := inv_run P t0 ops
  have hl : late (after P t0 ops) < (after P t0 ops).pending.length + 1 :=
    Nat.lt_succ_of_le (List.countP_le_length)
  obtain ⟨pre, h1, h2, h3⟩ := tickLoop_asleep P res _ (after P t0 ops) [] inv.wfq hl
  exact ⟨pre, by rw [tick, h1]; simp, h2, h3⟩

/-! ### the hypotheses are satisfiable: a concrete execution that exercises every clause

clock 1000; A = schedule(cb 1, 10 ms, repeating), B = schedule(cb 2, 5 ms, one-shot), Z = schedule(cb 3, 0 ms);
wake-up (Z discarded, nothing due); +6 ms: B runs; +5 ms: A runs (true) and is re-armed; +10 ms: A runs (false) and is dropped;
C = schedule(cb 4, 1 ms, repeating); clear; +50 ms: nothing runs. -/

def exOps : List Op :=
  [.schedule 1 10 true 0, .schedule 2 5 false 0, .schedule 3 0 false 0, .iter (fun _ => true), .iter (fun _ => true),
   .advance 6000000, .iter (fun _ => true), .iter (fun _ => true),
   .advance 5000000, .iter (fun _ => true), .iter (fun _ => true),
   .advance 10000000, .iter (fun _ => false), .iter (fun _ => false),
   .schedule 4 1 true 0, .clear, .advance 50000000, .iter (fun _ => true)]

example : trace firstMin 1000 exOps =
    [.sched ⟨0, 1, 10001000, 10, true⟩ 1000 10, .sched ⟨1, 2, 5001000, 5, false⟩ 1000 5, .sched ⟨2, 3, 0, 0, false⟩ 1000 0,
     .discard ⟨2, 3, 0, 0, false⟩, .sleep,
     .adv 6001000, .ran ⟨1, 2, 5001000, 5, false⟩ 6001000 true, .sleep,
     .adv 11001000, .ran ⟨0, 1, 10001000, 10, true⟩ 11001000 true, .sleep,
     .adv 21001000, .ran ⟨0, 1, 21001000, 10, true⟩ 21001000 false, .sleep,
     .sched ⟨3, 4, 21001000 + 1000000, 1, true⟩ 21001000 1, .cleared 1, .adv 71001000, .sleep] := by
  decide

/-- (a), (b), (c) are not vacuous: the execution above has two runs of the same scheduled event and a run of another one -/
example : ∃ (i j : Nat) (e1 e2 : Event) (t1 t2 : Nat) (r1 r2 : Bool), i < j ∧ (trace firstMin 1000 exOps)[i]? = some (Obs.ran e1 t1 r1) ∧
    (trace firstMin 1000 exOps)[j]? = some (Obs.ran e2 t2 r2) ∧ e1.sid = e2.sid :=
  ⟨9, 12, ⟨0, 1, 10001000, 10, true⟩, ⟨0, 1, 21001000, 10, true⟩, 11001000, 21001000, true, false, by decide, by decide, by decide, rfl⟩

/-- (d) is not vacuous: a clear followed by a run (of an event scheduled after the clear) -/
example : ∃ (c i n : Nat) (e : Event) (t : Nat) (r : Bool), c < i ∧ (trace firstMin 0 [.schedule 1 1 false 0, .clear, .schedule 2 1 false 0, .advance 1000000, .iter (fun _ => true)])[c]? = some (Obs.cleared n) ∧
    (trace firstMin 0 [.schedule 1 1 false 0, .clear, .schedule 2 1 false 0, .advance 1000000, .iter (fun _ => true)])[i]? = some (Obs.ran e t r) :=
  ⟨1, 4, 1, ⟨1, 2, 1000000, 1, false⟩, 1000000, true, by decide, by decide, by decide⟩

/-- why (b) is about events that are pending together: `schedule` reads the clock before it obtains the lock, so an event can enter the
queue with a due time smaller than that of an event that has already run (here: X due 5 ms runs at 10 ms; then a `schedule` call that
read the clock at 2 ms and waited 8 ms for the lock pushes Y with due 3 ms; Y runs next) -/
theorem C31_order_lag_witness :
    trace firstMin 0 [.schedule 1 5 false 0, .advance 10000000, .iter (fun _ => true), .schedule 2 1 false 8000000, .iter (fun _ => true)] =
      [.sched ⟨0, 1, 5000000, 5, false⟩ 0 5, .adv 10000000, .ran ⟨0, 1, 5000000, 5, false⟩ 10000000 true,
       .sched ⟨1, 2, 3000000, 1, false⟩ 2000000 1, .ran ⟨1, 2, 3000000, 1, false⟩ 10000000 true] := by
  decide

/-- the tie-breaking really is free: a picker that prefers the LAST minimal element also satisfies the specification, and gives a
different (equally legal) order for two events with the same due time -/
def lastMin : Picker where
  pick l := (pickMin l.reverse).map fun p => (p.1, p.2.reverse)
  pick_nil := rfl
  pick_some := by
    intro l hl
    have : l.reverse ≠ [] := by simpa using hl
    obtain ⟨e, r, h⟩ := firstMin.pick_some _ this
    exact ⟨e, r.reverse, by show Option.map _ (pickMin l.reverse) = _; rw [show pickMin l.reverse = some (e, r) from h]; rfl⟩
  pick_spec := by
    intro l e r h
    cases hp : pickMin l.reverse with
    | none => simp [hp] at h
    | some p =>
      simp only [hp, Option.map_some, Option.some.injEq, Prod.mk.injEq] at h
      obtain ⟨rfl, rfl⟩ := h
      obtain ⟨h1, h2⟩ := pickMin_spec _ _ _ hp
      refine ⟨?_, fun x hx => h2 x (List.mem_reverse.2 hx)⟩
      exact ((List.reverse_perm p.2).cons p.1).trans (h1.trans (List.reverse_perm l))

example : (trace firstMin 0 [.schedule 1 1 false 0, .schedule 2 1 false 0, .advance 1000000, .iter (fun _ => true)]).getLast? =
      some (.ran ⟨1, 2, 1000000, 1, false⟩ 1000000 true) ∧
    (trace lastMin 0 [.schedule 1 1 false 0, .schedule 2 1 false 0, .advance 1000000, .iter (fun _ => true)]).getLast? =
      some (.ran ⟨0, 1, 1000000, 1, false⟩ 1000000 true) := by
  decide

end Fix8Model.Props.C31
