import Fix8Model.Compiler.GroupHashLemmas
/-!
C14 – Distinct repeating-group definitions never share metadata.

Statement of the property on the model: for every group occurrence `o = (count tag, definition)` of a schema,
`resolve (buildMap occs) fuel o.1 o.2 = some o.2` – the classes generated for that group of that message carry the group's OWN
definition (traits with types, positions = schema order, mandatory flags, nested groups, at every depth).

The property is FALSE of f8c: the key of the common group map is `group_hash`, which (1) sees only the member TAGS and the
nested hashes – not the order of the members, not their mandatory flags – and (2) is a GF(2)-affine 32-bit function of them,
so different member sets collide, and colliding partners can be computed.  What holds, and is proved here:

* `C14_sound`             every occurrence is generated from its own definition whenever the hash separates the definitions
                          of each count tag (`HashInjOn`); this is the full property with the known-finding class
                          `group-hash-collision` = `¬ HashInjOn occs` excluded.
* `C14_first_wins`        in general the generated definition is that of the FIRST occurrence with the same (count tag, hash).
* `C14_hash_blind`        the hash is blind to everything but tags and nested hashes (all inputs).
* `C14_finding_blind_shares`  hence any two definitions of a count tag with the same member tags share the metadata of the
                          first, whatever their order / mandatory flags / types (all inputs).
* `C14_collision_lemma`, `C14_finding_collision_any`  rothash is affine: for every pair of running hashes and every value
                          there is exactly one colliding partner value, given by a closed formula.
* `C14_finding_*`         concrete witnesses (replayed on the real compiler from corpus/C14).
-/
namespace Fix8Model.Props.C14
open Fix8Model.Compiler

/-- the property, for schemas outside the known-finding class -/
theorem C14_sound (occs : List (Nat × GSpec)) (hcl : Closed occs) (hinj : HashInjOn occs)
    (o : Nat × GSpec) (ho : o ∈ occs) (fuel : Nat) (hf : o.2.depth ≤ fuel) :
    resolve (buildMap occs) fuel o.1 o.2 = some o.2 :=
  resolve_own occs hcl hinj fuel o ho hf

/-- "share metadata only if same definition": two occurrences that resolve to the same generated definition are equal -/
theorem C14_share_only_same (occs : List (Nat × GSpec)) (hcl : Closed occs) (hinj : HashInjOn occs)
    (a b : Nat × GSpec) (ha : a ∈ occs) (hb : b ∈ occs) (fuel : Nat) (hfa : a.2.depth ≤ fuel) (hfb : b.2.depth ≤ fuel)
    (h : resolve (buildMap occs) fuel a.1 a.2 = resolve (buildMap occs) fuel b.1 b.2) : a.2 = b.2 := by
  rw [C14_sound occs hcl hinj a ha fuel hfa, C14_sound occs hcl hinj b hb fuel hfb] at h
  exact Option.some.inj h

/-- what `find_group` returns in general: the first definition inserted under the same count tag and hash -/
theorem C14_first_wins (occs : List (Nat × GSpec)) (t : Nat) (s : GSpec) :
    findSpec (buildMap occs) t (groupHash s) =
      (occs.find? (fun o => decide (o.1 = t ∧ groupHash o.2 = groupHash s))).map (·.2) :=
  findSpec_buildMap occs t (groupHash s)

/-- non-vacuity of `C14_sound`: a closed occurrence list with a nested group, two messages sharing one definition and a
second, hash-distinct definition of the same count tag -/
def exInner : GSpec := .mk [⟨3, 7, 1, 0, 5⟩] []
def exA : GSpec := .mk [⟨2, 1, 1, 0, 5⟩, ⟨100, 15, 2, 0, 4⟩, ⟨301, 1, 3, 0, 12⟩] [(301, exInner)]
def exB : GSpec := .mk [⟨2, 1, 1, 0, 5⟩, ⟨101, 15, 2, 0, 4⟩] []
def exOccs : List (Nat × GSpec) := [(301, exInner), (300, exA), (301, exInner), (300, exA), (300, exB)]

example : Closed exOccs := by
  intro o ho g hg
  simp only [exOccs, List.mem_cons, List.not_mem_nil, or_false] at ho
  rcases ho with h | h | h | h | h <;> subst h <;> simp [exA, exB, exInner, GSpec.groups] at hg
  all_goals (subst hg; simp [exOccs, exInner])

example : HashInjOn exOccs := by
  have key : ∀ a ∈ exOccs, ∀ b ∈ exOccs, (a.1 == b.1 && groupHash a.2 == groupHash b.2) = true → GSpec.beq a.2 b.2 = true := by decide
  intro a ha b hb h1 h2
  exact GSpec.beq_eq _ _ (key a ha b hb (by simp [h1, h2]))

example : resolve (buildMap exOccs) 2 300 exB = some exB := by decide

/-- (b1) the hash depends only on the member tags and the nested hashes -/
theorem C14_hash_blind (ts1 ts2 : List Trait) (gs1 gs2 : List (Nat × GSpec))
    (ht : ts1.map (·.tag) = ts2.map (·.tag)) (hg : gs1.map (fun g => groupHash g.2) = gs2.map (fun g => groupHash g.2)) :
    groupHash (.mk ts1 gs1) = groupHash (.mk ts2 gs2) := groupHash_congr ts1 ts2 gs1 gs2 ht hg

/-- (b1) in terms of member sets: the presence set is kept ordered by tag (proved of the pipeline in `Props.C13.C13_group_rows`),
so two definitions with the same SET of member tags – written in any order, with any flags – and the same nested groups hash alike -/
theorem C14_hash_member_set (ts1 ts2 : List Trait) (gs : List (Nat × GSpec))
    (h1 : (ts1.map (·.tag)).Pairwise (· < ·)) (h2 : (ts2.map (·.tag)).Pairwise (· < ·))
    (h : ∀ x, x ∈ ts1.map (·.tag) ↔ x ∈ ts2.map (·.tag)) :
    groupHash (.mk ts1 gs) = groupHash (.mk ts2 gs) := groupHash_member_set ts1 ts2 gs h1 h2 h

/-- (b1) FINDING, for all inputs: if two messages define the group `t` with the same member tags, then – whatever the order
of the members (positions), their mandatory flags, types and component indices – the second message's group is generated
with the traits of the first -/
theorem C14_finding_blind_shares (t : Nat) (ts1 ts2 : List Trait) (ht : ts1.map (·.tag) = ts2.map (·.tag)) :
    resolve (buildMap [(t, .mk ts1 []), (t, .mk ts2 [])]) 1 t (.mk ts2 []) = some (.mk ts1 []) := by
  have hh : groupHash (.mk ts2 []) = groupHash (.mk ts1 []) := groupHash_congr ts2 ts1 [] [] ht.symm rfl
  have hf := C14_first_wins [(t, .mk ts1 []), (t, .mk ts2 [])] t (.mk ts2 [])
  rw [hh] at hf
  simp only [List.find?, and_self, decide_true, Option.map_some] at hf
  obtain ⟨e, he, hes⟩ := findGroup_of_findSpec _ _ _ _ hf
  simp only [resolve]
  rw [hh, he]
  simp only [hes, GSpec.traits, GSpec.groups, optMapGroups, Option.map_some]

/-- the instance "order only": members 2 and 100 in the two possible orders -/
theorem C14_finding_order_only :
    let g1 : GSpec := .mk [⟨2, 1, 1, 0, 5⟩, ⟨100, 15, 2, 0, 4⟩] []      -- <field 2 required=Y/> <field 100 required=N/>
    let g2 : GSpec := .mk [⟨2, 1, 2, 0, 5⟩, ⟨100, 15, 1, 0, 4⟩] []      -- <field 100 required=N/> <field 2 required=Y/>
    g1 ≠ g2 ∧ resolve (buildMap [(300, g1), (300, g2)]) 1 300 g2 = some g1 := by decide

/-- the instance "mandatory flag only" -/
theorem C14_finding_flag_only :
    let g1 : GSpec := .mk [⟨2, 1, 1, 0, 5⟩, ⟨100, 15, 2, 0, 5⟩] []      -- 100 required
    let g2 : GSpec := .mk [⟨2, 1, 1, 0, 5⟩, ⟨100, 15, 2, 0, 4⟩] []      -- 100 optional
    g1 ≠ g2 ∧ resolve (buildMap [(300, g1), (300, g2)]) 1 300 g2 = some g1 := by decide

/-- (b2) the collision lemma: for ANY running hashes `r r'` and value `v` the value `v ^ L(r ^ r')` collides, and only it -/
theorem C14_collision_lemma (r r' v v' : W) : rothash r v = rothash r' v' ↔ v' = v ^^^ rhLin (r ^^^ r') :=
  rothash_collide r r' v v'

/-- linearity of the mixing step -/
theorem C14_rothash_affine (r r' v v' : W) : rothash r v ^^^ rothash r' v' = rhLin (r ^^^ r') ^^^ (v ^^^ v') :=
  rothash_xor r r' v v'

/-- manufactured collisions for plain groups: given ANY member tags `xs ++ [x]` of one definition and ANY other prefix `ys`,
the last tag `partner` makes the two definitions collide -/
theorem C14_finding_collision_any (xs ys : List Nat) (x : Nat) :
    foldTags 0 (xs ++ [x]) = foldTags 0 (ys ++ [partner xs ys x]) := by
  rw [foldTags_snoc, foldTags_snoc, rothash_collide]
  simp only [partner, BitVec.ofNat_toNat, BitVec.setWidth_eq]

/-- equal-length definitions: the hash difference is a linear function of the tag differences alone -/
theorem C14_difference_linear (xs ys : List Nat) (h : xs.length = ys.length) :
    foldTags 0 xs ^^^ foldTags 0 ys = linFold 0 (List.zipWith (fun x y => BitVec.ofNat 32 x ^^^ BitVec.ofNat 32 y) xs ys) := by
  have := foldTags_xor xs ys 0 0 h
  simpa using this

/-- the concrete witness of DESIGN.md: member sets {2,100} and {3,8261} -/
theorem C14_finding_collision_witness :
    foldTags 0 [2, 100] = 0x23036606#32 ∧ foldTags 0 [3, 8261] = 0x23036606#32 ∧ partner [2] [3] 100 = 8261 := by decide

/-- … and what the compiler does with it: the second message's group {3, 8261} is generated with the members {2, 100} -/
theorem C14_finding_collision :
    let g1 : GSpec := .mk [⟨2, 1, 1, 0, 5⟩, ⟨100, 15, 2, 0, 4⟩] []
    let g2 : GSpec := .mk [⟨3, 7, 1, 0, 5⟩, ⟨8261, 11, 2, 0, 4⟩] []
    g1 ≠ g2 ∧ groupHash g1 = groupHash g2 ∧ resolve (buildMap [(300, g1), (300, g2)]) 1 300 g2 = some g1 := by decide

/-- nested definitions are reached through the stored spec: a collision at the outer level replaces the nested group too -/
theorem C14_finding_nested_replaced :
    let n1 : GSpec := .mk [⟨5, 1, 1, 0, 5⟩] []
    let n2 : GSpec := .mk [⟨6, 1, 1, 0, 5⟩, ⟨7, 1, 2, 0, 4⟩] []
    let g1 : GSpec := .mk [⟨2, 1, 1, 0, 5⟩, ⟨301, 1, 2, 0, 12⟩] [(301, n1)]
    let g2 : GSpec := .mk [⟨2, 1, 2, 0, 5⟩, ⟨301, 1, 1, 0, 12⟩] [(301, n1)]
    g1 ≠ g2 ∧ resolve (buildMap [(301, n1), (300, g1), (301, n1), (300, g2), (301, n2)]) 2 300 g2 = some g1 := by decide

end Fix8Model.Props.C14
