import Fix8Model.Compiler.GroupHashLemmas
/-!
C14 – Distinct repeating-group definitions never share metadata.

Statement of the property on the model: for every group occurrence `o = (count tag, definition)` of a schema,
`resolve (buildMap occs) fuel o.1 o.2 = some o.2` – the classes generated for that group of that message carry the group's OWN
definition (traits with types, positions = schema order, mandatory flags, nested groups, at every depth).

History: on the original f8c the property was FALSE – the key of the common group map was the bare `group_hash`, which sees only
member tags and nested hashes and is GF(2)-affine, so definitions differing in order / flags always, and different member sets
sometimes, shared the first definition (known finding `group-hash-collision`, witnesses in corpus/C14).  The fix
"f8c shares generated group traits only between identical definitions" (compare on a hash hit, probe the next key) is in /repo
and the model (Compiler/GroupHash.lean) is the fixed code.  Now proved, with NO hypothesis on the hash:

* `C14_sound`             for every closed insertion sequence of fewer than 2^32 groups every occurrence is generated from its
                          own definition at every depth.  (`Closed` is a theorem of the pipeline, `Props.C13`; the bound is what
                          the 32-bit probing loop itself needs to terminate, see `C14_probe_exits`.)
* `C14_share_only_same`   two occurrences that resolve to the same generated definition have the same definition.
* `C14_probe_exits`       boundedness of the probe: with fewer than 2^32 stored variants the loop leaves through its own exit
                          condition (free slot or identical definition) after at most `variants` increments.
* `C14_key_stable`, `C14_key_inserted`   the key a definition gets when inserted is the key every later probe finds, and the
                          definition stays stored there (justifies modelling the `_hash` member as a recomputation).
* `C14_own_slot`, `C14_stored_was_inserted`   the map after all insertions: each definition under its key; nothing else in it.
* `C14_hash_blind`, `C14_hash_member_set`, `C14_collision_lemma`, `C14_rothash_affine`, `C14_key_collision_any`,
  `C14_difference_linear`, `C14_key_collision_witness`   facts about the KEY `group_hash` (unchanged by the fix): it is blind to
                          order / flags / types, affine over xor, and colliding partners are computable – which is why the key
                          alone must not decide sharing.  The check still uses `partner` to manufacture colliding definitions.
* `C14_fixed_*`           regression theorems: the former finding witnesses (collision {2,100}/{3,8261}, order-only, flag-only,
                          nested replacement, and the all-inputs "same tags" family) now resolve to their own definitions.
-/
namespace Fix8Model.Props.C14
open Fix8Model.Compiler

/-- the property -/
theorem C14_sound (occs : List (Nat × GSpec)) (hcl : Closed occs) (hb : occs.length < 2 ^ 32)
    (o : Nat × GSpec) (ho : o ∈ occs) (fuel : Nat) (hf : o.2.depth ≤ fuel) :
    resolve (buildMap occs) fuel o.1 o.2 = some o.2 :=
  resolve_own occs hcl hb fuel o ho hf

/-- "share metadata only if same definition" -/
theorem C14_share_only_same (occs : List (Nat × GSpec)) (hcl : Closed occs) (hb : occs.length < 2 ^ 32)
    (a b : Nat × GSpec) (ha : a ∈ occs) (hbm : b ∈ occs) (fuel : Nat) (hfa : a.2.depth ≤ fuel) (hfb : b.2.depth ≤ fuel)
    (h : resolve (buildMap occs) fuel a.1 a.2 = resolve (buildMap occs) fuel b.1 b.2) : a.2 = b.2 := by
  rw [C14_sound occs hcl hb a ha fuel hfa, C14_sound occs hcl hb b hbm fuel hfb] at h
  exact Option.some.inj h

/-- boundedness / termination of the probing loop -/
theorem C14_probe_exits (cg : CommonGroups) (s : GSpec) (hlen : cg.length < 2 ^ 32) :
    ∃ j, j ≤ cg.length ∧ probe cg s = groupHash s + BitVec.ofNat 32 j ∧
      (∀ i, i < j → goodSlot cg s (groupHash s + BitVec.ofNat 32 i) = false) ∧ goodSlot cg s (probe cg s) = true :=
  probe_exits cg s hlen

/-- the exit condition is "free or identical" -/
theorem C14_exit_condition (cg : CommonGroups) (s : GSpec) (k : W) :
    goodSlot cg s k = true ↔ (cgSpec cg k = none ∨ cgSpec cg k = some s) := goodSlot_true_iff cg s k

/-- the stored `_hash` of a definition never goes stale -/
theorem C14_key_stable (cg : CommonGroups) (s s' : GSpec) (hlen : cg.length < 2 ^ 32) (hs : cgSpec cg (probe cg s) = some s) :
    probe (ins cg s') s = probe cg s ∧ cgSpec (ins cg s') (probe cg s) = some s := probe_stable cg s s' hlen hs

theorem C14_key_inserted (cg : CommonGroups) (s : GSpec) (hlen : cg.length < 2 ^ 32) :
    probe (ins cg s) s = probe cg s ∧ cgSpec (ins cg s) (probe cg s) = some s := probe_inserted cg s hlen

/-- after all insertions every definition sits under its own key … -/
theorem C14_own_slot (occs : List (Nat × GSpec)) (hb : occs.length < 2 ^ 32) (o : Nat × GSpec) (ho : o ∈ occs) :
    findSpec (buildMap occs) o.1 (probeKey (buildMap occs) o.1 o.2) = some o.2 := findSpec_own occs hb o ho

/-- … and nothing is stored that was not inserted under that count tag -/
theorem C14_stored_was_inserted (occs : List (Nat × GSpec)) (t : Nat) (k : W) (x : GSpec)
    (h : findSpec (buildMap occs) t k = some x) : (t, x) ∈ occs := findSpec_buildMap_mem occs t k x h

/-- non-vacuity: a closed occurrence list with a nested group, two messages sharing one definition and a second definition of
the same count tag -/
def exInner : GSpec := .mk [⟨3, 7, 1, 0, 5⟩] []
def exA : GSpec := .mk [⟨2, 1, 1, 0, 5⟩, ⟨100, 15, 2, 0, 4⟩, ⟨301, 1, 3, 0, 12⟩] [(301, exInner)]
def exB : GSpec := .mk [⟨2, 1, 1, 0, 5⟩, ⟨101, 15, 2, 0, 4⟩] []
def exOccs : List (Nat × GSpec) := [(301, exInner), (300, exA), (301, exInner), (300, exA), (300, exB)]

example : Closed exOccs := by
  intro o ho g hg
  simp only [exOccs, List.mem_cons, List.not_mem_nil, or_false] at ho
  rcases ho with h | h | h | h | h <;> subst h <;> simp [exA, exB, exInner, GSpec.groups] at hg
  all_goals (subst hg; simp [exOccs, exInner])

example : exOccs.length < 2 ^ 32 := by decide
example : resolve (buildMap exOccs) 2 300 exB = some exB ∧ resolve (buildMap exOccs) 2 300 exA = some exA := by decide

/-! ### facts about the key -/

/-- the hash depends only on the member tags and the nested hashes -/
theorem C14_hash_blind (ts1 ts2 : List Trait) (gs1 gs2 : List (Nat × GSpec))
    (ht : ts1.map (·.tag) = ts2.map (·.tag)) (hg : gs1.map (fun g => groupHash g.2) = gs2.map (fun g => groupHash g.2)) :
    groupHash (.mk ts1 gs1) = groupHash (.mk ts2 gs2) := groupHash_congr ts1 ts2 gs1 gs2 ht hg

/-- in terms of member sets: presence sets are ordered by tag (`Props.C13.C13_group_rows`), so two definitions with the same SET
of member tags – written in any order, with any flags – and the same nested groups hash alike -/
theorem C14_hash_member_set (ts1 ts2 : List Trait) (gs : List (Nat × GSpec))
    (h1 : (ts1.map (·.tag)).Pairwise (· < ·)) (h2 : (ts2.map (·.tag)).Pairwise (· < ·))
    (h : ∀ x, x ∈ ts1.map (·.tag) ↔ x ∈ ts2.map (·.tag)) :
    groupHash (.mk ts1 gs) = groupHash (.mk ts2 gs) := groupHash_member_set ts1 ts2 gs h1 h2 h

/-- for ANY running hashes `r r'` and value `v` the value `v ^ L(r ^ r')` collides, and only it -/
theorem C14_collision_lemma (r r' v v' : W) : rothash r v = rothash r' v' ↔ v' = v ^^^ rhLin (r ^^^ r') :=
  rothash_collide r r' v v'

theorem C14_rothash_affine (r r' v v' : W) : rothash r v ^^^ rothash r' v' = rhLin (r ^^^ r') ^^^ (v ^^^ v') :=
  rothash_xor r r' v v'

/-- manufactured key collisions for plain groups: given ANY member tags `xs ++ [x]` of one definition and ANY other prefix `ys`,
the last tag `partner xs ys x` makes the two keys equal (the check builds its collision family with it) -/
theorem C14_key_collision_any (xs ys : List Nat) (x : Nat) :
    foldTags 0 (xs ++ [x]) = foldTags 0 (ys ++ [partner xs ys x]) := by
  rw [foldTags_snoc, foldTags_snoc, rothash_collide]
  simp only [partner, BitVec.ofNat_toNat, BitVec.setWidth_eq]

theorem C14_difference_linear (xs ys : List Nat) (h : xs.length = ys.length) :
    foldTags 0 xs ^^^ foldTags 0 ys = linFold 0 (List.zipWith (fun x y => BitVec.ofNat 32 x ^^^ BitVec.ofNat 32 y) xs ys) := by
  have := foldTags_xor xs ys 0 0 h
  simpa using this

theorem C14_key_collision_witness :
    foldTags 0 [2, 100] = 0x23036606#32 ∧ foldTags 0 [3, 8261] = 0x23036606#32 ∧ partner [2] [3] 100 = 8261 := by decide

/-! ### regressions: the former finding witnesses -/

/-- for ALL inputs: two definitions of a count tag with the same member tags (formerly always shared) are generated separately,
each from its own traits -/
theorem C14_fixed_blind_separate (t : Nat) (ts1 ts2 : List Trait) :
    resolve (buildMap [(t, .mk ts1 []), (t, .mk ts2 [])]) 1 t (.mk ts1 []) = some (.mk ts1 []) ∧
    resolve (buildMap [(t, .mk ts1 []), (t, .mk ts2 [])]) 1 t (.mk ts2 []) = some (.mk ts2 []) := by
  have hcl : Closed [(t, GSpec.mk ts1 []), (t, GSpec.mk ts2 [])] := by
    intro o ho g hg
    simp only [List.mem_cons, List.not_mem_nil, or_false] at ho
    rcases ho with rfl | rfl <;> simp [GSpec.groups] at hg
  have hb : [(t, GSpec.mk ts1 []), (t, GSpec.mk ts2 [])].length < 2 ^ 32 := by simp
  exact ⟨C14_sound _ hcl hb (t, .mk ts1 []) (by simp) 1 (by simp [GSpec.depth, GSpec.depth.depthList]),
         C14_sound _ hcl hb (t, .mk ts2 []) (by simp) 1 (by simp [GSpec.depth, GSpec.depth.depthList])⟩

/-- members {2,100} and {3,8261}: equal keys, the second definition is stored under key + 1, both generated from themselves -/
theorem C14_fixed_collision :
    let g1 : GSpec := .mk [⟨2, 1, 1, 0, 5⟩, ⟨100, 15, 2, 0, 4⟩] []
    let g2 : GSpec := .mk [⟨3, 7, 1, 0, 5⟩, ⟨8261, 11, 2, 0, 4⟩] []
    let m := buildMap [(300, g1), (300, g2)]
    g1 ≠ g2 ∧ groupHash g1 = groupHash g2 ∧ probeKey m 300 g1 = 0x23036606#32 ∧ probeKey m 300 g2 = 0x23036607#32 ∧
      resolve m 1 300 g1 = some g1 ∧ resolve m 1 300 g2 = some g2 := by decide

theorem C14_fixed_order_only :
    let g1 : GSpec := .mk [⟨2, 1, 1, 0, 5⟩, ⟨100, 15, 2, 0, 4⟩] []      -- <field 2 required=Y/> <field 100 required=N/>
    let g2 : GSpec := .mk [⟨2, 1, 2, 0, 5⟩, ⟨100, 15, 1, 0, 4⟩] []      -- <field 100 required=N/> <field 2 required=Y/>
    let m := buildMap [(300, g1), (300, g2)]
    g1 ≠ g2 ∧ groupHash g1 = groupHash g2 ∧ resolve m 1 300 g1 = some g1 ∧ resolve m 1 300 g2 = some g2 := by decide

theorem C14_fixed_flag_only :
    let g1 : GSpec := .mk [⟨2, 1, 1, 0, 5⟩, ⟨100, 15, 2, 0, 5⟩] []      -- 100 required
    let g2 : GSpec := .mk [⟨2, 1, 1, 0, 5⟩, ⟨100, 15, 2, 0, 4⟩] []      -- 100 optional
    let m := buildMap [(300, g1), (300, g2)]
    g1 ≠ g2 ∧ groupHash g1 = groupHash g2 ∧ resolve m 1 300 g1 = some g1 ∧ resolve m 1 300 g2 = some g2 := by decide

/-- a collision at the outer level no longer replaces the nested group either -/
theorem C14_fixed_nested :
    let n1 : GSpec := .mk [⟨5, 1, 1, 0, 5⟩] []
    let n2 : GSpec := .mk [⟨6, 1, 1, 0, 5⟩, ⟨7, 1, 2, 0, 4⟩] []
    let g1 : GSpec := .mk [⟨2, 1, 1, 0, 5⟩, ⟨301, 1, 2, 0, 12⟩] [(301, n1)]
    let g2 : GSpec := .mk [⟨2, 1, 2, 0, 5⟩, ⟨301, 1, 1, 0, 12⟩] [(301, n2)]
    let m := buildMap [(301, n1), (300, g1), (301, n2), (300, g2)]
    g1 ≠ g2 ∧ resolve m 2 300 g1 = some g1 ∧ resolve m 2 300 g2 = some g2 := by decide

end Fix8Model.Props.C14
