import Fix8Model.Codec.RoundTripMsg
import Fix8Model.Codec.SchemaUTESTWF
/-!
C06 – Length-prefixed data fields carry arbitrary bytes.

`MessageBase::decode` reads the value of a field of class Length (other than BodyLength), then extracts the next
field with `extract_element_fixed_width`, which copies exactly that many bytes whatever they are.  Proved here, for
every schema with `SchemaWF` and every Length/data pair (data tag = length tag + 1, class data) of a header or body
trait list: ANY content without NUL of at most 2047 bytes – SOH, '=', whole fake fields included – comes back
unchanged, and the items after the pair decode as if the pair were not there.  At message level the same is part of
`C01_roundtrip` (`Conforms` admits such pairs in header, body and trailer).

Not covered, with witnesses on the generated schema (known findings of C06): a pair inside a repeating group
(`decode_group` has no Length handling), and the trailer's SignatureLength/Signature pair 93/89 (data tag ≠ length
tag + 1, so the data field is tokenised as ordinary text).
-/
namespace Fix8Model.Props.C06
open Fix8Model Fix8Model.Codec Fix8Model.Codec.RT Fix8Model.Digits

/-- `extract_element_fixed_width` on a rendered field returns exactly the `d.length` content bytes, whatever they are
(no condition on `d` at all), and the input after the one separator byte -/
theorem C06_fixed_width (t : Nat) (d rest : Bytes) (ht : t < 65536) :
    extractFixed (renderField t d ++ rest) d.length = some (renderTag t, d, rest) :=
  extractFixed_render t d rest ht

/-- **C06 in a message body** (message type `mt` of a well-formed schema).  `t` is a Length field of the body trait
list (not a group count), `t + 1` its data field, both in the field table; `d` is any content without NUL shorter than
the field buffer (`dataOk`); `rest` are further conforming body items and `next` what follows the body (empty, or a
token foreign to the body and its groups).  Strict-mode decode of `t=<len>|t+1=<d>|rest…next` started with `items`
already decoded returns `items`, the Length item with the decimal length, the data item with content `d` unchanged,
then `rest`, and stops exactly in front of `next`. -/
theorem C06_data_roundtrip (S : Schema) (hS : SchemaWF S = true) (mt : Bytes) (ts : List Trait)
    (hmsg : S.msgs.find? (·.1 == mt) = some (mt, ts))
    (t : Nat) (d : Bytes) (rest : List Item) (next : Bytes) (items : List Item) (seen : List Nat) (unk : Bytes)
    (fu : Option (Bytes × Nat)) (fuel : Nat) (trL trD : Trait)
    (hL : findTrait ts t = some trL) (hLk : trL.kind = .length) (ht9 : t ≠ 9) (hLg : trL.group = false)
    (hD : findTrait ts (t + 1) = some trD) (hDk : trD.kind = .data)
    (ht : t + 1 < 65536) (hft : S.fieldTable.contains t = true) (hft2 : S.fieldTable.contains (t + 1) = true)
    (hseen : seen.contains t = false) (hd : dataOk d = true)
    (hrest : secOk S ts ((t + 1) :: t :: seen) rest = true)
    (hstop : stopOk (tagsOf ts ++ belowOf (deepTable S) ts) next = true)
    (hfuel : (renderField t (itoa d.length) ++ (renderField (t + 1) d ++ (encodeItems ts S rest ++ next))).length < fuel) :
    decodeSection S ts false fuel
        (renderField t (itoa d.length) ++ (renderField (t + 1) d ++ (encodeItems ts S rest ++ next))) items seen unk fu =
      .ok ⟨items.reverse ++ (.fld t (itoa d.length) :: .fld (t + 1) d :: rest), seenAfter ((t + 1) :: t :: seen) rest,
           unk, next⟩ :=
  pair_roundtrip (wf_of_schemaWF hS).groups ((wf_of_schemaWF hS).body (mt, ts) (List.mem_of_find?_eq_some hmsg))
    t d rest next items seen unk fu fuel trL trD hL hLk ht9 hLg hD hDk ht hft hft2 hseen hd hrest hstop hfuel

/-- **C06 in the header**: the same statement for the header trait list -/
theorem C06_data_roundtrip_header (S : Schema) (hS : SchemaWF S = true)
    (t : Nat) (d : Bytes) (rest : List Item) (next : Bytes) (items : List Item) (seen : List Nat) (unk : Bytes)
    (fu : Option (Bytes × Nat)) (fuel : Nat) (trL trD : Trait)
    (hL : findTrait S.header t = some trL) (hLk : trL.kind = .length) (ht9 : t ≠ 9) (hLg : trL.group = false)
    (hD : findTrait S.header (t + 1) = some trD) (hDk : trD.kind = .data)
    (ht : t + 1 < 65536) (hft : S.fieldTable.contains t = true) (hft2 : S.fieldTable.contains (t + 1) = true)
    (hseen : seen.contains t = false) (hd : dataOk d = true)
    (hrest : secOk S S.header ((t + 1) :: t :: seen) rest = true)
    (hstop : stopOk (tagsOf S.header ++ belowOf (deepTable S) S.header) next = true)
    (hfuel : (renderField t (itoa d.length) ++ (renderField (t + 1) d ++ (encodeItems S.header S rest ++ next))).length < fuel) :
    decodeSection S S.header false fuel
        (renderField t (itoa d.length) ++ (renderField (t + 1) d ++ (encodeItems S.header S rest ++ next))) items seen unk fu =
      .ok ⟨items.reverse ++ (.fld t (itoa d.length) :: .fld (t + 1) d :: rest), seenAfter ((t + 1) :: t :: seen) rest,
           unk, next⟩ :=
  pair_roundtrip (wf_of_schemaWF hS).groups (wf_of_schemaWF hS).hdr
    t d rest next items seen unk fu fuel trL trD hL hLk ht9 hLg hD hDk ht hft hft2 hseen hd hrest hstop hfuel

/-- **C06 at message level**: a conforming message – whose header / body may hold Length/data pairs with arbitrary
NUL-free content – decodes from its encoding to itself (up to BodyLength / CheckSum) and re-encodes identically
(this is `C01_roundtrip`; restated here because `Conforms` is where the pairs are admitted) -/
theorem C06_message_roundtrip (S : Schema) (ts : List Trait) (m : Msg) (hS : SchemaWF S = true)
    (hmsg : S.msgs.find? (·.1 == m.msgType) = some (m.msgType, ts)) (hm : Conforms S ts m = true) :
    factory S false (encodeMsg S ts m) = .ok (decodedOf S ts m) ∧ (decodedOf S ts m).body = m.body ∧
      (decodedOf S ts m).header.drop 3 = m.header.drop 3 ∧ encodeMsg S ts (decodedOf S ts m) = encodeMsg S ts m := by
  refine ⟨factory_encodeMsg hS ts m hmsg hm, rfl, ?_, encodeMsg_decodedOf hS ts m hm⟩
  obtain ⟨v9, hrest, trest, v10, hhd, _⟩ := conforms_spec hm
  unfold decodedOf
  simp only [hhd, List.set_cons_succ, List.set_cons_zero, List.drop_succ_cons, List.drop_zero]

/-! ## non-vacuity on the generated schema: XmlDataLen/XmlData (212/213) in the header, RawDataLength/RawData (95/96)
in the body of a Logon (`A`) -/

theorem findTrait_getD {ts : List Trait} {t : Nat} (h : (findTrait ts t).isSome = true) :
    findTrait ts t = some ((findTrait ts t).getD default) := by
  cases hf : findTrait ts t with
  | none => rw [hf] at h; cases h
  | some x => rfl

/-- content with SOH, '=', and a fake `10=000|` -/
def exData : Bytes := [97, 1, 98, 61, 99, 1, 49, 48, 61, 48, 48, 48, 1]

example : dataOk exData = true := by decide

/-- the mandatory header fields `49=A|56=B|34=7|52=20240102-03:04:05.678|` -/
def exRest : List Item :=
  [.fld 49 [65], .fld 56 [66], .fld 34 [55],
   .fld 52 [50, 48, 50, 52, 48, 49, 48, 50, 45, 48, 51, 58, 48, 52, 58, 48, 53, 46, 54, 55, 56]]

/-- header: `212=13|213=<exData>|` followed by the mandatory header fields and then a body token `98=0|` -/
example :
    decodeSection utest utest.header false 200
        (renderField 212 (itoa exData.length) ++ (renderField 213 exData ++
          (encodeItems utest.header utest exRest ++ renderField 98 [48]))) [] [35, 9, 8] [] none =
      .ok ⟨[.fld 212 (itoa exData.length), .fld 213 exData] ++ exRest,
           seenAfter [213, 212, 35, 9, 8] exRest, [], renderField 98 [48]⟩ := by
  have h := C06_data_roundtrip_header utest utest_wf 212 exData exRest (renderField 98 [48]) [] [35, 9, 8] [] none 200
    ((findTrait utest.header 212).getD default) ((findTrait utest.header 213).getD default)
    (findTrait_getD (by decide +kernel)) (by decide +kernel) (by decide) (by decide +kernel)
    (findTrait_getD (by decide +kernel)) (by decide +kernel)
    (by decide) (by decide +kernel) (by decide +kernel) (by decide) (by decide)
  exact h (by decide +kernel) (by decide +kernel) (by decide +kernel)

/-! ## the excluded classes (known findings), witnessed on the generated schema -/

/-- group definition 4 of FIX42UTEST: LinesOfText `58, 354 (EncodedTextLen), 355 (EncodedText)` -/
def linesOfText : List Trait := utest.group 4

/-- **finding (data pair inside a repeating group)**: `decode_group` has no Length handling – an EncodedText holding an
SOH is cut at the SOH, the remainder is taken for the start of a new element, and the decode throws
`MissingMandatoryField(58)`, although the element was encoded from legal API calls -/
theorem C06_finding_group_data :
    (match decodeGroup utest (fun t => utest.fieldTable.contains t) linesOfText 100
        (encodeElems linesOfText utest [[.fld 58 [120], .fld 354 [51], .fld 355 [97, 1, 98]]] ++ renderField 10 [48, 48, 48]) [] with
     | .error e => e == .missingMandatory 58
     | .ok _ => false) = true := by
  decide +kernel

/-- a Heartbeat with the given trailer items -/
def hbMsg (tr : List Item) : Msg :=
  { msgType := [48]
    header := [.fld 8 utest.beginStr, .fld 9 [48], .fld 35 [48], .fld 49 [65], .fld 56 [66], .fld 34 [55],
               .fld 52 [50, 48, 50, 52, 48, 49, 48, 50, 45, 48, 51, 58, 48, 52, 58, 48, 53, 46, 54, 55, 56]]
    body := [], trailer := tr }

/-- **finding (trailer SignatureLength/Signature, 93/89)**: the data tag is not the length tag + 1, so the pair is not
recognised; a Signature `a<SOH>b` comes back as `a` (and the decode still succeeds) -/
theorem C06_finding_trailer_signature :
    (match factory utest false (encodeMsg utest (bodyOf utest [48]) (hbMsg [.fld 93 [51], .fld 89 [97, 1, 98], .fld 10 []])) with
     | .ok m' => m'.trailer.map (fun it => (it.tag, it.val)) == [(93, [51]), (10, [49, 55, 49]), (89, [97])]
     | .error _ => false) = true := by
  decide +kernel

end Fix8Model.Props.C06
