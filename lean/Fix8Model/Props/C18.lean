import Fix8Model.Props.C17
import Fix8Model.Session.ResendLemmas
import Fix8Model.Session.RangeLemmas
/-!
C18 – Resend requests are answered with a complete, faithful replay.

`answer s st B E` is the explicit list of frames (Fix8Model/Session/ResendLemmas.lean) and `C18_answer` shows that in EVERY state
reached by EVERY plain history (`C17.Inv`: everything stored is a new application frame under its own number below the
counter) an in-sequence ResendRequest [B,E] in the `continuous` state makes `process` write exactly that list.
About the list, for every store and every range (`C18_chain`, `C18_replays_faithful`, `C18_replays_complete`, `C18_gapfills`):
 * it tiles the numbers from B up to the new next-send number in ascending order without holes or overlaps
   (`Chain`): a replay accounts for its own number, a gap fill for [MsgSeqNum, NewSeqNo); so each gap fill's MsgSeqNum is
   the first number of its gap and its NewSeqNo the number after it, and new messages continue from the last NewSeqNo;
 * every replay is a stored frame of the range with its original MsgSeqNum and body, PossDupFlag=Y and
   OrigSendingTime = its original SendingTime;
 * every stored frame of the range [B, finish] (finish = E, or the last stored number for E = 0) is replayed;
 * every gap fill is a SequenceReset with GapFillFlag=Y that covers no stored number of the range.
   (Recorded, not a violation of the letter: the CLOSING gap fill announces the next-send number, so for E below the last
   stored number it also skips the stored numbers above E that were not requested.)
The model is the code AFTER the fix of DESIGN section 8 row 14 (`Code.fixed`); `C18_finding_gapfill_seqnum` is the
witness on the unfixed `retrans_callback` (`Code` with `gapAtNextSend`): a gap fill in front of / between stored messages carries MsgSeqNum = next-send number.
Without a persister: `C18_no_persister`.
-/
namespace Fix8Model.Props.C18
open Fix8Model.Session Fix8Model.Store Fix8Model.Props.C16 Fix8Model.Props.C17

/-- the stored frames of the range, ascending: (number, frame) -/
def frames (st : SpecG Rec) (b e : Nat) : List (Nat × Msg) :=
  (st.range b e).filterMap fun k => match st.get k with
    | some (Rec.frame f) => some (k, f)
    | _ => none

/-- NewSeqNo of the closing gap fill = the next-send number afterwards (`retrans_callback`, `_no_more_records`) -/
def closing (ns b last : Nat) : Nat :=
  if last = 0 then (if b ≥ ns then b + 1 else ns) else (if last + 1 ≥ ns then last + 2 else ns)

/-- the answer to ResendRequest [b, e]: replays and gap fills in front of / between them, then the closing gap fill -/
def answer (s : Sess) (st : SpecG Rec) (b e : Nat) : List Msg :=
  expectLoop s b 0 (frames st b e) ++
    [gapFillMsg s (startOf b (lastKey 0 (frames st b e))) (closing s.ns b (lastKey 0 (frames st b e)))]

/-- the answer depends on the session only through its clock, CompIDs and next-send number -/
theorem answer_congr (s1 s2 : Sess) (st : SpecG Rec) (b e : Nat) (h1 : s1.now = s2.now) (h2 : s1.cfg = s2.cfg) (h3 : s1.ns = s2.ns) :
    answer s1 st b e = answer s2 st b e := by
  have hg : ∀ lo hi, gapFillMsg s1 lo hi = gapFillMsg s2 lo hi := by intro lo hi; simp [gapFillMsg, h1, h2]
  have hr : ∀ f, replayOf s1 f = replayOf s2 f := by intro f; simp [replayOf, h1]
  have hl : ∀ (recs : List (Nat × Msg)) (last : Nat), expectLoop s1 b last recs = expectLoop s2 b last recs := by
    intro recs
    induction recs with
    | nil => intro last; rfl
    | cons x xs ih => intro last; obtain ⟨k, f⟩ := x; simp only [expectLoop, hg, hr, ih]
  simp only [answer, hl, hg, h3]

/-- what C17's invariant says about the store, in the form needed here -/
def FramesOnly (st : SpecG Rec) : Prop :=
  ∀ k r, lookup st.msgs k = some r → 1 ≤ k ∧ ∃ m, r = Rec.frame m ∧ m.seq = k ∧ m.admin = false ∧ m.possDup = none

private theorem has0 {st : SpecG Rec} (h : FramesOnly st) : hasKey st.msgs 0 = false := by
  unfold hasKey
  cases hl : lookup st.msgs 0 with
  | none => rfl
  | some r => have := (h 0 r hl).1; omega

private theorem get_of_has {st : SpecG Rec} (h : FramesOnly st) (k : Nat) (hk : hasKey st.msgs k = true) :
    ∃ f, st.get k = some (Rec.frame f) ∧ f.seq = k ∧ f.admin = false ∧ f.possDup = none := by
  unfold hasKey at hk
  cases hl : lookup st.msgs k with
  | none => rw [hl] at hk; cases hk
  | some r =>
    obtain ⟨h1, m, hm, h2, h3, h4⟩ := h k r hl
    refine ⟨m, ?_, h2, h3, h4⟩
    unfold SpecG.get; rw [if_neg (by omega), hl, hm]

private theorem frames_mem {st : SpecG Rec} (h : FramesOnly st) (b e : Nat) (p : Nat × Msg) :
    p ∈ frames st b e ↔ (p.1 ∈ st.range b e ∧ st.get p.1 = some (Rec.frame p.2)) := by
  unfold frames
  rw [List.mem_filterMap]
  constructor
  · rintro ⟨k, hk, hm⟩
    cases hg : st.get k with
    | none => rw [hg] at hm; cases hm
    | some r =>
      cases r with
      | empty => rw [hg] at hm; cases hm
      | frame f => rw [hg] at hm; simp at hm; subst hm; exact ⟨hk, hg⟩
  · rintro ⟨h1, h2⟩
    exact ⟨p.1, h1, by rw [h2]⟩

/-- the records the model's `retransmit` iterates over are exactly `frames` -/
private theorem recs_eq {st : SpecG Rec} (h : FramesOnly st) (l : List Nat) (hl : ∀ k ∈ l, hasKey st.msgs k = true) :
    (l.filterMap fun k => (st.get k).map fun rc => (k, rc)) =
      (l.filterMap fun k => match st.get k with | some (Rec.frame f) => some (k, f) | _ => none).map fun p => (p.1, Rec.frame p.2) := by
  induction l with
  | nil => rfl
  | cons k ks ih =>
    obtain ⟨f, hf, _⟩ := get_of_has h k (hl k List.mem_cons_self)
    simp only [List.filterMap_cons, hf, Option.map_some, List.map_cons]
    rw [ih (fun k' hk' => hl k' (List.mem_cons_of_mem _ hk'))]

private theorem frames_keys_sublist (st : SpecG Rec) (l : List Nat) :
    ((l.filterMap fun k => match st.get k with | some (Rec.frame f) => some (k, f) | _ => none).map (·.1)).Sublist l := by
  induction l with
  | nil => exact List.Sublist.slnil
  | cons k ks ih =>
    simp only [List.filterMap_cons]
    cases hg : st.get k with
    | none => exact ih.cons k
    | some r =>
      cases r with
      | empty => exact ih.cons k
      | frame f => simp only [List.map_cons]; exact ih.cons₂ k

private theorem frames_ok {st : SpecG Rec} (h : FramesOnly st) (b e : Nat) : RecsOK b 0 (frames st b e) := by
  refine ⟨(range_sorted st b e).sublist (frames_keys_sublist st _), fun p hp => ?_, fun p hp => ?_⟩
  · obtain ⟨h1, h2⟩ := (frames_mem h b e p).mp hp
    obtain ⟨hk, _, _⟩ := (range_mem st b e p.1 (has0 h)).mp h1
    obtain ⟨f, hf, a1, a2, _⟩ := get_of_has h p.1 hk
    rw [h2] at hf; cases hf; exact ⟨a1, a2⟩
  · obtain ⟨h1, _⟩ := (frames_mem h b e p).mp hp
    obtain ⟨_, hb, _⟩ := (range_mem st b e p.1 (has0 h)).mp h1
    simpa [startOf] using hb

/-- `retransmit` on the fixed code writes exactly `answer` and sets the next-send number to the closing NewSeqNo -/
theorem retransmit_answer (s : Sess) (st : SpecG Rec) (b e : Nat) (hb : s.buf = []) (hcode : s.code.gapAtNextSend = false)
    (hb0 : b ≠ 0) (h : FramesOnly st) :
    (retransmit s st b e).outs = (answer s st b e).map Out.wire ∧ (retransmit s st b e).exc = none ∧
    (retransmit s st b e).s.ns = closing s.ns b (lastKey 0 (frames st b e)) ∧ (retransmit s st b e).s.state = .continuous ∧
    (retransmit s st b e).s.nr = s.nr ∧ (retransmit s st b e).s.shutdown = s.shutdown := by
  have hall : ∀ p ∈ frames st b e, p.2.possDup = none ∧ p.1 ≠ 0 := by
    intro p hp
    obtain ⟨h1, h2⟩ := (frames_mem h b e p).mp hp
    obtain ⟨hk, _, _⟩ := (range_mem st b e p.1 (has0 h)).mp h1
    obtain ⟨f, hf, _, _, a3⟩ := get_of_has h p.1 hk
    rw [h2] at hf; cases hf
    refine ⟨a3, ?_⟩
    intro h0; rw [h0, has0 h] at hk; cases hk
  obtain ⟨l1, l2, l3, l4⟩ := replayLoop_expect s b hb0 hcode (frames st b e) s 0 (SameCtx.refl s hb) hall
  have hrec := recs_eq h (st.range b e) (fun k hk => ((range_mem st b e k (has0 h)).mp hk).1)
  unfold retransmit
  simp only []
  rw [hrec]
  change _ = _ at l1
  simp only [frames] at l1 l2 l3 l4 ⊢
  rw [l2]
  simp only []
  rw [l4]
  -- the closing callback
  generalize hL : lastKey 0 (List.filterMap (fun k => match st.get k with | some (Rec.frame f) => some (k, f) | _ => none) (st.range b e)) = L at *
  generalize hs1 : (replayLoop b s 0 (List.map (fun p => (p.1, Rec.frame p.2))
    (List.filterMap (fun k => match st.get k with | some (Rec.frame f) => some (k, f) | _ => none) (st.range b e)))).1 = r1 at *
  have hlo : startOf b L ≠ 0 := startOf_pos b L hb0
  unfold replayFinal closing
  by_cases hz : L = 0
  · subst hz
    obtain ⟨g1, g2⟩ := send_gapfill s r1.s l3 b (if b ≥ s.ns then b + 1 else s.ns) hb0
    simp only [if_true, R.andThen, sendR, R.ok, g1, l1, answer, frames, hL, startOf, closing, List.map_append, List.map_cons, List.map_nil]
    refine ⟨?_, ?_, ?_, ?_, g2.2.2.2.2.2.1, g2.2.2.2.2.2.2.1⟩ <;> first | rfl | trivial
  · obtain ⟨g1, g2⟩ := send_gapfill s r1.s l3 (L + 1) (if L + 1 ≥ s.ns then L + 2 else s.ns) (by omega)
    simp only [hz, if_false, R.andThen, sendR, R.ok, g1, l1, answer, frames, hL, startOf, closing, List.map_append, List.map_cons, List.map_nil]
    refine ⟨?_, ?_, ?_, ?_, g2.2.2.2.2.2.1, g2.2.2.2.2.2.2.1⟩ <;> first | rfl | trivial

/-! ### what the answer looks like, for every store and every range -/

/-- **C18, ascending and exactly covering**: the frames of the answer tile the numbers from BeginSeqNo up to the new
next-send number: consecutive frames abut, a replay stands for its own number, a gap fill for [MsgSeqNum, NewSeqNo). -/
theorem C18_chain (s : Sess) (st : SpecG Rec) (b e : Nat) (hb0 : b ≠ 0) (h : FramesOnly st) :
    Chain b (answer s st b e) (closing s.ns b (lastKey 0 (frames st b e))) := by
  have hc := expectLoop_chain s b hb0 (frames st b e) 0 (frames_ok h b e)
  have hs0 : startOf b 0 = b := by simp [startOf]
  rw [hs0] at hc
  refine hc.append ⟨rfl, ?_, ?_⟩
  · simp only [spanHi, gapFillMsg, if_true, Option.getD_some, closing, startOf]
    split <;> split <;> omega
  · simp [Chain, spanHi, gapFillMsg]

/-- **C18, faithful**: every frame of the answer that is not a gap fill is the retransmission of a stored frame of the
range: same MsgSeqNum and body, PossDupFlag=Y, OrigSendingTime = the original SendingTime. -/
theorem C18_replays_faithful (s : Sess) (st : SpecG Rec) (b e : Nat) (hb0 : b ≠ 0) (h : FramesOnly st) (w : Msg)
    (hw : w ∈ answer s st b e) (hna : w.admin = false) :
    ∃ k f, st.get k = some (Rec.frame f) ∧ b ≤ k ∧ k ≤ finishOf st e ∧ f.seq = k ∧
      w = { f with possDup := some true, ost := some f.st, st := s.now } := by
  unfold answer at hw
  rcases List.mem_append.mp hw with hw | hw
  · obtain ⟨hs, _⟩ := expectLoop_sound s b hb0 (fun n => hasKey st.msgs n = true ∧ n ≤ finishOf st e) (frames st b e) 0 (frames_ok h b e)
      (by
        intro n hq hn
        obtain ⟨f, hf, _⟩ := get_of_has h n hq.1
        have : (n, f) ∈ frames st b e := (frames_mem h b e (n, f)).mpr ⟨(range_mem st b e n (has0 h)).mpr ⟨hq.1, by simpa [startOf] using hn, hq.2⟩, hf⟩
        exact List.mem_map.mpr ⟨(n, f), this, rfl⟩)
    rcases hs w hw with ⟨_, p, hp, hwe⟩ | ⟨ha, _⟩
    · obtain ⟨h1, h2⟩ := (frames_mem h b e p).mp hp
      obtain ⟨hk, hb1, hb2⟩ := (range_mem st b e p.1 (has0 h)).mp h1
      obtain ⟨f, hf, a1, _, _⟩ := get_of_has h p.1 hk
      rw [h2] at hf; cases hf
      exact ⟨p.1, p.2, h2, hb1, hb2, a1, hwe⟩
    · rw [ha] at hna; cases hna
  · simp only [List.mem_singleton] at hw
    rw [hw] at hna; simp [gapFillMsg] at hna

/-- **C18, complete**: every stored frame whose number lies in [BeginSeqNo, finish] is retransmitted. -/
theorem C18_replays_complete (s : Sess) (st : SpecG Rec) (b e : Nat) (h : FramesOnly st) (k : Nat) (f : Msg)
    (hf : st.get k = some (Rec.frame f)) (h1 : b ≤ k) (h2 : k ≤ finishOf st e) :
    replayOf s f ∈ answer s st b e := by
  have hk : hasKey st.msgs k = true := by
    unfold SpecG.get at hf
    split at hf
    · cases hf
    · unfold hasKey; rw [hf]; rfl
  have : (k, f) ∈ frames st b e := (frames_mem h b e (k, f)).mpr ⟨(range_mem st b e k (has0 h)).mpr ⟨hk, h1, h2⟩, hf⟩
  exact List.mem_append.mpr (Or.inl (expectLoop_complete s b _ 0 (k, f) this))

/-- **C18, gap fills**: every administrative frame of the answer is a SequenceReset with GapFillFlag=Y whose MsgSeqNum is
below its NewSeqNo and which covers no stored number of the requested range. -/
theorem C18_gapfills (s : Sess) (st : SpecG Rec) (b e : Nat) (hb0 : b ≠ 0) (h : FramesOnly st) (w : Msg)
    (hw : w ∈ answer s st b e) (ha : w.admin = true) :
    w.mtype = .sequenceReset ∧ w.gapFill = some true ∧ w.possDup = none ∧
    ∃ hi, w.newSeq = some hi ∧ w.seq < hi ∧ b ≤ w.seq ∧ ∀ n, w.seq ≤ n → n < hi → ¬ (hasKey st.msgs n = true ∧ n ≤ finishOf st e) := by
  obtain ⟨hs, hend⟩ := expectLoop_sound s b hb0 (fun n => hasKey st.msgs n = true ∧ n ≤ finishOf st e) (frames st b e) 0 (frames_ok h b e)
    (by
      intro n hq hn
      obtain ⟨f, hf, _⟩ := get_of_has h n hq.1
      have : (n, f) ∈ frames st b e := (frames_mem h b e (n, f)).mpr ⟨(range_mem st b e n (has0 h)).mpr ⟨hq.1, by simpa [startOf] using hn, hq.2⟩, hf⟩
      exact List.mem_map.mpr ⟨(n, f), this, rfl⟩)
  unfold answer at hw
  rcases List.mem_append.mp hw with hw | hw
  · rcases hs w hw with ⟨hna, _⟩ | ⟨_, lo, hi, hwe, h1, h2, h3⟩
    · rw [hna] at ha; cases ha
    · subst hwe
      exact ⟨rfl, rfl, rfl, hi, rfl, h1, (by show b ≤ lo; simpa [startOf] using h2), h3⟩
  · simp only [List.mem_singleton] at hw
    subst hw
    refine ⟨rfl, rfl, rfl, _, rfl, ?_, ?_, fun n h1 h2 hq => hend n hq h1⟩
    · simp only [gapFillMsg, closing, startOf]; split <;> split <;> omega
    · simp only [gapFillMsg, startOf]
      split
      · exact Nat.le_refl _
      · rename_i hL
        -- the last record lies in the range, so its successor is above BeginSeqNo
        have hchain := expectLoop_chain s b hb0 (frames st b e) 0 (frames_ok h b e)
        have : ∀ (recs : List (Nat × Msg)) (last : Nat), RecsOK b last recs → startOf b last ≤ startOf b (lastKey last recs) := by
          intro recs
          induction recs with
          | nil => intro last _; exact Nat.le_refl _
          | cons x xs ih =>
            intro last hr
            obtain ⟨k, f⟩ := x
            have hlow : startOf b last ≤ k := hr.lower (k, f) List.mem_cons_self
            have hk : k ≠ 0 := by have := startOf_pos b last hb0; omega
            have := ih k (hr.tail hk)
            simp only [lastKey]
            have hsk : startOf b k = k + 1 := by simp [startOf, hk]
            omega
        have := this (frames st b e) 0 (frames_ok h b e)
        simp only [startOf, if_true, hL, if_false] at this
        omega

/-! ### the inbound ResendRequest, in every state reached by every plain history -/

theorem framesOnly_of_inv {s : Sess} (hi : C17.Inv s) {st : SpecG Rec} (hst : s.store = some st) : FramesOnly st :=
  fun k r hk => ⟨(hi.2.1 st hst k r hk).1, (hi.2.1 st hst k r hk).2.2⟩

/-- **C18**: in a state satisfying C17's invariant (every state reached by a plain history over a persister, see
`C18_history`), `continuous`, an in-sequence ResendRequest [B,E] with a valid range and acceptable CompIDs makes `process`
write exactly `answer`, sets the next-send number to the closing NewSeqNo and leaves the session `continuous`. -/
theorem C18_answer (s : Sess) (st : SpecG Rec) (m : Msg) (b e : Nat) (hi : C17.Inv s) (hst : s.store = some st)
    (hstate : s.state = .continuous) (hcode : s.code.gapAtNextSend = false)
    (ht : m.mtype = .resendRequest) (hbn : m.beginNo = some b) (hen : m.endNo = some e)
    (hseq : m.seq = s.nr) (hc : ¬ compidBad s m) (hb0 : b ≠ 0) (hrange : ¬ (b > e ∧ e ≠ 0)) :
    (process s (some m.seq) (.ok m)).2 = (if m.admin then [Out.admin m.seq] else []) ++ (answer s st b e).map Out.wire ∧
    (process s (some m.seq) (.ok m)).1.ns = closing s.ns b (lastKey 0 (frames st b e)) ∧
    (process s (some m.seq) (.ok m)).1.state = .continuous ∧
    (process s (some m.seq) (.ok m)).1.nr = s.nr + 1 := by
  have hb : s.buf = [] := hi.1.1
  have hfo := framesOnly_of_inv hi hst
  have hen' : enforce s m.seq m = (R.ok s, false) := by
    simp [enforce, hstate, St.established, hc, ht, sequenceCheck, hseq]
  obtain ⟨r1, r2, r3, r4, r5, r6⟩ := retransmit_answer { s with state := .resendRequestReceived } st b e hb hcode hb0 hfo
  have hd : dispatch s m.seq m = retransmit { s with state := .resendRequestReceived } st b e := by
    have hcond : ¬ ((b > e ∧ e ≠ 0) ∨ b = 0) := by
      intro h; rcases h with h | h
      · exact hrange h
      · exact hb0 h
    simp only [dispatch, ht, handleResendRequest, hen', R.andThen, R.ok, hstate, hbn, hen, Option.getD_some, hst]
    simp [hcond]
  simp only [process, hd, r2, updatePersist]
  refine ⟨?_, ?_, ?_, ?_⟩
  · rw [r1, answer_congr { s with state := .resendRequestReceived } s st b e rfl rfl rfl]
  · simp [ht]; exact r3
  · simp [ht]; exact r4
  · simp [ht]; exact r5

/-- the invariant holds after every plain history from the first start over a fresh persister (C17), so `C18_answer`
applies to the state reached by EVERY such history -/
theorem C18_history (cfg : Cfg) (ss rs : Nat) (rest : List Ev) (hp : ∀ ev ∈ rest, PlainEv ev) :
    C17.Inv ((Sess.init cfg Code.fixed true).run (.start ss rs :: rest)).1 ∧
    ((Sess.init cfg Code.fixed true).run (.start ss rs :: rest)).1.code = Code.fixed := by
  have h := (C17_run rest _ (first_inv cfg ss rs) hp).1
  refine ⟨h, ?_⟩
  -- the code variant never changes
  have : ∀ (l : List Ev) (s : Sess), (s.run l).1.code = s.code := by
    intro l
    induction l with
    | nil => intro s; rfl
    | cons ev es ih =>
      intro s
      simp only [Sess.run]
      rw [ih]
      cases ev with
      | clock ms => rfl
      | start a b =>
        show (startSession s a b).1.code = s.code
        unfold startSession
        cases hq : s.store.bind (·.ctrl) with
        | none => rfl
        | some ab => obtain ⟨x, y⟩ := ab; rfl
      | inbound scan dec =>
        simp only [Sess.step]; split
        · exact (inbound_closed.process s scan dec).2.1
        · rfl
      | appSend p c n => simp only [Sess.step]; split <;> rfl
      | admSend c n => simp only [Sess.step]; split <;> rfl
      | batch pids =>
        simp only [Sess.step]; split
        · have : ∀ (l : List Nat) (x : Sess), (sendBatch x l).1.code = x.code := by
            intro l
            induction l with
            | nil => intro x; rfl
            | cons p ps ih2 =>
              intro x
              cases ps with
              | nil => rfl
              | cons q qs => simp only [sendBatch]; rw [ih2]; rfl
          exact this _ _
        · rfl
  exact this _ _

/-- **C18 without a persister**: one gap fill from BeginSeqNo to the next-send number (or BeginSeqNo + 1 if that was never
sent), and numbering continues from there. -/
theorem C18_no_persister (s : Sess) (m : Msg) (b e : Nat) (hb : s.buf = []) (hst : s.store = none)
    (hstate : s.state = .continuous) (ht : m.mtype = .resendRequest) (hbn : m.beginNo = some b) (hen : m.endNo = some e)
    (hseq : m.seq = s.nr) (hc : ¬ compidBad s m) (hb0 : b ≠ 0) (hrange : ¬ (b > e ∧ e ≠ 0)) :
    (process s (some m.seq) (.ok m)).2 = (if m.admin then [Out.admin m.seq] else []) ++
        [Out.wire (gapFillMsg s b (if b ≥ s.ns then b + 1 else s.ns))] ∧
    (process s (some m.seq) (.ok m)).1.ns = (if b ≥ s.ns then b + 1 else s.ns) := by
  have hen' : enforce s m.seq m = (R.ok s, false) := by
    simp [enforce, hstate, St.established, hc, ht, sequenceCheck, hseq]
  obtain ⟨g1, g2⟩ := send_gapfill s s (SameCtx.refl s hb) b (if b ≥ s.ns then b + 1 else s.ns) hb0
  have hcond : ¬ ((b > e ∧ e ≠ 0) ∨ b = 0) := by
    intro h; rcases h with h | h
    · exact hrange h
    · exact hb0 h
  have hd : dispatch s m.seq m =
      ⟨{ (sendProcess s { m := mkSeqReset s (if b ≥ s.ns then b + 1 else s.ns), custom := b }).1 with ns := (if b ≥ s.ns then b + 1 else s.ns) },
       [Out.wire (gapFillMsg s b (if b ≥ s.ns then b + 1 else s.ns))], none⟩ := by
    simp only [dispatch, ht, handleResendRequest, hen', R.andThen, R.ok, hstate, hbn, hen, Option.getD_some, hst, sendR, g1]
    simp [hcond]
  simp only [process, hd, updatePersist]
  simp [ht]

/-! ### non-vacuity and findings -/

def cfg0 : Cfg := ⟨true, 1, 2⟩
def logonReply (seq : Nat) : Msg := { mtype := .logon, seq := seq, snd := 2, tgt := 1 }
def resend (seq b e : Nat) : Msg := { mtype := .resendRequest, seq := seq, snd := 2, tgt := 1, beginNo := some b, endNo := some e }
/-- Logon 1, order 2, Heartbeat 3, orders 4 5, Heartbeat 6; then ResendRequest [1, 0]: stored are 2, 4, 5 -/
def hist (code : Code) : Sess × List Session.Out := (Sess.init cfg0 code true).run
  [.start 0 0, .inbound (some 1) (.ok (logonReply 1)), .appSend 7 0 false, .admSend 0 false, .batch [8, 9], .admSend 0 false,
   .inbound (some 2) (.ok (resend 2 1 0))]

private def seqs (l : List Session.Out) : List (Nat × Option Nat × Option Bool) :=
  l.filterMap fun o => match o with | .wire m => some (m.seq, m.newSeq, m.possDup) | _ => none

/-- fixed code: GapFill 1→2, replay 2, GapFill 3→4, replays 4 5, closing GapFill 6→7 -/
example : (seqs (hist Code.fixed).2).drop 6 =
    [(1, some 2, none), (2, none, some true), (3, some 4, none), (4, none, some true), (5, none, some true), (6, some 7, none)] := by decide

/-- finding (fixed by a `fix:` commit, DESIGN section 8 row 14): with the unfixed `retrans_callback` the gap fills in front of and between
stored messages carry MsgSeqNum 7 (= next send) instead of 1 and 3 -/
theorem C18_finding_gapfill_seqnum : (seqs (hist ⟨false, true⟩).2).drop 6 =
    [(7, some 2, none), (2, none, some true), (7, some 4, none), (4, none, some true), (5, none, some true), (6, some 7, none)] := by decide

end Fix8Model.Props.C18
