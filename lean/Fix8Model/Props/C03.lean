import Fix8Model.Codec.NoHang
import Fix8Model.Codec.EncodeBuffer
/-!
C03 – Codec is memory-safe and total on arbitrary input (the part that is a statement about the model:
termination without the fuel, the buffer bounds of the tokenisers, the index range written by the encoder).

The sanitizer side (heap lifetime, UB outside the modelled index arithmetic, wall time) is the harness' job.
-/
namespace Fix8Model.Props.C03
open Fix8Model Fix8Model.Codec Fix8Model.Digits

/- FULL STATEMENT of C03 and what of it is a theorem here:
   * decoder: "for every byte string the factory returns or throws, never reads/writes outside its buffers, never hangs":
     termination = `C03_no_hang` (all inputs, both modes); the only fixed-size buffers the decoder writes are the tag/value
     buffers of `extract_element*` = `C03_token_in_buffer`, `C03_fixed_token_in_buffer` (+ call-site instances);
     reads: every token is a prefix of the remaining input (same theorems), `from.size() - 7` cannot wrap
     (`C03_accepted_longer_than_trailer`).  No exclusion is needed (the bound checks of `extract_element*` are in the tree).
   * encoder: "never writes beyond the output buffer, whatever the size of the field values" is FALSE:
     `C03_finding_encode_buffer_overflow` (every payload > FIX8_MAX_MSG_LENGTH - 8); proved with the class excluded:
     `C03_encode_safe`, and the exact characterisation `C03_encode_in_buffer` (safe ⇔ `encodeFitsBuffer`).
   Heap lifetime, the `std::string`/`std::map` internals and wall time are observed by the sanitizer harness, not proved. -/

/-! ## A1  the decoder never hangs -/

/-- For EVERY byte string, schema and mode the decoder model ends for a reason other than its fuel: the fuel
`b.length + 2` handed to the section / group / element loops is never exhausted.  (Every loop iteration of
`MessageBase::decode` / `decode_group` either consumes input or leaves the loop; the real code did loop for ever
in `decode_group` before the `s_offset == element_offset` test was added.) -/
theorem C03_no_hang (S : Schema) (perm : Bool) (b : Bytes) : factory S perm b ≠ .error .fuel :=
  factory_not_fuel S perm b

/-- the section loop on its own: any fuel above the input length suffices, and the returned offset never lies
beyond the input (`L` bounds the input and the remembered first-unknown offset) -/
theorem C03_section_total (S : Schema) (ts : List Trait) (perm : Bool) (fuel : Nat) (inp : Bytes) (items : List Item)
    (seen : List Nat) (unk : Bytes) (firstUnk : Option (Bytes × Nat)) (L : Nat)
    (hfuel : inp.length < fuel) (hL : inp.length ≤ L) (hfu : ∀ r n, firstUnk = some (r, n) → r.length ≤ L) :
    match decodeSection S ts perm fuel inp items seen unk firstUnk with
    | .error e => e ≠ .fuel
    | .ok r => r.rest.length ≤ L :=
  section_ok S ts perm fuel inp items seen unk firstUnk L hfuel hL hfu

/-- the group loop and the element loop (mutually recursive, groups nested to any depth): fuel above the input
length (+1 for the group loop, which spends one unit before it looks at the input) is never exhausted and the
returned rest is no longer than the input -/
theorem C03_group_total (S : Schema) (fieldOk : Nat → Bool) (gts : List Trait) (fuel : Nat) (inp : Bytes) :
    (∀ acc, inp.length + 1 < fuel →
      match decodeGroup S fieldOk gts fuel inp acc with
      | .error e => e ≠ .fuel
      | .ok (_, rest) => rest.length ≤ inp.length) ∧
    (∀ items seen, inp.length < fuel →
      match decodeElem S fieldOk gts fuel inp items seen with
      | .error e => e ≠ .fuel
      | .ok (_, _, rest, _) => rest.length ≤ inp.length) := by
  constructor
  · intro acc h
    have := (group_elem_ok S fieldOk fuel).1 gts inp acc h
    revert this
    cases decodeGroup S fieldOk gts fuel inp acc with
    | error e => exact id
    | ok r => obtain ⟨a, b⟩ := r; exact id
  · intro items seen h
    have := (group_elem_ok S fieldOk fuel).2 gts inp items seen h
    revert this
    cases decodeElem S fieldOk gts fuel inp items seen with
    | error e => exact id
    | ok r => obtain ⟨a, b, c, d⟩ := r; exact id

/-! ## A2  every token lies inside the caller's buffers -/

/-- `extract_element(from, sz, tag, val, tag_sz, val_sz)`: on success the tag text and the value text are strictly
shorter than the buffers, so the copied bytes and the terminating NUL (index `length`) are inside `tag[tag_sz]` and
`val[val_sz]`; the bytes read are exactly the prefix `tag '=' val SOH` of the input. -/
theorem C03_token_in_buffer (tc vc : Nat) (b tag val rest : Bytes)
    (h : extractElementCap tc vc b = some (tag, val, rest)) :
    tag.length < tc ∧ val.length < vc ∧ b = tag ++ EQ :: (val ++ SOH :: rest) := by
  have := extractElementCap_some tc vc b tag val rest h
  exact ⟨this.2.1, this.2.2.1, this.1⟩

/-- `extract_element_fixed_width`: the tag fits `tag[MAX_MSGTYPE_FIELD_LEN]`; for a length the caller has checked
(`val_sz ≤ FIX8_MAX_FLD_LENGTH - 1`) the `memcpy` of `val_sz` bytes and `val[val_sz] = 0` stay inside
`val[FIX8_MAX_FLD_LENGTH]`, and the `val_sz` bytes read lie inside the input -/
theorem C03_fixed_token_in_buffer (b : Bytes) (n : Nat) (tag dat rest : Bytes)
    (hn : n ≤ Gen.maxFldLength - 1) (h : extractFixed b n = some (tag, dat, rest)) :
    tag.length < Gen.maxMsgTypeFieldLen ∧ dat.length < Gen.maxFldLength ∧
      ∃ r, b = tag ++ EQ :: r ∧ n ≤ r.length ∧ dat = r.take n := by
  obtain ⟨h1, h2, _, r, hb, hr, hd, _⟩ := extractFixed_some b n tag dat rest h
  refine ⟨h1, ?_, r, hb, hr, hd⟩
  have : 0 < Gen.maxFldLength := by decide
  omega

/-- call sites `MessageBase::decode`, `decode_group`, first element of `extract_header`: `tag[≥32]`, `val[2048]` -/
theorem C03_decode_buffers (b tag val rest : Bytes) (h : extractElement b = some (tag, val, rest)) :
    tag.length + 1 ≤ 32 ∧ val.length + 1 ≤ 2048 := by
  have := extractElementCap_some _ _ b tag val rest h
  have h1 : tag.length < 32 := this.2.1
  have h2 : val.length < 2048 := this.2.2.1
  omega

/-- call sites in `extract_header` for BodyLength and MsgType: `tag[32]`, `len[32]` / `mtype[32]` -/
theorem C03_header_buffers (b tag val rest : Bytes)
    (h : extractElementCap Gen.maxMsgTypeFieldLen Gen.maxMsgTypeFieldLen b = some (tag, val, rest)) :
    tag.length + 1 ≤ 32 ∧ val.length + 1 ≤ 32 := by
  have := extractElementCap_some _ _ b tag val rest h
  have h1 : tag.length < 32 := this.2.1
  have h2 : val.length < 32 := this.2.2.1
  omega

/-- the Length/data call site of `MessageBase::decode` (after `val_sz > FIX8_MAX_FLD_LENGTH - 1` has thrown) -/
theorem C03_data_buffers (b : Bytes) (n : Nat) (tag dat rest : Bytes) (hn : ¬ n > Gen.maxFldLength - 1)
    (h : extractFixed b n = some (tag, dat, rest)) : tag.length + 1 ≤ 32 ∧ dat.length + 1 ≤ 2048 := by
  have := C03_fixed_token_in_buffer b n tag dat rest (by omega) h
  have h1 : tag.length < 32 := this.1
  have h2 : dat.length < 2048 := this.2.1
  omega

/-- an accepted message is at least 10 bytes long, so `from.size() - 7` (trailer offset, `ignore`) cannot wrap -/
theorem C03_accepted_longer_than_trailer (S : Schema) (perm : Bool) (b : Bytes) (m : Msg) (h : factory S perm b = .ok m) :
    10 ≤ b.length := by
  unfold factory at h
  split at h
  · cases h
  · rename_i t1 v1 r1 h1
    have l1 := extractElementCap_length _ _ _ _ _ _ h1
    split at h
    · cases h
    · rename_i g1
      split at h
      · cases h
      · rename_i t2 lenT r2 h2
        have l2 := extractElementCap_length _ _ _ _ _ _ h2
        split at h
        · cases h
        · rename_i g2
          split at h
          · cases h
          · rename_i t3 mtype r3 h3
            have l3 := extractElementCap_length _ _ _ _ _ _ h3
            split at h
            · cases h
            · rename_i g3
              have k1 : 1 ≤ t1.length := by
                cases t1 with
                | nil => simp at g1
                | cons _ _ => simp
              have k2 : 1 ≤ t2.length := by
                cases t2 with
                | nil => simp at g2
                | cons _ _ => simp
              have k3 : 2 ≤ t3.length := by
                have : (t3.take 2).length = 2 := by
                  have : t3.take 2 = [51, 53] := by simpa using g3
                  rw [this]; rfl
                rw [List.length_take] at this
                omega
              omega

/-! ## A3  the encoder's writes into `output[FIX8_MAX_MSG_LENGTH + HEADER_CALC_OFFSET]` -/

/-- (i) the `hlen` ladder equals the number of digits of BodyLength for every `msgLen < 10^7` -/
theorem C03_encode_ladder_is_digit_count (msgLen : Nat) (h : msgLen < 10 ^ 7) :
    ladder msgLen = (natDigits msgLen).length := ladder_eq_digits msgLen h

/-- hence the preamble `8=…|9=…|`, written upward from `moffs - hlen`, ends exactly where the payload starts -/
theorem C03_encode_preamble_meets_payload (S : Schema) (msgLen : Nat) (h : msgLen < 10 ^ 7) :
    preambleStart S.beginStr.length msgLen + ((renderField 8 S.beginStr ++ renderField 9 (itoa (msgLen : Int))).length : Int)
      = (Gen.headerCalcOffset : Int) := by
  rw [preamble_length]
  unfold preambleStart hlen
  rw [ladder_eq_digits msgLen h]
  have : Gen.preambleExtra = 6 := rfl
  rw [this]
  omega

/-- (ii) the lowest index written is inside the buffer iff the preamble fits below `HEADER_CALC_OFFSET` -/
theorem C03_encode_lowest_index (beginLen msgLen : Nat) :
    0 ≤ lowestIndex beginLen msgLen ↔ beginLen + Gen.preambleExtra + ladder msgLen ≤ Gen.headerCalcOffset := by
  unfold lowestIndex preambleStart hlen
  omega

/-- … which holds for every message length when BeginString has at most 19 characters ("FIX.4.2", "FIXT.1.1") -/
theorem C03_encode_lowest_index_ok (beginLen msgLen : Nat) (h : beginLen ≤ 19) : 0 ≤ lowestIndex beginLen msgLen := by
  rw [C03_encode_lowest_index]
  have := (ladder_pos_le msgLen).2
  have h1 : Gen.preambleExtra = 6 := rfl
  have h2 : Gen.headerCalcOffset = 32 := rfl
  omega

/-- (iii) the highest index written (the NUL after `10=ccc|`) is inside the buffer iff the payload leaves 8 bytes -/
theorem C03_encode_highest_index (msgLen : Nat) :
    highestIndex msgLen < (encBufSize : Int) ↔ msgLen + 8 ≤ Gen.maxMsgLength := by
  unfold highestIndex encBufSize
  omega

/-- every write of one `encode` call has its index between `lowestIndex` and `highestIndex` (payload below 10^7 bytes) -/
theorem C03_encode_writes_in_range (S : Schema) (payload : Bytes) (h : payload.length < 10 ^ 7) :
    ∀ w ∈ encodeWrites S payload,
      lowestIndex S.beginStr.length payload.length ≤ w.1 ∧ w.1 ≤ highestIndex payload.length := by
  intro w hw
  have hpre := C03_encode_preamble_meets_payload S payload.length h
  have hlo : lowestIndex S.beginStr.length payload.length ≤ (Gen.headerCalcOffset : Int) := by
    unfold lowestIndex preambleStart; omega
  unfold encodeWrites at hw
  simp only [List.mem_append, List.mem_map, List.mem_singleton] at hw
  unfold highestIndex
  rcases hw with ((hw | hw) | hw) | hw
  · obtain ⟨ci, hci, rfl⟩ := hw
    have := List.snd_lt_of_mem_zipIdx hci
    simp only at this ⊢
    omega
  · obtain ⟨ci, hci, rfl⟩ := hw
    have := List.snd_lt_of_mem_zipIdx hci
    simp only at this ⊢
    unfold lowestIndex
    omega
  · obtain ⟨ci, hci, rfl⟩ := hw
    have := List.snd_lt_of_mem_zipIdx hci
    rw [checksum_field_length] at this
    simp only at this ⊢
    omega
  · subst hw
    rw [checksum_field_length]
    simp only
    omega

/-- the encoder is memory-safe for every message whose payload leaves room for the CheckSum field and the NUL
(BeginString of at most 19 characters): all writes fall inside `output` -/
theorem C03_encode_safe (S : Schema) (payload : Bytes) (hb : S.beginStr.length ≤ 19)
    (hp : payload.length + 8 ≤ Gen.maxMsgLength) :
    ∀ w ∈ encodeWrites S payload, 0 ≤ w.1 ∧ w.1 < (encBufSize : Int) := by
  intro w hw
  have hm : Gen.maxMsgLength = 8192 := rfl
  have := C03_encode_writes_in_range S payload (by omega) w hw
  have h1 := C03_encode_lowest_index_ok S.beginStr.length payload.length hb
  have h2 := (C03_encode_highest_index payload.length).mpr hp
  omega

/-- KNOWN FINDING `encode-buffer-overflow`: nothing in `Message::encode` bounds the payload; for EVERY message whose
payload exceeds `FIX8_MAX_MSG_LENGTH - 8` bytes the call writes beyond the end of `output` (real code: ASan
stack-buffer-overflow in `Message::encode`, e.g. five string fields of 2000 bytes) -/
theorem C03_finding_encode_buffer_overflow (S : Schema) (payload : Bytes) (h : Gen.maxMsgLength < payload.length + 8) :
    ∃ w ∈ encodeWrites S payload, (encBufSize : Int) ≤ w.1 := by
  refine ⟨(((Gen.headerCalcOffset + payload.length + 7 : Nat) : Int), 0), ?_, ?_⟩
  · unfold encodeWrites
    simp only [List.mem_append, List.mem_singleton]
    right
    rw [checksum_field_length]
  · unfold encBufSize
    simp only
    omega

/-- `encodeFitsBuffer` (the model's test, printed as `oob` by the driver and compared with ASan on the real encoder)
is exactly memory safety of the index model: for a BeginString of at most 19 characters, every write of
`Message::encode` for the message `m` lies inside `output` iff `encodeFitsBuffer S body m` -/
theorem C03_encode_in_buffer (S : Schema) (body : List Trait) (m : Msg) (hb : S.beginStr.length ≤ 19) :
    encodeFitsBuffer S body m = true ↔
      ∀ w ∈ encodeWrites S (msgPayload S body m), 0 ≤ w.1 ∧ w.1 < (encBufSize : Int) := by
  unfold encodeFitsBuffer
  rw [decide_eq_true_iff]
  constructor
  · intro h; exact C03_encode_safe S _ hb h
  · intro h
    by_cases hp : (msgPayload S body m).length + 8 ≤ Gen.maxMsgLength
    · exact hp
    · obtain ⟨w, hw, hbig⟩ := C03_finding_encode_buffer_overflow S (msgPayload S body m) (by omega)
      have := (h w hw).2
      omega

/-- the bytes between the lowest index and the NUL are as many as `encodeMsg` has (what `to.assign(ptr, msgLen)`
returns): the written range is the encoded message, nothing more -/
theorem C03_encode_range_is_message (S : Schema) (ts : List Trait) (m : Msg) (h : (msgPayload S ts m).length < 10 ^ 7) :
    highestIndex (msgPayload S ts m).length - lowestIndex S.beginStr.length (msgPayload S ts m).length
      = ((encodeMsg S ts m).length : Int) := by
  have hpre := C03_encode_preamble_meets_payload S (msgPayload S ts m).length h
  unfold encodeMsg
  simp only [List.length_append, checksum_field_length]
  unfold msgPayload at hpre h ⊢
  unfold highestIndex lowestIndex
  simp only [List.length_append] at hpre h ⊢
  omega

/-! ## non-vacuity -/

example : extractElementCap 32 2048 [51, 53, 61, 65, 1, 52] = some ([51, 53], [65], [52]) := by decide

/-- a 31-digit tag is the longest accepted, a 32-digit tag is refused (it would not leave room for the NUL) -/
example : (extractElementCap 32 2048 (List.replicate 31 49 ++ [61, 65, 1])).isSome = true := by decide
example : extractElementCap 32 2048 (List.replicate 32 49 ++ [61, 65, 1]) = none := by decide

example : extractFixed [57, 54, 61, 1, 1, 1, 1, 56] 3 = some ([57, 54], [1, 1, 1], [56]) := by decide

/-- "FIX.4.2", a 100-byte payload: all writes inside; a 8185-byte payload: not -/
example : encodeInBuffer 7 100 := by decide
example : ¬ encodeInBuffer 7 8185 := by decide
example : encodeInBuffer 7 8184 := by decide

/-- a message with five 2000-byte string fields overflows `output` -/
example (S : Schema) (payload : Bytes) (h : payload.length = 5 * 2004) : ∃ w ∈ encodeWrites S payload, (encBufSize : Int) ≤ w.1 :=
  C03_finding_encode_buffer_overflow S payload (by rw [h]; decide)

/-- inputs on which the old group loop did not advance: the model ends with a library exception or a message -/
example (S : Schema) : factory S false [56, 61, 1, 57, 61, 1, 51, 53, 61, 1] ≠ .error .fuel := C03_no_hang S false _

end Fix8Model.Props.C03
