import Fix8Model.Conc.LoggerLemmas
import Fix8Model.Conc.LoggerProgress
/-!
C28 – Loggers write every accepted line exactly once, in order.

"Every line submitted at an enabled level before the logger is stopped is written exactly once, lines from one
producer appear in submission order with consecutive sequence numbers, lines at disabled levels never appear, and
the submit call reports success exactly when the line was accepted.  Stopping the logger returns only after all
accepted lines are written."  Quantifier: all interleavings of producer threads submitting lines, followed at any
moment by stop.

The model (`Fix8Model.Conc.Logger`) is a transition system whose runs are ALL interleavings of any number of
producers, the writer thread and one thread calling `stop()`; `Reach V c s` = `s` is reachable with the code variant
`V` and the logger configuration `c`.  The theorems below are about `fixed` (the code with the two proposed `fix:`
commits: the writer loop runs until it dequeues the empty element of `stop()`; `enqueue` returns `try_push(le)`),
or about every variant where the variant does not matter.  `Reach` places no bound on the number of producers.

Vocabulary (ghost fields of the state):
* `s.subs`      every `send`/`enqueue` call made by a producer; a line carries its producer `pid` and `k` = the
                number of earlier calls of that producer
* `s.pre`       accepted lines (enqueued) whose queue ticket precedes the ticket of the empty element of `stop()`
* `s.post`      accepted lines with a later ticket (submitted concurrently with / after `stop()`)
* `s.early`     lines whose `send`/`enqueue` call had RETURNED before `stop()` was called
* `s.written`   the file: written lines in order, each with the sequence number it was given
* `s.filtered`  `send` calls at a disabled level;  `s.rets` the value each returned call returned

Excluded class (known finding `empty-line`): a producer submits an EMPTY line; the writer thread takes it for the
element of `stop()` and leaves (`C28_finding_empty_line`).  `NoEmptyLine s` = no producer call carried an empty text.
-/
namespace Fix8Model.Props.C28
open Fix8Model.Conc.Logger

/-- no producer submitted an empty line (the complement of the known-finding class `empty-line`) -/
def NoEmptyLine (s : State) : Prop := ∀ l ∈ s.subs, l.text ≠ []

instance (s : State) : Decidable (NoEmptyLine s) := by unfold NoEmptyLine; infer_instance

/-! ## the written lines are accepted lines, each at most once, in ticket order (every variant, every moment) -/

/-- at every moment the file is a prefix of the accepted elements in ticket order: the ticket order is the file,
then what ended the loop, then the element the writer holds, then the queue -/
theorem C28_file_is_ticket_prefix (V : Variant) (c : Cfg) (s : State) (h : Reach V c s) :
    s.tickets = s.written.map (·.line) ++ (s.dropped ++ hand s.cpc ++ s.queue.map (·.line)) := by
  have a := (inv_reach h).A
  rw [a.a1, a.a2]; simp [qlines]

theorem written_sublist (V : Variant) (c : Cfg) (s : State) (h : Reach V c s) :
    (s.written.map (·.line)).Sublist (s.pre ++ s.post) := by
  have a := (inv_reach h).A
  have hpre := C28_file_is_ticket_prefix V c s h
  have h1 : (s.written.map (·.line)).Sublist s.tickets := by
    rw [hpre]; exact List.sublist_append_left _ _
  have h2 := h1.filter (fun l => !l.isStop)
  have e1 : (s.written.map (·.line)).filter (fun l => !l.isStop) = s.written.map (·.line) := by
    rw [List.filter_eq_self]
    intro l hl
    obtain ⟨w, hw, e⟩ := List.mem_map.mp hl
    have hm : l ∈ s.tickets := h1.subset hl
    unfold State.tickets at hm
    simp only [List.mem_append] at hm
    rcases hm with (hm | hm) | hm
    · simp [a.a6 l (by simp [hm])]
    · split at hm
      · have := a.a4 w hw
        rw [e, List.mem_singleton.mp hm] at this
        exact absurd rfl this
      · cases hm
    · simp [a.a6 l (by simp [hm])]
  have e2 : s.tickets.filter (fun l => !l.isStop) = s.pre ++ s.post := by
    unfold State.tickets
    have f : ∀ ls : List Line, (∀ l ∈ ls, l.isStop = false) → ls.filter (fun l => !l.isStop) = ls := by
      intro ls hls; rw [List.filter_eq_self]; intro l hl; simp [hls l hl]
    rw [List.filter_append, List.filter_append, f s.pre (fun l hl => a.a6 l (by simp [hl])),
      f s.post (fun l hl => a.a6 l (by simp [hl]))]
    split <;> simp [stopLine]
  rw [e1, e2] at h2
  exact h2

/-- nothing is written that was not accepted, and nothing is written twice -/
theorem C28_exactly_once (V : Variant) (c : Cfg) (s : State) (h : Reach V c s) :
    (∀ w ∈ s.written, w.line ∈ s.pre ++ s.post) ∧ (s.written.map (·.line)).Nodup := by
  have sub := written_sublist V c s h
  refine ⟨fun w hw => sub.subset (List.mem_map.mpr ⟨w, hw, rfl⟩), ?_⟩
  have b3 := (inv_reach h).B.b3
  have : (s.pre ++ s.post).Nodup := by
    rw [List.nodup_iff_pairwise_ne]
    refine b3.imp ?_
    intro a b hab e
    have := hab (by rw [e])
    rw [e] at this; exact Nat.lt_irrefl _ this
  exact this.sublist sub

/-- lines of one producer appear in the file in the order the producer submitted them -/
theorem C28_producer_order (V : Variant) (c : Cfg) (s : State) (h : Reach V c s) :
    (s.written.map (·.line)).Pairwise (fun a b => a.pid = b.pid → a.k < b.k) :=
  ((inv_reach h).B.b3).sublist (written_sublist V c s h)

/-- the sequence numbers are consecutive in file order: the lines numbered by `_sequence` carry 1,2,3,.. in file
order, and so do the lines numbered by `_osequence` (only with the `direction` flag; without it every line is
numbered by `_sequence`, `C28_sequence_consecutive_plain`) -/
theorem C28_sequence_consecutive (V : Variant) (c : Cfg) (s : State) (h : Reach V c s) (hs : c.seqFlag = true) :
    (s.written.filter (fun w => useIn c w.line)).map (·.seq) = List.range' 1 s.seqIn ∧
    (s.written.filter (fun w => !useIn c w.line)).map (·.seq) = List.range' 1 s.seqOut :=
  ⟨(inv_reach h).C.c1 hs, (inv_reach h).C.c2 hs⟩

theorem C28_sequence_consecutive_plain (V : Variant) (c : Cfg) (s : State) (h : Reach V c s) (hs : c.seqFlag = true)
    (hd : c.dirFlag = false) : s.written.map (·.seq) = List.range' 1 s.written.length := by
  have h1 := (C28_sequence_consecutive V c s h hs).1
  have e : s.written.filter (fun w => useIn c w.line) = s.written := by
    rw [List.filter_eq_self]; intro w _; simp [useIn, hd]
  rw [e] at h1
  have hl := congrArg List.length h1
  simp only [List.length_map, List.length_range'] at hl
  rw [h1, hl]

/-- lines at disabled levels never appear: a `send` at a disabled level is never written, and every written line that
came through `send` has an enabled level (`enqueue` ignores the level by contract) -/
theorem C28_filtered_never_written (V : Variant) (c : Cfg) (s : State) (h : Reach V c s) :
    (∀ l ∈ s.filtered, l ∉ s.written.map (·.line)) ∧
    (∀ w ∈ s.written, w.line.viaSend = true → c.loggable w.line.level = true) := by
  have b := (inv_reach h).B
  have ex := (C28_exactly_once V c s h).1
  refine ⟨?_, fun w hw => b.b7 _ (ex w hw)⟩
  intro l hl hm
  obtain ⟨w, hw, e⟩ := List.mem_map.mp hm
  exact (b.b5 l (List.mem_append_left _ hl)).2 (e ▸ ex w hw)

/-! ## the fixed code -/

/-- the submit call reports success exactly when the line was accepted: for every returned call at an enabled
level (and for every `enqueue`) the value is `true` iff the line was put on the queue -/
theorem C28_return_value (c : Cfg) (s : State) (h : Reach fixed c s) :
    ∀ lr ∈ s.rets, (lr.1.viaSend = true → c.loggable lr.1.level = true) → (lr.2 = true ↔ lr.1 ∈ s.pre ++ s.post) := by
  intro lr hlr hen
  have i := inv_reach h
  rcases i.D.d1 lr hlr with ⟨e, m⟩ | ⟨e, m⟩ | ⟨e, m⟩
  · exact ⟨fun _ => m, fun _ => by rw [e]; rfl⟩
  · have hn := (i.B.b5 lr.1 (List.mem_append_right _ m)).2
    refine ⟨fun ht => ?_, fun hm => absurd hm hn⟩
    rw [e] at ht; cases ht
  · have := i.B.b6 lr.1 m
    rw [hen this.1] at this; cases this.2

/-- a `send` at a disabled level returns `true` (logger.hpp: `is_loggable(lev) ? enqueue(..) : true`) although the
line is dropped: "success" there means "nothing failed" -/
theorem C28_return_value_disabled (V : Variant) (c : Cfg) (s : State) (h : Reach V c s) :
    ∀ lr ∈ s.rets, lr.1 ∈ s.filtered → lr.2 = true := by
  intro lr hlr hf
  have i := inv_reach h
  have hnot := (i.B.b5 lr.1 (List.mem_append_left _ hf))
  rcases i.D.d1 lr hlr with ⟨_, m⟩ | ⟨_, m⟩ | ⟨e, _⟩
  · exact absurd m hnot.2
  · -- a line is never both rejected and filtered: both lists hold distinct calls
    exact absurd hf (rejected_not_filtered h lr.1 m)
  · exact e
where
  rejected_not_filtered {V : Variant} {c : Cfg} {s : State} (h : Reach V c s) : ∀ l ∈ s.rejected, l ∉ s.filtered := by
    induction h with
    | init => intro l hl; cases hl
    | @step s s' hr st ih =>
      have b1 := (inv_reach hr).B.b1
      have b5 := (inv_reach hr).B.b5
      cases st with
      | submit p lev val text viaSend ok =>
        have fresh := mkLine_fresh b1 p lev val text viaSend
        unfold submit
        split
        · intro l hl hm
          simp only [List.mem_append, List.mem_singleton] at hm
          rcases hm with hm | hm
          · exact ih l hl hm
          · rw [hm] at hl; exact fresh (b5 _ (List.mem_append_right _ hl)).1
        · split
          · split <;> exact ih
          · intro l hl hm
            simp only [List.mem_append, List.mem_singleton] at hl
            rcases hl with hl | hl
            · exact ih l hl hm
            · rw [hl] at hm; exact fresh (b5 _ (List.mem_append_left _ hm)).1
      | cGot l hp =>
        unfold cGot processLine
        (repeat' split) <;> exact ih
      | _ => exact ih

/-- **Stopping the logger returns only after all accepted lines are written** – and says which they are: once
`stop()` has returned, the file consists of exactly the lines accepted before the empty element of `stop()`, each
once, in ticket order (for all interleavings; no producer submitted an empty line) -/
theorem C28_stop_writes_all (c : Cfg) (s : State) (h : Reach fixed c s) (hne : NoEmptyLine s) (hj : s.spc = .joined) :
    s.written.map (·.line) = s.pre := by
  have i := inv_reach h
  have a := i.A
  have hex := a.a8 hj
  have hd := exit_by_empty (V := fixed) rfl h hex
  have ht := C28_file_is_ticket_prefix fixed c s h
  -- the element that ended the loop is the one `stop()` enqueued
  obtain ⟨x, xs, hdx⟩ : ∃ x xs, s.dropped = x :: xs := by
    cases hdd : s.dropped with
    | nil => exact absurd hdd hd
    | cons x xs => exact ⟨x, xs, rfl⟩
  have hxe : x.text = [] := a.a5 x (by rw [hdx]; simp)
  have hxt : x ∈ s.tickets := by rw [ht, hdx]; simp
  have hx : x = stopLine := by
    unfold State.tickets at hxt
    simp only [List.mem_append] at hxt
    rcases hxt with (hm | hm) | hm
    · exact absurd hxe (hne x (i.B.b2 x (by simp [hm])))
    · split at hm
      · exact List.mem_singleton.mp hm
      · cases hm
    · exact absurd hxe (hne x (i.B.b2 x (by simp [hm])))
  have htk : s.tickets = s.pre ++ stopLine :: s.post := by
    unfold State.tickets; rw [hj]; simp [SPc.ticketed]
  rw [htk, hdx, hx] at ht
  simp only [List.cons_append, List.append_assoc] at ht
  refine (split_unique stopLine _ _ _ _ ht ?_ ?_).symm
  · intro hm; have := a.a6 stopLine (by simp [hm]); cases this
  · intro hm
    obtain ⟨w, hw, e⟩ := List.mem_map.mp hm
    have := a.a4 w hw
    rw [e] at this; exact this rfl

/-- every line submitted at an enabled level before the logger is stopped is written exactly once: a line whose
`send`/`enqueue` call returned before `stop()` was called is in the file when `stop()` returns (`C28_exactly_once`
adds: not twice) -/
theorem C28_accepted_before_stop_written (c : Cfg) (s : State) (h : Reach fixed c s) (hne : NoEmptyLine s)
    (hj : s.spc = .joined) : ∀ l ∈ s.early, l ∈ s.written.map (·.line) := by
  intro l hl
  rw [C28_stop_writes_all c s h hne hj]
  exact (inv_reach h).D.e1 l hl

/-- `stop()` can always return: from every reachable state of the fixed code there is a continuation (the producers'
pending pushes complete, the thread in `stop()` and the writer thread take their steps) in which `stop()` has returned –
the loop `for (;;)` cannot be left waiting for an element that never comes.  (Progress under a fair scheduler; what
has been written by then is `C28_stop_writes_all`.) -/
theorem C28_stop_returns (c : Cfg) (s : State) (h : Reach fixed c s) :
    ∃ s', Steps fixed c s s' ∧ s'.spc = .joined :=
  stop_can_return fixed c s h

/-! ## non-vacuity -/

def cfgAll : Cfg := ⟨31, true, true, false⟩

/-- two producers interleaved at the granularity of tickets, a filtered line, `stop()` racing with the last call -/
def demo : List Action :=
  [.submit 1 1 0 ['a'] true true, .submit 2 2 1 ['b'] true true, .pushDone 1, .consumer, .consumer, .pushDone 0,
   .submit 1 0 0 ['x'] true true, .consumer, .consumer, .consumer, .stopper, .submit 2 1 0 ['c'] true true, .stopper,
   .submit 1 1 0 ['d'] true true, .pushDone 1, .stopper, .pushDone 3, .consumer, .consumer, .consumer, .consumer,
   .consumer, .consumer, .consumer, .consumer, .consumer, .consumer, .stopper]

example : let s := execAll fixed ⟨30, true, true, false⟩ demo init
    NoEmptyLine s ∧ s.spc = .joined ∧ s.written.map (fun w => (w.seq, w.line.text)) = [(1, ['a']), (1, ['b']), (2, ['c'])] ∧
    s.early.map (·.text) = [['b'], ['a']] ∧ s.post.map (·.text) = [['d']] ∧ s.filtered.map (·.text) = [['x']] ∧
    s.rets.map (fun lr => (lr.1.text, lr.2)) = [(['b'], true), (['a'], true), (['x'], true), (['c'], true), (['d'], true)] := by
  decide

/-! ## findings: the property is FALSE of the base commit (witnesses replayed on the real code by the check) -/

/-- `while (!_stopping)`: a line whose `send` returned before `stop()` was called is never written when the writer
thread evaluates its loop condition after `request_stop()`; `stop()` returns with the line still queued
(corpus/C28/lost_on_stop.txt) -/
theorem C28_finding_lost_on_stop :
    ∃ s, Reach ⟨false, true⟩ cfgAll s ∧ NoEmptyLine s ∧ s.spc = .joined ∧
      ∃ l ∈ s.early, l ∉ s.written.map (·.line) := by
  refine ⟨execAll ⟨false, true⟩ cfgAll [.submit 1 1 0 ['a'] true true, .pushDone 0, .stopper, .consumer, .stopper, .stopper, .stopper] init,
    execAll_reach _ _ _, ?_, ?_, ⟨⟨1, 0, 1, 0, ['a'], true, false⟩, ?_, ?_⟩⟩ <;> decide

/-- `return try_push(le) == 0`: an accepted line reports `false` (corpus/C28/inverted_return.txt) -/
theorem C28_finding_inverted_return :
    ∃ s, Reach ⟨true, false⟩ cfgAll s ∧ ∃ lr ∈ s.rets, lr.1 ∈ s.pre ∧ cfgAll.loggable lr.1.level = true ∧ lr.2 = false := by
  refine ⟨execAll ⟨true, false⟩ cfgAll [.submit 1 1 0 ['a'] true true, .pushDone 0] init, execAll_reach _ _ _,
    ⟨(⟨1, 0, 1, 0, ['a'], true, false⟩, false), ?_, ?_, ?_, ?_⟩⟩ <;> decide

/-- KNOWN FINDING `empty-line` (not fixed): an empty line submitted by a producer ends the writer thread; a line
accepted after it and before `stop()` is never written (corpus/C28/empty_line.txt) -/
theorem C28_finding_empty_line :
    ∃ s, Reach fixed cfgAll s ∧ ¬ NoEmptyLine s ∧ s.spc = .joined ∧ ∃ l ∈ s.early, l ∉ s.written.map (·.line) := by
  refine ⟨execAll fixed cfgAll [.submit 1 1 0 ['a'] true true, .pushDone 0, .submit 1 1 0 [] true true, .pushDone 1,
      .submit 1 1 0 ['b'] true true, .pushDone 2, .consumer, .consumer, .consumer, .consumer, .consumer, .consumer, .consumer,
      .stopper, .stopper, .stopper, .stopper] init,
    execAll_reach _ _ _, ?_, ?_, ⟨⟨1, 2, 1, 0, ['b'], true, false⟩, ?_, ?_⟩⟩ <;> decide

end Fix8Model.Props.C28
