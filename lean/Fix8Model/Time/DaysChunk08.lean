import Fix8Model.Time.DayOK
namespace Fix8Model.Time
/-- days 16000 … 17999, evaluated by the kernel -/
theorem days_chunk_08 : (List.range' 16000 2000).all dayOK = true := by decide +kernel
end Fix8Model.Time
