import Fix8Model.Time.DaysChunk00
import Fix8Model.Time.DaysChunk01
import Fix8Model.Time.DaysChunk02
import Fix8Model.Time.DaysChunk03
import Fix8Model.Time.DaysChunk04
import Fix8Model.Time.DaysChunk05
import Fix8Model.Time.DaysChunk06
import Fix8Model.Time.DaysChunk07
import Fix8Model.Time.DaysChunk08
import Fix8Model.Time.DaysChunk09
import Fix8Model.Time.DaysChunk10
import Fix8Model.Time.DaysChunk11
import Fix8Model.Time.DaysChunk12
import Fix8Model.Time.DaysChunk13
import Fix8Model.Time.DaysChunk14
import Fix8Model.Time.DaysChunk15
import Fix8Model.Time.DaysChunk16
import Fix8Model.Time.DaysChunk17
import Fix8Model.Time.DaysChunk18
import Fix8Model.Time.DaysChunk19
import Fix8Model.Time.DaysChunk20
import Fix8Model.Time.DaysChunk21
import Fix8Model.Time.DaysChunk22
import Fix8Model.Time.DaysChunk23
namespace Fix8Model.Time

/-- all 47 482 days from 1970-01-01 to 2099-12-31 (24 kernel-evaluated chunks) -/
theorem day_ok (z : Nat) (hz : z < 47482) : dayOK z = true := by
  have hc : (0 ≤ z ∧ z < 2000) ∨ (2000 ≤ z ∧ z < 4000) ∨ (4000 ≤ z ∧ z < 6000) ∨ (6000 ≤ z ∧ z < 8000) ∨ (8000 ≤ z ∧ z < 10000) ∨ (10000 ≤ z ∧ z < 12000) ∨ (12000 ≤ z ∧ z < 14000) ∨ (14000 ≤ z ∧ z < 16000) ∨ (16000 ≤ z ∧ z < 18000) ∨ (18000 ≤ z ∧ z < 20000) ∨ (20000 ≤ z ∧ z < 22000) ∨ (22000 ≤ z ∧ z < 24000) ∨ (24000 ≤ z ∧ z < 26000) ∨ (26000 ≤ z ∧ z < 28000) ∨ (28000 ≤ z ∧ z < 30000) ∨ (30000 ≤ z ∧ z < 32000) ∨ (32000 ≤ z ∧ z < 34000) ∨ (34000 ≤ z ∧ z < 36000) ∨ (36000 ≤ z ∧ z < 38000) ∨ (38000 ≤ z ∧ z < 40000) ∨ (40000 ≤ z ∧ z < 42000) ∨ (42000 ≤ z ∧ z < 44000) ∨ (44000 ≤ z ∧ z < 46000) ∨ (46000 ≤ z ∧ z < 47482) := by omega
  rcases hc with h | h | h | h | h | h | h | h | h | h | h | h | h | h | h | h | h | h | h | h | h | h | h | h
  · exact List.all_eq_true.mp days_chunk_00 z (List.mem_range'_1.mpr ⟨h.1, by omega⟩)
  · exact List.all_eq_true.mp days_chunk_01 z (List.mem_range'_1.mpr ⟨h.1, by omega⟩)
  · exact List.all_eq_true.mp days_chunk_02 z (List.mem_range'_1.mpr ⟨h.1, by omega⟩)
  · exact List.all_eq_true.mp days_chunk_03 z (List.mem_range'_1.mpr ⟨h.1, by omega⟩)
  · exact List.all_eq_true.mp days_chunk_04 z (List.mem_range'_1.mpr ⟨h.1, by omega⟩)
  · exact List.all_eq_true.mp days_chunk_05 z (List.mem_range'_1.mpr ⟨h.1, by omega⟩)
  · exact List.all_eq_true.mp days_chunk_06 z (List.mem_range'_1.mpr ⟨h.1, by omega⟩)
  · exact List.all_eq_true.mp days_chunk_07 z (List.mem_range'_1.mpr ⟨h.1, by omega⟩)
  · exact List.all_eq_true.mp days_chunk_08 z (List.mem_range'_1.mpr ⟨h.1, by omega⟩)
  · exact List.all_eq_true.mp days_chunk_09 z (List.mem_range'_1.mpr ⟨h.1, by omega⟩)
  · exact List.all_eq_true.mp days_chunk_10 z (List.mem_range'_1.mpr ⟨h.1, by omega⟩)
  · exact List.all_eq_true.mp days_chunk_11 z (List.mem_range'_1.mpr ⟨h.1, by omega⟩)
  · exact List.all_eq_true.mp days_chunk_12 z (List.mem_range'_1.mpr ⟨h.1, by omega⟩)
  · exact List.all_eq_true.mp days_chunk_13 z (List.mem_range'_1.mpr ⟨h.1, by omega⟩)
  · exact List.all_eq_true.mp days_chunk_14 z (List.mem_range'_1.mpr ⟨h.1, by omega⟩)
  · exact List.all_eq_true.mp days_chunk_15 z (List.mem_range'_1.mpr ⟨h.1, by omega⟩)
  · exact List.all_eq_true.mp days_chunk_16 z (List.mem_range'_1.mpr ⟨h.1, by omega⟩)
  · exact List.all_eq_true.mp days_chunk_17 z (List.mem_range'_1.mpr ⟨h.1, by omega⟩)
  · exact List.all_eq_true.mp days_chunk_18 z (List.mem_range'_1.mpr ⟨h.1, by omega⟩)
  · exact List.all_eq_true.mp days_chunk_19 z (List.mem_range'_1.mpr ⟨h.1, by omega⟩)
  · exact List.all_eq_true.mp days_chunk_20 z (List.mem_range'_1.mpr ⟨h.1, by omega⟩)
  · exact List.all_eq_true.mp days_chunk_21 z (List.mem_range'_1.mpr ⟨h.1, by omega⟩)
  · exact List.all_eq_true.mp days_chunk_22 z (List.mem_range'_1.mpr ⟨h.1, by omega⟩)
  · exact List.all_eq_true.mp days_chunk_23 z (List.mem_range'_1.mpr ⟨h.1, by omega⟩)

end Fix8Model.Time
