import Fix8Model.Time.DayOK
namespace Fix8Model.Time
/-- days 44000 … 45999, evaluated by the kernel -/
theorem days_chunk_22 : (List.range' 44000 2000).all dayOK = true := by decide +kernel
end Fix8Model.Time
