import Fix8Model.Time.DayOK
namespace Fix8Model.Time
/-- days 40000 … 41999, evaluated by the kernel -/
theorem days_chunk_20 : (List.range' 40000 2000).all dayOK = true := by decide +kernel
end Fix8Model.Time
