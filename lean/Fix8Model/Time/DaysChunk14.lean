import Fix8Model.Time.DayOK
namespace Fix8Model.Time
/-- days 28000 … 29999, evaluated by the kernel -/
theorem days_chunk_14 : (List.range' 28000 2000).all dayOK = true := by decide +kernel
end Fix8Model.Time
