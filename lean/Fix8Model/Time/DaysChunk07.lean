import Fix8Model.Time.DayOK
namespace Fix8Model.Time
/-- days 14000 … 15999, evaluated by the kernel -/
theorem days_chunk_07 : (List.range' 14000 2000).all dayOK = true := by decide +kernel
end Fix8Model.Time
