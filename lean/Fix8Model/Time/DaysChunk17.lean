import Fix8Model.Time.DayOK
namespace Fix8Model.Time
/-- days 34000 … 35999, evaluated by the kernel -/
theorem days_chunk_17 : (List.range' 34000 2000).all dayOK = true := by decide +kernel
end Fix8Model.Time
