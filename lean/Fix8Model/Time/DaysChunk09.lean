import Fix8Model.Time.DayOK
namespace Fix8Model.Time
/-- days 18000 … 19999, evaluated by the kernel -/
theorem days_chunk_09 : (List.range' 18000 2000).all dayOK = true := by decide +kernel
end Fix8Model.Time
