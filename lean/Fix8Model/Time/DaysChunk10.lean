import Fix8Model.Time.DayOK
namespace Fix8Model.Time
/-- days 20000 … 21999, evaluated by the kernel -/
theorem days_chunk_10 : (List.range' 20000 2000).all dayOK = true := by decide +kernel
end Fix8Model.Time
