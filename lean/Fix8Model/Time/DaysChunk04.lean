import Fix8Model.Time.DayOK
namespace Fix8Model.Time
/-- days 8000 … 9999, evaluated by the kernel -/
theorem days_chunk_04 : (List.range' 8000 2000).all dayOK = true := by decide +kernel
end Fix8Model.Time
