import Fix8Model.Time.DayOK
namespace Fix8Model.Time
/-- days 26000 … 27999, evaluated by the kernel -/
theorem days_chunk_13 : (List.range' 26000 2000).all dayOK = true := by decide +kernel
end Fix8Model.Time
