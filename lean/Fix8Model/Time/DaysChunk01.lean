import Fix8Model.Time.DayOK
namespace Fix8Model.Time
/-- days 2000 … 3999, evaluated by the kernel -/
theorem days_chunk_01 : (List.range' 2000 2000).all dayOK = true := by decide +kernel
end Fix8Model.Time
