import Fix8Model.Time.DayOK
namespace Fix8Model.Time
/-- days 10000 … 11999, evaluated by the kernel -/
theorem days_chunk_05 : (List.range' 10000 2000).all dayOK = true := by decide +kernel
end Fix8Model.Time
