import Fix8Model.Time.DayOK
namespace Fix8Model.Time
/-- days 32000 … 33999, evaluated by the kernel -/
theorem days_chunk_16 : (List.range' 32000 2000).all dayOK = true := by decide +kernel
end Fix8Model.Time
