import Fix8Model.Time.DayOK
namespace Fix8Model.Time
/-- days 46000 … 47481, evaluated by the kernel -/
theorem days_chunk_23 : (List.range' 46000 1482).all dayOK = true := by decide +kernel
end Fix8Model.Time
