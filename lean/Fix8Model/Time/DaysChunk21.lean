import Fix8Model.Time.DayOK
namespace Fix8Model.Time
/-- days 42000 … 43999, evaluated by the kernel -/
theorem days_chunk_21 : (List.range' 42000 2000).all dayOK = true := by decide +kernel
end Fix8Model.Time
