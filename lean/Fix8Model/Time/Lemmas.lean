import Fix8Model.Time.Days
namespace Fix8Model.Time
open Fix8Model.Gen

theorem foldl_format0 (w : Nat) : ∀ n : Nat,
    (format0 n w).foldl (fun to c => to * 8 + to * 2 + (c - 48)) 0 = n % 10 ^ w := by
  induction w with
  | zero => intro n; simp [format0, Nat.mod_one]
  | succ w ih =>
    intro n
    simp only [format0, List.foldl_append, List.foldl_cons, List.foldl_nil, ih]
    have h1 : n % 10 + 48 - 48 = n % 10 := by omega
    rw [h1, Nat.pow_succ]
    have := Nat.mod_mul_right_div_self n 10 (10 ^ w)
    have h2 : n % (10 ^ w * 10) = n % 10 + 10 * (n / 10 % 10 ^ w) := by
      rw [Nat.mul_comm, Nat.mod_mul]
    omega

theorem format0_length (w : Nat) : ∀ n : Nat, (format0 n w).length = w := by
  induction w with
  | zero => intro n; rfl
  | succ w ih => intro n; simp [format0, ih]

theorem parseDec_format0 (w n : Nat) (rest : List Nat) (h : n < 10 ^ w) :
    parseDec w (format0 n w ++ rest) = (n, rest) := by
  unfold parseDec
  have hl := format0_length w n
  rw [List.take_left' hl, List.drop_left' hl, foldl_format0, Nat.mod_eq_of_lt h]

end Fix8Model.Time

namespace Fix8Model.Time

theorem fmt_withMs (t ms : Nat) : dateTimeFormat t ms .withMs =
    format0 (civilFromDays (t / 86400)).year 4 ++ (format0 (civilFromDays (t / 86400)).mon 2 ++
      (format0 (civilFromDays (t / 86400)).day 2 ++ (45 :: (format0 (t % 86400 / 3600) 2 ++ (58 ::
        (format0 (t % 86400 % 3600 / 60) 2 ++ (58 :: (format0 (t % 86400 % 60) 2 ++ (46 :: format0 ms 3))))))))) := by
  simp [dateTimeFormat, Ind.rank]

theorem fmt_timeWithMs (t ms : Nat) : dateTimeFormat t ms .timeWithMs =
    format0 (t % 86400 / 3600) 2 ++ (58 :: (format0 (t % 86400 % 3600 / 60) 2 ++ (58 ::
      (format0 (t % 86400 % 60) 2 ++ (46 :: format0 ms 3))))) := by
  simp [dateTimeFormat, Ind.rank]

theorem fmt_dateOnly (t ms : Nat) : dateTimeFormat t ms .dateOnly =
    format0 (civilFromDays (t / 86400)).year 4 ++ (format0 (civilFromDays (t / 86400)).mon 2 ++
      format0 (civilFromDays (t / 86400)).day 2) := by
  simp [dateTimeFormat, Ind.rank]

theorem fmt_shortDateOnly (t ms : Nat) : dateTimeFormat t ms .shortDateOnly =
    format0 (civilFromDays (t / 86400)).year 4 ++ format0 (civilFromDays (t / 86400)).mon 2 := by
  simp [dateTimeFormat, Ind.rank]

end Fix8Model.Time

namespace Fix8Model.Time

theorem dateTimeParse_21 (y mo d h mi s ms : Nat) (hy : y < 10 ^ 4) (hmo : mo < 10 ^ 2) (hd : d < 10 ^ 2)
    (hh : h < 10 ^ 2) (hmi : mi < 10 ^ 2) (hs : s < 10 ^ 2) (hms : ms < 10 ^ 3) :
    dateTimeParse (format0 y 4 ++ (format0 mo 2 ++ (format0 d 2 ++ (45 :: (format0 h 2 ++ (58 ::
        (format0 mi 2 ++ (58 :: (format0 s 2 ++ (46 :: format0 ms 3))))))))))
      = some (ms + timeToEpoch ⟨y, mo, d⟩ h mi s * 1000) := by
  unfold dateTimeParse
  simp only [List.length_append, format0_length, List.length_cons]
  rw [parseDec_format0 4 _ _ hy]; simp only
  rw [parseDec_format0 2 _ _ hmo]; simp only
  rw [parseDec_format0 2 _ _ hd]; simp only [List.drop_succ_cons, List.drop_zero]
  rw [parseDec_format0 2 _ _ hh]; simp only [List.drop_succ_cons, List.drop_zero]
  rw [parseDec_format0 2 _ _ hmi]; simp only [List.drop_succ_cons, List.drop_zero]
  rw [parseDec_format0 2 _ _ hs]; simp only [List.drop_succ_cons, List.drop_zero]
  have h3 := parseDec_format0 3 ms [] hms
  rw [List.append_nil] at h3
  simp only [h3, ↓reduceIte, Nat.reduceAdd, if_true]

theorem timeParseOnly_12 (h mi s ms : Nat) (hh : h < 10 ^ 2) (hmi : mi < 10 ^ 2) (hs : s < 10 ^ 2)
    (hms : ms < 10 ^ 3) :
    timeParseOnly (format0 h 2 ++ (58 :: (format0 mi 2 ++ (58 :: (format0 s 2 ++ (46 :: format0 ms 3))))))
      = some (ms + (h * 3600 + mi * 60 + s) * 1000) := by
  unfold timeParseOnly
  simp only [List.length_append, format0_length, List.length_cons]
  rw [parseDec_format0 2 _ _ hh]; simp only [List.drop_succ_cons, List.drop_zero]
  rw [parseDec_format0 2 _ _ hmi]; simp only [List.drop_succ_cons, List.drop_zero]
  rw [parseDec_format0 2 _ _ hs]; simp only [List.drop_succ_cons, List.drop_zero]
  have h3 := parseDec_format0 3 ms [] hms
  rw [List.append_nil] at h3
  simp only [h3, ↓reduceIte, Nat.reduceAdd, if_true]

theorem dateParse_8 (y mo d : Nat) (hy : y < 10 ^ 4) (hmo : mo < 10 ^ 2) (hd : d < 10 ^ 2) :
    dateParse (format0 y 4 ++ (format0 mo 2 ++ format0 d 2)) = timeToEpoch ⟨y, mo, d⟩ 0 0 0 := by
  unfold dateParse
  simp only [List.length_append, format0_length]
  rw [parseDec_format0 4 _ _ hy]; simp only
  rw [parseDec_format0 2 _ _ hmo]; simp only
  have h2 := parseDec_format0 2 d [] hd
  rw [List.append_nil] at h2
  simp only [h2, ↓reduceIte, Nat.reduceAdd, if_true]

theorem dateParse_6 (y mo : Nat) (hy : y < 10 ^ 4) (hmo : mo < 10 ^ 2) :
    dateParse (format0 y 4 ++ format0 mo 2) = timeToEpoch ⟨y, mo, 1⟩ 0 0 0 := by
  unfold dateParse
  simp only [List.length_append, format0_length]
  rw [parseDec_format0 4 _ _ hy]; simp only
  have h2 := parseDec_format0 2 mo [] hmo
  rw [List.append_nil] at h2
  simp only [h2, ↓reduceIte, Nat.reduceAdd, Nat.reduceEqDiff, if_false]

end Fix8Model.Time
