import Fix8Model.Gen.Sched
/-!
Executable model of the session activation schedule of fix8 (C24):

* `decodeDow`          – `decode_dow` (runtime/f8utils.cpp:228-248) with its `std::multimap<char,int>` and `equal_range`
* `Sched.make`         – the `Schedule` constructor (include/fix8/session.hpp:209-215)
* `createSchedule`     – `Configuration::create_schedule` (runtime/configuration.cpp:131-157)
* `test`               – `Schedule::test(prev)` (include/fix8/session.hpp:247-286), the clock being an input
* `run`                – what `Session::activation_service` does with it: `_active = _sch.test(_active)` at every timer tick

Characters are byte values (`Nat`), tick counts are `Int` (nanoseconds since the epoch, `Tickval::ticks` = `long`).
Signed overflow of a `long` is undefined behaviour in C++: every `long` addition the code performs goes through `addT`,
which yields `none` ("ub") when the exact sum is not representable; the harness observes the same event through UBSan.
Constants (`tickDay`, `tickMinute`, `tickSecond`) and the two weekday tables come from `Gen/Sched.lean`, which is
regenerated from the source on every run.
-/
namespace Fix8Model.Time.Schedule
open Fix8Model.Gen

/-! ## decode_dow -/

/-- `InPlaceStrToLower`: `if (isupper(c)) c = tolower(c)` in the "C" locale (no `setlocale` is ever called) -/
def toLower (c : Nat) : Nat := if 65 ≤ c ∧ c ≤ 90 then c + 32 else c

/-- `std::multimap::insert(value)`: after the last element whose key is not greater (upper bound) -/
def mmInsert : List (Nat × Nat) → Nat × Nat → List (Nat × Nat)
  | [], e => [e]
  | x :: xs, e => if e.1 < x.1 then e :: x :: xs else x :: mmInsert xs e

/-- `static const Daymap daymap(days, days + n)` -/
def daymap : List (Nat × Nat) := dowPairs.foldl mmInsert []

/-- `daymap.equal_range(k)`: the mapped values from `lower_bound(k)` up to `upper_bound(k)`.
(A `char` above 127 is negative in C++ and would sort before every key instead of after; the range is empty either way.) -/
def equalRange (k : Nat) : List Nat :=
  ((daymap.dropWhile (fun e => e.1 < k)).takeWhile (fun e => e.1 == k)).map (·.2)

/-- `day_names[d][i]` (`std::string::operator[]` at `size()` yields NUL) -/
def nameChar (d i : Nat) : Nat := (dowNames.getD d []).getD i 0

/-- `decode_dow(from)` -/
def decodeDow (src : List Nat) : Int :=
  match src.map toLower with
  | [] => -1                                                          -- `from.empty()`
  | c0 :: rest =>
    if (48 ≤ c0 ∧ c0 ≤ 57) ∧ rest = [] ∧ 48 ≤ c0 ∧ c0 ≤ 54 then ((c0 - 48 : Nat) : Int)   -- numeric dow
    else
      match equalRange c0 with
      | [] => -1                                                      -- `case 0`
      | [d] => (d : Int)                                              -- `case 1`
      | d1 :: d2 :: _ =>                                              -- `default`
        match rest with
        | [] => -1                                                    -- `source.size() == 1`
        | c1 :: _ =>
          if nameChar d1 1 = c1 then (d1 : Int)
          else if nameChar d2 1 = c1 then (d2 : Int)                  -- `(++result.first)->second`
          else -1

/-! ## Schedule -/

/-- `Tickval::errorticks()`: `f8_time_point::max()` of a 64-bit nanosecond clock -/
def errorTicks : Int := 9223372036854775807

/-- representable as `long` -/
def fits64 (x : Int) : Prop := -9223372036854775808 ≤ x ∧ x ≤ 9223372036854775807
instance (x : Int) : Decidable (fits64 x) := by unfold fits64; exact inferInstance

/-- a `long` addition; `none` = signed overflow (undefined behaviour, reported by UBSan) -/
def addT (a b : Int) : Option Int := if fits64 (a + b) then some (a + b) else none
def mulT (a b : Int) : Option Int := if fits64 (a * b) then some (a * b) else none

/-- the data members of `struct Schedule` that `test` reads -/
structure Sched where
  start : Int
  endT : Int
  duration : Int
  utcOff : Int
  startDay : Int
  endDay : Int
  toffset : Int
deriving Repr, DecidableEq

/-- `Schedule(start, end, duration, utc_offset, start_day, end_day)`: `_toffset = (ticks)_utc_offset * Tickval::minute` -/
def Sched.make (start endT duration utcOff startDay endDay : Int) : Option Sched :=
  (mulT utcOff tickMinute).map fun off => ⟨start, endT, duration, utcOff, startDay, endDay, off⟩

/-- `Tickval::in_range(a, b)`: `!b.is_errorval() ? a <= *this && *this <= b : a <= *this` -/
def inRange (x a b : Int) : Bool := if b ≠ errorTicks then decide (a ≤ x ∧ x ≤ b) else decide (a ≤ x)

/-- `now.get_tm().tm_wday`: `system_clock::to_time_t` truncates the tick count to seconds (toward zero), `gmtime_r`
gives the weekday of the civil day containing that second (1970-01-01 was a Thursday = 4) -/
def wdayOf (ticks : Int) : Int := ((ticks.tdiv tickSecond) / 86400 + 4) % 7

/-- `Schedule::test(prev)` at clock reading `clock` (what `Tickval now(true)` returns) -/
def test (c : Sched) (clock : Int) (prev : Bool) : Option Bool := do
  let now ← addT clock c.toffset                                       -- now.adjust(_toffset)
  let today := now - now.tmod tickDay                                  -- now - now % Tickval::day  (C++ `%` truncates)
  if c.startDay < 0 then
    let lo ← addT today c.start
    let hi ← addT today c.endT
    if inRange now lo hi then some (if !prev then true else prev)
    else some (if prev then false else prev)
  else
    let wd := wdayOf now
    if !prev then
      if (c.startDay > c.endDay ∧ (wd ≥ c.startDay ∨ wd ≤ c.endDay))
          ∨ (c.startDay < c.endDay ∧ wd ≥ c.startDay ∧ wd ≤ c.endDay) then
        let lo ← addT today c.start
        let hi ← addT today c.endT
        some (if inRange now lo hi then true else prev)
      else some prev
    else
      if (c.startDay > c.endDay ∧ (wd < c.startDay ∧ wd > c.endDay))
          ∨ (c.startDay < c.endDay ∧ wd ≥ c.endDay) then
        let hi ← addT today c.endT
        some (if now > hi then false else prev)
      else some prev

/-- the activation service: `_active = _sch.test(_active)` at each instant of the trace; the states after each check -/
def run (c : Sched) : Bool → List Int → Option (List Bool)
  | _, [] => some []
  | st, t :: ts => do
    let s ← test c t st
    let r ← run c s ts
    some (s :: r)

/-! ## Configuration::create_schedule -/

/-- the attributes of the `<schedule>`/`<login>` element as `create_schedule` reads them:
`start_time`/`end_time` after `get_time_field(.., timeonly=true)` (`none` = attribute absent or not 8 characters long,
i.e. `errorticks`), `duration` (minutes, `unsigned`, default 0), `utc_offset_mins` (default 0), the two weekday strings -/
structure SchedCfg where
  startTime : Option Int
  endTime : Option Int
  duration : Nat
  utcOff : Int
  startDay : Option (List Nat)
  endDay : Option (List Nat)

inductive Created where
  | invalid                       -- `return {}` : `is_valid()` is false
  | configError                   -- `throw ConfigurationError(..)`
  | ub                            -- signed overflow while computing
  | ok (s : Sched)
deriving Repr, DecidableEq

def createSchedule (x : SchedCfg) : Created :=
  match x.startTime with
  | none => .invalid
  | some st =>
    if st = errorTicks then .invalid else
    let endR : Option (Option Int) :=
      match x.endTime with
      | none =>
        if x.duration ≠ 0 then (mulT x.duration tickMinute).bind (fun d => addT st d) |>.map some   -- start + duration * minute
        else some (some errorTicks)
      | some e =>
        if e = errorTicks then
          (if x.duration ≠ 0 then (mulT x.duration tickMinute).bind (fun d => addT st d) |>.map some else some (some errorTicks))
        else if e ≤ st then some none else some (some e)
    match endR with
    | none => .ub
    | some none => .configError
    | some (some e) =>
      let sd : Int := match x.startDay with | some s => decodeDow s | none => -1
      let ed : Int := match x.endDay with | some s => decodeDow s | none => if sd < 0 then -1 else sd
      match Sched.make st e x.duration x.utcOff sd ed with
      | none => .ub
      | some s => .ok s

end Fix8Model.Time.Schedule
