import Fix8Model.Gen.MonDays
/-!
Model of the date/time codecs of include/fix8/field.hpp: `format0`, `parse_decimal`,
`time_to_epoch`, `date_time_format`, `date_time_parse`, `time_parse`, `date_parse`, and of the
sub-second log stamp of `GetTimeAsStringMS`.

`gmtime_r` (libc) is modelled by `civilFromDays` (proleptic Gregorian, the well-known
days-to-civil algorithm); the harness checks on every run that libc agrees with it on every day
1970-01-01 … 2099-12-31.  All quantities are `Nat`: the domain starts at the epoch.
-/
namespace Fix8Model.Time
open Fix8Model.Gen

structure Civil where
  year : Nat
  mon : Nat      -- 1..12
  day : Nat      -- 1..31
deriving Repr, DecidableEq

/-- proleptic Gregorian date of day number `z` (days since 1970-01-01) -/
def civilFromDays (z : Nat) : Civil :=
  let z := z + 719468
  let era := z / 146097
  let doe := z - era * 146097
  let yoe := (doe - doe / 1460 + doe / 36524 - doe / 146096) / 365
  let y := yoe + era * 400
  let doy := doe - (365 * yoe + yoe / 4 - yoe / 100)
  let mp := (5 * doy + 2) / 153
  let d := doy - (153 * mp + 2) / 5 + 1
  let m := if mp < 10 then mp + 3 else mp - 9
  ⟨if m ≤ 2 then y + 1 else y, m, d⟩

/-- the day number `time_to_epoch` computes from `tm_year = year-1900`, `tm_mon = mon-1`,
`tm_mday = day` (for year ≥ 1970 and day ≥ 1 the two `? :` guards take their first branch) -/
def daysOfCivil (c : Civil) : Nat :=
  let tmYear := c.year - 1900
  let tmMon := c.mon - 1
  let tyears := if tmYear ≠ 0 then tmYear - 70 else 0
  let tdays := monDays.getD tmMon 0 + (if c.day ≠ 0 then c.day - 1 else 0) + tyears * 365 + (tyears + 2) / 4
  if tmYear ≠ 0 ∧ tmYear % 4 = 0 ∧ tmMon < 2 then tdays - 1 else tdays

/-- `time_to_epoch(tm)` with `utcdiff = 0` -/
def timeToEpoch (c : Civil) (h mi s : Nat) : Nat :=
  daysOfCivil c * secsPerDay + h * secsPerHour + mi * secsPerMin + s

/-- `format0(data, to, width)` -/
def format0 (data : Nat) : Nat → List Nat
  | 0 => []
  | w + 1 => format0 (data / 10) w ++ [data % 10 + 48]

/-- `parse_decimal(begin, len, to)` with `to` initially 0: value of the first `len` bytes and the rest -/
def parseDec (len : Nat) (s : List Nat) : Nat × List Nat :=
  ((s.take len).foldl (fun to c => to * 8 + to * 2 + (c - 48)) 0, s.drop len)

inductive Ind | timeOnly | timeWithMs | shortDateOnly | dateOnly | secOnly | withMs
deriving DecidableEq, Repr

def Ind.rank : Ind → Nat
  | .timeOnly => 0 | .timeWithMs => 1 | .shortDateOnly => 2 | .dateOnly => 3 | .secOnly => 4 | .withMs => 5

/-- `date_time_format(tickval, to, ind)` for the instant `t` seconds + `ms` milliseconds -/
def dateTimeFormat (t ms : Nat) (ind : Ind) : List Nat :=
  let c := civilFromDays (t / 86400)
  let sod := t % 86400
  let date : List Nat :=
    if ind.rank > 1 then
      format0 c.year 4 ++ format0 c.mon 2 ++
        (if ind = .shortDateOnly then [] else format0 c.day 2 ++ (if ind = .dateOnly then [] else [45]))
    else []
  if ind = .shortDateOnly ∨ ind = .dateOnly then date
  else
    date ++ format0 (sod / 3600) 2 ++ [58] ++ format0 (sod % 3600 / 60) 2 ++ [58] ++ format0 (sod % 60) 2 ++
      (if ind = .timeWithMs ∨ ind = .withMs then [46] ++ format0 ms 3 else [])

/-- `date_time_parse(ptr, len)`: ticks in milliseconds (`none` = `Tickval::noticks`/other lengths) -/
def dateTimeParse (s : List Nat) : Option Nat :=
  let (y, r) := parseDec 4 s
  let (mo, r) := parseDec 2 r
  let (d, r) := parseDec 2 r
  let r := r.drop 1
  let (h, r) := parseDec 2 r
  let r := r.drop 1
  let (mi, r) := parseDec 2 r
  let r := r.drop 1
  let (sec, r) := parseDec 2 r
  let secs := timeToEpoch ⟨y, mo, d⟩ h mi sec
  if s.length = 21 then
    let (ms, _) := parseDec 3 (r.drop 1)
    some (ms + secs * 1000)
  else if s.length = 17 then some (secs * 1000)
  else none

/-- `time_parse(ptr, len, timeonly = true)` in milliseconds -/
def timeParseOnly (s : List Nat) : Option Nat :=
  let (h, r) := parseDec 2 s
  let r := r.drop 1
  let (mi, r) := parseDec 2 r
  let r := r.drop 1
  let (sec, r) := parseDec 2 r
  let secs := h * 3600 + mi * 60 + sec
  if s.length = 12 then
    let (ms, _) := parseDec 3 (r.drop 1)
    some (ms + secs * 1000)
  else if s.length = 8 then some (secs * 1000)
  else none

/-- `date_parse(ptr, len)` in seconds -/
def dateParse (s : List Nat) : Nat :=
  let (y, r) := parseDec 4 s
  let (mo, r) := parseDec 2 r
  let d := if s.length = 8 then (parseDec 2 r).1 else 1
  timeToEpoch ⟨y, mo, d⟩ 0 0 0

/-- the seconds field of `GetTimeAsStringMS` after the fix: integer seconds, '.', truncated fraction -/
def logStampSecs (t ns dplaces : Nat) : List Nat :=
  let dp := if dplaces > 9 then 9 else dplaces
  let frac := ns / 10 ^ (9 - dp)
  if dplaces ≠ 0 then
    format0 (t % 60) 2 ++ [46] ++ format0 frac dp ++ List.replicate (dplaces - dp) 48
  else format0 (t % 60) 2

end Fix8Model.Time
