import Fix8Model.Time.DayOK
namespace Fix8Model.Time
/-- days 4000 … 5999, evaluated by the kernel -/
theorem days_chunk_02 : (List.range' 4000 2000).all dayOK = true := by decide +kernel
end Fix8Model.Time
