import Fix8Model.Time.DayOK
namespace Fix8Model.Time
/-- days 38000 … 39999, evaluated by the kernel -/
theorem days_chunk_19 : (List.range' 38000 2000).all dayOK = true := by decide +kernel
end Fix8Model.Time
