import Fix8Model.Time.DayOK
namespace Fix8Model.Time
/-- days 6000 … 7999, evaluated by the kernel -/
theorem days_chunk_03 : (List.range' 6000 2000).all dayOK = true := by decide +kernel
end Fix8Model.Time
