import Fix8Model.Time.Schedule
import Fix8Model.Time.ScheduleSpec
/-! helper lemmas for Props/C24 -/
namespace Fix8Model.Time.Schedule
open Fix8Model.Gen Fix8Model.Time.ScheduleSpec

/-! ### decode_dow -/

theorem daymap_eq : daymap = [(102, 5), (109, 1), (115, 0), (115, 6), (116, 2), (116, 4), (119, 3)] := by decide

theorem uniquePrefix_table : (List.range 7).map uniquePrefix =
    [some [115, 117], some [109], some [116, 117], some [119], some [116, 104], some [102], some [115, 97]] := by decide

theorem toLower_eq_lower (c : Nat) : toLower c = lower c := rfl

/-- `equal_range` on the actual table -/
theorem equalRange_eq (k : Nat) : equalRange k =
    if k = 102 then [5] else if k = 109 then [1] else if k = 115 then [0, 6] else if k = 116 then [2, 4]
    else if k = 119 then [3] else [] := by
  unfold equalRange
  rw [daymap_eq]
  by_cases h1 : k = 102
  · subst h1; decide
  by_cases h2 : k = 109
  · subst h2; decide
  by_cases h3 : k = 115
  · subst h3; decide
  by_cases h4 : k = 116
  · subst h4; decide
  by_cases h5 : k = 119
  · subst h5; decide
  simp only [h1, h2, h3, h4, h5, if_false]
  by_cases a1 : 102 < k
  · by_cases a2 : 109 < k
    · by_cases a3 : 115 < k
      · by_cases a4 : 116 < k
        · by_cases a5 : 119 < k
          · simp [List.dropWhile, a1, a2, a3, a4, a5]
          · have : ¬ (119 = k) := by omega
            simp [List.dropWhile, a1, a2, a3, a4, a5, this]
        · have : ¬ (116 = k) := by omega
          simp [List.dropWhile, a1, a2, a3, a4, this]
      · have : ¬ (115 = k) := by omega
        simp [List.dropWhile, a1, a2, a3, this]
    · have : ¬ (109 = k) := by omega
      simp [List.dropWhile, a1, a2, this]
  · have : ¬ (102 = k) := by omega
    simp [List.dropWhile, a1, this]


def dowDirect : List Nat → Int
  | [] => -1
  | [c] => if 48 ≤ c ∧ c ≤ 54 then ((c - 48 : Nat) : Int) else if c = 102 then 5 else if c = 109 then 1 else if c = 119 then 3 else -1
  | c0 :: c1 :: _ =>
    if c0 = 102 then 5 else if c0 = 109 then 1 else if c0 = 119 then 3
    else if c0 = 115 then (if c1 = 117 then 0 else if c1 = 97 then 6 else -1)
    else if c0 = 116 then (if c1 = 117 then 2 else if c1 = 104 then 4 else -1) else -1

theorem nameChar_vals : nameChar 0 1 = 117 ∧ nameChar 6 1 = 97 ∧ nameChar 2 1 = 117 ∧ nameChar 4 1 = 104 := by decide

theorem decodeDow_direct (s : List Nat) : decodeDow s = dowDirect (s.map toLower) := by
  unfold decodeDow
  rcases nameChar_vals with ⟨n0, n6, n2, n4⟩
  match h : s.map toLower with
  | [] => simp [dowDirect]
  | [c] =>
    simp only [dowDirect, equalRange_eq]
    by_cases hd : 48 ≤ c ∧ c ≤ 54
    · have : 48 ≤ c ∧ c ≤ 57 := by omega
      simp [hd, this]
    · have : ¬ ((48 ≤ c ∧ c ≤ 57) ∧ True ∧ 48 ≤ c ∧ c ≤ 54) := by omega
      simp only [hd, if_false]
      split <;> rename_i hh
      · exfalso; simp at hh
      · by_cases h1 : c = 102 <;> by_cases h2 : c = 109 <;> by_cases h3 : c = 115 <;> by_cases h4 : c = 116 <;> by_cases h5 : c = 119 <;> simp_all
  | c0 :: c1 :: r =>
    have : ¬ ((48 ≤ c0 ∧ c0 ≤ 57) ∧ (c1 :: r) = [] ∧ 48 ≤ c0 ∧ c0 ≤ 54) := by simp
    simp only [dowDirect, equalRange_eq, this, if_false]
    by_cases h1 : c0 = 102 <;> by_cases h2 : c0 = 109 <;> by_cases h3 : c0 = 115 <;> by_cases h4 : c0 = 116 <;> by_cases h5 : c0 = 119 <;> simp_all <;> omega

theorem up0 : uniquePrefix 0 = some [115, 117] := by decide
theorem up1 : uniquePrefix 1 = some [109] := by decide
theorem up2 : uniquePrefix 2 = some [116, 117] := by decide
theorem up3 : uniquePrefix 3 = some [119] := by decide
theorem up4 : uniquePrefix 4 = some [116, 104] := by decide
theorem up5 : uniquePrefix 5 = some [102] := by decide
theorem up6 : uniquePrefix 6 = some [115, 97] := by decide

theorem lower_digit (c : Nat) (h : 48 ≤ lower c ∧ lower c ≤ 57) : lower c = c := by
  unfold lower at *; split at h <;> simp_all <;> omega

theorem lower_cases (a : Nat) : (lower a = a ∧ ¬(65 ≤ a ∧ a ≤ 90)) ∨ (65 ≤ a ∧ a ≤ 90 ∧ lower a = a + 32) := by
  unfold lower; split <;> omega

theorem dowDirect_iff (s : List Nat) (d : Nat) (hd : d < 7) : dowDirect (s.map lower) = (d : Int) ↔ namesDay s d := by
  unfold namesDay
  match s with
  | [] =>
    match d, hd with
    | 0, _ | 1, _ | 2, _ | 3, _ | 4, _ | 5, _ | 6, _ => simp [dowDirect, up0, up1, up2, up3, up4, up5, up6]
  | [a] =>
    match d, hd with
    | 0, _ | 1, _ | 2, _ | 3, _ | 4, _ | 5, _ | 6, _ =>
      simp [dowDirect, up0, up1, up2, up3, up4, up5, up6]
      rcases lower_cases a with ⟨h1, h2⟩ | ⟨h1, h2, h3⟩ <;> generalize lower a = la at * <;> (repeat' split) <;> omega
  | a :: b :: r =>
    match d, hd with
    | 0, _ | 1, _ | 2, _ | 3, _ | 4, _ | 5, _ | 6, _ =>
      simp [dowDirect, up0, up1, up2, up3, up4, up5, up6]
      generalize lower a = la; generalize lower b = lb; (repeat' split) <;> omega

theorem dowDirect_range (l : List Nat) : dowDirect l = -1 ∨ ∃ d : Nat, d < 7 ∧ dowDirect l = (d : Int) := by
  match l with
  | [] => left; rfl
  | [c] =>
    simp only [dowDirect]
    by_cases h : 48 ≤ c ∧ c ≤ 54
    · right; exact ⟨c - 48, by omega, by simp [h]⟩
    · simp only [h, if_false]
      (repeat' split) <;>
        (first | (left; rfl) | (right; exact ⟨5, by omega, rfl⟩) | (right; exact ⟨1, by omega, rfl⟩) | (right; exact ⟨3, by omega, rfl⟩))
  | c0 :: c1 :: r =>
    simp only [dowDirect]
    (repeat' split) <;>
      (first | (left; rfl) | (right; exact ⟨0, by omega, rfl⟩) | (right; exact ⟨1, by omega, rfl⟩) | (right; exact ⟨2, by omega, rfl⟩) | (right; exact ⟨3, by omega, rfl⟩) | (right; exact ⟨4, by omega, rfl⟩) | (right; exact ⟨5, by omega, rfl⟩) | (right; exact ⟨6, by omega, rfl⟩))

/-! ### Schedule::test -/


/-- the bounds under which no addition of `test` overflows: start and end are non-negative tick counts below 2^62
(times of day are below 86 400 * 10^9), and `_toffset` is what the constructor computed -/
def Sched.WF (c : Sched) : Prop :=
  0 ≤ c.start ∧ c.start < 4611686018427387904 ∧ 0 ≤ c.endT ∧ c.endT < 4611686018427387904 ∧ c.toffset = c.utcOff * tickMinute
instance (c : Sched) : Decidable c.WF := by unfold Sched.WF; exact inferInstance

/-- the clock reading, shifted to local time, lies between 1970 and 2116 -/
def InstOK (c : Sched) (clock : Int) : Prop := 0 ≤ clock + c.toffset ∧ clock + c.toffset < 4611686018427387904
instance (c : Sched) (clock : Int) : Decidable (InstOK c clock) := by unfold InstOK; exact inferInstance

theorem addT_some {a b : Int} (h : fits64 (a + b)) : addT a b = some (a + b) := by simp [addT, h]

/-- what the weekly branch of `test` computes from the local reading when nothing overflows -/
def weeklyStep (c : Sched) (l : Int) (prev : Bool) : Bool :=
  if !prev then
    decide (((c.startDay > c.endDay ∧ (wday l ≥ c.startDay ∨ wday l ≤ c.endDay))
        ∨ (c.startDay < c.endDay ∧ wday l ≥ c.startDay ∧ wday l ≤ c.endDay)) ∧ c.start ≤ tod l ∧ tod l ≤ c.endT)
  else
    !decide (((c.startDay > c.endDay ∧ (wday l < c.startDay ∧ wday l > c.endDay))
        ∨ (c.startDay < c.endDay ∧ wday l ≥ c.endDay)) ∧ tod l > c.endT)

theorem wdayOf_eq (l : Int) (h : 0 ≤ l) : wdayOf l = wday l := by
  unfold wdayOf wday tickSecond tickDay
  rw [Int.tdiv_eq_ediv_of_nonneg h]
  omega

theorem test_daily (c : Sched) (wf : c.WF) (hd : c.startDay < 0) (clock : Int) (ok : InstOK c clock) (prev : Bool) :
    test c clock prev = some (inDaily c.start c.endT (clock + c.toffset)) := by
  obtain ⟨h0, h1⟩ := ok
  obtain ⟨s0, s1, e0, e1, _⟩ := wf
  unfold test
  have hf : fits64 (clock + c.toffset) := by unfold fits64; omega
  rw [addT_some hf]
  simp only [bind, Option.bind]
  generalize clock + c.toffset = l at *
  rw [Int.tmod_eq_emod_of_nonneg h0]
  have hlo : fits64 (l - l % tickDay + c.start) := by unfold fits64 tickDay; omega
  have hhi : fits64 (l - l % tickDay + c.endT) := by unfold fits64 tickDay; omega
  have hne : l - l % tickDay + c.endT ≠ errorTicks := by unfold errorTicks tickDay; omega
  rw [addT_some hlo, addT_some hhi]
  simp only [hd, if_true, inRange, hne, ne_eq, not_false_eq_true]
  unfold inDaily tod
  by_cases hr : l - l % tickDay + c.start ≤ l ∧ l ≤ l - l % tickDay + c.endT
  · have : c.start ≤ l % tickDay ∧ l % tickDay ≤ c.endT := by omega
    cases prev <;> simp [hr, this]
  · have : ¬ (c.start ≤ l % tickDay ∧ l % tickDay ≤ c.endT) := by omega
    cases prev <;> simp [hr, this]

theorem test_weekly (c : Sched) (wf : c.WF) (hd : 0 ≤ c.startDay) (clock : Int) (ok : InstOK c clock) (prev : Bool) :
    test c clock prev = some (weeklyStep c (clock + c.toffset) prev) := by
  obtain ⟨h0, h1⟩ := ok
  obtain ⟨s0, s1, e0, e1, _⟩ := wf
  unfold test
  have hf : fits64 (clock + c.toffset) := by unfold fits64; omega
  rw [addT_some hf]
  simp only [bind, Option.bind]
  generalize clock + c.toffset = l at *
  rw [Int.tmod_eq_emod_of_nonneg h0, wdayOf_eq l h0]
  have hlo : fits64 (l - l % tickDay + c.start) := by unfold fits64 tickDay; omega
  have hhi : fits64 (l - l % tickDay + c.endT) := by unfold fits64 tickDay; omega
  have hne : l - l % tickDay + c.endT ≠ errorTicks := by unfold errorTicks tickDay; omega
  have hnd : ¬ c.startDay < 0 := by omega
  rw [addT_some hlo, addT_some hhi]
  simp only [hnd, if_false, inRange, hne, ne_eq, not_false_eq_true, if_true]
  unfold weeklyStep tod
  have e1 : (l - l % tickDay + c.start ≤ l ∧ l ≤ l - l % tickDay + c.endT) ↔ (c.start ≤ l % tickDay ∧ l % tickDay ≤ c.endT) := by omega
  have e2 : (l > l - l % tickDay + c.endT) ↔ (l % tickDay > c.endT) := by omega
  simp only [e1, e2]
  cases prev
  · simp only [Bool.not_false, if_true]
    split <;> rename_i hP
    · by_cases hr : c.start ≤ l % tickDay ∧ l % tickDay ≤ c.endT <;> simp [hP, hr]
    · simp [hP]
  · simp only [Bool.not_true, Bool.false_eq_true, if_false]
    split <;> rename_i hP
    · by_cases hr : l % tickDay > c.endT <;> simp [hP, hr]
    · simp [hP]

theorem stepOut (sd ed s e g l' l : Int) (hsd : 0 ≤ sd) (hlt : sd < ed) (hed : ed ≤ 6) (hs0 : 0 ≤ s)
    (hC1 : s + g ≤ e) (hC2 : e + g < 86400000000000) (h1 : l' ≤ l) (h2 : l ≤ l' + g)
    (hout : ¬ (sd * 86400000000000 + s ≤ ((l' / 86400000000000 + 4) % 7) * 86400000000000 + l' % 86400000000000 ∧
               ((l' / 86400000000000 + 4) % 7) * 86400000000000 + l' % 86400000000000 ≤ ed * 86400000000000 + e)) :
    (((l / 86400000000000 + 4) % 7 ≥ sd ∧ (l / 86400000000000 + 4) % 7 ≤ ed) ∧ s ≤ l % 86400000000000 ∧ l % 86400000000000 ≤ e) ↔
      (sd * 86400000000000 + s ≤ ((l / 86400000000000 + 4) % 7) * 86400000000000 + l % 86400000000000 ∧
               ((l / 86400000000000 + 4) % 7) * 86400000000000 + l % 86400000000000 ≤ ed * 86400000000000 + e) := by
  omega

theorem stepIn (sd ed s e g l' l : Int) (hlt : sd < ed) (hed : ed ≤ 6) (hs0 : 0 ≤ s)
    (hC1 : s + g ≤ e) (hC2 : e + g < 86400000000000) (h1 : l' ≤ l) (h2 : l ≤ l' + g)
    (hin : (sd * 86400000000000 + s ≤ ((l' / 86400000000000 + 4) % 7) * 86400000000000 + l' % 86400000000000 ∧
               ((l' / 86400000000000 + 4) % 7) * 86400000000000 + l' % 86400000000000 ≤ ed * 86400000000000 + e)) :
    (¬ ((l / 86400000000000 + 4) % 7 ≥ ed ∧ l % 86400000000000 > e) ↔
      (sd * 86400000000000 + s ≤ ((l / 86400000000000 + 4) % 7) * 86400000000000 + l % 86400000000000 ∧
               ((l / 86400000000000 + 4) % 7) * 86400000000000 + l % 86400000000000 ≤ ed * 86400000000000 + e)) := by
  omega

theorem weeklyStep_ok (c : Sched) (g : Int) (hsd : 0 ≤ c.startDay) (hlt : c.startDay < c.endDay) (hed : c.endDay ≤ 6)
    (hs0 : 0 ≤ c.start) (hC1 : c.start + g ≤ c.endT) (hC2 : c.endT + g < tickDay) (hg : 0 ≤ g)
    (l' l : Int) (h1 : l' ≤ l) (h2 : l ≤ l' + g) :
    weeklyStep c l (inWeekly c.startDay c.start c.endDay c.endT l') = inWeekly c.startDay c.start c.endDay c.endT l := by
  have SE : c.startDay * tickDay + c.start ≤ c.endDay * tickDay + c.endT := by unfold tickDay at *; omega
  unfold inWeekly weeklyStep
  rw [if_pos SE, if_pos SE]
  unfold weekPos wday tod tickDay at *
  by_cases hin : c.startDay * 86400000000000 + c.start ≤ (l' / 86400000000000 + 4) % 7 * 86400000000000 + l' % 86400000000000 ∧
      (l' / 86400000000000 + 4) % 7 * 86400000000000 + l' % 86400000000000 ≤ c.endDay * 86400000000000 + c.endT
  · simp only [hin, and_self, decide_true, Bool.not_true, Bool.false_eq_true, if_false]
    have dQ : ((c.startDay > c.endDay ∧ ((l / 86400000000000 + 4) % 7 < c.startDay ∧ (l / 86400000000000 + 4) % 7 > c.endDay))
        ∨ (c.startDay < c.endDay ∧ (l / 86400000000000 + 4) % 7 ≥ c.endDay)) ↔ (l / 86400000000000 + 4) % 7 ≥ c.endDay := by omega
    rw [← decide_not, decide_eq_decide, dQ]
    exact stepIn _ _ _ _ g l' l hlt hed hs0 hC1 hC2 h1 h2 hin
  · simp only [hin, decide_false, Bool.not_false, if_true]
    have dP : ((c.startDay > c.endDay ∧ ((l / 86400000000000 + 4) % 7 ≥ c.startDay ∨ (l / 86400000000000 + 4) % 7 ≤ c.endDay))
        ∨ (c.startDay < c.endDay ∧ (l / 86400000000000 + 4) % 7 ≥ c.startDay ∧ (l / 86400000000000 + 4) % 7 ≤ c.endDay))
        ↔ ((l / 86400000000000 + 4) % 7 ≥ c.startDay ∧ (l / 86400000000000 + 4) % 7 ≤ c.endDay) := by omega
    rw [decide_eq_decide, dP]
    exact stepOut _ _ _ _ g l' l hsd hlt hed hs0 hC1 hC2 h1 h2 hin

-- effective window for sd > ed + 1 : opens sd@s, closes (ed+1)@e   (S > E' in week coordinates)
theorem stepOutW (sd ed s e g l' l : Int) (hed : 0 ≤ ed) (_hlt : ed + 1 < sd) (hsd : sd ≤ 6) (hs0 : 0 ≤ s)
    (hC1 : s + g ≤ e) (hC2 : e + g < 86400000000000) (h1 : l' ≤ l) (h2 : l ≤ l' + g)
    (hout : ¬ (sd * 86400000000000 + s ≤ ((l' / 86400000000000 + 4) % 7) * 86400000000000 + l' % 86400000000000 ∨
               ((l' / 86400000000000 + 4) % 7) * 86400000000000 + l' % 86400000000000 ≤ (ed + 1) * 86400000000000 + e)) :
    (((l / 86400000000000 + 4) % 7 ≥ sd ∨ (l / 86400000000000 + 4) % 7 ≤ ed) ∧ s ≤ l % 86400000000000 ∧ l % 86400000000000 ≤ e) ↔
      (sd * 86400000000000 + s ≤ ((l / 86400000000000 + 4) % 7) * 86400000000000 + l % 86400000000000 ∨
               ((l / 86400000000000 + 4) % 7) * 86400000000000 + l % 86400000000000 ≤ (ed + 1) * 86400000000000 + e) := by
  omega

theorem stepInW (sd ed s e g l' l : Int) (hed : 0 ≤ ed) (_hlt : ed + 1 < sd) (hsd : sd ≤ 6) (hs0 : 0 ≤ s)
    (hC1 : s + g ≤ e) (hC2 : e + g < 86400000000000) (h1 : l' ≤ l) (h2 : l ≤ l' + g)
    (hin : (sd * 86400000000000 + s ≤ ((l' / 86400000000000 + 4) % 7) * 86400000000000 + l' % 86400000000000 ∨
               ((l' / 86400000000000 + 4) % 7) * 86400000000000 + l' % 86400000000000 ≤ (ed + 1) * 86400000000000 + e)) :
    (¬ (((l / 86400000000000 + 4) % 7 < sd ∧ (l / 86400000000000 + 4) % 7 > ed) ∧ l % 86400000000000 > e) ↔
      (sd * 86400000000000 + s ≤ ((l / 86400000000000 + 4) % 7) * 86400000000000 + l % 86400000000000 ∨
               ((l / 86400000000000 + 4) % 7) * 86400000000000 + l % 86400000000000 ≤ (ed + 1) * 86400000000000 + e)) := by
  omega



/-- for `start_day > end_day + 1` the code closes the window one day late: it implements the window that opens on
`start_day` at the start time and closes on the day AFTER `end_day` at the end time -/
theorem weeklyStepW_ok (c : Sched) (g : Int) (hed : 0 ≤ c.endDay) (hlt : c.endDay + 1 < c.startDay) (hsd : c.startDay ≤ 6)
    (hs0 : 0 ≤ c.start) (hC1 : c.start + g ≤ c.endT) (hC2 : c.endT + g < tickDay) (hg : 0 ≤ g)
    (l' l : Int) (h1 : l' ≤ l) (h2 : l ≤ l' + g) :
    weeklyStep c l (inWeekly c.startDay c.start (c.endDay + 1) c.endT l') = inWeekly c.startDay c.start (c.endDay + 1) c.endT l := by
  have SE : ¬ (c.startDay * tickDay + c.start ≤ (c.endDay + 1) * tickDay + c.endT) := by unfold tickDay at *; omega
  unfold inWeekly weeklyStep
  rw [if_neg SE, if_neg SE]
  unfold weekPos wday tod tickDay at *
  by_cases hin : c.startDay * 86400000000000 + c.start ≤ (l' / 86400000000000 + 4) % 7 * 86400000000000 + l' % 86400000000000 ∨
      (l' / 86400000000000 + 4) % 7 * 86400000000000 + l' % 86400000000000 ≤ (c.endDay + 1) * 86400000000000 + c.endT
  · simp only [hin, decide_true, Bool.not_true, Bool.false_eq_true, if_false]
    have dQ : ((c.startDay > c.endDay ∧ ((l / 86400000000000 + 4) % 7 < c.startDay ∧ (l / 86400000000000 + 4) % 7 > c.endDay))
        ∨ (c.startDay < c.endDay ∧ (l / 86400000000000 + 4) % 7 ≥ c.endDay)) ↔
        ((l / 86400000000000 + 4) % 7 < c.startDay ∧ (l / 86400000000000 + 4) % 7 > c.endDay) := by omega
    rw [← decide_not, decide_eq_decide, dQ]
    exact stepInW _ _ _ _ g l' l hed hlt hsd hs0 hC1 hC2 h1 h2 hin
  · simp only [hin, decide_false, Bool.not_false, if_true]
    have dP : ((c.startDay > c.endDay ∧ ((l / 86400000000000 + 4) % 7 ≥ c.startDay ∨ (l / 86400000000000 + 4) % 7 ≤ c.endDay))
        ∨ (c.startDay < c.endDay ∧ (l / 86400000000000 + 4) % 7 ≥ c.startDay ∧ (l / 86400000000000 + 4) % 7 ≤ c.endDay))
        ↔ ((l / 86400000000000 + 4) % 7 ≥ c.startDay ∨ (l / 86400000000000 + 4) % 7 ≤ c.endDay) := by omega
    rw [decide_eq_decide, dP]
    exact stepOutW _ _ _ _ g l' l hed hlt hsd hs0 hC1 hC2 h1 h2 hin

/-- `start_day = end_day`: neither day condition can hold, the state never changes -/
theorem weeklyStep_same_day (c : Sched) (h : c.startDay = c.endDay) (l : Int) (prev : Bool) : weeklyStep c l prev = prev := by
  unfold weeklyStep
  have a : ¬ c.startDay > c.endDay := by omega
  have b : ¬ c.startDay < c.endDay := by omega
  cases prev <;> simp [a, b]

/-- `start_day = end_day + 1`: every day qualifies for activation and none for deactivation -/
theorem weeklyStep_adjacent (c : Sched) (h : c.startDay = c.endDay + 1) (l : Int) (prev : Bool) :
    weeklyStep c l prev = (prev || inDaily c.start c.endT l) := by
  unfold weeklyStep inDaily
  have a : c.startDay > c.endDay := by omega
  have b : ¬ c.startDay < c.endDay := by omega
  have d : wday l ≥ c.startDay ∨ wday l ≤ c.endDay := by omega
  have e : ¬ (wday l < c.startDay ∧ wday l > c.endDay) := by omega
  cases prev <;> simp [a, b, d, e]

/-- consecutive checks are in time order and at most `g` apart -/
def gapsOK (g : Int) : List Int → Bool
  | a :: b :: r => decide (a ≤ b ∧ b ≤ a + g) && gapsOK g (b :: r)
  | _ => true

/-- generic trace induction for the weekly branch: a predicate on local readings that `weeklyStep` tracks from one check
to the next (gap at most `g`) is tracked along the whole trace -/
theorem run_tracks (c : Sched) (wf : c.WF) (hd : 0 ≤ c.startDay) (g : Int) (spec : Int → Bool)
    (hstep : ∀ l' l : Int, l' ≤ l → l ≤ l' + g → weeklyStep c l (spec l') = spec l) :
    ∀ (ts : List Int) (t : Int), gapsOK g (t :: ts) = true → (∀ x ∈ ts, InstOK c x) →
      run c (spec (t + c.toffset)) ts = some (ts.map (fun x => spec (x + c.toffset))) := by
  intro ts
  induction ts with
  | nil => intro t _ _; rfl
  | cons t1 r ih =>
    intro t hg hok
    simp only [gapsOK, Bool.and_eq_true, decide_eq_true_eq] at hg
    have h1 := hok t1 (by simp)
    unfold run
    rw [test_weekly c wf hd t1 h1, hstep (t + c.toffset) (t1 + c.toffset) (by omega) (by omega)]
    simp only [bind, Option.bind]
    rw [ih t1 hg.2 (fun x hx => hok x (by simp [hx]))]
    rfl

theorem run_daily (c : Sched) (wf : c.WF) (hd : c.startDay < 0) :
    ∀ (ts : List Int) (init : Bool), (∀ x ∈ ts, InstOK c x) →
      run c init ts = some (ts.map (fun x => inDaily c.start c.endT (x + c.toffset))) := by
  intro ts
  induction ts with
  | nil => intro _ _; rfl
  | cons t1 r ih =>
    intro init hok
    unfold run
    rw [test_daily c wf hd t1 (hok t1 (by simp))]
    simp only [bind, Option.bind]
    rw [ih _ (fun x hx => hok x (by simp [hx]))]
    rfl



/-- the first check of a trace yields the right state unless the trace starts active outside a window (and not in the
closing condition) or inactive inside a window outside the daily hours -/
theorem weeklyStep_first (c : Sched) (hlt : c.startDay < c.endDay)
    (hs0 : 0 ≤ c.start) (hse : c.start ≤ c.endT) (he : c.endT < tickDay) (l : Int) (init : Bool)
    (h1 : init = true → inWeekly c.startDay c.start c.endDay c.endT l = false → (wday l ≥ c.endDay ∧ tod l > c.endT))
    (h2 : init = false → inWeekly c.startDay c.start c.endDay c.endT l = true → (c.start ≤ tod l ∧ tod l ≤ c.endT)) :
    weeklyStep c l init = inWeekly c.startDay c.start c.endDay c.endT l := by
  have SE : c.startDay * tickDay + c.start ≤ c.endDay * tickDay + c.endT := by unfold tickDay at *; omega
  unfold inWeekly weeklyStep at *
  rw [if_pos SE] at h1 h2 ⊢
  unfold weekPos wday tod tickDay at *
  cases init
  · simp only [Bool.not_false, if_true, decide_eq_decide]
    simp only [true_implies, decide_eq_true_eq, reduceCtorEq, false_implies] at h1 h2
    omega
  · simp only [Bool.not_true, Bool.false_eq_true, if_false]
    simp only [true_implies, decide_eq_false_iff_not, reduceCtorEq, false_implies] at h1 h2
    rw [← decide_not, decide_eq_decide]
    omega

end Fix8Model.Time.Schedule
