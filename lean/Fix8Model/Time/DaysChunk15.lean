import Fix8Model.Time.DayOK
namespace Fix8Model.Time
/-- days 30000 … 31999, evaluated by the kernel -/
theorem days_chunk_15 : (List.range' 30000 2000).all dayOK = true := by decide +kernel
end Fix8Model.Time
