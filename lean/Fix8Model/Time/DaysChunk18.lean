import Fix8Model.Time.DayOK
namespace Fix8Model.Time
/-- days 36000 … 37999, evaluated by the kernel -/
theorem days_chunk_18 : (List.range' 36000 2000).all dayOK = true := by decide +kernel
end Fix8Model.Time
