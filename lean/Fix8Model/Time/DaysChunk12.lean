import Fix8Model.Time.DayOK
namespace Fix8Model.Time
/-- days 24000 … 25999, evaluated by the kernel -/
theorem days_chunk_12 : (List.range' 24000 2000).all dayOK = true := by decide +kernel
end Fix8Model.Time
