import Fix8Model.Gen.Sched
/-!
Specification side of C24, written from the property statement and independent of the model of the code:
the local time of day / weekday of an instant, "inside the daily range", "inside a weekly window from the start day
at the start time to the end day at the end time", and "the unique one- or two-letter prefix of a weekday name".
-/
namespace Fix8Model.Time.ScheduleSpec
open Fix8Model.Gen

/-- local wall-clock reading (ticks since the epoch, shifted by the utc offset given in minutes) -/
def localTime (utcOffMin clock : Int) : Int := clock + utcOffMin * tickMinute

/-- time of day of a local reading -/
def tod (l : Int) : Int := l % tickDay

/-- weekday of a local reading, 0 = Sunday (day 0 of the epoch, 1970-01-01, was a Thursday) -/
def wday (l : Int) : Int := (l / tickDay + 4) % 7

/-- position inside the week that starts on Sunday 00:00 -/
def weekPos (l : Int) : Int := wday l * tickDay + tod l

/-- daily schedule: the time of day is within [start, end] -/
def inDaily (s e l : Int) : Bool := decide (s ≤ tod l ∧ tod l ≤ e)

/-- weekly schedule: the instant lies in a window that opens on weekday `sd` at time `s` and closes on weekday `ed`
at time `e` (closing before opening in week coordinates means the window runs over the end of the week) -/
def inWeekly (sd s ed e l : Int) : Bool :=
  if sd * tickDay + s ≤ ed * tickDay + e then decide (sd * tickDay + s ≤ weekPos l ∧ weekPos l ≤ ed * tickDay + e)
  else decide (sd * tickDay + s ≤ weekPos l ∨ weekPos l ≤ ed * tickDay + e)

/-! ### weekday names -/

/-- ASCII lower-casing -/
def lower (c : Nat) : Nat := if 65 ≤ c ∧ c ≤ 90 then c + 32 else c

def dayName (d : Nat) : List Nat := dowNames.getD d []

/-- the shortest non-empty prefix of the name of day `d` that is not a prefix of any other day's name -/
def uniquePrefix (d : Nat) : Option (List Nat) :=
  (((List.range ((dayName d).length + 1)).drop 1).map (fun k => (dayName d).take k)).find?
    (fun p => (List.range dowNames.length).all (fun d' => d' == d || !(p.isPrefixOf (dayName d'))))

/-- `s` names day `d`: it is the single digit `d`, or its lower-cased text begins with the unique prefix of day `d` -/
def namesDay (s : List Nat) (d : Nat) : Prop :=
  s = [48 + d] ∨ ∃ p, uniquePrefix d = some p ∧ p.isPrefixOf (s.map lower) = true

end Fix8Model.Time.ScheduleSpec
