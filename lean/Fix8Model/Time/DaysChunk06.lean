import Fix8Model.Time.DayOK
namespace Fix8Model.Time
/-- days 12000 … 13999, evaluated by the kernel -/
theorem days_chunk_06 : (List.range' 12000 2000).all dayOK = true := by decide +kernel
end Fix8Model.Time
