import Fix8Model.Time.DayOK
namespace Fix8Model.Time
/-- days 22000 … 23999, evaluated by the kernel -/
theorem days_chunk_11 : (List.range' 22000 2000).all dayOK = true := by decide +kernel
end Fix8Model.Time
