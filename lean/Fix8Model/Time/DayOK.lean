import Fix8Model.Time.Calendar
namespace Fix8Model.Time

/-- one day: the code's day number of the calendar date of day `z` is `z`, the date is in range, and the first of its month maps back to itself -/
def dayOK (z : Nat) : Bool :=
  let c := civilFromDays z
  daysOfCivil c == z && decide (1970 ≤ c.year) && decide (c.year ≤ 2099) && decide (1 ≤ c.mon) && decide (c.mon ≤ 12)
    && decide (1 ≤ c.day) && decide (c.day ≤ 31)
    && (civilFromDays (daysOfCivil ⟨c.year, c.mon, 1⟩) == ⟨c.year, c.mon, 1⟩)

end Fix8Model.Time
