import Fix8Model.Time.DayOK
namespace Fix8Model.Time
/-- days 0 … 1999, evaluated by the kernel -/
theorem days_chunk_00 : (List.range' 0 2000).all dayOK = true := by decide +kernel
end Fix8Model.Time
