import Fix8Model.Codec.SchemaFIX44WFGroups
import Fix8Model.Codec.SchemaFIX44WFNest
import Fix8Model.Codec.SchemaFIX44WFHdr
import Fix8Model.Codec.SchemaFIX44WFBody
import Fix8Model.Codec.SchemaFIX44WFMisc
/-!
The generated FIX44 schema satisfies `SchemaWF` – checked by kernel evaluation of the Boolean predicate on the
generated tables (re-checked whenever `Gen/SchemaFIX44.lean` changes).
-/
namespace Fix8Model.Codec.RT
open Fix8Model

/-- the generated FIX44 tables satisfy every schema condition of the round-trip theorems -/
theorem fix44_wf : SchemaWF fix44 = true := by
  unfold SchemaWF wfWith
  rw [fix44_wfGroups, fix44_wfNest, fix44_wfHdr, fix44_wfBody, fix44_wfMisc]
  rfl

end Fix8Model.Codec.RT
