import Fix8Model.Codec.Model
/-!
A small schema in the shape of the generated ones, used by the witness theorems and the non-vacuity examples of
C04 / C05: BeginString "F", message type "0" (all body fields optional) and "1" (mandatory 58), one repeating group (146 → elements of 55, 65).
-/
namespace Fix8Model.Codec

def mkT (tag : Nat) (kind : Kind) (pos : Nat) (mandatory := false) (group := false) (suppress := false) (automatic := false)
    (preset := false) (sub := 0) : Trait := ⟨tag, kind, pos, mandatory, group, suppress, automatic, preset, sub⟩

def demoSchema : Schema :=
  { fieldTable := [8, 9, 10, 35, 43, 49, 50, 54, 55, 58, 65, 95, 96, 112, 146]
    beginStr := [70]
    header := [mkT 8 .string 1 (suppress := true) (automatic := true) (preset := true),
               mkT 9 .int 2 (suppress := true) (automatic := true) (preset := true),
               mkT 35 .string 3 (automatic := true) (preset := true),
               mkT 43 .bool 6, mkT 49 .string 4 (mandatory := true), mkT 50 .string 5]
    trailer := [mkT 10 .string 1 (suppress := true) (automatic := true) (preset := true)]
    msgs := [([48], [mkT 54 .char 2, mkT 58 .string 3, mkT 95 .length 4, mkT 96 .data 5, mkT 112 .string 1,
                     mkT 146 .string 6 (group := true) (sub := 0)]),
             ([49], [mkT 58 .string 1 (mandatory := true)])]
    groups := [[mkT 55 .string 1, mkT 65 .string 2]] }

/-- (tag, value) of the top-level items -/
def tv (l : List Item) : List (Nat × Bytes) := l.map fun it => (it.tag, it.val)

/-- `front ++ "10=ccc|"` with the right checksum -/
def withSum (front : Bytes) : Bytes := front ++ [49, 48, 61] ++ fmt3 (byteSum front % 256) ++ [1]

/-- what a decode returned, as (tag, value) lists: header fields after the preset 8/9/35, body, trailer (with CheckSum) -/
def decoded (r : Except DecErr Msg) : Option (List (Nat × Bytes) × List (Nat × Bytes) × List (Nat × Bytes)) :=
  r.toOption.map fun m => (tv (m.header.drop 3), tv m.body, tv m.trailer)

/-- the exception a decode ended with -/
def errorOf (r : Except DecErr Msg) : Option DecErr :=
  match r with
  | .error e => some e
  | .ok _ => none

/-- the unknown bytes kept by a permissive decode: header, body, trailer -/
def unknowns (r : Except DecErr Msg) : Option (Bytes × Bytes × Bytes) :=
  r.toOption.map fun m => (m.hUnknown, m.bUnknown, m.tUnknown)

/-! inputs (SOH written `|`) -/

/-- `8=F|9=0|35=0|49=A|112=Y|10=080|` – conforming -/
def inOk : Bytes := [56, 61, 70, 1, 57, 61, 48, 1, 51, 53, 61, 48, 1, 52, 57, 61, 65, 1, 49, 49, 50, 61, 89, 1, 49, 48, 61, 48, 56, 48, 1]
/-- `8=F|9=0|35=0|49=A|112=Y|54=1|10=040|` – conforming -/
def inPlain : Bytes := [56, 61, 70, 1, 57, 61, 48, 1, 51, 53, 61, 48, 1, 52, 57, 61, 65, 1, 49, 49, 50, 61, 89, 1, 53, 52, 61, 49, 1, 49, 48, 61, 48, 52, 48, 1]
/-- `8=F|9=0|35=0|49=A|999=X|112=Y|10=145|` – tag 999 is not defined anywhere -/
def inTail : Bytes := [56, 61, 70, 1, 57, 61, 48, 1, 51, 53, 61, 48, 1, 52, 57, 61, 65, 1, 57, 57, 57, 61, 88, 1, 49, 49, 50, 61, 89, 1, 49, 48, 61, 49, 52, 53, 1]
/-- `8=F|9=0|35=0|49=A|112=Y|50=B|54=1|10=013|` – header field 50 after a body field -/
def inMisplaced : Bytes := [56, 61, 70, 1, 57, 61, 48, 1, 51, 53, 61, 48, 1, 52, 57, 61, 65, 1, 49, 49, 50, 61, 89, 1, 53, 48, 61, 66, 1, 53, 52, 61, 49, 1, 49, 48, 61, 48, 49, 51, 1]
/-- `8=F|9=0|35=0|49=A|65648=Y|10=201|` – 65648 = 65536 + 112 -/
def inAlias : Bytes := [56, 61, 70, 1, 57, 61, 48, 1, 51, 53, 61, 48, 1, 52, 57, 61, 65, 1, 54, 53, 54, 52, 56, 61, 89, 1, 49, 48, 61, 50, 48, 49, 1]
/-- `8=F|9=0|35=0|49=A|35=Z|9=77|8=G|112=Y|10=242|` – 35, 9, 8 a second time, with other values -/
def inAutoDup : Bytes := [56, 61, 70, 1, 57, 61, 48, 1, 51, 53, 61, 48, 1, 52, 57, 61, 65, 1, 51, 53, 61, 90, 1, 57, 61, 55, 55, 1, 56, 61, 71, 1, 49, 49, 50, 61, 89, 1, 49, 48, 61, 50, 52, 50, 1]
/-- `89=GARBAGE|9123=x|359=0|49=A|112=Y|10=067|` – tags 89, 9123, 359 taken as 8, 9, 35; BeginString and BodyLength values not looked at -/
def inPreamble : Bytes := [56, 57, 61, 71, 65, 82, 66, 65, 71, 69, 1, 57, 49, 50, 51, 61, 120, 1, 51, 53, 57, 61, 48, 1, 52, 57, 61, 65, 1, 49, 49, 50, 61, 89, 1, 49, 48, 61, 48, 54, 55, 1]
/-- `8=F|9=0|35=0|49=A|112=Y|10#080!` – no '=' and no SOH in the last seven bytes -/
def inTrailer : Bytes := [56, 61, 70, 1, 57, 61, 48, 1, 51, 53, 61, 48, 1, 52, 57, 61, 65, 1, 49, 49, 50, 61, 89, 1, 49, 48, 35, 48, 56, 48, 33]
/-- `8=F|9=0|35=0|49=A|43=maybe|54=12|10=226|` – Boolean "maybe", char "12" -/
def inValues : Bytes := [56, 61, 70, 1, 57, 61, 48, 1, 51, 53, 61, 48, 1, 52, 57, 61, 65, 1, 52, 51, 61, 109, 97, 121, 98, 101, 1, 53, 52, 61, 49, 50, 1, 49, 48, 61, 50, 50, 54, 1]
/-- `8=F|9=0|35=0|49=A|112=A<NUL>B|10=122|` -/
def inNul : Bytes := [56, 61, 70, 1, 57, 61, 48, 1, 51, 53, 61, 48, 1, 52, 57, 61, 65, 1, 49, 49, 50, 61, 65, 0, 66, 1, 49, 48, 61, 49, 50, 50, 1]
/-- `8=F|9=0|35=0|49=A|96=xyz|95=3|96=abc|10=239|` – data field 96 alone, then again as the data of the pair 95/96 -/
def inDataDup : Bytes := [56, 61, 70, 1, 57, 61, 48, 1, 51, 53, 61, 48, 1, 52, 57, 61, 65, 1, 57, 54, 61, 120, 121, 122, 1, 57, 53, 61, 51, 1, 57, 54, 61, 97, 98, 99, 1, 49, 48, 61, 50, 51, 57, 1]
/-- `8=F|9=0|35=0|50=B|112=Y|10=073|` – mandatory 49 missing -/
def inMissing : Bytes := [56, 61, 70, 1, 57, 61, 48, 1, 51, 53, 61, 48, 1, 53, 48, 61, 66, 1, 49, 49, 50, 61, 89, 1, 49, 48, 61, 48, 55, 51, 1]
/-- `8=F|9=0|35=0|49=A|146=2|55=a|65=b|55=c|112=Y|10=122|` – a group of two elements -/
def inGroup : Bytes := [56, 61, 70, 1, 57, 61, 48, 1, 51, 53, 61, 48, 1, 52, 57, 61, 65, 1, 49, 52, 54, 61, 50, 1, 53, 53, 61, 97, 1, 54, 53, 61, 98, 1, 53, 53, 61, 99, 1, 49, 49, 50, 61, 89, 1, 49, 48, 61, 49, 50, 50, 1]
/-- `8=F|9=0|35=0|49=A|146=1|65=b|10=058|` – element not starting with the position-1 field 55 -/
def inGroupNoFirst : Bytes := [56, 61, 70, 1, 57, 61, 48, 1, 51, 53, 61, 48, 1, 52, 57, 61, 65, 1, 49, 52, 54, 61, 49, 1, 54, 53, 61, 98, 1, 49, 48, 61, 48, 53, 56, 1]
/-- `8=F|9=0|35=0|49=A|112=Y|999=X|54=1|10=105|` – unknown tag inside the body -/
def inUnkBody : Bytes := [56, 61, 70, 1, 57, 61, 48, 1, 51, 53, 61, 48, 1, 52, 57, 61, 65, 1, 49, 49, 50, 61, 89, 1, 57, 57, 57, 61, 88, 1, 53, 52, 61, 49, 1, 49, 48, 61, 49, 48, 53, 1]
/-- `8=F|9=0|35=1|49=A|50=B|58=T|10=010|` – conforming, type "1" (58 mandatory) -/
def inHdr1 : Bytes := [56, 61, 70, 1, 57, 61, 48, 1, 51, 53, 61, 49, 1, 52, 57, 61, 65, 1, 53, 48, 61, 66, 1, 53, 56, 61, 84, 1, 49, 48, 61, 48, 49, 48, 1]
/-- `8=F|9=0|35=1|49=A|999=X|50=B|58=T|10=075|` – the same with the unknown 999 between two header fields -/
def inUnkHdr1 : Bytes := [56, 61, 70, 1, 57, 61, 48, 1, 51, 53, 61, 49, 1, 52, 57, 61, 65, 1, 57, 57, 57, 61, 88, 1, 53, 48, 61, 66, 1, 53, 56, 61, 84, 1, 49, 48, 61, 48, 55, 53, 1]
/-- `8=F|9=0|35=0|49=A|146=2|55=a|999=X|65=b|55=c|112=Y|10=187|` – unknown 999 inside the first group element -/
def inUnkGroup : Bytes := [56, 61, 70, 1, 57, 61, 48, 1, 51, 53, 61, 48, 1, 52, 57, 61, 65, 1, 49, 52, 54, 61, 50, 1, 53, 53, 61, 97, 1, 57, 57,
  57, 61, 88, 1, 54, 53, 61, 98, 1, 53, 53, 61, 99, 1, 49, 49, 50, 61, 89, 1, 49, 48, 61, 49, 56, 55, 1]

end Fix8Model.Codec
