import Fix8Model.Codec.RoundTripSection
/-!
The whole message: `Message::factory` on the bytes `Message::encode` wrote for a conforming message.
-/
namespace Fix8Model.Codec.RT
open Fix8Model Fix8Model.Digits

theorem encodeItems_append (ts : List Trait) (S : Schema) : ∀ (a b : List Item),
    encodeItems ts S (a ++ b) = encodeItems ts S a ++ encodeItems ts S b := by
  intro a
  induction a with
  | nil => intro b; simp [encodeItems.eq_1]
  | cons it rest ih =>
    intro b
    cases it with
    | fld t v => rw [List.cons_append, encodeItems.eq_2, encodeItems.eq_2, ih, List.append_assoc]
    | grp t v els => rw [List.cons_append, encodeItems.eq_3, encodeItems.eq_3, ih, List.append_assoc]

theorem encodeItems_suppressed (ts : List Trait) (S : Schema) (t : Nat) (v : Bytes) (rest : List Item)
    (h : (findTrait ts t).any (·.suppress) = true) : encodeItems ts S (.fld t v :: rest) = encodeItems ts S rest := by
  rw [encodeItems.eq_2, if_pos h, List.nil_append]

theorem take_front {α} (X Y : List α) : (X ++ Y).take ((X ++ Y).length - Y.length) = X := by
  have : (X ++ Y).length - Y.length = X.length := by simp
  rw [this, List.take_left']
  rfl

theorem drop_front {α} (X Y : List α) : (X ++ Y).drop ((X ++ Y).length - Y.length) = Y := by
  have : (X ++ Y).length - Y.length = X.length := by simp
  rw [this, List.drop_left']
  rfl

theorem render10_length (chk : Bytes) (h : chk.length = 3) : (renderField 10 chk).length = 7 := by
  rw [renderField_length]
  unfold renderTag
  rw [natDigits_ten, h]; rfl

/-- a conforming item list followed by an acceptable stop is itself an acceptable stop for a disjoint tag set -/
theorem stopOk_section {S : Schema} {ts : List Trait} {seen : List Nat} {its : List Item} {D : List Nat} {next : Bytes}
    (hdis : ∀ t, (tagsOf ts).contains t = true → D.contains t = false)
    (hok : secOk S ts seen its = true) (hnext : stopOk D next = true) :
    stopOk D (encodeItems ts S its ++ next) = true := by
  cases its with
  | nil => rw [encodeItems.eq_1, List.nil_append]; exact hnext
  | cons it rest =>
    obtain ⟨hpk, htg⟩ := secOk_front hok next
    exact stopOk_of_peek hpk (hdis _ htg)

theorem disjoint_swap {a b : List Nat} (h : disjointB a b = true) : ∀ t, b.contains t = true → a.contains t = false := by
  intro t hb
  cases ha : a.contains t with
  | false => rfl
  | true => have := disjointB_spec h t ha; rw [hb] at this; cases this

/-- **the decoder side of the hand-over**: `factory` on `8=…|9=lenT|35=mt|` header items, body items, trailer items,
`10=chk|` – for conforming sections, any BodyLength text that fits its buffer and the right checksum digits -/
theorem factory_sections {S : Schema} {C : List (List Nat)} (hW : WF S C) (mt : Bytes) (ts : List Trait)
    (hmsg : S.msgs.find? (·.1 == mt) = some (mt, ts))
    (hrest body trest : List Item) (lenT chk : Bytes)
    (hh : secOk S S.header (presetTagsOf S.header) hrest = true)
    (hb : secOk S ts (presetTagsOf ts) body = true)
    (ht : secOk S S.trailer (presetTagsOf S.trailer) trest = true)
    (hlen1 : ∀ c ∈ lenT, c ≠ SOH) (hlen2 : lenT.length < Gen.maxMsgTypeFieldLen)
    (hchk3 : chk.length = 3) (hchk1 : ∀ c ∈ chk, c ≠ SOH)
    (hsum : atoiU chk = byteSum (renderField 8 S.beginStr ++ (renderField 9 lenT ++ (renderField 35 mt ++
              (encodeItems S.header S hrest ++ (encodeItems ts S body ++ encodeItems S.trailer S trest))))) % 256) :
    factory S false (renderField 8 S.beginStr ++ (renderField 9 lenT ++ (renderField 35 mt ++
        (encodeItems S.header S hrest ++ (encodeItems ts S body ++ (encodeItems S.trailer S trest ++ renderField 10 chk)))))) =
      .ok { msgType := mt
            header := [.fld 8 S.beginStr, .fld 9 (itoa (wrapInt32 (atoiU (cstr lenT)))), .fld 35 mt] ++ hrest
            body := body
            trailer := trest.take (chkIndex S) ++ [.fld 10 chk] ++ trest.drop (chkIndex S)
            hUnknown := [], bUnknown := [], tUnknown := [] } := by
  have hmem : (mt, ts) ∈ S.msgs := List.mem_of_find?_eq_some hmsg
  have hkey := hW.keys (mt, ts) hmem
  unfold keyOk at hkey
  rw [Bool.and_eq_true, List.all_eq_true, decide_eq_true_eq] at hkey
  have hmt1 : ∀ c ∈ mt, c ≠ SOH := by
    intro c hc; have := hkey.1 c hc; simp only [Bool.and_eq_true, bne_iff_ne] at this; exact this.1
  have hmt0 : ∀ c ∈ mt, c ≠ 0 := by
    intro c hc; have := hkey.1 c hc; simp only [Bool.and_eq_true, bne_iff_ne] at this; exact this.2
  have h10tr : (tagsOf S.trailer).contains 10 = true := by
    cases hf : findTrait S.trailer 10 with
    | none => have := hW.s10; rw [hf] at this; simp at this
    | some tr => exact findTrait_some_tags hf
  have hchkOk : valOk chk = true := by
    unfold valOk
    rw [Bool.and_eq_true, List.all_eq_true, decide_eq_true_eq]
    refine ⟨fun c hc => by simpa using hchk1 c hc, ?_⟩
    rw [hchk3]; decide
  have hpk10 : peekTag (renderField 10 chk) = some 10 := by
    have := peek_render 10 chk [] hchkOk (by omega)
    rw [List.append_nil] at this; exact this
  -- the three sections
  have hstopH : stopOk (tagsOf S.header ++ belowOf C S.header)
      (encodeItems ts S body ++ (encodeItems S.trailer S trest ++ renderField 10 chk)) = true :=
    stopOk_section (disjoint_swap (hW.hdrBody (mt, ts) hmem)) hb
      (stopOk_section (disjoint_swap hW.hdrTrl) ht (stopOk_of_peek hpk10 (disjoint_swap hW.hdrTrl 10 h10tr)))
  have hstopB : stopOk (tagsOf ts ++ belowOf C ts) (encodeItems S.trailer S trest ++ renderField 10 chk) = true :=
    stopOk_section (disjoint_swap (hW.bodyTrl (mt, ts) hmem)) ht
      (stopOk_of_peek hpk10 (disjoint_swap (hW.bodyTrl (mt, ts) hmem) 10 h10tr))
  have hdH := fun F => decodeSection_roundtrip hW.groups hW.hdr F hrest _ [] _ [] none hh hstopH
  have hdB := fun F => decodeSection_roundtrip hW.groups (hW.body (mt, ts) hmem) F body _ [] _ [] none hb hstopB
  have hdT := fun F => decodeSection_roundtrip hW.groups hW.trl F trest [] [] _ [] none ht (stopOk_nil _)
  unfold presetTagsOf at hdH hdB hdT
  rw [List.append_nil] at hdT
  -- names for the pieces
  generalize encodeItems S.header S hrest = H at *
  generalize encodeItems ts S body = B at *
  generalize encodeItems S.trailer S trest = T at *
  have hr10len : (renderField 10 chk).length = 7 := render10_length chk hchk3
  have hr10a : (renderField 10 chk).take 2 = [49, 48] := by
    unfold renderField renderTag; rw [natDigits_ten]; rfl
  have hr10b : ((renderField 10 chk).drop 3).take 3 = chk := by
    unfold renderField renderTag; rw [natDigits_ten]
    show (chk ++ [SOH]).take 3 = chk
    rw [← hchk3, List.take_left']; rfl
  generalize renderField 10 chk = r10 at *
  unfold factory
  rw [extract_render 8 S.beginStr _ hW.begin (by omega)]
  have e8 : ((renderTag 8).head? != some 56) = false := by unfold renderTag; rw [natDigits_eight]; rfl
  simp only [e8, Bool.false_eq_true, if_false]
  rw [extractCap_render _ _ 9 lenT _ hlen1 hlen2 (by rw [natDigits_nine]; decide)]
  have e9 : ((renderTag 9).head? != some 57) = false := by unfold renderTag; rw [natDigits_nine]; rfl
  simp only [e9, Bool.false_eq_true, if_false]
  rw [extractCap_render _ _ 35 mt _ hmt1 hkey.2 (by rw [natDigits_thirtyfive]; decide)]
  have e35 : ((renderTag 35).take 2 != [51, 53]) = false := by unfold renderTag; rw [natDigits_thirtyfive]; rfl
  simp only [e35, Bool.false_eq_true, if_false, cstr_noNul hmt0, hmsg]
  have hbX : renderField 8 S.beginStr ++ (renderField 9 lenT ++ (renderField 35 mt ++ (H ++ (B ++ (T ++ r10))))) =
      (renderField 8 S.beginStr ++ (renderField 9 lenT ++ (renderField 35 mt ++ (H ++ (B ++ T))))) ++ r10 := by
    simp only [List.append_assoc]
  generalize hF : (renderField 8 S.beginStr ++ (renderField 9 lenT ++ (renderField 35 mt ++ (H ++ (B ++ (T ++ r10)))))).length + 2 = F
  have hF1 : (H ++ (B ++ (T ++ r10))).length < F := by
    rw [← hF]; simp only [List.length_append]; omega
  have hF2 : (B ++ (T ++ r10)).length < F := by
    simp only [List.length_append] at hF1 ⊢; omega
  have hF3 : T.length < F := by
    simp only [List.length_append] at hF2 ⊢; omega
  rw [hdH F hF1]
  simp only
  rw [hdB F hF2]
  simp only
  have htin : (T ++ r10).take ((T ++ r10).length - 7) = T := by
    rw [← hr10len]; exact take_front T r10
  rw [htin, hdT F hF3]
  simp only
  rw [hbX]
  rw [← hr10len, drop_front, take_front, hr10a, hr10b, hsum]
  simp [chkIndex]

/-! ## from `Conforms` to the sections -/

/-- everything before `10=…|` -/
def frontOf (S : Schema) (ts : List Trait) (m : Msg) : Bytes :=
  renderField 8 S.beginStr ++ renderField 9 (itoa (msgPayload S ts m).length) ++ msgPayload S ts m

theorem encodeMsg_eq (S : Schema) (ts : List Trait) (m : Msg) :
    encodeMsg S ts m = frontOf S ts m ++ renderField 10 (fmt3 (byteSum (frontOf S ts m) % 256)) := rfl

/-- the message `factory` returns for the bytes of `m`: `m` with BodyLength and CheckSum filled in -/
def decodedOf (S : Schema) (ts : List Trait) (m : Msg) : Msg :=
  { m with header := m.header.set 1 (.fld 9 (itoa (msgPayload S ts m).length))
           trailer := m.trailer.dropLast.take (chkIndex S) ++ [.fld 10 (fmt3 (byteSum (frontOf S ts m) % 256))] ++
                        m.trailer.dropLast.drop (chkIndex S) }

theorem conforms_spec {S : Schema} {ts : List Trait} {m : Msg} (h : Conforms S ts m = true) :
    ∃ v9 hrest trest v10,
      m.header = .fld 8 S.beginStr :: .fld 9 v9 :: .fld 35 m.msgType :: hrest ∧ m.trailer = trest ++ [.fld 10 v10] ∧
      secOk S S.header (presetTagsOf S.header) hrest = true ∧ secOk S ts (presetTagsOf ts) m.body = true ∧
      secOk S S.trailer (presetTagsOf S.trailer) trest = true ∧
      m.hUnknown = [] ∧ m.bUnknown = [] ∧ m.tUnknown = [] ∧ (msgPayload S ts m).length + 8 ≤ Gen.maxMsgLength := by
  unfold Conforms encodeFitsBuffer at h
  simp only [Bool.and_eq_true, decide_eq_true_eq, List.isEmpty_iff] at h
  obtain ⟨⟨⟨⟨⟨⟨⟨⟨h1, h2⟩, h3⟩, h4⟩, h5⟩, h6⟩, h7⟩, h8⟩, h9⟩ := h
  split at h1
  · rename_i t8 b t9 v9 t35 mt hrest heq
    simp only [Bool.and_eq_true, beq_iff_eq] at h1
    obtain ⟨⟨⟨⟨rfl, rfl⟩, rfl⟩, rfl⟩, rfl⟩ := h1
    split at h2
    · rename_i t10 v10 hlast
      simp only [beq_iff_eq] at h2
      subst h2
      refine ⟨v9, hrest, m.trailer.dropLast, v10, heq, ?_, ?_, h4, h5, h6, h7, h8, h9⟩
      · obtain ⟨ys, hys⟩ := List.getLast?_eq_some_iff.mp hlast
        rw [hys, List.dropLast_concat]
      · rw [heq] at h3; exact h3
    · cases h2
  · cases h1

theorem hdrEnc {S : Schema} {C : List (List Nat)} (hW : WF S C) (b x mt : Bytes) (hrest : List Item) :
    encodeItems S.header S (.fld 8 b :: .fld 9 x :: .fld 35 mt :: hrest) = renderField 35 mt ++ encodeItems S.header S hrest := by
  rw [encodeItems_suppressed _ _ 8 _ _ hW.s8, encodeItems_suppressed _ _ 9 _ _ hW.s9]
  cases hf : findTrait S.header 35 with
  | none => have := hW.s35; rw [hf] at this; simp at this
  | some tr =>
    have := hW.s35
    rw [hf] at this
    exact encodeItems_fld S S.header 35 mt hrest tr hf (by simpa using this)

theorem trlEnc {S : Schema} {C : List (List Nat)} (hW : WF S C) (x : Bytes) (trest : List Item) :
    encodeItems S.trailer S (trest ++ [.fld 10 x]) = encodeItems S.trailer S trest := by
  rw [encodeItems_append, encodeItems_suppressed _ _ 10 _ _ hW.s10, encodeItems.eq_1, List.append_nil]

/-- **C01 at message level, explicit form**: `factory` on the encoded bytes of a conforming message returns the
message with BodyLength = decimal payload length and CheckSum = the three checksum digits -/
theorem factory_encodeMsg {S : Schema} (hS : SchemaWF S = true) (ts : List Trait) (m : Msg)
    (hmsg : S.msgs.find? (·.1 == m.msgType) = some (m.msgType, ts)) (hm : Conforms S ts m = true) :
    factory S false (encodeMsg S ts m) = .ok (decodedOf S ts m) := by
  have hW := wf_of_schemaWF hS
  obtain ⟨v9, hrest, trest, v10, hhd, htl, hh, hb, ht, hu1, hu2, hu3, hlen⟩ := conforms_spec hm
  obtain ⟨mt, header, body, trailer, hU, bU, tU⟩ := m
  simp only at hhd htl hh hb ht hu1 hu2 hu3 hmsg
  subst hhd htl hu1 hu2 hu3
  have hp : msgPayload S ts ⟨mt, .fld 8 S.beginStr :: .fld 9 v9 :: .fld 35 mt :: hrest, body, trest ++ [.fld 10 v10], [], [], []⟩ =
      renderField 35 mt ++ (encodeItems S.header S hrest ++ (encodeItems ts S body ++ encodeItems S.trailer S trest)) := by
    unfold msgPayload
    simp only [hdrEnc hW, trlEnc hW, List.append_nil, List.append_assoc]
  rw [encodeMsg_eq]
  unfold decodedOf
  unfold frontOf
  rw [hp] at hlen ⊢
  generalize hn : (renderField 35 mt ++ (encodeItems S.header S hrest ++ (encodeItems ts S body ++ encodeItems S.trailer S trest))).length = n at *
  have hn' : n ≤ 8192 := by
    have : n + 8 ≤ 8192 := hlen
    omega
  rw [itoa_ofNat]
  have hfr : renderField 8 S.beginStr ++ renderField 9 (natDigits n) ++
        (renderField 35 mt ++ (encodeItems S.header S hrest ++ (encodeItems ts S body ++ encodeItems S.trailer S trest))) =
      renderField 8 S.beginStr ++ (renderField 9 (natDigits n) ++
        (renderField 35 mt ++ (encodeItems S.header S hrest ++ (encodeItems ts S body ++ encodeItems S.trailer S trest)))) := by
    simp only [List.append_assoc]
  rw [hfr]
  generalize hc : byteSum (renderField 8 S.beginStr ++ (renderField 9 (natDigits n) ++
        (renderField 35 mt ++ (encodeItems S.header S hrest ++ (encodeItems ts S body ++ encodeItems S.trailer S trest))))) % 256 = c
  have hc256 : c < 1000 := by rw [← hc]; omega
  have key := factory_sections hW mt ts hmsg hrest body trest (natDigits n) (fmt3 c) hh hb ht
    (natDigits_noSOH n)
    (by have := natDigits_length_le n 31 (by have : (8192 : Nat) < 10 ^ 31 := by decide
                                             omega) (by omega)
        show (natDigits n).length < 32
        omega)
    rfl
    (by intro x hx
        simp only [fmt3, List.mem_cons, List.mem_nil_iff, or_false] at hx
        simp only [SOH]
        omega)
    (by rw [atoiU_fmt3 c hc256, hc])
  have e : renderField 8 S.beginStr ++ (renderField 9 (natDigits n) ++
        (renderField 35 mt ++ (encodeItems S.header S hrest ++ (encodeItems ts S body ++ encodeItems S.trailer S trest)))) ++
        renderField 10 (fmt3 c) =
      renderField 8 S.beginStr ++ (renderField 9 (natDigits n) ++ (renderField 35 mt ++ (encodeItems S.header S hrest ++
        (encodeItems ts S body ++ (encodeItems S.trailer S trest ++ renderField 10 (fmt3 c)))))) := by
    simp only [List.append_assoc]
  rw [e, key]
  have e9 : itoa (wrapInt32 ((atoiU (cstr (natDigits n)) : Nat) : Int)) = natDigits n := by
    rw [cstr_noNul (natDigits_noNul n), atoiU_natDigits n (by omega)]
    have : wrapInt32 (n : Int) = (n : Int) := by unfold wrapInt32; omega
    rw [this, itoa_ofNat]
  rw [e9]
  simp

theorem sameContent_decodedOf (S : Schema) (ts : List Trait) (m : Msg) : SameContent m (decodedOf S ts m) :=
  ⟨rfl, rfl, rfl, rfl, rfl, ⟨_, rfl⟩, ⟨_, _, rfl⟩⟩

/-- BodyLength and CheckSum are written by `Message::encode` itself: their stored values do not reach the wire -/
theorem encodeMsg_decodedOf {S : Schema} (hS : SchemaWF S = true) (ts : List Trait) (m : Msg) (hm : Conforms S ts m = true) :
    encodeMsg S ts (decodedOf S ts m) = encodeMsg S ts m := by
  have hW := wf_of_schemaWF hS
  obtain ⟨v9, hrest, trest, v10, hhd, htl, _, _, _, _, _, _, _⟩ := conforms_spec hm
  have hp : msgPayload S ts (decodedOf S ts m) = msgPayload S ts m := by
    unfold decodedOf msgPayload
    simp only
    rw [hhd, htl]
    simp only [List.set_cons_succ, List.set_cons_zero, List.dropLast_concat, hdrEnc hW, trlEnc hW, encodeItems_append]
    rw [← encodeItems_append, List.take_append_drop]
  rw [encodeMsg_eq, encodeMsg_eq]
  unfold frontOf
  rw [hp]

/-! ## looking a message type up (decidable form of the `hmsg` hypothesis) -/

/-- the schema defines message type `mt` -/
def hasMsg (S : Schema) (mt : Bytes) : Bool := (S.msgs.find? (·.1 == mt)).isSome

/-- the body trait list of message type `mt` -/
def bodyOf (S : Schema) (mt : Bytes) : List Trait := ((S.msgs.find? (·.1 == mt)).map (·.2)).getD []

theorem find_msg {S : Schema} {mt : Bytes} (h : hasMsg S mt = true) :
    S.msgs.find? (·.1 == mt) = some (mt, bodyOf S mt) := by
  unfold hasMsg at h
  unfold bodyOf
  cases hf : S.msgs.find? (·.1 == mt) with
  | none => rw [hf] at h; cases h
  | some x =>
    have := List.find?_some hf
    simp only [beq_iff_eq] at this
    obtain ⟨k, ts⟩ := x
    simp only at this
    subst this
    rfl

end Fix8Model.Codec.RT
