import Fix8Model.Codec.RoundTripTok
/-!
`SchemaWF` unpacked into the Prop-level facts the inductions use.
-/
namespace Fix8Model.Codec.RT
open Fix8Model

/-- the facts about the group definitions and a tag table `C` (`C[i]` ⊇ every tag at or below group `i`) -/
structure GroupsWF (S : Schema) (C : List (List Nat)) : Prop where
  own : ∀ i t, (tagsOf (S.group i)).contains t = true → (C.getD i []).contains t = true
  sub : ∀ i g, g ∈ S.group i → g.group = true → ∀ t, (C.getD g.sub []).contains t = true → (C.getD i []).contains t = true
  nest : ∀ i g, g ∈ S.group i → g.group = true → ∀ t, (C.getD g.sub []).contains t = true → (tagsOf (S.group i)).contains t = false
  pos1 : ∀ i a b, a ∈ S.group i → b ∈ S.group i → a.pos = 1 → b.pos = 1 → a.tag = b.tag

theorem group_ge (S : Schema) (i : Nat) (h : ¬ i < S.groups.length) : S.group i = [] := by
  unfold Schema.group
  simp only [List.getD]
  have : S.groups[i]? = none := by rw [List.getElem?_eq_none_iff]; omega
  rw [this]; rfl

theorem nestOk_spec {C : List (List Nat)} {ts : List Trait} (h : nestOk C ts = true) :
    ∀ g, g ∈ ts → g.group = true → ∀ t, (C.getD g.sub []).contains t = true → (tagsOf ts).contains t = false := by
  intro g hg hgg t ht
  unfold nestOk at h
  rw [List.all_eq_true] at h
  have h1 := h g (by simp [hg, hgg])
  unfold disjointB at h1
  rw [List.all_eq_true] at h1
  have h2 := h1 t (by simpa using ht)
  simpa using h2

theorem pos1Unique_spec {ts : List Trait} (h : pos1Unique ts = true) :
    ∀ a b, a ∈ ts → b ∈ ts → a.pos = 1 → b.pos = 1 → a.tag = b.tag := by
  intro a b ha hb pa pb
  unfold pos1Unique at h
  rw [List.all_eq_true] at h
  have h1 := h a ha
  rw [List.all_eq_true] at h1
  have h2 := h1 b hb
  simpa [pa, pb] using h2

theorem disjointB_spec {a b : List Nat} (h : disjointB a b = true) : ∀ t, a.contains t = true → b.contains t = false := by
  intro t ht
  unfold disjointB at h
  rw [List.all_eq_true] at h
  have := h t (by simpa using ht)
  simpa using this

theorem groupsWF_of_closed {S : Schema} {C : List (List Nat)} (hc : closedOk S C = true)
    (hg : (List.range S.groups.length).all (fun i => nestOk C (S.group i) && pos1Unique (S.group i)) = true) :
    GroupsWF S C := by
  unfold closedOk at hc
  rw [List.all_eq_true] at hc hg
  have inr : ∀ i, i < S.groups.length → i ∈ List.range S.groups.length := fun i hi => List.mem_range.mpr hi
  refine ⟨?_, ?_, ?_, ?_⟩
  · intro i t ht
    by_cases hi : i < S.groups.length
    · have := hc i (inr i hi)
      rw [Bool.and_eq_true, List.all_eq_true] at this
      exact this.1 t (by simpa using ht)
    · rw [group_ge S i hi] at ht; simp [tagsOf] at ht
  · intro i g hgi hgg t ht
    by_cases hi : i < S.groups.length
    · have := hc i (inr i hi)
      rw [Bool.and_eq_true] at this
      have h3 := this.2
      rw [List.all_eq_true] at h3
      have h2 := h3 g (by simp [hgi, hgg])
      rw [List.all_eq_true] at h2
      exact h2 t (by simpa using ht)
    · rw [group_ge S i hi] at hgi; cases hgi
  · intro i g hgi hgg t ht
    by_cases hi : i < S.groups.length
    · have := hg i (inr i hi)
      rw [Bool.and_eq_true] at this
      exact nestOk_spec this.1 g hgi hgg t ht
    · rw [group_ge S i hi] at hgi; cases hgi
  · intro i a b ha hb pa pb
    by_cases hi : i < S.groups.length
    · have := hg i (inr i hi)
      rw [Bool.and_eq_true] at this
      exact pos1Unique_spec this.2 a b ha hb pa pb
    · rw [group_ge S i hi] at ha; cases ha

/-- the facts about one section's trait list -/
structure SectionWF (S : Schema) (C : List (List Nat)) (ts : List Trait) : Prop where
  nest : ∀ g, g ∈ ts → g.group = true → ∀ t, (C.getD g.sub []).contains t = true → (tagsOf ts).contains t = false

theorem belowOf_mem {C : List (List Nat)} {ts : List Trait} {g : Trait} (hg : g ∈ ts) (hgg : g.group = true)
    {t : Nat} (ht : (C.getD g.sub []).contains t = true) : (belowOf C ts).contains t = true := by
  unfold belowOf
  rw [List.contains_iff_mem, List.mem_flatMap]
  exact ⟨g, by simp [hg, hgg], by simpa using ht⟩

/-- all conjuncts of `wfWith`, as a structure -/
structure WF (S : Schema) (C : List (List Nat)) : Prop where
  groups : GroupsWF S C
  hdr : SectionWF S C S.header
  trl : SectionWF S C S.trailer
  body : ∀ kt, kt ∈ S.msgs → SectionWF S C kt.2
  hdrTrl : disjointB (tagsOf S.header ++ belowOf C S.header) (tagsOf S.trailer) = true
  hdrBody : ∀ kt, kt ∈ S.msgs → disjointB (tagsOf S.header ++ belowOf C S.header) (tagsOf kt.2) = true
  bodyTrl : ∀ kt, kt ∈ S.msgs → disjointB (tagsOf kt.2 ++ belowOf C kt.2) (tagsOf S.trailer) = true
  s8 : (findTrait S.header 8).any (·.suppress) = true
  s9 : (findTrait S.header 9).any (·.suppress) = true
  s35 : (findTrait S.header 35).any (fun t => !t.suppress) = true
  s10 : (findTrait S.trailer 10).any (·.suppress) = true
  begin : valOk S.beginStr = true
  keys : ∀ kt, kt ∈ S.msgs → keyOk kt.1 = true

theorem wf_of_wfWith {S : Schema} {C : List (List Nat)} (h : wfWith S C = true) : WF S C := by
  unfold wfWith wfGroups wfNest wfHdr wfBody wfMisc at h
  simp only [Bool.and_eq_true] at h
  obtain ⟨⟨⟨⟨⟨hc, hg⟩, ⟨⟨hh, ht⟩, hb⟩⟩, ⟨hht, hm1⟩⟩, hm2⟩, ⟨⟨⟨⟨⟨h8, h9⟩, h35⟩, h10⟩, hbs⟩, hk⟩⟩ := h
  rw [List.all_eq_true] at hb hm1 hm2 hk
  exact ⟨groupsWF_of_closed hc hg, ⟨nestOk_spec hh⟩, ⟨nestOk_spec ht⟩, fun kt hkt => ⟨nestOk_spec (hb kt hkt)⟩, hht,
    fun kt hkt => hm1 kt hkt, fun kt hkt => hm2 kt hkt, h8, h9, h35, h10, hbs, fun kt hkt => hk kt hkt⟩

theorem wf_of_schemaWF {S : Schema} (h : SchemaWF S = true) : WF S (deepTable S) := wf_of_wfWith h

end Fix8Model.Codec.RT
