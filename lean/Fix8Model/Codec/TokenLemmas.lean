import Fix8Model.Codec.Model
import Fix8Model.Basic.DigitsLemmas
namespace Fix8Model.Codec
open Fix8Model Fix8Model.Digits

theorem takeWhile_append_stop {α} (p : α → Bool) (xs : List α) (y : α) (ys : List α)
    (hx : ∀ x ∈ xs, p x = true) (hy : p y = false) :
    (xs ++ y :: ys).takeWhile p = xs ∧ (xs ++ y :: ys).dropWhile p = y :: ys := by
  induction xs with
  | nil => simp [List.takeWhile, List.dropWhile, hy]
  | cons x xs ih =>
    have hx1 : p x = true := hx x (by simp)
    have ih' := ih (fun z hz => hx z (by simp [hz]))
    simp [List.takeWhile, List.dropWhile, hx1, ih'.1, ih'.2]

theorem takeWhile_all {α} (p : α → Bool) (xs : List α) (h : ∀ x ∈ xs, p x = true) : xs.takeWhile p = xs := by
  induction xs with
  | nil => rfl
  | cons x xs ih =>
    have := h x (by simp)
    simp [List.takeWhile, this, ih (fun z hz => h z (by simp [hz]))]

theorem natDigits_isDigit (n : Nat) : ∀ c ∈ natDigits n, isDigit c = true := by
  induction n using Nat.strongRecOn with
  | ind n ih =>
    by_cases h : n < 10
    · rw [natDigits_lt n h]
      intro c hc
      simp at hc
      subst hc
      simp [isDigit]; omega
    · rw [natDigits_ge n h]
      intro c hc
      rw [List.mem_append] at hc
      rcases hc with hc | hc
      · exact ih (n / 10) (by omega) c hc
      · simp at hc; subst hc; simp [isDigit]; omega

theorem natDigits_length_pos (n : Nat) : 0 < (natDigits n).length := by
  by_cases h : n < 10
  · rw [natDigits_lt n h]; simp
  · rw [natDigits_ge n h]; simp

theorem natDigits_length_le (n : Nat) : ∀ k, n < 10 ^ k → 0 < k → (natDigits n).length ≤ k := by
  induction n using Nat.strongRecOn with
  | ind n ih =>
    intro k hk hk0
    by_cases h : n < 10
    · rw [natDigits_lt n h]; simp; omega
    · rw [natDigits_ge n h]
      simp only [List.length_append, List.length_cons, List.length_nil]
      cases k with
      | zero => omega
      | succ k =>
        have : n / 10 < 10 ^ k := by
          rw [Nat.pow_succ] at hk
          exact Nat.div_lt_of_lt_mul (by omega)
        have hk1 : 0 < k := by
          cases k with
          | zero => simp at this; omega
          | succ _ => omega
        have := ih (n / 10) (by omega) k this hk1
        omega

/-- a rendered field followed by anything tokenises back into its tag text, value and the rest
(value without SOH and within the value buffer, tag below 10^31) -/
theorem extractElement_render (t : Nat) (v rest : Bytes)
    (hv : ∀ c ∈ v, c ≠ SOH) (hlen : v.length < Gen.maxFldLength) (ht : t < 10 ^ 31) :
    extractElement (renderField t v ++ rest) = some (renderTag t, v, rest) := by
  unfold extractElement extractElementCap renderField renderTag
  have h1 := takeWhile_append_stop isDigit (natDigits t) EQ (v ++ [SOH] ++ rest) (natDigits_isDigit t) (by decide)
  have e : natDigits t ++ [EQ] ++ v ++ [SOH] ++ rest = natDigits t ++ EQ :: (v ++ [SOH] ++ rest) := by simp
  rw [e]
  simp only [h1.1, h1.2]
  have hl : ¬ (natDigits t).length ≥ Gen.maxMsgTypeFieldLen := by
    have := natDigits_length_le t 31 ht (by omega)
    show ¬ (natDigits t).length ≥ 32
    omega
  rw [if_neg hl]
  have h2 := takeWhile_append_stop (· != 1) v SOH rest (by intro x hx; have := hv x hx; simp [SOH] at this ⊢; exact this) (by decide)
  have e2 : v ++ [SOH] ++ rest = v ++ SOH :: rest := by simp
  rw [e2]
  have hl2 : ¬ v.length ≥ Gen.maxFldLength := by omega
  have h3 : List.takeWhile (fun x => x != 1) (v ++ 1 :: rest) = v ∧
      List.dropWhile (fun x => x != 1) (v ++ 1 :: rest) = 1 :: rest := h2
  simp only [EQ, SOH]
  rw [h3.1, h3.2]
  simp only [if_neg hl2]

theorem schar_digit (c : Nat) (h : c < 128) : schar c = (c : Int) := by
  unfold schar; simp [h]

theorem atoiZ_natDigits (n : Nat) : atoiZ (natDigits n) = (n : Int) := by
  have hne : ∀ r, natDigits n ≠ 45 :: r := by
    intro r hr
    obtain ⟨c, cs, e, hc⟩ := natDigits_head n
    rw [e] at hr
    injection hr with h1 _
    omega
  unfold atoiZ
  split
  · rename_i rest heq; exact absurd heq (hne rest)
  · have := foldl_pos n
    have hd : ∀ (l : List Nat) (r : Int), (∀ c ∈ l, c < 128) →
        l.foldl (fun r c => r * 8 + r * 2 + (schar c - 48)) r = l.foldl (atoiStep false) r := by
      intro l
      induction l with
      | nil => intro r _; rfl
      | cons c cs ih =>
        intro r hc
        simp only [List.foldl_cons]
        rw [schar_digit c (hc c (by simp))]
        have : atoiStep false r c = r * 8 + r * 2 + ((c : Int) - 48) := by simp [atoiStep]
        rw [← this]
        exact ih _ (fun z hz => hc z (by simp [hz]))
    rw [hd _ _ (by
      intro c hc
      have := natDigits_isDigit n c hc
      simp [isDigit] at this; omega)]
    exact this

/-- the decoder reads a rendered tag back as the same number -/
theorem tagNum_render (t : Nat) (h : t < 65536) : tagNum (renderTag t) = t := by
  unfold tagNum atoiU renderTag
  rw [atoiZ_natDigits]
  have : ((t : Int) % 4294967296).toNat = t := by omega
  rw [this]; omega

end Fix8Model.Codec
