import Fix8Model.Codec.RoundTripDefs
import Fix8Model.Codec.TokenLemmas
/-!
Token-level facts used by the round-trip proofs: what the decoders see at the front of rendered
fields (`peekTag`, `extractFixed`), lengths, trait lookup.
-/
namespace Fix8Model.Codec.RT
open Fix8Model Fix8Model.Digits

theorem valOk_spec {v : Bytes} (h : valOk v = true) : (∀ c ∈ v, c ≠ SOH) ∧ v.length < Gen.maxFldLength := by
  unfold valOk at h
  rw [Bool.and_eq_true, List.all_eq_true, decide_eq_true_eq] at h
  refine ⟨fun c hc => ?_, h.2⟩
  have := h.1 c hc
  simpa using this

theorem dataOk_spec {d : Bytes} (h : dataOk d = true) : (∀ c ∈ d, c ≠ 0) ∧ d.length < Gen.maxFldLength := by
  unfold dataOk at h
  rw [Bool.and_eq_true, List.all_eq_true, decide_eq_true_eq] at h
  refine ⟨fun c hc => ?_, h.2⟩
  have := h.1 c hc
  simpa using this

theorem lt_pow31 {t : Nat} (h : t < 65536) : t < 10 ^ 31 := by
  have : (65536 : Nat) < 10 ^ 31 := by decide
  omega

theorem extract_render (t : Nat) (v rest : Bytes) (hv : valOk v = true) (ht : t < 65536) :
    extractElement (renderField t v ++ rest) = some (renderTag t, v, rest) :=
  extractElement_render t v rest (valOk_spec hv).1 (valOk_spec hv).2 (lt_pow31 ht)

theorem peek_render (t : Nat) (v rest : Bytes) (hv : valOk v = true) (ht : t < 65536) :
    peekTag (renderField t v ++ rest) = some t := by
  unfold peekTag
  rw [extract_render t v rest hv ht]
  simp [tagNum_render t ht]

theorem peek_nil : peekTag [] = none := by
  simp [peekTag, extractElement, extractElementCap]

theorem renderField_length (t : Nat) (v : Bytes) : (renderField t v).length = (renderTag t).length + v.length + 2 := by
  simp [renderField]; omega

theorem renderField_length_ge (t : Nat) (v : Bytes) : 3 + v.length ≤ (renderField t v).length := by
  rw [renderField_length]
  have := natDigits_length_pos t
  unfold renderTag
  omega

theorem cstr_noNul {v : Bytes} (h : ∀ c ∈ v, c ≠ 0) : cstr v = v := by
  unfold cstr
  exact takeWhile_all _ _ (by intro c hc; have := h c hc; simp [this])

/-- the fixed-width extractor on a rendered data field: the `n` content bytes, whatever they are -/
theorem extractFixed_render (t : Nat) (d rest : Bytes) (ht : t < 65536) :
    extractFixed (renderField t d ++ rest) d.length = some (renderTag t, d, rest) := by
  unfold extractFixed renderField renderTag
  have h1 := takeWhile_append_stop isDigit (natDigits t) EQ (d ++ [SOH] ++ rest) (natDigits_isDigit t) (by decide)
  have e : natDigits t ++ [EQ] ++ d ++ [SOH] ++ rest = natDigits t ++ EQ :: (d ++ [SOH] ++ rest) := by simp
  rw [e]
  simp only [h1.1, h1.2]
  have hl : ¬ (natDigits t).length ≥ Gen.maxMsgTypeFieldLen := by
    have := natDigits_length_le t 31 (lt_pow31 ht) (by omega)
    show ¬ (natDigits t).length ≥ 32
    omega
  rw [if_neg hl]
  have h61 : (EQ != 61) = false := by decide
  simp only [h61, Bool.false_eq_true, if_false]
  have hlen : ¬ (d ++ [SOH] ++ rest).length < d.length := by simp
  rw [if_neg hlen]
  have e1 : (d ++ [SOH] ++ rest).take d.length = d := by
    rw [List.append_assoc, List.take_left']
    rfl
  have e2 : (d ++ [SOH] ++ rest).drop (d.length + 1) = rest := by
    have : d ++ [SOH] ++ rest = (d ++ [SOH]) ++ rest := by simp
    rw [this, List.drop_left']
    simp
  rw [e1, e2]

theorem atoiU_natDigits (n : Nat) (h : n < 4294967296) : atoiU (natDigits n) = n := by
  unfold atoiU
  rw [atoiZ_natDigits]
  omega

theorem natDigits_noNul (n : Nat) : ∀ c ∈ natDigits n, c ≠ 0 := by
  intro c hc
  have := natDigits_isDigit n c hc
  simp [isDigit] at this
  omega

theorem itoa_ofNat (n : Nat) : itoa (n : Int) = natDigits n := by
  rw [itoa_eq]
  unfold decimalRepr
  have : ¬ ((n : Int) < 0) := by omega
  simp [this]

/-- `extract_element` with explicit buffer capacities on a rendered field -/
theorem extractCap_render (tc vc : Nat) (t : Nat) (v rest : Bytes)
    (hv : ∀ c ∈ v, c ≠ SOH) (hlen : v.length < vc) (ht : (natDigits t).length < tc) :
    extractElementCap tc vc (renderField t v ++ rest) = some (renderTag t, v, rest) := by
  unfold extractElementCap renderField renderTag
  have h1 := takeWhile_append_stop isDigit (natDigits t) EQ (v ++ [SOH] ++ rest) (natDigits_isDigit t) (by decide)
  have e : natDigits t ++ [EQ] ++ v ++ [SOH] ++ rest = natDigits t ++ EQ :: (v ++ [SOH] ++ rest) := by simp
  rw [e]
  simp only [h1.1, h1.2]
  have hl : ¬ (natDigits t).length ≥ tc := by omega
  rw [if_neg hl]
  have h2 := takeWhile_append_stop (· != 1) v SOH rest (by intro x hx; have := hv x hx; simp [SOH] at this ⊢; exact this) (by decide)
  have e2 : v ++ [SOH] ++ rest = v ++ SOH :: rest := by simp
  rw [e2]
  have hl2 : ¬ v.length ≥ vc := by omega
  have h3 : List.takeWhile (fun x => x != 1) (v ++ 1 :: rest) = v ∧
      List.dropWhile (fun x => x != 1) (v ++ 1 :: rest) = 1 :: rest := h2
  simp only [EQ, SOH]
  rw [h3.1, h3.2]
  simp only [if_neg hl2]

theorem natDigits_eight : natDigits 8 = [56] := natDigits_lt 8 (by omega)
theorem natDigits_nine : natDigits 9 = [57] := natDigits_lt 9 (by omega)
theorem natDigits_thirtyfive : natDigits 35 = [51, 53] := by
  rw [natDigits_ge 35 (by omega), natDigits_lt (35 / 10) (by omega)]; rfl
theorem natDigits_ten : natDigits 10 = [49, 48] := by
  rw [natDigits_ge 10 (by omega), natDigits_lt (10 / 10) (by omega)]; rfl

theorem natDigits_noSOH (n : Nat) : ∀ c ∈ natDigits n, c ≠ SOH := by
  intro c hc
  have := natDigits_isDigit n c hc
  simp [isDigit] at this
  simp only [SOH]
  omega

/-- the three checksum digits read back as the checksum -/
theorem atoiU_fmt3 (c : Nat) (h : c < 1000) : atoiU (fmt3 c) = c := by
  unfold atoiU fmt3 atoiZ
  split
  · rename_i rest heq
    injection heq with h1 _
    omega
  · simp only [List.foldl_cons, List.foldl_nil]
    have s1 : schar (48 + c / 100 % 10) = ((48 + c / 100 % 10 : Nat) : Int) := schar_digit _ (by omega)
    have s2 : schar (48 + c / 10 % 10) = ((48 + c / 10 % 10 : Nat) : Int) := schar_digit _ (by omega)
    have s3 : schar (48 + c % 10) = ((48 + c % 10 : Nat) : Int) := schar_digit _ (by omega)
    rw [s1, s2, s3]
    have e : c = c / 100 % 10 * 100 + c / 10 % 10 * 10 + c % 10 := by omega
    generalize c / 100 % 10 = d2 at *
    generalize c / 10 % 10 = d1 at *
    generalize c % 10 = d0 at *
    subst e
    omega

/-! ## trait lookup -/

theorem findTrait_some {ts : List Trait} {t : Nat} {tr : Trait} (h : findTrait ts t = some tr) : tr ∈ ts ∧ tr.tag = t := by
  unfold findTrait at h
  refine ⟨List.mem_of_find?_eq_some h, ?_⟩
  have := List.find?_some h
  simpa using this

theorem findTrait_none_iff (ts : List Trait) (t : Nat) : findTrait ts t = none ↔ ¬ (tagsOf ts).contains t = true := by
  unfold findTrait tagsOf
  rw [List.find?_eq_none]
  simp only [List.contains_iff_mem, List.mem_map, not_exists, not_and]
  constructor
  · intro h x hx he; exact h x hx (by simp [he])
  · intro h x hx he; exact h x hx (by simpa using he)

theorem findTrait_some_tags {ts : List Trait} {t : Nat} {tr : Trait} (h : findTrait ts t = some tr) :
    (tagsOf ts).contains t = true := by
  cases hc : (tagsOf ts).contains t with
  | true => rfl
  | false =>
    have := (findTrait_none_iff ts t).mpr (by rw [hc]; simp)
    rw [this] at h; cases h

end Fix8Model.Codec.RT
