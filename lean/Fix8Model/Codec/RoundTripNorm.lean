import Fix8Model.Codec.RoundTripMsg
/-!
A group item without elements (`.grp t v []`, e.g. a count field set to 0 through the API and no element added) is
written exactly like the plain field `.fld t v`, and that is what the decoder returns for it.  `normMsg` maps such
items (at any depth) to plain fields; the encoder does not see the difference, so the round trip of `normMsg m`
is the round trip of `m`.
-/
namespace Fix8Model.Codec.RT
open Fix8Model

mutual
  def normItems : List Item → List Item
    | [] => []
    | .fld t v :: rest => .fld t v :: normItems rest
    | .grp t v els :: rest => (if els.isEmpty then .fld t v else .grp t v (normElems els)) :: normItems rest
  def normElems : List (List Item) → List (List Item)
    | [] => []
    | e :: rest => normItems e :: normElems rest
end

def normMsg (m : Msg) : Msg :=
  { m with header := normItems m.header, body := normItems m.body, trailer := normItems m.trailer }

theorem encode_norm (S : Schema) :
    (∀ its : List Item, ∀ ts, encodeItems ts S (normItems its) = encodeItems ts S its) ∧
    (∀ els : List (List Item), ∀ ts, encodeElems ts S (normElems els) = encodeElems ts S els) := by
  apply normItems.mutual_induct
  · intro ts; rw [normItems.eq_1]
  · intro t v rest ih ts
    rw [normItems.eq_2, encodeItems.eq_2, encodeItems.eq_2, ih]
  · intro t v els rest ihe ihr ts
    rw [normItems.eq_3]
    cases els with
    | nil =>
      simp only [List.isEmpty_nil, if_true]
      rw [encodeItems.eq_2, encodeItems.eq_3, ihr, encodeElems.eq_1]
      simp
    | cons e es =>
      simp only [List.isEmpty_cons, Bool.false_eq_true, if_false]
      rw [encodeItems.eq_3, encodeItems.eq_3, ihr, ihe]
  · intro ts; rw [normElems.eq_1]
  · intro e rest ihe ihr ts
    rw [normElems.eq_2, encodeElems.eq_2, encodeElems.eq_2, ihe, ihr]

theorem encodeMsg_norm (S : Schema) (ts : List Trait) (m : Msg) : encodeMsg S ts (normMsg m) = encodeMsg S ts m := by
  have hp : msgPayload S ts (normMsg m) = msgPayload S ts m := by
    unfold msgPayload normMsg
    simp only [(encode_norm S).1]
  rw [encodeMsg_eq, encodeMsg_eq]
  unfold frontOf
  rw [hp]

/-- the message-level round trip for messages that conform after normalisation (element-less group items allowed) -/
theorem factory_encodeMsg_norm {S : Schema} (hS : SchemaWF S = true) (ts : List Trait) (m : Msg)
    (hmsg : S.msgs.find? (·.1 == m.msgType) = some (m.msgType, ts)) (hm : Conforms S ts (normMsg m) = true) :
    factory S false (encodeMsg S ts m) = .ok (decodedOf S ts (normMsg m)) := by
  rw [← encodeMsg_norm]
  exact factory_encodeMsg hS ts (normMsg m) hmsg hm

end Fix8Model.Codec.RT
