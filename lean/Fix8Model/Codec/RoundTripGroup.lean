import Fix8Model.Codec.RoundTripWF
/-!
Repeating groups nested to any depth: `decodeGroup` / `decodeElem` on the bytes `encodeElems` / `encodeItems`
wrote give the elements back and stop exactly where the group ends.
-/
namespace Fix8Model.Codec.RT
open Fix8Model

/-- the input after a group: exhausted, or a token whose tag is outside `D` -/
def stopOk (D : List Nat) (next : Bytes) : Bool :=
  next.isEmpty || match peekTag next with
                  | some tv => !D.contains tv
                  | none => false

/-- the input after the items of one element: a token of a tag the element already has (next element), a token
outside `D` (end of the group), or nothing -/
def elemStopOk (D seen : List Nat) (next : Bytes) : Bool :=
  match peekTag next with
  | some tv => seen.contains tv || !D.contains tv
  | none => next.isEmpty

/-- the `ok` flag of `decode_group` after an element -/
def moreFlag (seen : List Nat) (next : Bytes) : Bool :=
  match peekTag next with
  | some tv => seen.contains tv
  | none => true

def seenAfter (seen : List Nat) (its : List Item) : List Nat := (its.map Item.tag).reverse ++ seen

theorem seenAfter_cons (seen : List Nat) (it : Item) (its : List Item) :
    seenAfter seen (it :: its) = seenAfter (it.tag :: seen) its := by
  simp [seenAfter]

/-! ## single steps of `decodeElem` -/

/-- `decodeElem` consumes one rendered plain field and continues with the item appended -/
theorem decodeElem_step_fld (S : Schema) (fieldOk : Nat → Bool) (gts : List Trait) (fuel : Nat) (t : Nat) (v rest : Bytes)
    (items : List Item) (seen : List Nat) (tr : Trait)
    (htr : findTrait gts t = some tr) (hseen : seen.contains t = false) (hpos : (!seen.isEmpty || tr.pos == 1) = true)
    (hfo : fieldOk t = true) (ht : t < 65536) (hv : valOk v = true) (hcanon : canon tr.kind v = some v)
    (hng : (tr.group && countPositive v) = false) :
    decodeElem S fieldOk gts (fuel + 1) (renderField t v ++ rest) items seen =
      decodeElem S fieldOk gts fuel rest (.fld t v :: items) (t :: seen) := by
  rw [decodeElem.eq_2, extract_render t v rest hv ht]
  simp only [tagNum_render t ht, hseen, htr, Bool.false_eq_true, if_false]
  have hp : (seen.isEmpty && tr.pos != 1) = false := by
    cases hs : seen.isEmpty <;> simp_all
  simp only [hp, hfo, Bool.not_true, Bool.false_eq_true, if_false, hcanon, hng]

/-- `decodeElem` on a rendered count field with a positive count hands over to `decodeGroup` -/
theorem decodeElem_step_grp (S : Schema) (fieldOk : Nat → Bool) (gts : List Trait) (fuel : Nat) (t : Nat) (v rest : Bytes)
    (items : List Item) (seen : List Nat) (tr : Trait)
    (htr : findTrait gts t = some tr) (hseen : seen.contains t = false) (hpos : (!seen.isEmpty || tr.pos == 1) = true)
    (hfo : fieldOk t = true) (ht : t < 65536) (hv : valOk v = true) (hcanon : canon tr.kind v = some v)
    (hg : (tr.group && countPositive v) = true) :
    decodeElem S fieldOk gts (fuel + 1) (renderField t v ++ rest) items seen =
      match decodeGroup S fieldOk (S.group tr.sub) fuel rest [] with
      | .error e => .error e
      | .ok (els, rest') => decodeElem S fieldOk gts fuel rest' (.grp t v els :: items) (t :: seen) := by
  rw [decodeElem.eq_2, extract_render t v rest hv ht]
  simp only [tagNum_render t ht, hseen, htr, Bool.false_eq_true, if_false]
  have hp : (seen.isEmpty && tr.pos != 1) = false := by
    cases hs : seen.isEmpty <;> simp_all
  simp only [hp, hfo, Bool.not_true, Bool.false_eq_true, if_false, hcanon, hg, if_true]
  cases decodeGroup S fieldOk (S.group tr.sub) fuel rest [] <;> rfl

/-- the element loop stops in front of `next` -/
theorem decodeElem_stop (S : Schema) (fieldOk : Nat → Bool) (gts : List Trait) (fuel : Nat) (next : Bytes)
    (items : List Item) (seen : List Nat) (hne : seen ≠ [])
    (hstop : ∀ tv, peekTag next = some tv → seen.contains tv = false → findTrait gts tv = none) :
    decodeElem S fieldOk gts (fuel + 1) next items seen = .ok (items, seen, next, moreFlag seen next) := by
  rw [decodeElem.eq_2]
  unfold moreFlag
  unfold peekTag at hstop ⊢
  cases he : extractElement next with
  | none => simp
  | some x =>
    obtain ⟨tagT, val, rest⟩ := x
    simp only [Option.map_some]
    rw [he] at hstop
    simp only [Option.map_some] at hstop
    cases hc : seen.contains (tagNum tagT) with
    | true => simp
    | false =>
      have := hstop (tagNum tagT) rfl hc
      have hs : seen.isEmpty = false := by
        cases seen with
        | nil => exact absurd rfl hne
        | cons _ _ => rfl
      simp [this, hs]

/-! ## unpacking the conformance predicates -/

theorem baseOk_spec {S : Schema} {tr : Trait} {t : Nat} {v : Bytes} (h : baseOk S tr t v = true) :
    t < 65536 ∧ S.fieldTable.contains t = true ∧ tr.suppress = false ∧ valOk v = true ∧ canon tr.kind v = some v := by
  unfold baseOk at h
  simp only [Bool.and_eq_true, decide_eq_true_eq, Bool.not_eq_true', beq_iff_eq] at h
  obtain ⟨⟨⟨⟨h1, h2⟩, h3⟩, h4⟩, h5⟩ := h
  exact ⟨h1, h2, h3, h4, h5⟩

theorem itemsOk_fld {S : Schema} {gts : List Trait} {seen : List Nat} {t : Nat} {v : Bytes} {rest : List Item}
    (h : itemsOk S gts seen (.fld t v :: rest) = true) :
    ∃ tr, findTrait gts t = some tr ∧ seen.contains t = false ∧ (!seen.isEmpty || tr.pos == 1) = true ∧
      baseOk S tr t v = true ∧ (tr.group && countPositive v) = false ∧ itemsOk S gts (t :: seen) rest = true := by
  rw [itemsOk.eq_2] at h
  cases hf : findTrait gts t with
  | none => rw [hf] at h; simp at h
  | some tr =>
    rw [hf] at h
    simp only [Bool.and_eq_true, Bool.not_eq_true'] at h
    obtain ⟨⟨⟨⟨h1, h2⟩, h3⟩, h4⟩, h5⟩ := h
    exact ⟨tr, rfl, h1, h2, h3, h4, h5⟩

theorem itemsOk_grp {S : Schema} {gts : List Trait} {seen : List Nat} {t : Nat} {v : Bytes} {els : List (List Item)}
    {rest : List Item} (h : itemsOk S gts seen (.grp t v els :: rest) = true) :
    ∃ tr, findTrait gts t = some tr ∧ seen.contains t = false ∧ (!seen.isEmpty || tr.pos == 1) = true ∧
      baseOk S tr t v = true ∧ tr.group = true ∧ countPositive v = true ∧ els ≠ [] ∧
      elemsOk S (S.group tr.sub) els = true ∧ itemsOk S gts (t :: seen) rest = true := by
  rw [itemsOk.eq_3] at h
  cases hf : findTrait gts t with
  | none => rw [hf] at h; simp at h
  | some tr =>
    rw [hf] at h
    simp only [Bool.and_eq_true, Bool.not_eq_true'] at h
    obtain ⟨⟨⟨⟨⟨⟨⟨h1, h2⟩, h3⟩, h4⟩, h5⟩, h6⟩, h7⟩, h8⟩ := h
    refine ⟨tr, rfl, h1, h2, h3, h4, h5, ?_, h7, h8⟩
    intro he; rw [he] at h6; simp at h6

theorem encodeItems_fld (S : Schema) (ts : List Trait) (t : Nat) (v : Bytes) (rest : List Item) (tr : Trait)
    (htr : findTrait ts t = some tr) (hs : tr.suppress = false) :
    encodeItems ts S (.fld t v :: rest) = renderField t v ++ encodeItems ts S rest := by
  rw [encodeItems.eq_2, htr]
  simp [hs]

theorem encodeItems_grp (S : Schema) (ts : List Trait) (t : Nat) (v : Bytes) (els : List (List Item)) (rest : List Item)
    (tr : Trait) (htr : findTrait ts t = some tr) (hs : tr.suppress = false) (hc : countPositive v = true) :
    encodeItems ts S (.grp t v els :: rest) =
      renderField t v ++ (encodeElems (S.group tr.sub) S els ++ encodeItems ts S rest) := by
  rw [encodeItems.eq_3, htr]
  simp [hs, hc]

/-- what a conforming non-empty item list looks like from the front -/
theorem itemsOk_front {S : Schema} {gts : List Trait} {seen : List Nat} {it : Item} {rest : List Item}
    (h : itemsOk S gts seen (it :: rest) = true) (next : Bytes) :
    peekTag (encodeItems gts S (it :: rest) ++ next) = some it.tag ∧ (tagsOf gts).contains it.tag = true ∧
      3 ≤ (encodeItems gts S (it :: rest)).length ∧
      (∃ tr, findTrait gts it.tag = some tr ∧ (!seen.isEmpty || tr.pos == 1) = true) := by
  cases it with
  | fld t v =>
    obtain ⟨tr, htr, _, hp, hb, _, _⟩ := itemsOk_fld h
    obtain ⟨ht, _, hs, hv, _⟩ := baseOk_spec hb
    rw [encodeItems_fld S gts t v rest tr htr hs, List.append_assoc]
    refine ⟨peek_render t v _ hv ht, findTrait_some_tags htr, ?_, tr, htr, hp⟩
    have := renderField_length_ge t v
    rw [List.length_append]; omega
  | grp t v els =>
    obtain ⟨tr, htr, _, hp, hb, _, hc, _, _, _⟩ := itemsOk_grp h
    obtain ⟨ht, _, hs, hv, _⟩ := baseOk_spec hb
    rw [encodeItems_grp S gts t v els rest tr htr hs hc, List.append_assoc]
    refine ⟨peek_render t v _ hv ht, findTrait_some_tags htr, ?_, tr, htr, hp⟩
    have := renderField_length_ge t v
    rw [List.length_append]; omega

theorem contains_cons_of {t x : Nat} {seen : List Nat} (h : (t :: seen).contains x = true) : x = t ∨ seen.contains x = true := by
  rw [List.contains_cons] at h
  simp only [Bool.or_eq_true, beq_iff_eq] at h
  exact h

/-- the tags an element has taken all belong to the group definition -/
theorem itemsOk_seen_tags {S : Schema} {gts : List Trait} : ∀ (its : List Item) (seen : List Nat),
    itemsOk S gts seen its = true → (∀ t, seen.contains t = true → (tagsOf gts).contains t = true) →
    ∀ t, (seenAfter seen its).contains t = true → (tagsOf gts).contains t = true := by
  intro its
  induction its with
  | nil => intro seen _ hs t ht; exact hs t (by simpa [seenAfter] using ht)
  | cons it rest ih =>
    intro seen h hs t ht
    rw [seenAfter_cons] at ht
    have hfront := itemsOk_front h []
    have hrest : itemsOk S gts (it.tag :: seen) rest = true := by
      cases it with
      | fld t v => exact (itemsOk_fld h).choose_spec.2.2.2.2.2
      | grp t v els => exact (itemsOk_grp h).choose_spec.2.2.2.2.2.2.2.2
    refine ih (it.tag :: seen) hrest ?_ t ht
    intro x hx
    rcases contains_cons_of hx with hx | hx
    · rw [hx]; exact hfront.2.1
    · exact hs x hx

theorem itemsOk_missing {S : Schema} {gts : List Trait} : ∀ (its : List Item) (seen : List Nat),
    itemsOk S gts seen its = true → findMissing gts (seenAfter seen its) = none := by
  intro its
  induction its with
  | nil =>
    intro seen h
    rw [itemsOk.eq_1] at h
    simp only [seenAfter, List.map_nil, List.reverse_nil, List.nil_append]
    cases hm : findMissing gts seen with
    | none => rfl
    | some x => rw [hm] at h; simp at h
  | cons it rest ih =>
    intro seen h
    rw [seenAfter_cons]
    apply ih
    cases it with
    | fld t v => exact (itemsOk_fld h).choose_spec.2.2.2.2.2
    | grp t v els => exact (itemsOk_grp h).choose_spec.2.2.2.2.2.2.2.2

theorem seenAfter_contains_head (seen : List Nat) (it : Item) (rest : List Item) :
    (seenAfter seen (it :: rest)).contains it.tag = true := by
  simp [seenAfter]

theorem seenAfter_ne_nil (seen : List Nat) (it : Item) (rest : List Item) : seenAfter seen (it :: rest) ≠ [] := by
  simp [seenAfter]

/-! ## the stop conditions -/

theorem stopOk_cases {D : List Nat} {next : Bytes} (h : stopOk D next = true) :
    next = [] ∨ (next ≠ [] ∧ ∃ tv, peekTag next = some tv ∧ D.contains tv = false) := by
  unfold stopOk at h
  cases next with
  | nil => exact Or.inl rfl
  | cons c cs =>
    right
    refine ⟨by simp, ?_⟩
    simp only [List.isEmpty_cons, Bool.false_or] at h
    cases hp : peekTag (c :: cs) with
    | none => rw [hp] at h; simp at h
    | some tv => rw [hp] at h; exact ⟨tv, rfl, by simpa using h⟩

theorem stopOk_of_peek {D : List Nat} {next : Bytes} {tv : Nat} (hp : peekTag next = some tv) (hd : D.contains tv = false) :
    stopOk D next = true := by
  unfold stopOk
  rw [hp]; simp only [hd, Bool.not_false, Bool.or_true]

theorem stopOk_nil (D : List Nat) : stopOk D [] = true := by simp [stopOk]

/-! ## the mutual induction -/

section
variable (S : Schema) (C : List (List Nat)) (fieldOk : Nat → Bool)

/-- statement for `decodeGroup` at fuel `f` -/
def GroupStmt (f : Nat) : Prop :=
  ∀ (i : Nat) (els : List (List Item)) (next : Bytes) (acc : List (List Item)),
    els ≠ [] → elemsOk S (S.group i) els = true → stopOk (C.getD i []) next = true →
    (encodeElems (S.group i) S els ++ next).length + 2 ≤ f →
    decodeGroup S fieldOk (S.group i) f (encodeElems (S.group i) S els ++ next) acc = .ok (acc.reverse ++ els, next)

/-- statement for `decodeElem` at fuel `f` -/
def ElemStmt (f : Nat) : Prop :=
  ∀ (i : Nat) (its : List Item) (next : Bytes) (items : List Item) (seen : List Nat),
    itemsOk S (S.group i) seen its = true →
    (∀ t, seen.contains t = true → (tagsOf (S.group i)).contains t = true) →
    seenAfter seen its ≠ [] →
    elemStopOk (C.getD i []) (seenAfter seen its) next = true →
    (encodeItems (S.group i) S its ++ next).length + 1 ≤ f →
    decodeElem S fieldOk (S.group i) f (encodeItems (S.group i) S its ++ next) items seen =
      .ok (its.reverse ++ items, seenAfter seen its, next, moreFlag (seenAfter seen its) next)

variable {S C fieldOk}

theorem elemStmt_succ (hW : GroupsWF S C) (hfo : ∀ t, S.fieldTable.contains t = true → fieldOk t = true) (f : Nat)
    (ihG : GroupStmt S C fieldOk f) (ihE : ElemStmt S C fieldOk f) : ElemStmt S C fieldOk (f + 1) := by
  intro i its next items seen hok hseen hne hstop hlen
  cases its with
  | nil =>
    rw [encodeItems.eq_1, List.nil_append]
    have hsa : seenAfter seen [] = seen := by simp [seenAfter]
    rw [hsa] at hne hstop ⊢
    simp only [List.reverse_nil, List.nil_append]
    apply decodeElem_stop S fieldOk (S.group i) f next items seen hne
    intro tv hp hc
    unfold elemStopOk at hstop
    rw [hp] at hstop
    simp only [hc, Bool.false_or, Bool.not_eq_true'] at hstop
    rw [findTrait_none_iff]
    intro hin
    have := hW.own i tv hin
    rw [this] at hstop; cases hstop
  | cons it rest =>
    cases it with
    | fld t v =>
      obtain ⟨tr, htr, hsn, hp, hb, hng, hrest⟩ := itemsOk_fld hok
      obtain ⟨ht, hft, hs, hv, hcanon⟩ := baseOk_spec hb
      rw [encodeItems_fld S _ t v rest tr htr hs, List.append_assoc] at hlen ⊢
      rw [decodeElem_step_fld S fieldOk _ f t v _ items seen tr htr hsn hp (hfo t hft) ht hv hcanon hng]
      rw [seenAfter_cons] at hne hstop ⊢
      have hseen' : ∀ x, (t :: seen).contains x = true → (tagsOf (S.group i)).contains x = true := by
        intro x hx
        rcases contains_cons_of hx with hx | hx
        · rw [hx]; exact findTrait_some_tags htr
        · exact hseen x hx
      have hl : (encodeItems (S.group i) S rest ++ next).length + 1 ≤ f := by
        have := renderField_length_ge t v
        rw [List.length_append] at hlen
        omega
      rw [ihE i rest next (.fld t v :: items) (t :: seen) hrest hseen' hne hstop hl]
      simp [Item.tag]
    | grp t v els =>
      obtain ⟨tr, htr, hsn, hp, hb, hg, hc, hels, helsOk, hrest⟩ := itemsOk_grp hok
      obtain ⟨ht, hft, hs, hv, hcanon⟩ := baseOk_spec hb
      rw [encodeItems_grp S _ t v els rest tr htr hs hc, List.append_assoc, List.append_assoc] at hlen ⊢
      have hgc : (tr.group && countPositive v) = true := by simp [hg, hc]
      rw [decodeElem_step_grp S fieldOk _ f t v _ items seen tr htr hsn hp (hfo t hft) ht hv hcanon hgc]
      rw [seenAfter_cons] at hne hstop ⊢
      have hseen' : ∀ x, (t :: seen).contains x = true → (tagsOf (S.group i)).contains x = true := by
        intro x hx
        rcases contains_cons_of hx with hx | hx
        · rw [hx]; exact findTrait_some_tags htr
        · exact hseen x hx
      have htrmem := (findTrait_some htr).1
      -- what follows the nested group is not one of its tags
      have hfollow : stopOk (C.getD tr.sub []) (encodeItems (S.group i) S rest ++ next) = true := by
        cases rest with
        | nil =>
          rw [encodeItems.eq_1, List.nil_append]
          unfold elemStopOk at hstop
          cases hpk : peekTag next with
          | none =>
            rw [hpk] at hstop
            simp only [List.isEmpty_iff] at hstop
            rw [hstop]; exact stopOk_nil _
          | some tv =>
            rw [hpk] at hstop
            apply stopOk_of_peek hpk
            cases hd : (C.getD tr.sub []).contains tv with
            | false => rfl
            | true =>
              exfalso
              have h1 := hW.sub i tr htrmem hg tv hd
              have h2 := hW.nest i tr htrmem hg tv hd
              simp only [h1, Bool.not_true, Bool.or_false] at hstop
              have h3 := hseen' tv (by simpa [seenAfter, Item.tag] using hstop)
              rw [h2] at h3; cases h3
        | cons it2 rest2 =>
          obtain ⟨hpk, htg, _, _⟩ := itemsOk_front hrest next
          apply stopOk_of_peek hpk
          cases hd : (C.getD tr.sub []).contains it2.tag with
          | false => rfl
          | true =>
            have h2 := hW.nest i tr htrmem hg it2.tag hd
            rw [h2] at htg; cases htg
      have hl1 : (encodeElems (S.group tr.sub) S els ++ (encodeItems (S.group i) S rest ++ next)).length + 2 ≤ f := by
        have := renderField_length_ge t v
        rw [List.length_append] at hlen
        omega
      rw [ihG tr.sub els _ [] hels helsOk hfollow hl1]
      simp only [List.reverse_nil, List.nil_append]
      have hl : (encodeItems (S.group i) S rest ++ next).length + 1 ≤ f := by
        rw [List.length_append] at hl1
        omega
      rw [ihE i rest next (.grp t v els :: items) (t :: seen) hrest hseen' hne hstop hl]
      simp [Item.tag]

theorem elemsOk_cons {e : List Item} {rest : List (List Item)} {gts : List Trait}
    (h : elemsOk S gts (e :: rest) = true) : e ≠ [] ∧ itemsOk S gts [] e = true ∧ elemsOk S gts rest = true := by
  rw [elemsOk.eq_2] at h
  simp only [Bool.and_eq_true, Bool.not_eq_true'] at h
  refine ⟨?_, h.1.2, h.2⟩
  intro he; rw [he] at h; simp at h

theorem groupStmt_succ (hW : GroupsWF S C) (f : Nat)
    (ihG : GroupStmt S C fieldOk f) (ihE : ElemStmt S C fieldOk f) : GroupStmt S C fieldOk (f + 1) := by
  intro i els next acc hne hok hstop hlen
  cases els with
  | nil => exact absurd rfl hne
  | cons e rest =>
    obtain ⟨hene, heok, hrok⟩ := elemsOk_cons hok
    obtain ⟨it, e', rfl⟩ : ∃ it e', e = it :: e' := by
      cases e with
      | nil => exact absurd rfl hene
      | cons a b => exact ⟨a, b, rfl⟩
    rw [encodeElems.eq_2, List.append_assoc] at hlen ⊢
    obtain ⟨_, _, hl3, trh, htrh, hposh⟩ := itemsOk_front heok (encodeElems (S.group i) S rest ++ next)
    have hposh1 : trh.pos = 1 := by simpa using hposh
    have hinp : (encodeItems (S.group i) S (it :: e') ++ (encodeElems (S.group i) S rest ++ next)).isEmpty = false := by
      cases hx : encodeItems (S.group i) S (it :: e') with
      | nil => rw [hx] at hl3; simp at hl3
      | cons a b => rfl
    rw [decodeGroup.eq_2, hinp]
    simp only [Bool.false_eq_true, if_false]
    have hseen0 : ∀ t, ([] : List Nat).contains t = true → (tagsOf (S.group i)).contains t = true := by
      intro t ht; simp at ht
    have hseenE := itemsOk_seen_tags (it :: e') [] heok hseen0
    -- the element's stop condition
    have hes : elemStopOk (C.getD i []) (seenAfter [] (it :: e')) (encodeElems (S.group i) S rest ++ next) = true := by
      cases rest with
      | nil =>
        rw [encodeElems.eq_1, List.nil_append]
        unfold elemStopOk
        rcases stopOk_cases hstop with h | ⟨_, tv, hp, hd⟩
        · rw [h, peek_nil]; rfl
        · rw [hp]; simp only [hd, Bool.not_false, Bool.or_true]
      | cons e2 rest2 =>
        obtain ⟨he2ne, he2ok, _⟩ := elemsOk_cons hrok
        obtain ⟨it2, e2', rfl⟩ : ∃ it e', e2 = it :: e' := by
          cases e2 with
          | nil => exact absurd rfl he2ne
          | cons a b => exact ⟨a, b, rfl⟩
        rw [encodeElems.eq_2, List.append_assoc]
        obtain ⟨hpk2, _, _, tr2, htr2, hpos2⟩ := itemsOk_front he2ok (encodeElems (S.group i) S rest2 ++ next)
        have hpos21 : tr2.pos = 1 := by simpa using hpos2
        have heq : trh.tag = tr2.tag := hW.pos1 i trh tr2 (findTrait_some htrh).1 (findTrait_some htr2).1 hposh1 hpos21
        rw [(findTrait_some htrh).2, (findTrait_some htr2).2] at heq
        unfold elemStopOk
        rw [hpk2, ← heq]
        simp only [seenAfter_contains_head, Bool.true_or]
    have hl : (encodeItems (S.group i) S (it :: e') ++ (encodeElems (S.group i) S rest ++ next)).length + 1 ≤ f := by omega
    rw [ihE i (it :: e') _ [] [] heok hseen0 (seenAfter_ne_nil _ _ _) hes hl]
    simp only [itemsOk_missing (it :: e') [] heok, List.append_nil, List.reverse_reverse]
    have hlen2 : ((encodeElems (S.group i) S rest ++ next).length ==
        (encodeItems (S.group i) S (it :: e') ++ (encodeElems (S.group i) S rest ++ next)).length) = false := by
      rw [List.length_append (as := encodeItems (S.group i) S (it :: e'))]
      simp only [beq_eq_false_iff_ne]
      omega
    rw [hlen2]
    simp only [Bool.false_eq_true, if_false]
    cases rest with
    | nil =>
      rw [encodeElems.eq_1, List.nil_append]
      rcases stopOk_cases hstop with h | ⟨hnn, tv, hp, hd⟩
      · rw [h]; simp
      · have hmf : moreFlag (seenAfter [] (it :: e')) next = false := by
          unfold moreFlag
          rw [hp]
          show (seenAfter [] (it :: e')).contains tv = false
          cases hc : (seenAfter [] (it :: e')).contains tv with
          | false => rfl
          | true =>
            have := hW.own i tv (hseenE tv hc)
            rw [this] at hd; cases hd
        rw [hmf]; simp
    | cons e2 rest2 =>
      obtain ⟨he2ne, he2ok, _⟩ := elemsOk_cons hrok
      obtain ⟨it2, e2', rfl⟩ : ∃ it e', e2 = it :: e' := by
        cases e2 with
        | nil => exact absurd rfl he2ne
        | cons a b => exact ⟨a, b, rfl⟩
      have hfront2 := itemsOk_front he2ok (encodeElems (S.group i) S rest2 ++ next)
      have hmf : moreFlag (seenAfter [] (it :: e')) (encodeElems (S.group i) S ((it2 :: e2') :: rest2) ++ next) = true := by
        unfold elemStopOk at hes
        unfold moreFlag
        rw [encodeElems.eq_2, List.append_assoc] at hes ⊢
        rw [hfront2.1] at hes ⊢
        obtain ⟨tr2, htr2, hpos2⟩ := hfront2.2.2.2
        have hpos21 : tr2.pos = 1 := by simpa using hpos2
        have heq : trh.tag = tr2.tag := hW.pos1 i trh tr2 (findTrait_some htrh).1 (findTrait_some htr2).1 hposh1 hpos21
        rw [(findTrait_some htrh).2, (findTrait_some htr2).2] at heq
        rw [← heq]
        simp only [seenAfter_contains_head]
      have hne2 : (encodeElems (S.group i) S ((it2 :: e2') :: rest2) ++ next).isEmpty = false := by
        rw [encodeElems.eq_2, List.append_assoc]
        cases hx : encodeItems (S.group i) S (it2 :: e2') with
        | nil => have := hfront2.2.2.1; rw [hx] at this; simp at this
        | cons a b => rfl
      rw [hmf, hne2]
      simp only [Bool.not_false, Bool.and_self, if_true]
      have hl2 : (encodeElems (S.group i) S ((it2 :: e2') :: rest2) ++ next).length + 2 ≤ f := by
        rw [List.length_append (as := encodeItems (S.group i) S (it :: e'))] at hlen
        omega
      rw [ihG i ((it2 :: e2') :: rest2) next ((it :: e') :: acc) (by simp) hrok hstop hl2]
      simp

/-- both statements hold at every fuel -/
theorem group_elem_all (hW : GroupsWF S C) (hfo : ∀ t, S.fieldTable.contains t = true → fieldOk t = true) :
    ∀ f, GroupStmt S C fieldOk f ∧ ElemStmt S C fieldOk f := by
  intro f
  induction f with
  | zero =>
    constructor
    · intro i els next acc _ _ _ hlen; omega
    · intro i its next items seen _ _ _ _ hlen; omega
  | succ f ih => exact ⟨groupStmt_succ hW f ih.1 ih.2, elemStmt_succ hW hfo f ih.1 ih.2⟩

/-- **repeating groups, any nesting depth**: the element loop of `decode_group` on the bytes written by
`encode_group` for conforming elements returns exactly these elements and the untouched rest of the input, provided
the token after the group (if any) is not a tag of the group or of anything nested in it -/
theorem decodeGroup_roundtrip (hW : GroupsWF S C) (hfo : ∀ t, S.fieldTable.contains t = true → fieldOk t = true)
    (i : Nat) (els : List (List Item)) (next : Bytes) (fuel : Nat)
    (hne : els ≠ []) (hok : elemsOk S (S.group i) els = true) (hstop : stopOk (C.getD i []) next = true)
    (hfuel : (encodeElems (S.group i) S els ++ next).length + 2 ≤ fuel) :
    decodeGroup S fieldOk (S.group i) fuel (encodeElems (S.group i) S els ++ next) [] = .ok (els, next) := by
  have := (group_elem_all hW hfo fuel).1 i els next [] hne hok hstop hfuel
  simpa using this

/-- one element (or the remainder of one) of a repeating group -/
theorem decodeElem_roundtrip (hW : GroupsWF S C) (hfo : ∀ t, S.fieldTable.contains t = true → fieldOk t = true)
    (i : Nat) (its : List Item) (next : Bytes) (items : List Item) (seen : List Nat) (fuel : Nat)
    (hok : itemsOk S (S.group i) seen its = true)
    (hseen : ∀ t, seen.contains t = true → (tagsOf (S.group i)).contains t = true)
    (hne : seenAfter seen its ≠ [])
    (hstop : elemStopOk (C.getD i []) (seenAfter seen its) next = true)
    (hfuel : (encodeItems (S.group i) S its ++ next).length + 1 ≤ fuel) :
    decodeElem S fieldOk (S.group i) fuel (encodeItems (S.group i) S its ++ next) items seen =
      .ok (its.reverse ++ items, seenAfter seen its, next, moreFlag (seenAfter seen its) next) :=
  (group_elem_all hW hfo fuel).2 i its next items seen hok hseen hne hstop hfuel

end

end Fix8Model.Codec.RT
