import Fix8Model.Basic.Digits
import Fix8Model.Time.Calendar
import Fix8Model.Checksum.Model
import Fix8Model.Gen.Consts
/-!
Executable model of the message codec (runtime/message.cpp, include/fix8/message.hpp):
`extract_element`, `extract_element_fixed_width`, `MessageBase::decode`, `decode_group`,
`Message::decode` (header / body / trailer hand-over), `Message::factory`, `MessageBase::encode`,
`encode_group`, `Message::encode` (preamble, BodyLength, CheckSum), API-level `add_field`.

A schema is data (the generated trait tables).  Values are carried as their wire text; the typed
field classes appear as `canon kind text` = `print (parse text)`.
-/
namespace Fix8Model.Codec

abbrev Bytes := List Nat

def SOH : Nat := 1
def EQ : Nat := 61

/-! ## schema -/

inductive Kind | int | length | char | bool | float | string | monthYear | timestamp | timeOnly | dateOnly | data | other
  deriving DecidableEq, Repr, Inhabited

structure Trait where
  tag : Nat
  kind : Kind
  pos : Nat
  mandatory : Bool
  group : Bool
  suppress : Bool
  automatic : Bool
  preset : Bool          -- `present` already set by the constructor (8, 9, 35, 10)
  sub : Nat              -- index of the group definition when `group`
  deriving Repr, Inhabited

structure Schema where
  fieldTable : List Nat
  beginStr : Bytes
  header : List Trait
  trailer : List Trait
  msgs : List (Bytes × List Trait)
  groups : List (List Trait)

def findTrait (ts : List Trait) (tag : Nat) : Option Trait := ts.find? (·.tag == tag)

def Schema.group (S : Schema) (i : Nat) : List Trait := S.groups.getD i []

/-! ## tokens -/

def isDigit (c : Nat) : Bool := 48 ≤ c && c ≤ 57

/-- `extract_element` with its buffer capacities (`tagCap`/`valCap` bytes including the terminator):
(tag text, value text, rest) or failure (the C++ returns 0) -/
def extractElementCap (tagCap valCap : Nat) (b : Bytes) : Option (Bytes × Bytes × Bytes) :=
  let tag := b.takeWhile isDigit
  if tag.length ≥ tagCap then none else
  match b.dropWhile isDigit with
  | 61 :: r =>
    let val := r.takeWhile (· != 1)
    match r.dropWhile (· != 1) with
    | 1 :: rest => if val.length ≥ valCap then none else some (tag, val, rest)
    | _ => none
  | _ => none

/-- the default capacities: `MAX_MSGTYPE_FIELD_LEN` for the tag, `FIX8_MAX_FLD_LENGTH` for the value -/
def extractElement (b : Bytes) : Option (Bytes × Bytes × Bytes) := extractElementCap Gen.maxMsgTypeFieldLen Gen.maxFldLength b

/-- `extract_element_fixed_width`: value of exactly `n` bytes, then one separator byte is skipped unseen -/
def extractFixed (b : Bytes) (n : Nat) : Option (Bytes × Bytes × Bytes) :=
  let tag := b.takeWhile isDigit
  if tag.length ≥ Gen.maxMsgTypeFieldLen then none else
  match b.dropWhile isDigit with
  | [] => none
  | c :: r =>
    if c != 61 then none
    else if r.length < n then none                     -- `sz < ii + val_sz`
    else some (tag, r.take n, r.drop (n + 1))

/-- a byte as the `char` the C++ sees (signed on this platform) -/
def schar (c : Nat) : Int := if c < 128 then (c : Int) else (c : Int) - 256

/-- `fast_atoi<T>` before truncation to `T`: every byte is taken as a digit, a leading '-' negates (as coded) -/
def atoiZ (s : Bytes) : Int :=
  match s with
  | 45 :: rest => rest.foldl (fun r c => r * 10 - (schar c - 48)) 0
  | _ => s.foldl (fun r c => r * 8 + r * 2 + (schar c - 48)) 0

/-- `fast_atoi<unsigned>` -/
def atoiU (s : Bytes) : Nat := (atoiZ s % 4294967296).toNat

/-- tag number as the decoder sees it: `fast_atoi<unsigned short>` -/
def tagNum (s : Bytes) : Nat := atoiU s % 65536

def renderTag (t : Nat) : Bytes := Digits.natDigits t

def renderField (t : Nat) (v : Bytes) : Bytes := renderTag t ++ [EQ] ++ v ++ [SOH]

/-! ## typed values as text -/

def wrapInt32 (v : Int) : Int := (v + 2147483648) % 4294967296 - 2147483648

def cstr (v : Bytes) : Bytes := v.takeWhile (· != 0)

def isCanonFloat (v : Bytes) : Bool :=
  -- [-]digits.(0|25|5|75)  with no leading zero unless the integer part is "0", not "-0.0"
  let body := match v with | 45 :: r => r | _ => v
  let ip := body.takeWhile isDigit
  let fr := body.dropWhile isDigit
  let ipOk := !ip.isEmpty && (ip.length == 1 || ip.head? != some 48) && ip.length ≤ 9
  let frOk := fr == [46, 48] || fr == [46, 50, 53] || fr == [46, 53] || fr == [46, 55, 53]
  let negZero := (v.head? == some 45) && ip == [48] && fr == [46, 48]
  ipOk && frOk && !negZero

/-- `print (parse text)` for each field class; `none` = outside what this model covers -/
def canon (k : Kind) (v : Bytes) : Option Bytes :=
  let v := cstr v
  match k with
  | .int | .length => some (Digits.itoa (wrapInt32 (atoiZ v)))
  | .char => some [v.headD 0]
  | .bool => some [if v.headD 0 == 89 || v.headD 0 == 121 then 89 else 78]
  | .string | .data => some v
  | .float => if isCanonFloat v then some v else none
  | .timestamp =>
    -- only well-formed texts (fixed points of format ∘ parse) are covered
    match Time.dateTimeParse v with
    | some t =>
      let f := Time.dateTimeFormat (t / 1000) (t % 1000) .withMs
      if t < 4102444800000 && (f == v || f == v ++ [46, 48, 48, 48]) then some f else none
    | none => none
  | .timeOnly =>
    match Time.timeParseOnly v with
    | some t =>
      let f := Time.dateTimeFormat (t / 1000) (t % 1000) .timeWithMs
      if t < 86400000 && (f == v || f == v ++ [46, 48, 48, 48]) then some f else none
    | none => none
  | .dateOnly =>
    let t := Time.dateParse v
    let f := Time.dateTimeFormat t 0 .dateOnly
    if v.length == 8 && t < 4102444800 && f == v then some f else none
  | .monthYear =>
    let t := Time.dateParse v
    let f := Time.dateTimeFormat t 0 (if v.length == 6 then .shortDateOnly else .dateOnly)
    if (v.length == 6 || v.length == 8) && t < 4102444800 && f == v then some f else none
  | .other => none

/-! ## messages -/

inductive Item where
  | fld (tag : Nat) (val : Bytes)
  | grp (tag : Nat) (val : Bytes) (elems : List (List Item))
  deriving Repr, Inhabited

def Item.tag : Item → Nat
  | .fld t _ => t
  | .grp t _ _ => t

def Item.val : Item → Bytes
  | .fld _ v => v
  | .grp _ v _ => v

/-- `has_group_count`: the count field parsed as int is > 0 -/
def countPositive (v : Bytes) : Bool := decide (0 < wrapInt32 (atoiZ (cstr v)))

/-! ## encoding -/

/-- stable insertion by schema position: the `_pos` multimap -/
def insertByPos (p : Nat) (x : Nat × Item) : List (Nat × Item) → List (Nat × Item)
  | [] => [x]
  | y :: ys => if p < y.1 then x :: y :: ys else y :: insertByPos p x ys

mutual
  /-- `MessageBase::encode`: the items of one section/element in `_pos` order, suppressed fields skipped -/
  def encodeItems (ts : List Trait) (S : Schema) : List Item → Bytes
    | [] => []
    | it :: rest =>
      (match it with
       | .fld t v => if (findTrait ts t).any (·.suppress) then [] else renderField t v
       | .grp t v els =>
         if (findTrait ts t).any (·.suppress) then []
         else renderField t v ++
           (if countPositive v then encodeElems (S.group ((findTrait ts t).map (·.sub) |>.getD 0)) S els else []))
      ++ encodeItems ts S rest
  def encodeElems (ts : List Trait) (S : Schema) : List (List Item) → Bytes
    | [] => []
    | e :: rest => encodeItems ts S e ++ encodeElems ts S rest
end

structure Msg where
  msgType : Bytes
  header : List Item      -- in `_pos` order, including the pre-set 8, 9, 35
  body : List Item
  trailer : List Item
  hUnknown : Bytes := []
  bUnknown : Bytes := []
  tUnknown : Bytes := []
  deriving Repr, Inhabited

def fmt3 (n : Nat) : Bytes := [48 + n / 100 % 10, 48 + n / 10 % 10, 48 + n % 10]

def byteSum (b : Bytes) : Nat := b.foldl (· + ·) 0

/-- `Message::encode(char**)` -/
def encodeMsg (S : Schema) (body : List Trait) (m : Msg) : Bytes :=
  let payload := encodeItems S.header S m.header ++ m.hUnknown ++ encodeItems body S m.body ++ m.bUnknown ++
                 encodeItems S.trailer S m.trailer ++ m.tUnknown
  let pre := renderField 8 S.beginStr ++ renderField 9 (Digits.itoa payload.length)
  let front := pre ++ payload
  front ++ renderField 10 (fmt3 (byteSum front % 256))

/-! ## building through the API (`add_field(BaseField*)`, groups, `operator<<`) -/

inductive BuildErr | invalidField (t : Nat) | invalidGroup (t : Nat) | unmodelled
  deriving Repr

/-- place or replace one item by schema position -/
def placeItem (ts : List Trait) (acc : List (Nat × Item)) (it : Item) : Except BuildErr (List (Nat × Item)) :=
  match findTrait ts it.tag with
  | none => .error (.invalidField it.tag)
  | some tr =>
    if acc.any (·.2.tag == it.tag) then
      -- silently replace the value, the position entry stays
      .ok (acc.map fun e => if e.2.tag == it.tag then (e.1, it) else e)
    else .ok (insertByPos tr.pos (tr.pos, it) acc)

/-- `add_field` for a whole list of items, in the given insertion order -/
def placeAll (ts : List Trait) (init : List (Nat × Item)) (items : List Item) : Except BuildErr (List (Nat × Item)) :=
  items.foldlM (placeItem ts) init

/-! ## decoding -/

inductive DecErr
  | invalidMessage | duplicateField (t : Nat) | unknownField (t : Nat) | missingMandatory (t : Nat)
  | valueTooLarge | missingFixed | missingGroupField (t : Nat) | invalidGroup (t : Nat) | badCheckSum | fuel | unmodelled
  deriving Repr, DecidableEq

def findMissing (ts : List Trait) (seen : List Nat) : Option Nat :=
  (ts.find? fun t => t.mandatory && !seen.contains t.tag).map (·.tag)

def tokenLen (inp rest : Bytes) : Nat := inp.length - rest.length

mutual
  /-- the element loop of `decode_group`: returns the elements and the unconsumed input -/
  def decodeGroup (S : Schema) (fieldOk : Nat → Bool) (gts : List Trait) : Nat → Bytes → List (List Item) → Except DecErr (List (List Item) × Bytes)
    | 0, _, _ => .error .fuel
    | fuel + 1, inp, acc =>
      if inp.isEmpty then .ok (acc.reverse, inp)
      else
        match decodeElem S fieldOk gts fuel inp [] [] with
        | .error e => .error e
        | .ok (items, seen, rest, more) =>
          match findMissing gts seen with
          | some t => .error (.missingMandatory t)
          | none =>
            if rest.length == inp.length then .ok (acc.reverse, rest)      -- nothing extracted: stop (the `fix:` of the endless loop)
            else if more && !rest.isEmpty then decodeGroup S fieldOk gts fuel rest (items.reverse :: acc)
            else .ok ((items.reverse :: acc).reverse, rest)
  /-- the field loop of one group element; `more = false` when a field foreign to the group ended the repeats -/
  def decodeElem (S : Schema) (fieldOk : Nat → Bool) (gts : List Trait) : Nat → Bytes → List Item → List Nat → Except DecErr (List Item × List Nat × Bytes × Bool)
    | 0, _, _, _ => .error .fuel
    | fuel + 1, inp, items, seen =>
      match extractElement inp with
      | none => .ok (items, seen, inp, true)
      | some (tagT, val, rest) =>
        let tv := tagNum tagT
        if seen.contains tv then .ok (items, seen, inp, true)                 -- already present: next element
        else
          match findTrait gts tv with
          | none =>
            if seen.isEmpty then .error (.missingGroupField tv)               -- getPos(tv) != 1 at pos == 0
            else .ok (items, seen, inp, false)
          | some tr =>
            if seen.isEmpty && tr.pos != 1 then .error (.missingGroupField tv)
            else if !fieldOk tv then .ok (items, seen, inp, false)
            else
              match canon tr.kind val with
              | none => .error .unmodelled
              | some cv =>
                if tr.group && countPositive val then
                  match decodeGroup S fieldOk (S.group tr.sub) fuel rest [] with
                  | .error e => .error e
                  | .ok (els, rest') => decodeElem S fieldOk gts fuel rest' (.grp tv cv els :: items) (tv :: seen)
                else decodeElem S fieldOk gts fuel rest (.fld tv cv :: items) (tv :: seen)
end

structure SecResult where
  items : List Item          -- decoded, in arrival order (reversed while looping)
  seen : List Nat
  unknown : Bytes
  rest : Bytes               -- input from the returned offset on
  deriving Repr

/-- `MessageBase::decode` for one of header / body / trailer.  `firstUnk` = input at the first unknown
token as long as no known field followed it (`last_valid_pos == pos`). -/
def decodeSection (S : Schema) (ts : List Trait) (perm : Bool) : Nat → Bytes → List Item → List Nat → Bytes → Option (Bytes × Nat) → Except DecErr SecResult
  | 0, _, _, _, _, _ => .error .fuel
  | fuel + 1, inp, items, seen, unk, firstUnk =>
    let finish (rest : Bytes) : Except DecErr SecResult :=
      match findMissing ts seen with
      | some t => .error (.missingMandatory t)
      | none =>
        -- `permissive_mode && last_valid_pos == pos ? last_valid_offset : s_offset`
        .ok ⟨items.reverse, seen, unk, (match firstUnk with
                                        | some (r, n) => if perm && n == items.length then r else rest
                                        | none => rest)⟩
    match extractElement inp with
    | none => finish inp
    | some (tagT, val, rest) =>
      let tv := tagNum tagT
      match findTrait ts tv with
      | none =>
        if perm then
          decodeSection S ts perm fuel rest items seen (unk ++ inp.take (tokenLen inp rest)) (some (firstUnk.getD (inp, items.length)))
        else finish inp
      | some tr =>
        if seen.contains tv then
          if tr.automatic then decodeSection S ts perm fuel rest items seen unk firstUnk
          else .error (.duplicateField tv)
        else if !S.fieldTable.contains tv then .error (.unknownField tv)
        else
          match canon tr.kind val with
          | none => .error .unmodelled
          | some cv =>
            if tr.group && countPositive val then
              match decodeGroup S (fun t => S.fieldTable.contains t) (S.group tr.sub) fuel rest [] with
              | .error e => .error e
              | .ok (els, rest') => decodeSection S ts perm fuel rest' (.grp tv cv els :: items) (tv :: seen) unk firstUnk
            else if tr.kind == .length && tv != 9 then
              -- the Length/data pair
              let n := atoiU (cstr val)
              if n > Gen.maxFldLength - 1 then .error .valueTooLarge
              else
                match extractFixed rest n with
                | none => .error .missingFixed
                | some (tag2, dat, rest2) =>
                  let tv2 := tagNum tag2
                  match findTrait ts tv2 with
                  | none =>
                    -- `goto unknown_field` with the Length field already stored
                    if perm then
                      decodeSection S ts perm fuel rest2 (.fld tv cv :: items) (tv :: seen)
                        (unk ++ rest.take (tokenLen rest rest2)) (some (firstUnk.getD (rest, items.length + 1)))
                    else
                      (match findMissing ts (tv :: seen) with
                       | some t => .error (.missingMandatory t)
                       | none => .ok ⟨(Item.fld tv cv :: items).reverse, tv :: seen, unk, rest⟩)
                  | some tr2 =>
                    if tr2.kind != .data || tv + 1 != tv2 then
                      decodeSection S ts perm fuel rest (.fld tv cv :: items) (tv :: seen) unk firstUnk
                    else if !S.fieldTable.contains tv2 then .error (.unknownField tv2)
                    else
                      decodeSection S ts perm fuel rest2 (.fld tv2 (cstr dat) :: .fld tv cv :: items) (tv2 :: tv :: seen) unk firstUnk
            else decodeSection S ts perm fuel rest (.fld tv cv :: items) (tv :: seen) unk firstUnk

/-- `Message::factory` (checksum verified, `no_chksum = false`) -/
def factory (S : Schema) (perm : Bool) (b : Bytes) : Except DecErr Msg :=
  -- extract_header: three elements whose tags start with '8', '9', '35'
  match extractElement b with
  | none => .error .invalidMessage
  | some (t1, _, r1) =>
    if t1.head? != some 56 then .error .invalidMessage else
    match extractElementCap Gen.maxMsgTypeFieldLen Gen.maxMsgTypeFieldLen r1 with
    | none => .error .invalidMessage
    | some (t2, lenT, r2) =>
      if t2.head? != some 57 then .error .invalidMessage else
      match extractElementCap Gen.maxMsgTypeFieldLen Gen.maxMsgTypeFieldLen r2 with
      | none => .error .invalidMessage
      | some (t3, mtype, r3) =>
        if t3.take 2 != [51, 53] then .error .invalidMessage else
        match S.msgs.find? (·.1 == cstr mtype) with
        | none => .error .invalidMessage
        | some (mt, bodyTs) =>
          let fuel := b.length + 2
          match decodeSection S S.header perm fuel r3 [] ((S.header.filter (·.preset)).map (·.tag)) [] none with
          | .error e => .error e
          | .ok h =>
            match decodeSection S bodyTs perm fuel h.rest [] ((bodyTs.filter (·.preset)).map (·.tag)) [] none with
            | .error e => .error e
            | .ok bd =>
              -- the trailer decoder does not see the last 7 bytes
              let tin := bd.rest.take (bd.rest.length - 7)
              match decodeSection S S.trailer perm fuel tin [] ((S.trailer.filter (·.preset)).map (·.tag)) [] none with
              | .error e => .error e
              | .ok tr =>
                let tail := b.drop (b.length - 7)
                if tail.take 2 != [49, 48] then .error .invalidMessage
                else
                  let chk := (tail.drop 3).take 3
                  if atoiU chk != byteSum (b.take (b.length - 7)) % 256 then .error .badCheckSum
                  else
                    .ok { msgType := mt
                          header := [.fld 8 S.beginStr, .fld 9 (Digits.itoa (wrapInt32 (atoiU (cstr lenT)))), .fld 35 mt] ++ h.items
                          body := bd.items
                          -- the pre-set CheckSum sits at its schema position (3) in the `_pos` multimap, decoded trailer
                          -- fields get positions 2, 3, ..: the first one sorts before it, the others after it
                          trailer := tr.items.take (((findTrait S.trailer 10).map (·.pos)).getD 3 - 2) ++ [.fld 10 chk] ++
                                     tr.items.drop (((findTrait S.trailer 10).map (·.pos)).getD 3 - 2)
                          hUnknown := h.unknown, bUnknown := bd.unknown, tUnknown := tr.unknown }

/-- the bytes between the BodyLength field and the CheckSum field (same expression as inside `encodeMsg`) -/
def msgPayload (S : Schema) (body : List Trait) (m : Msg) : Bytes :=
  encodeItems S.header S m.header ++ m.hUnknown ++ encodeItems body S m.body ++ m.bUnknown ++
    encodeItems S.trailer S m.trailer ++ m.tUnknown

/-- `Message::encode(f8String&)` encodes into a stack buffer of `FIX8_MAX_MSG_LENGTH + HEADER_CALC_OFFSET` bytes: the payload is
written from offset `HEADER_CALC_OFFSET`, followed by the 7 CheckSum bytes and a NUL -/
def encodeFitsBuffer (S : Schema) (body : List Trait) (m : Msg) : Bool :=
  (msgPayload S body m).length + 8 ≤ Gen.maxMsgLength

end Fix8Model.Codec
