import Fix8Model.Codec.RoundTripDefs
import Fix8Model.Codec.SchemaFIX44
/-! one conjunct of `SchemaWF fix44`, evaluated by the kernel on the generated tables (own module so that the five build in parallel) -/
namespace Fix8Model.Codec.RT
open Fix8Model
theorem fix44_wfGroups : wfGroups fix44 (deepTable fix44) = true := by decide +kernel
end Fix8Model.Codec.RT
