import Fix8Model.Codec.Model
/-!
Decidable predicates used by the message-level round-trip theorems (C01, C06):

* `SchemaWF S`     – what the round trip needs from the generated trait tables,
* `itemsOk / elemsOk` – a repeating-group element / element list conforms to a group definition,
* `secOk`          – the items of a header / body / trailer section conform to its trait list,
* `Conforms S ts m`  – a whole message conforms.

Everything here is a `Bool`-valued function; hypotheses of the theorems have the form `… = true`.
-/
namespace Fix8Model.Codec.RT

def tagsOf (ts : List Trait) : List Nat := ts.map (·.tag)

/-- the tags the constructor of a section marks `present` (8, 9, 35 / 10 in the generated tables) -/
def presetTagsOf (ts : List Trait) : List Nat := (ts.filter (·.preset)).map (·.tag)

/-- tag number of the first token, as the decoders see it (`none`: no token can be extracted) -/
def peekTag (b : Bytes) : Option Nat := (extractElement b).map fun x => tagNum x.1

/-- a value text that survives `extract_element`: no SOH, shorter than the value buffer -/
def valOk (v : Bytes) : Bool := v.all (· != SOH) && decide (v.length < Gen.maxFldLength)

/-- the content of a data field of a Length/data pair: any bytes except NUL (SOH and '=' allowed), at most 2047 -/
def dataOk (d : Bytes) : Bool := d.all (· != 0) && decide (d.length < Gen.maxFldLength)

/-- checks common to every emitted item: 16-bit tag, known to the field table, not suppressed by the encoder,
tokenisable value that is a fixed point of `print ∘ parse` for the field's class -/
def baseOk (S : Schema) (tr : Trait) (t : Nat) (v : Bytes) : Bool :=
  decide (t < 65536) && S.fieldTable.contains t && !tr.suppress && valOk v && canon tr.kind v == some v

/-! ## the transitive tag sets of the group definitions -/

/-- the tags of group definition `i` and of the groups nested in it, down to nesting depth `d` -/
def deepTags (S : Schema) : Nat → Nat → List Nat
  | 0, _ => []
  | d + 1, i => tagsOf (S.group i) ++ ((S.group i).filter (·.group)).flatMap fun t => deepTags S d t.sub

/-- candidate for the transitive closure: one entry per group definition (that the depth bound was sufficient, i.e.
that the table is closed, is *checked* by `closedOk`, not assumed) -/
def deepTable (S : Schema) : List (List Nat) := (List.range S.groups.length).map (deepTags S S.groups.length)

/-- `C[i]` contains the tags of group definition `i` and `C[j]` for every group `j` nested in it -/
def closedOk (S : Schema) (C : List (List Nat)) : Bool :=
  (List.range S.groups.length).all fun i =>
    (tagsOf (S.group i)).all (fun t => (C.getD i []).contains t) &&
    ((S.group i).filter (·.group)).all fun g => (C.getD g.sub []).all fun t => (C.getD i []).contains t

/-- all tags that can occur below the group fields of a trait list (any depth) -/
def belowOf (C : List (List Nat)) (ts : List Trait) : List Nat := (ts.filter (·.group)).flatMap fun t => C.getD t.sub []

def disjointB (a b : List Nat) : Bool := a.all fun t => !b.contains t

/-- no tag of a nested group (any depth) is also a tag of the enclosing trait list -/
def nestOk (C : List (List Nat)) (ts : List Trait) : Bool :=
  (ts.filter (·.group)).all fun g => disjointB (C.getD g.sub []) (tagsOf ts)

/-- at most one tag sits at position 1 of a group definition -/
def pos1Unique (ts : List Trait) : Bool :=
  ts.all fun a => ts.all fun b => !(a.pos == 1 && b.pos == 1) || a.tag == b.tag

def keyOk (k : Bytes) : Bool := k.all (fun c => c != SOH && c != 0) && decide (k.length < Gen.maxMsgTypeFieldLen)

/-- group definitions: the table is closed, no tag of a nested group (any depth) is a tag of the enclosing group,
one position-1 tag per group -/
def wfGroups (S : Schema) (C : List (List Nat)) : Bool :=
  closedOk S C && (List.range S.groups.length).all (fun i => nestOk C (S.group i) && pos1Unique (S.group i))

/-- sections: no tag of a group used in a section (any depth) is a tag of the section itself -/
def wfNest (S : Schema) (C : List (List Nat)) : Bool :=
  nestOk C S.header && nestOk C S.trailer && S.msgs.all (fun kt => nestOk C kt.2)

/-- the header (with everything nested in it) shares no tag with the trailer or any body -/
def wfHdr (S : Schema) (C : List (List Nat)) : Bool :=
  disjointB (tagsOf S.header ++ belowOf C S.header) (tagsOf S.trailer) &&
  S.msgs.all (fun kt => disjointB (tagsOf S.header ++ belowOf C S.header) (tagsOf kt.2))

/-- no body (with everything nested in it) shares a tag with the trailer (CheckSum 10 is a trailer tag) -/
def wfBody (S : Schema) (C : List (List Nat)) : Bool :=
  S.msgs.all (fun kt => disjointB (tagsOf kt.2 ++ belowOf C kt.2) (tagsOf S.trailer))

/-- BeginString, BodyLength, CheckSum are written by `Message::encode` itself (suppressed in the section encoders),
MsgType by the header encoder; BeginString and the message-type keys fit the tokeniser -/
def wfMisc (S : Schema) : Bool :=
  (findTrait S.header 8).any (·.suppress) && (findTrait S.header 9).any (·.suppress) &&
  (findTrait S.header 35).any (fun t => !t.suppress) && (findTrait S.trailer 10).any (·.suppress) &&
  valOk S.beginStr && S.msgs.all (fun kt => keyOk kt.1)

def wfWith (S : Schema) (C : List (List Nat)) : Bool :=
  wfGroups S C && wfNest S C && wfHdr S C && wfBody S C && wfMisc S

/-- what the round trip needs from the trait tables -/
def SchemaWF (S : Schema) : Bool := wfWith S (deepTable S)

/-! ## conformance of items -/

mutual
  /-- the remaining items of one group element, `seen` = tags already taken by this element (latest first) -/
  def itemsOk (S : Schema) (gts : List Trait) : List Nat → List Item → Bool
    | seen, [] => (findMissing gts seen).isNone
    | seen, .fld t v :: rest =>
      (match findTrait gts t with
       | none => false
       | some tr => !seen.contains t && (!seen.isEmpty || tr.pos == 1) && baseOk S tr t v && !(tr.group && countPositive v))
      && itemsOk S gts (t :: seen) rest
    | seen, .grp t v els :: rest =>
      (match findTrait gts t with
       | none => false
       | some tr => !seen.contains t && (!seen.isEmpty || tr.pos == 1) && baseOk S tr t v && tr.group && countPositive v &&
                    !els.isEmpty && elemsOk S (S.group tr.sub) els)
      && itemsOk S gts (t :: seen) rest
  /-- the elements of a repeating group -/
  def elemsOk (S : Schema) (gts : List Trait) : List (List Item) → Bool
    | [] => true
    | e :: rest => !e.isEmpty && itemsOk S gts [] e && elemsOk S gts rest
end

/-- the remaining items of a header / body / trailer section.  A Length field (other than BodyLength) must be
followed directly by its data field (tag + 1, class data) whose byte count it states. -/
def secOk (S : Schema) (ts : List Trait) : List Nat → List Item → Bool
  | seen, [] => (findMissing ts seen).isNone
  | seen, .grp t v els :: rest =>
    (match findTrait ts t with
     | none => false
     | some tr => !seen.contains t && baseOk S tr t v && tr.group && countPositive v && !els.isEmpty &&
                  elemsOk S (S.group tr.sub) els)
    && secOk S ts (t :: seen) rest
  | seen, [.fld t v] =>
    (match findTrait ts t with
     | none => false
     | some tr => !seen.contains t && baseOk S tr t v && !(tr.group && countPositive v) && !(tr.kind == .length && t != 9))
    && secOk S ts (t :: seen) []
  | seen, .fld t v :: .grp t2 v2 els :: rest =>
    (match findTrait ts t with
     | none => false
     | some tr => !seen.contains t && baseOk S tr t v && !(tr.group && countPositive v) && !(tr.kind == .length && t != 9))
    && secOk S ts (t :: seen) (.grp t2 v2 els :: rest)
  | seen, .fld t v :: .fld t2 d :: rest =>
    match findTrait ts t with
    | none => false
    | some tr =>
      !seen.contains t && baseOk S tr t v && !(tr.group && countPositive v) &&
      if tr.kind == .length && t != 9 then
        (match findTrait ts t2 with
         | none => false
         | some tr2 => t2 == t + 1 && tr2.kind == .data && !seen.contains t2 && decide (t2 < 65536) &&
                       S.fieldTable.contains t2 && !tr2.suppress && dataOk d && atoiU (cstr v) == d.length)
        && secOk S ts (t2 :: t :: seen) rest
      else secOk S ts (t :: seen) (.fld t2 d :: rest)

/-- a whole message: `8, 9, 35` lead the header, `10` ends the trailer, no unknown text, fits the encode buffer
(`encodeFitsBuffer`: payload + 8 ≤ `FIX8_MAX_MSG_LENGTH`) -/
def Conforms (S : Schema) (ts : List Trait) (m : Msg) : Bool :=
  (match m.header with
   | .fld t8 b :: .fld t9 _ :: .fld t35 mt :: _ => t8 == 8 && t9 == 9 && t35 == 35 && b == S.beginStr && mt == m.msgType
   | _ => false) &&
  (match m.trailer.getLast? with
   | some (.fld t10 _) => t10 == 10
   | _ => false) &&
  secOk S S.header (presetTagsOf S.header) (m.header.drop 3) &&
  secOk S ts (presetTagsOf ts) m.body &&
  secOk S S.trailer (presetTagsOf S.trailer) m.trailer.dropLast &&
  m.hUnknown.isEmpty && m.bUnknown.isEmpty && m.tUnknown.isEmpty &&
  encodeFitsBuffer S ts m

/-- index at which `factory` leaves the pre-set CheckSum item among the decoded trailer items: the schema position of
CheckSum minus 2 (decoded trailer fields get the position keys 2, 3, …, so that many of them sort before the pre-set
item; 1 in the generated tables, where CheckSum has position 3) -/
def chkIndex (S : Schema) : Nat := ((findTrait S.trailer 10).map (·.pos)).getD 3 - 2

/-- `m'` is `m` except for the values of the BodyLength (9) item – the second header item – and of the CheckSum (10)
item, and for the place of the CheckSum item in the trailer: same message type, same body, same unknown text; the
header of `m'` is the header of `m` with the item at index 1 replaced by `9=v9`; the trailer of `m'` consists of the
trailer items of `m` other than its last one (the `10=…` item of a conforming message), in the same order, with
`10=v10` inserted at index `k`.  Both `9` and `10` are written by `Message::encode` itself, so neither their stored
values nor the place of `10` reach the wire. -/
def SameContent (m m' : Msg) : Prop :=
  m'.msgType = m.msgType ∧ m'.body = m.body ∧
  m'.hUnknown = m.hUnknown ∧ m'.bUnknown = m.bUnknown ∧ m'.tUnknown = m.tUnknown ∧
  (∃ v9, m'.header = m.header.set 1 (.fld 9 v9)) ∧
  (∃ v10 k, m'.trailer = m.trailer.dropLast.take k ++ [.fld 10 v10] ++ m.trailer.dropLast.drop k)

end Fix8Model.Codec.RT
