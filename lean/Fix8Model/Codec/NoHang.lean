import Fix8Model.Codec.TokenBounds
/-!
The fuel handed to `decodeGroup` / `decodeElem` / `decodeSection` is never what ends a run: every call made with
`inp.length < fuel` returns something other than `.error .fuel`, and the returned rest is no longer than the input.
-/
namespace Fix8Model.Codec

/-- outcome of the group loop: not out of fuel, rest not longer than the input -/
def GroupOk (inp : Bytes) : Except DecErr (List (List Item) × Bytes) → Prop
  | .error e => e ≠ .fuel
  | .ok (_, rest) => rest.length ≤ inp.length

def ElemOk (inp : Bytes) : Except DecErr (List Item × List Nat × Bytes × Bool) → Prop
  | .error e => e ≠ .fuel
  | .ok (_, _, rest, _) => rest.length ≤ inp.length

theorem group_elem_ok (S : Schema) (fieldOk : Nat → Bool) : ∀ (fuel : Nat),
    (∀ gts inp acc, inp.length + 1 < fuel → GroupOk inp (decodeGroup S fieldOk gts fuel inp acc)) ∧
    (∀ gts inp items seen, inp.length < fuel → ElemOk inp (decodeElem S fieldOk gts fuel inp items seen)) := by
  intro fuel
  induction fuel with
  | zero => exact ⟨fun _ _ _ h => absurd h (Nat.not_lt_zero _), fun _ _ _ _ h => absurd h (Nat.not_lt_zero _)⟩
  | succ fuel ih =>
    obtain ⟨ihG, ihE⟩ := ih
    constructor
    · intro gts inp acc hlt
      rw [decodeGroup]
      split
      · simp [GroupOk]
      · rename_i hne
        have hpos : 0 < inp.length := by
          cases inp with
          | nil => simp at hne
          | cons _ _ => simp
        have hE := ihE gts inp [] [] (by omega)
        split
        · rename_i e he
          rw [he] at hE
          exact hE
        · rename_i items seen rest more he
          rw [he] at hE
          simp only [ElemOk] at hE
          split
          · simp [GroupOk]
          · split
            · simp [GroupOk]; omega
            · rename_i hneq
              have hlt2 : rest.length < inp.length := by
                have : rest.length ≠ inp.length := by simpa using hneq
                omega
              split
              · have hG := ihG gts rest (items.reverse :: acc) (by omega)
                revert hG
                cases decodeGroup S fieldOk gts fuel rest (items.reverse :: acc) with
                | error e => exact id
                | ok r =>
                  obtain ⟨els, rest'⟩ := r
                  simp only [GroupOk]; omega
              · simp [GroupOk]; omega
    · intro gts inp items seen hlt
      rw [decodeElem]
      split
      · simp [ElemOk]
      · rename_i tagT val rest hx
        have hr := extractElementCap_length _ _ inp tagT val rest hx
        simp only
        split
        · simp [ElemOk]
        · split
          · split
            · simp [ElemOk]
            · simp [ElemOk]
          · rename_i tr _
            split
            · simp [ElemOk]
            · split
              · simp [ElemOk]
              · split
                · simp [ElemOk]
                · rename_i cv _
                  split
                  · have hG := ihG (S.group tr.sub) rest [] (by omega)
                    split
                    · rename_i e he
                      rw [he] at hG; exact hG
                    · rename_i els rest' he
                      rw [he] at hG
                      simp only [GroupOk] at hG
                      have hE := ihE gts rest' (.grp (tagNum tagT) cv els :: items) (tagNum tagT :: seen) (by omega)
                      revert hE
                      cases decodeElem S fieldOk gts fuel rest' (.grp (tagNum tagT) cv els :: items) (tagNum tagT :: seen) with
                      | error e => exact id
                      | ok r =>
                        obtain ⟨a, b, c, d⟩ := r
                        simp only [ElemOk]; omega
                  · have hE := ihE gts rest (.fld (tagNum tagT) cv :: items) (tagNum tagT :: seen) (by omega)
                    revert hE
                    cases decodeElem S fieldOk gts fuel rest (.fld (tagNum tagT) cv :: items) (tagNum tagT :: seen) with
                    | error e => exact id
                    | ok r =>
                      obtain ⟨a, b, c, d⟩ := r
                      simp only [ElemOk]; omega


def SecOk (L : Nat) : Except DecErr SecResult → Prop
  | .error e => e ≠ .fuel
  | .ok r => r.rest.length ≤ L

theorem finish_ok (ts : List Trait) (perm : Bool) (items : List Item) (seen : List Nat) (unk : Bytes)
    (firstUnk : Option (Bytes × Nat)) (L : Nat) (rest : Bytes) (hL : rest.length ≤ L)
    (hfu : ∀ r n, firstUnk = some (r, n) → r.length ≤ L) :
    SecOk L (match findMissing ts seen with
      | some t => Except.error (DecErr.missingMandatory t)
      | none => Except.ok { items := items.reverse, seen := seen, unknown := unk,
                            rest := match (generalizing := false) firstUnk with
                              | some (r, n) => if (perm && n == items.length) = true then r else rest
                              | none => rest }) := by
  cases findMissing ts seen with
  | some t => simp [SecOk]
  | none =>
    simp only [SecOk]
    cases firstUnk with
    | none => exact hL
    | some p =>
      obtain ⟨r, n⟩ := p
      simp only
      split
      · exact hfu r n rfl
      · exact hL

theorem group_ok_of_eq {S : Schema} {fo : Nat → Bool} {gts : List Trait} {fuel : Nat} {inp : Bytes} {acc : List (List Item)}
    {r : Except DecErr (List (List Item) × Bytes)} (h : decodeGroup S fo gts fuel inp acc = r) (hl : inp.length + 1 < fuel) :
    GroupOk inp r := by
  rw [← h]; exact (group_elem_ok S fo fuel).1 gts inp acc hl

theorem section_ok (S : Schema) (ts : List Trait) (perm : Bool)  (fuel : Nat) (inp : Bytes) (items : List Item) (seen : List Nat)
    (unk : Bytes) (firstUnk : Option (Bytes × Nat)) (L : Nat) (hlt : inp.length < fuel) (hL : inp.length ≤ L)
    (hfu : ∀ r n, firstUnk = some (r, n) → r.length ≤ L) :
    SecOk L (decodeSection S ts perm fuel inp items seen unk firstUnk) := by
  fun_induction decodeSection S ts perm fuel inp items seen unk firstUnk
  case case1 => omega
  case case2 => exact finish_ok _ _ _ _ _ _ _ _ hL hfu
  case case4 => exact finish_ok _ _ _ _ _ _ _ _ hL hfu
  all_goals (have hx := extractElementCap_length _ _ _ _ _ _ ‹extractElement _ = some _›)
  case case3 ih =>
    refine ih (by omega) (by omega) ?_
    intro r n h
    cases hf : ‹Option (Bytes × Nat)› with
    | none => rw [hf] at h; simp at h; rw [← h.1]; exact hL
    | some p => rw [hf] at h; simp at h; exact hfu r n (by rw [hf, h])
  case case5 ih => exact ih (by omega) (by omega) hfu
  case case9 =>
    exact group_ok_of_eq ‹decodeGroup _ _ _ _ _ _ = _› (by omega)
  case case10 ih =>
    have := group_ok_of_eq ‹decodeGroup _ _ _ _ _ _ = _› (by omega)
    simp only [GroupOk] at this
    exact ih (by omega) (by omega) hfu
  case case13 ih =>
    have hf := extractFixed_lt _ _ _ _ _ ‹extractFixed _ _ = some _›
    refine ih (by omega) (by omega) ?_
    intro r n h
    cases hf : ‹Option (Bytes × Nat)› with
    | none => rw [hf] at h; simp at h; rw [← h.1]; omega
    | some p => rw [hf] at h; simp at h; exact hfu r n (by rw [hf, h])
  case case15 => simp only [SecOk]; omega
  case case16 ih => exact ih (by omega) (by omega) hfu
  case case18 ih =>
    have hf := extractFixed_lt _ _ _ _ _ ‹extractFixed _ _ = some _›
    exact ih (by omega) (by omega) hfu
  case case19 ih => exact ih (by omega) (by omega) hfu
  all_goals simp [SecOk]

theorem section_ok_of_eq {S : Schema} {ts : List Trait} {perm : Bool} {fuel : Nat} {inp : Bytes} {seen : List Nat}
    {r : Except DecErr SecResult} (h : decodeSection S ts perm fuel inp [] seen [] none = r) (hl : inp.length < fuel) :
    SecOk inp.length r := by
  rw [← h]; exact section_ok S ts perm fuel inp [] seen [] none inp.length hl (Nat.le_refl _) (by intro r n h; cases h)

theorem factory_not_fuel (S : Schema) (perm : Bool) (b : Bytes) : factory S perm b ≠ .error .fuel := by
  unfold factory
  split
  · simp
  · rename_i t1 v1 r1 h1
    have l1 := extractElementCap_length _ _ _ _ _ _ h1
    split
    · simp
    · split
      · simp
      · rename_i t2 lenT r2 h2
        have l2 := extractElementCap_length _ _ _ _ _ _ h2
        split
        · simp
        · split
          · simp
          · rename_i t3 mtype r3 h3
            have l3 := extractElementCap_length _ _ _ _ _ _ h3
            split
            · simp
            · split
              · simp
              · rename_i mt bodyTs hm
                simp only
                split
                · rename_i e he
                  have := section_ok_of_eq he (by omega)
                  simp only [SecOk] at this
                  simpa using this
                · rename_i h hh
                  have k1 := section_ok_of_eq hh (by omega)
                  simp only [SecOk] at k1
                  split
                  · rename_i e he
                    have := section_ok_of_eq he (by omega)
                    simp only [SecOk] at this
                    simpa using this
                  · rename_i bd hbd
                    have k2 := section_ok_of_eq hbd (by omega)
                    simp only [SecOk] at k2
                    split
                    · rename_i e he
                      have := section_ok_of_eq he (by rw [List.length_take]; omega)
                      simp only [SecOk] at this
                      simpa using this
                    · split
                      · simp
                      · split
                        · simp
                        · simp
end Fix8Model.Codec
