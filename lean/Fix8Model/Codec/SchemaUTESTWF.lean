import Fix8Model.Codec.RoundTripDefs
import Fix8Model.Codec.SchemaUTEST
/-!
The generated FIX42UTEST schema satisfies `SchemaWF` – checked by kernel evaluation of the Boolean predicate on the
generated tables (re-checked whenever `Gen/SchemaUTEST.lean` changes).
-/
namespace Fix8Model.Codec.RT
open Fix8Model

/-! `SchemaWF utest`, one `decide +kernel` per conjunct (each is a closed Boolean computation over the tables) -/

theorem utest_wfGroups : wfGroups utest (deepTable utest) = true := by decide +kernel
theorem utest_wfNest : wfNest utest (deepTable utest) = true := by decide +kernel
theorem utest_wfHdr : wfHdr utest (deepTable utest) = true := by decide +kernel
theorem utest_wfBody : wfBody utest (deepTable utest) = true := by decide +kernel
theorem utest_wfMisc : wfMisc utest = true := by decide +kernel

/-- the generated FIX42UTEST tables satisfy every schema condition of the round-trip theorems -/
theorem utest_wf : SchemaWF utest = true := by
  unfold SchemaWF wfWith
  rw [utest_wfGroups, utest_wfNest, utest_wfHdr, utest_wfBody, utest_wfMisc]
  rfl

end Fix8Model.Codec.RT
