import Fix8Model.Codec.RoundTripGroup
/-!
One header / body / trailer section: `decodeSection` (strict mode) on the bytes `encodeItems` wrote for a conforming
item list gives the items back, in order, and stops in front of whatever follows the section.  Covers plain fields,
Length/data pairs (content any bytes without NUL – SOH and '=' included) and repeating groups of any depth.
-/
namespace Fix8Model.Codec.RT
open Fix8Model

/-! ## single steps of `decodeSection` -/

/-- `decodeSection` consumes one rendered plain field and continues with the item appended -/
theorem decodeSection_step_fld (S : Schema) (ts : List Trait) (perm : Bool) (fuel : Nat) (t : Nat) (v rest : Bytes)
    (items : List Item) (seen : List Nat) (unk : Bytes) (fu : Option (Bytes × Nat)) (tr : Trait)
    (htr : findTrait ts t = some tr) (hseen : seen.contains t = false) (hft : S.fieldTable.contains t = true)
    (ht : t < 65536) (hv : valOk v = true) (hcanon : canon tr.kind v = some v)
    (hng : (tr.group && countPositive v) = false) (hnl : (tr.kind == .length && t != 9) = false) :
    decodeSection S ts perm (fuel + 1) (renderField t v ++ rest) items seen unk fu =
      decodeSection S ts perm fuel rest (.fld t v :: items) (t :: seen) unk fu := by
  rw [decodeSection.eq_2, extract_render t v rest hv ht]
  simp only [tagNum_render t ht, hseen, htr, hft, Bool.not_true, Bool.false_eq_true, if_false, hcanon, hng, hnl]

/-- `decodeSection` on a rendered count field with a positive count hands over to `decodeGroup` -/
theorem decodeSection_step_grp (S : Schema) (ts : List Trait) (perm : Bool) (fuel : Nat) (t : Nat) (v rest : Bytes)
    (items : List Item) (seen : List Nat) (unk : Bytes) (fu : Option (Bytes × Nat)) (tr : Trait)
    (htr : findTrait ts t = some tr) (hseen : seen.contains t = false) (hft : S.fieldTable.contains t = true)
    (ht : t < 65536) (hv : valOk v = true) (hcanon : canon tr.kind v = some v)
    (hg : (tr.group && countPositive v) = true) :
    decodeSection S ts perm (fuel + 1) (renderField t v ++ rest) items seen unk fu =
      match decodeGroup S (fun t => S.fieldTable.contains t) (S.group tr.sub) fuel rest [] with
      | .error e => .error e
      | .ok (els, rest') => decodeSection S ts perm fuel rest' (.grp t v els :: items) (t :: seen) unk fu := by
  rw [decodeSection.eq_2, extract_render t v rest hv ht]
  simp only [tagNum_render t ht, hseen, htr, hft, Bool.not_true, Bool.false_eq_true, if_false, hcanon, hg, if_true]
  cases decodeGroup S (fun t => S.fieldTable.contains t) (S.group tr.sub) fuel rest [] <;> rfl

/-- `decodeSection` consumes a Length field and the data field it announces (any content bytes without NUL) -/
theorem decodeSection_step_pair (S : Schema) (ts : List Trait) (perm : Bool) (fuel : Nat) (t : Nat) (v : Bytes) (t2 : Nat)
    (d rest : Bytes) (items : List Item) (seen : List Nat) (unk : Bytes) (fu : Option (Bytes × Nat)) (tr tr2 : Trait)
    (htr : findTrait ts t = some tr) (hseen : seen.contains t = false) (hft : S.fieldTable.contains t = true)
    (ht : t < 65536) (hv : valOk v = true) (hcanon : canon tr.kind v = some v)
    (hng : (tr.group && countPositive v) = false) (hl : (tr.kind == .length && t != 9) = true)
    (hn : atoiU (cstr v) = d.length) (hd : dataOk d = true)
    (htr2 : findTrait ts t2 = some tr2) (ht2 : t2 < 65536) (ht21 : t2 = t + 1) (hk2 : tr2.kind = .data)
    (hft2 : S.fieldTable.contains t2 = true) :
    decodeSection S ts perm (fuel + 1) (renderField t v ++ (renderField t2 d ++ rest)) items seen unk fu =
      decodeSection S ts perm fuel rest (.fld t2 d :: .fld t v :: items) (t2 :: t :: seen) unk fu := by
  rw [decodeSection.eq_2, extract_render t v _ hv ht]
  simp only [tagNum_render t ht, hseen, htr, hft, Bool.not_true, Bool.false_eq_true, if_false, hcanon, hng, hl, if_true, hn]
  have hsz : ¬ d.length > Gen.maxFldLength - 1 := by
    have := (dataOk_spec hd).2
    omega
  rw [if_neg hsz, extractFixed_render t2 d rest ht2]
  simp only [tagNum_render t2 ht2, htr2, hk2, hft2]
  have hc : ((Kind.data != Kind.data) || (t + 1 != t2)) = false := by
    subst ht21; simp
  simp only [hc, Bool.false_eq_true, if_false, Bool.not_true, cstr_noNul (dataOk_spec hd).1]

/-- strict mode: the section ends in front of a token whose tag the section does not define (or at the end of input) -/
theorem decodeSection_finish (S : Schema) (ts : List Trait) (fuel : Nat) (next : Bytes)
    (items : List Item) (seen : List Nat) (unk : Bytes) (fu : Option (Bytes × Nat))
    (hstop : ∀ tv, peekTag next = some tv → findTrait ts tv = none) (hmiss : findMissing ts seen = none) :
    decodeSection S ts false (fuel + 1) next items seen unk fu = .ok ⟨items.reverse, seen, unk, next⟩ := by
  unfold peekTag at hstop
  cases fu with
  | none =>
    rw [decodeSection.eq_2]
    cases he : extractElement next with
    | none => simp only [hmiss]
    | some x =>
      obtain ⟨tagT, val, rest⟩ := x
      rw [he] at hstop
      have := hstop (tagNum tagT) rfl
      simp only [this, Bool.false_eq_true, if_false, hmiss]
  | some y =>
    obtain ⟨r', n⟩ := y
    rw [decodeSection.eq_2]
    cases he : extractElement next with
    | none => simp only [hmiss, Bool.false_and, Bool.false_eq_true, if_false]
    | some x =>
      obtain ⟨tagT, val, rest⟩ := x
      rw [he] at hstop
      have := hstop (tagNum tagT) rfl
      simp only [this, Bool.false_eq_true, if_false, hmiss, Bool.false_and]

/-! ## unpacking `secOk` -/

theorem secOk_grp {S : Schema} {ts : List Trait} {seen : List Nat} {t : Nat} {v : Bytes} {els : List (List Item)}
    {rest : List Item} (h : secOk S ts seen (.grp t v els :: rest) = true) :
    ∃ tr, findTrait ts t = some tr ∧ seen.contains t = false ∧ baseOk S tr t v = true ∧ tr.group = true ∧
      countPositive v = true ∧ els ≠ [] ∧ elemsOk S (S.group tr.sub) els = true ∧ secOk S ts (t :: seen) rest = true := by
  rw [secOk.eq_2] at h
  cases hf : findTrait ts t with
  | none => rw [hf] at h; simp at h
  | some tr =>
    rw [hf] at h
    simp only [Bool.and_eq_true, Bool.not_eq_true'] at h
    obtain ⟨⟨⟨⟨⟨⟨h1, h3⟩, h4⟩, h5⟩, h6⟩, h7⟩, h8⟩ := h
    refine ⟨tr, rfl, h1, h3, h4, h5, ?_, h7, h8⟩
    intro he; rw [he] at h6; simp at h6

/-- the facts about a leading plain item that do not depend on what follows it -/
theorem secOk_fld_base {S : Schema} {ts : List Trait} {seen : List Nat} {t : Nat} {v : Bytes} {rest : List Item}
    (h : secOk S ts seen (.fld t v :: rest) = true) :
    ∃ tr, findTrait ts t = some tr ∧ seen.contains t = false ∧ baseOk S tr t v = true ∧
      (tr.group && countPositive v) = false := by
  cases hf : findTrait ts t with
  | none =>
    exfalso
    cases rest with
    | nil => rw [secOk.eq_3, hf] at h; simp at h
    | cons it2 rest2 =>
      cases it2 with
      | grp t2 v2 els => rw [secOk.eq_4, hf] at h; simp at h
      | fld t2 d => rw [secOk.eq_5, hf] at h; simp at h
  | some tr =>
    refine ⟨tr, rfl, ?_⟩
    cases rest with
    | nil =>
      rw [secOk.eq_3, hf] at h
      simp only [Bool.and_eq_true, Bool.not_eq_true'] at h
      exact ⟨h.1.1.1.1, h.1.1.1.2, h.1.1.2⟩
    | cons it2 rest2 =>
      cases it2 with
      | grp t2 v2 els =>
        rw [secOk.eq_4, hf] at h
        simp only [Bool.and_eq_true, Bool.not_eq_true'] at h
        exact ⟨h.1.1.1.1, h.1.1.1.2, h.1.1.2⟩
      | fld t2 d =>
        rw [secOk.eq_5, hf] at h
        simp only [Bool.and_eq_true, Bool.not_eq_true'] at h
        exact ⟨h.1.1.1, h.1.1.2, h.1.2⟩

/-- a leading plain item that is not a Length field: the remaining items conform -/
theorem secOk_fld_plain {S : Schema} {ts : List Trait} {seen : List Nat} {t : Nat} {v : Bytes} {rest : List Item} {tr : Trait}
    (h : secOk S ts seen (.fld t v :: rest) = true) (hf : findTrait ts t = some tr)
    (hnl : (tr.kind == .length && t != 9) = false) : secOk S ts (t :: seen) rest = true := by
  cases rest with
  | nil =>
    rw [secOk.eq_3, hf] at h
    simp only [Bool.and_eq_true] at h
    exact h.2
  | cons it2 rest2 =>
    cases it2 with
    | grp t2 v2 els =>
      rw [secOk.eq_4, hf] at h
      simp only [Bool.and_eq_true] at h
      exact h.2
    | fld t2 d =>
      rw [secOk.eq_5, hf] at h
      simp only [hnl, Bool.false_eq_true, if_false] at h
      simp only [Bool.and_eq_true] at h
      exact h.2

/-- a leading Length field: the next item is its data field -/
theorem secOk_fld_pair {S : Schema} {ts : List Trait} {seen : List Nat} {t : Nat} {v : Bytes} {rest : List Item} {tr : Trait}
    (h : secOk S ts seen (.fld t v :: rest) = true) (hf : findTrait ts t = some tr)
    (hl : (tr.kind == .length && t != 9) = true) :
    ∃ t2 d rest2 tr2, rest = .fld t2 d :: rest2 ∧ findTrait ts t2 = some tr2 ∧ t2 = t + 1 ∧ tr2.kind = .data ∧
      t2 < 65536 ∧ S.fieldTable.contains t2 = true ∧ tr2.suppress = false ∧ dataOk d = true ∧
      atoiU (cstr v) = d.length ∧ secOk S ts (t2 :: t :: seen) rest2 = true := by
  cases rest with
  | nil =>
    rw [secOk.eq_3, hf] at h
    simp only [Bool.and_eq_true, Bool.not_eq_true'] at h
    rw [h.1.2] at hl; cases hl
  | cons it2 rest2 =>
    cases it2 with
    | grp t2 v2 els =>
      rw [secOk.eq_4, hf] at h
      simp only [Bool.and_eq_true, Bool.not_eq_true'] at h
      rw [h.1.2] at hl; cases hl
    | fld t2 d =>
      rw [secOk.eq_5, hf] at h
      simp only [hl, if_true] at h
      simp only [Bool.and_eq_true] at h
      cases hf2 : findTrait ts t2 with
      | none => rw [hf2] at h; simp at h
      | some tr2 =>
        rw [hf2] at h
        simp only [Bool.and_eq_true, Bool.not_eq_true', beq_iff_eq, decide_eq_true_eq] at h
        obtain ⟨_, ⟨⟨⟨⟨⟨⟨⟨h1, h2⟩, _⟩, h4⟩, h5⟩, h6⟩, h7⟩, h8⟩, h9⟩ := h
        exact ⟨t2, d, rest2, tr2, rfl, hf2, h1, h2, h4, h5, h6, h7, h8, h9⟩

/-- what a conforming non-empty section item list looks like from the front -/
theorem secOk_front {S : Schema} {ts : List Trait} {seen : List Nat} {it : Item} {rest : List Item}
    (h : secOk S ts seen (it :: rest) = true) (next : Bytes) :
    peekTag (encodeItems ts S (it :: rest) ++ next) = some it.tag ∧ (tagsOf ts).contains it.tag = true := by
  cases it with
  | fld t v =>
    obtain ⟨tr, htr, _, hb, _⟩ := secOk_fld_base h
    obtain ⟨ht, _, hs, hv, _⟩ := baseOk_spec hb
    rw [encodeItems_fld S ts t v rest tr htr hs, List.append_assoc]
    exact ⟨peek_render t v _ hv ht, findTrait_some_tags htr⟩
  | grp t v els =>
    obtain ⟨tr, htr, _, hb, _, hc, _, _, _⟩ := secOk_grp h
    obtain ⟨ht, _, hs, hv, _⟩ := baseOk_spec hb
    rw [encodeItems_grp S ts t v els rest tr htr hs hc, List.append_assoc]
    exact ⟨peek_render t v _ hv ht, findTrait_some_tags htr⟩

theorem stopOk_mono {D D' : List Nat} {next : Bytes} (hsub : ∀ t, D'.contains t = true → D.contains t = true)
    (h : stopOk D next = true) : stopOk D' next = true := by
  rcases stopOk_cases h with h | ⟨_, tv, hp, hd⟩
  · rw [h]; exact stopOk_nil _
  · apply stopOk_of_peek hp
    cases hc : D'.contains tv with
    | false => rfl
    | true => rw [hsub tv hc] at hd; cases hd

/-! ## the whole section -/

/-- **one section, strict mode**: decoding the bytes written for a conforming item list (plain fields, Length/data
pairs with arbitrary NUL-free content, repeating groups of any depth) followed by `next` returns the items in order
and stops in front of `next` -/
theorem decodeSection_roundtrip {S : Schema} {C : List (List Nat)} {ts : List Trait}
    (hW : GroupsWF S C) (hsec : SectionWF S C ts) :
    ∀ (fuel : Nat) (its : List Item) (next : Bytes) (items : List Item) (seen : List Nat) (unk : Bytes)
      (fu : Option (Bytes × Nat)),
      secOk S ts seen its = true →
      stopOk (tagsOf ts ++ belowOf C ts) next = true →
      (encodeItems ts S its ++ next).length < fuel →
      decodeSection S ts false fuel (encodeItems ts S its ++ next) items seen unk fu =
        .ok ⟨items.reverse ++ its, seenAfter seen its, unk, next⟩ := by
  intro fuel
  induction fuel with
  | zero => intro its next items seen unk fu _ _ hlen; omega
  | succ f ih =>
    intro its next items seen unk fu hok hstop hlen
    cases its with
    | nil =>
      rw [encodeItems.eq_1, List.nil_append]
      rw [secOk.eq_1] at hok
      have hmiss : findMissing ts seen = none := by
        cases hm : findMissing ts seen with
        | none => rfl
        | some x => rw [hm] at hok; simp at hok
      rw [decodeSection_finish S ts f next items seen unk fu ?_ hmiss]
      · simp [seenAfter]
      · intro tv hp
        rcases stopOk_cases hstop with h | ⟨_, tv', hp', hd⟩
        · rw [h, peek_nil] at hp; cases hp
        · rw [hp] at hp'
          injection hp' with hp'
          subst hp'
          rw [findTrait_none_iff]
          intro hin
          have : (tagsOf ts ++ belowOf C ts).contains tv = true := by
            rw [List.contains_iff_mem] at hin ⊢
            exact List.mem_append_left _ hin
          rw [this] at hd; cases hd
    | cons it rest =>
      cases it with
      | grp t v els =>
        obtain ⟨tr, htr, hsn, hb, hg, hc, hels, helsOk, hrest⟩ := secOk_grp hok
        obtain ⟨ht, hft, hs, hv, hcanon⟩ := baseOk_spec hb
        rw [encodeItems_grp S ts t v els rest tr htr hs hc, List.append_assoc, List.append_assoc] at hlen ⊢
        have hgc : (tr.group && countPositive v) = true := by simp [hg, hc]
        rw [decodeSection_step_grp S ts false f t v _ items seen unk fu tr htr hsn hft ht hv hcanon hgc]
        have htrmem := (findTrait_some htr).1
        have hfollow : stopOk (C.getD tr.sub []) (encodeItems ts S rest ++ next) = true := by
          cases rest with
          | nil =>
            rw [encodeItems.eq_1, List.nil_append]
            refine stopOk_mono ?_ hstop
            intro x hx
            have := belowOf_mem htrmem hg hx
            rw [List.contains_iff_mem] at this ⊢
            exact List.mem_append_right _ this
          | cons it2 rest2 =>
            obtain ⟨hpk, htg⟩ := secOk_front hrest next
            apply stopOk_of_peek hpk
            cases hd : (C.getD tr.sub []).contains it2.tag with
            | false => rfl
            | true =>
              have h2 := hsec.nest tr htrmem hg it2.tag hd
              rw [h2] at htg; cases htg
        have hl1 : (encodeElems (S.group tr.sub) S els ++ (encodeItems ts S rest ++ next)).length + 2 ≤ f := by
          have := renderField_length_ge t v
          rw [List.length_append] at hlen
          omega
        rw [decodeGroup_roundtrip hW (fun _ h => h) tr.sub els _ f hels helsOk hfollow hl1]
        simp only
        have hl : (encodeItems ts S rest ++ next).length < f := by
          rw [List.length_append] at hl1
          omega
        rw [ih rest next (.grp t v els :: items) (t :: seen) unk fu hrest hstop hl, seenAfter_cons]
        simp [Item.tag]
      | fld t v =>
        obtain ⟨tr, htr, hsn, hb, hng⟩ := secOk_fld_base hok
        obtain ⟨ht, hft, hs, hv, hcanon⟩ := baseOk_spec hb
        cases hlk : (tr.kind == .length && t != 9) with
        | false =>
          have hrest := secOk_fld_plain hok htr hlk
          rw [encodeItems_fld S ts t v rest tr htr hs, List.append_assoc] at hlen ⊢
          rw [decodeSection_step_fld S ts false f t v _ items seen unk fu tr htr hsn hft ht hv hcanon hng hlk]
          have hl : (encodeItems ts S rest ++ next).length < f := by
            have := renderField_length_ge t v
            rw [List.length_append] at hlen
            omega
          rw [ih rest next (.fld t v :: items) (t :: seen) unk fu hrest hstop hl, seenAfter_cons]
          simp [Item.tag]
        | true =>
          obtain ⟨t2, d, rest2, tr2, rfl, htr2, ht21, hk2, ht2, hft2, hs2, hd, hn, hrest⟩ := secOk_fld_pair hok htr hlk
          rw [encodeItems_fld S ts t v _ tr htr hs, encodeItems_fld S ts t2 d rest2 tr2 htr2 hs2,
            List.append_assoc, List.append_assoc] at hlen ⊢
          rw [decodeSection_step_pair S ts false f t v t2 d _ items seen unk fu tr tr2 htr hsn hft ht hv hcanon hng hlk hn hd
            htr2 ht2 ht21 hk2 hft2]
          have hl : (encodeItems ts S rest2 ++ next).length < f := by
            have := renderField_length_ge t v
            have := renderField_length_ge t2 d
            rw [List.length_append, List.length_append] at hlen
            omega
          rw [ih rest2 next (.fld t2 d :: .fld t v :: items) (t2 :: t :: seen) unk fu hrest hstop hl,
            seenAfter_cons, seenAfter_cons]
          simp [Item.tag]

/-! ## a Length/data pair, explicitly -/

theorem canon_length_natDigits (n : Nat) (h : n < 2147483648) : canon .length (Digits.natDigits n) = some (Digits.natDigits n) := by
  unfold canon
  simp only [cstr_noNul (natDigits_noNul n), atoiZ_natDigits]
  have : wrapInt32 (n : Int) = (n : Int) := by unfold wrapInt32; omega
  rw [this, itoa_ofNat]

theorem valOk_natDigits (n : Nat) (h : n < 10 ^ 31) : valOk (Digits.natDigits n) = true := by
  unfold valOk
  rw [Bool.and_eq_true, List.all_eq_true, decide_eq_true_eq]
  refine ⟨fun c hc => by simpa using natDigits_noSOH n c hc, ?_⟩
  have := natDigits_length_le n 31 h (by omega)
  show (Digits.natDigits n).length < 2048
  omega

/-- **Length/data pair**: a Length field stating `d.length` followed by its data field with ANY content `d` free of
NUL and at most 2047 bytes (SOH, '=', whole fake fields …), then further conforming items: the pair decodes to exactly
these two items and the items after it decode as if the pair were not there -/
theorem pair_roundtrip {S : Schema} {C : List (List Nat)} {ts : List Trait} (hW : GroupsWF S C) (hsec : SectionWF S C ts)
    (t : Nat) (d : Bytes) (rest : List Item) (next : Bytes) (items : List Item) (seen : List Nat) (unk : Bytes)
    (fu : Option (Bytes × Nat)) (fuel : Nat) (trL trD : Trait)
    (hL : findTrait ts t = some trL) (hLk : trL.kind = .length) (ht9 : t ≠ 9) (hLg : trL.group = false)
    (hD : findTrait ts (t + 1) = some trD) (hDk : trD.kind = .data)
    (ht : t + 1 < 65536) (hft : S.fieldTable.contains t = true) (hft2 : S.fieldTable.contains (t + 1) = true)
    (hseen : seen.contains t = false) (hd : dataOk d = true)
    (hrest : secOk S ts ((t + 1) :: t :: seen) rest = true) (hstop : stopOk (tagsOf ts ++ belowOf C ts) next = true)
    (hfuel : (renderField t (Digits.itoa d.length) ++ (renderField (t + 1) d ++ (encodeItems ts S rest ++ next))).length < fuel) :
    decodeSection S ts false fuel
        (renderField t (Digits.itoa d.length) ++ (renderField (t + 1) d ++ (encodeItems ts S rest ++ next))) items seen unk fu =
      .ok ⟨items.reverse ++ (.fld t (Digits.itoa d.length) :: .fld (t + 1) d :: rest), seenAfter ((t + 1) :: t :: seen) rest,
           unk, next⟩ := by
  cases fuel with
  | zero => omega
  | succ f =>
    have hdl := (dataOk_spec hd).2
    have hdl' : d.length < 2048 := hdl
    rw [itoa_ofNat] at hfuel ⊢
    have hcanon : canon trL.kind (Digits.natDigits d.length) = some (Digits.natDigits d.length) := by
      rw [hLk]; exact canon_length_natDigits _ (by omega)
    have hng : (trL.group && countPositive (Digits.natDigits d.length)) = false := by rw [hLg]; rfl
    have hlk : (trL.kind == .length && t != 9) = true := by
      rw [hLk]; simp [ht9]
    have hn : atoiU (cstr (Digits.natDigits d.length)) = d.length := by
      rw [cstr_noNul (natDigits_noNul _), atoiU_natDigits _ (by omega)]
    rw [decodeSection_step_pair S ts false f t _ (t + 1) d _ items seen unk fu trL trD hL hseen hft (by omega)
      (valOk_natDigits _ (by have : (2048 : Nat) < 10 ^ 31 := by decide
                             omega)) hcanon hng hlk hn hd hD ht rfl hDk hft2]
    have hl : (encodeItems ts S rest ++ next).length < f := by
      have := renderField_length_ge t (Digits.natDigits d.length)
      have := renderField_length_ge (t + 1) d
      rw [List.length_append, List.length_append] at hfuel
      omega
    rw [decodeSection_roundtrip hW hsec f rest next _ _ unk fu hrest hstop hl]
    simp

end Fix8Model.Codec.RT
