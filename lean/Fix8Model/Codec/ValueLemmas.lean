import Fix8Model.Codec.SectionLemmas
/-!
Every value the decoder stores is `canon kind text` of a token text that occurs (contiguously) in the input.
-/
namespace Fix8Model.Codec

/-- `v` is the canonical form of some text occurring in `b`, under the kind the trait list gives the tag -/
def valFrom (b : Bytes) (ts : List Trait) (t : Nat) (v : Bytes) : Prop :=
  ∃ tr text, findTrait ts t = some tr ∧ text <:+: b ∧ canon tr.kind text = some v

mutual
  def itemFrom (b : Bytes) (S : Schema) (ts : List Trait) : Item → Prop
    | .fld t v => valFrom b ts t v
    | .grp t v els => valFrom b ts t v ∧ elemsFrom b S (S.group (subOf ts t)) els
  def itemsFrom (b : Bytes) (S : Schema) (ts : List Trait) : List Item → Prop
    | [] => True
    | it :: rest => itemFrom b S ts it ∧ itemsFrom b S ts rest
  def elemsFrom (b : Bytes) (S : Schema) (gts : List Trait) : List (List Item) → Prop
    | [] => True
    | e :: es => itemsFrom b S gts e ∧ elemsFrom b S gts es
end

theorem itemsFrom_iff (b : Bytes) (S : Schema) (ts : List Trait) (l : List Item) :
    itemsFrom b S ts l ↔ ∀ it ∈ l, itemFrom b S ts it := by
  induction l with
  | nil => simp [itemsFrom]
  | cons a l ih => simp [itemsFrom, ih]

theorem elemsFrom_iff (b : Bytes) (S : Schema) (gts : List Trait) (es : List (List Item)) :
    elemsFrom b S gts es ↔ ∀ e ∈ es, itemsFrom b S gts e := by
  induction es with
  | nil => simp [elemsFrom]
  | cons a l ih => simp [elemsFrom, ih]

/-- a token taken off a suffix of `b`: its value occurs in `b`, the rest is again a suffix -/
theorem token_from {tc vc : Nat} {b inp tag val rest : Bytes} (hs : inp <:+: b) (hx : extractElementCap tc vc inp = some (tag, val, rest)) :
    val <:+: b ∧ rest <:+: b := by
  have hd := (extractElementCap_some _ _ inp tag val rest hx).1
  constructor
  · refine List.IsInfix.trans ?_ hs
    exact ⟨tag ++ [61], 1 :: rest, by rw [hd]; simp⟩
  · refine List.IsInfix.trans (List.IsSuffix.isInfix ?_) hs
    exact ⟨tag ++ 61 :: val ++ [1], by rw [hd]; simp⟩

theorem fixed_from {b inp tag dat rest : Bytes} {n : Nat} (hs : inp <:+: b) (hx : extractFixed inp n = some (tag, dat, rest)) :
    dat <:+: b ∧ rest <:+: b := by
  obtain ⟨_, _, _, r, hb, _, hd, hr⟩ := extractFixed_some inp n tag dat rest hx
  have hrs : r <:+ inp := ⟨tag ++ [61], by rw [hb]; simp⟩
  constructor
  · rw [hd]
    exact ((List.take_prefix n r).isInfix.trans hrs.isInfix).trans hs
  · rw [hr]
    exact ((List.drop_suffix (n + 1) r).trans hrs).isInfix.trans hs

theorem group_elem_from (b : Bytes) (S : Schema) (fieldOk : Nat → Bool) : ∀ (fuel : Nat),
    (∀ gts inp acc els rest, decodeGroup S fieldOk gts fuel inp acc = .ok (els, rest) → inp <:+: b →
      (∀ e ∈ acc, itemsFrom b S gts e) → (∀ e ∈ els, itemsFrom b S gts e) ∧ rest <:+: b) ∧
    (∀ gts inp items seen items' seen' rest more, decodeElem S fieldOk gts fuel inp items seen = .ok (items', seen', rest, more) →
      inp <:+: b → (∀ it ∈ items, itemFrom b S gts it) → (∀ it ∈ items', itemFrom b S gts it) ∧ rest <:+: b) := by
  intro fuel
  induction fuel with
  | zero =>
    constructor
    · intro gts inp acc els rest h; rw [decodeGroup] at h; cases h
    · intro gts inp items seen items' seen' rest more h; rw [decodeElem] at h; cases h
  | succ fuel ih =>
    obtain ⟨ihG, ihE⟩ := ih
    constructor
    · intro gts inp acc els rest h hs hacc
      rw [decodeGroup] at h
      split at h
      · injection h with h; injection h with h1 h2; subst h1 h2
        exact ⟨fun e he => hacc e (List.mem_reverse.mp he), hs⟩
      · split at h
        · cases h
        · rename_i items seen rest1 more he
          obtain ⟨hit, hr1⟩ := ihE gts inp [] [] items seen rest1 more he hs (by simp)
          have hacc' : ∀ e ∈ items.reverse :: acc, itemsFrom b S gts e := by
            intro e he
            rcases List.mem_cons.mp he with he | he
            · subst he; rw [itemsFrom_iff]; intro it hit'; exact hit it (List.mem_reverse.mp hit')
            · exact hacc e he
          split at h
          · cases h
          · split at h
            · injection h with h; injection h with h1 h2; subst h1 h2
              exact ⟨fun e he => hacc e (List.mem_reverse.mp he), hr1⟩
            · split at h
              · exact ihG gts rest1 _ els rest h hr1 hacc'
              · injection h with h; injection h with h1 h2; subst h1 h2
                exact ⟨fun e he => hacc' e (List.mem_reverse.mp he), hr1⟩
    · intro gts inp items seen items' seen' rest more h hs hit
      rw [decodeElem] at h
      split at h
      · injection h with h; injection h with h1 h; injection h with h2 h; injection h with h3 h4
        subst h1 h3; exact ⟨hit, hs⟩
      · rename_i tagT val rest1 hx
        obtain ⟨hv, hr1⟩ := token_from hs hx
        simp only at h
        split at h
        · injection h with h; injection h with h1 h; injection h with h2 h; injection h with h3 h4
          subst h1 h3; exact ⟨hit, hs⟩
        · split at h
          · split at h
            · cases h
            · injection h with h; injection h with h1 h; injection h with h2 h; injection h with h3 h4
              subst h1 h3; exact ⟨hit, hs⟩
          · rename_i tr hf
            split at h
            · cases h
            · split at h
              · injection h with h; injection h with h1 h; injection h with h2 h; injection h with h3 h4
                subst h1 h3; exact ⟨hit, hs⟩
              · split at h
                · cases h
                · rename_i cv hcv
                  have hval : valFrom b gts (tagNum tagT) cv := ⟨tr, val, hf, hv, hcv⟩
                  split at h
                  · split at h
                    · cases h
                    · rename_i els rest' hg
                      obtain ⟨hels, hr'⟩ := ihG (S.group tr.sub) rest1 [] els rest' hg hr1 (by simp)
                      refine ihE gts rest' _ _ items' seen' rest more h hr' ?_
                      intro it hmem
                      rcases List.mem_cons.mp hmem with hmem | hmem
                      · subst hmem
                        rw [itemFrom, subOf_eq hf, elemsFrom_iff]
                        exact ⟨hval, hels⟩
                      · exact hit it hmem
                  · refine ihE gts rest1 _ _ items' seen' rest more h hr1 ?_
                    intro it hmem
                    rcases List.mem_cons.mp hmem with hmem | hmem
                    · subst hmem; rw [itemFrom]; exact hval
                    · exact hit it hmem

theorem section_from (b : Bytes) (S : Schema) (ts : List Trait) (perm : Bool) (fuel : Nat) (inp : Bytes) (items : List Item)
    (seen : List Nat) (unk : Bytes) (firstUnk : Option (Bytes × Nat)) (r : SecResult)
    (h : decodeSection S ts perm fuel inp items seen unk firstUnk = .ok r) (hs : inp <:+: b)
    (hfu : ∀ p n, firstUnk = some (p, n) → p <:+: b) (hit : ∀ it ∈ items, itemFrom b S ts it) :
    (∀ it ∈ r.items, itemFrom b S ts it) ∧ r.rest <:+: b := by
  fun_induction decodeSection S ts perm fuel inp items seen unk firstUnk
  case case1 => cases h
  case case2 =>
    obtain ⟨_, h2⟩ := finish_inv h
    subst h2
    refine ⟨fun it hm => hit it (List.mem_reverse.mp hm), ?_⟩
    simp only
    split
    · split
      · exact hfu _ _ rfl
      · exact hs
    · exact hs
  case case4 =>
    obtain ⟨_, h2⟩ := finish_inv h
    subst h2
    refine ⟨fun it hm => hit it (List.mem_reverse.mp hm), ?_⟩
    simp only
    split
    · split
      · exact hfu _ _ rfl
      · exact hs
    · exact hs
  all_goals (try (obtain ⟨hv, hr1⟩ := token_from hs ‹extractElement _ = some _›))
  case case3 ih =>
    refine ih h hr1 ?_ hit
    intro p n hp
    cases hf : ‹Option (Bytes × Nat)› with
    | none => rw [hf] at hp; simp at hp; rw [← hp.1]; exact hs
    | some q => rw [hf] at hp; simp at hp; exact hfu p n (by rw [hf, hp])
  case case5 ih => exact ih h hr1 hfu hit
  case case10 ih =>
    obtain ⟨hels, hr'⟩ := (group_elem_from b S _ _).1 _ _ [] _ _ ‹decodeGroup _ _ _ _ _ _ = _› hr1 (by simp)
    refine ih h hr' hfu ?_
    intro it hmem
    rcases List.mem_cons.mp hmem with hmem | hmem
    · subst hmem
      rw [itemFrom, subOf_eq ‹findTrait ts _ = some _›, elemsFrom_iff]
      exact ⟨⟨_, _, ‹findTrait ts _ = some _›, hv, ‹canon _ _ = some _›⟩, hels⟩
    · exact hit it hmem
  case case13 ih =>
    obtain ⟨_, hr2⟩ := fixed_from hr1 ‹extractFixed _ _ = some _›
    refine ih h hr2 ?_ ?_
    · intro p n hp
      cases hf : ‹Option (Bytes × Nat)› with
      | none => rw [hf] at hp; simp at hp; rw [← hp.1]; exact hr1
      | some q => rw [hf] at hp; simp at hp; exact hfu p n (by rw [hf, hp])
    · intro it hmem
      rcases List.mem_cons.mp hmem with hmem | hmem
      · subst hmem; rw [itemFrom]; exact ⟨_, _, by assumption, hv, by assumption⟩
      · exact hit it hmem
  case case15 =>
    injection h with h; subst h
    refine ⟨?_, hr1⟩
    intro it hmem
    rcases List.mem_cons.mp (List.mem_reverse.mp hmem) with hmem | hmem
    · subst hmem; rw [itemFrom]; exact ⟨_, _, by assumption, hv, by assumption⟩
    · exact hit it hmem
  case case16 ih =>
    refine ih h hr1 hfu ?_
    intro it hmem
    rcases List.mem_cons.mp hmem with hmem | hmem
    · subst hmem; rw [itemFrom]; exact ⟨_, _, by assumption, hv, by assumption⟩
    · exact hit it hmem
  case case18 ih =>
    rename_i tr2 hf2 hk _
    obtain ⟨hd, hr2⟩ := fixed_from hr1 ‹extractFixed _ _ = some _›
    refine ih h hr2 hfu ?_
    intro it hmem
    rcases List.mem_cons.mp hmem with hmem | hmem
    · subst hmem; rw [itemFrom]
      refine ⟨tr2, _, hf2, hd, ?_⟩
      have : tr2.kind = Kind.data := by
        simp only [Bool.or_eq_true, bne_iff_ne, ne_eq, not_or, Decidable.not_not] at hk
        exact hk.1
      rw [this]; rfl
    · rcases List.mem_cons.mp hmem with hmem | hmem
      · subst hmem; rw [itemFrom]; exact ⟨_, _, by assumption, hv, by assumption⟩
      · exact hit it hmem
  case case19 ih =>
    refine ih h hr1 hfu ?_
    intro it hmem
    rcases List.mem_cons.mp hmem with hmem | hmem
    · subst hmem; rw [itemFrom]; exact ⟨_, _, by assumption, hv, by assumption⟩
    · exact hit it hmem
  all_goals cases h
end Fix8Model.Codec
