import Fix8Model.Codec.SchemaUTEST
import Fix8Model.Gen.SchemaFIX44
/-!
The generated FIX44 schema (two-pass f8c run on schema/FIX44.xml, tables regenerated from the compiled C++ on every
run) as a `Schema` value – same construction as `utest`.  No proofs here; `SchemaWF fix44` is in `SchemaFIX44WF.lean`.
-/
namespace Fix8Model.Codec
open Fix8Model

def fix44 : Schema :=
  { fieldTable := Gen.fix44FieldTable
    beginStr := Gen.fix44BeginStr
    header := Gen.fix44Header.map mkTrait
    trailer := Gen.fix44Trailer.map mkTrait
    msgs := Gen.fix44Msgs.map fun (k, ts) => (k, ts.map mkTrait)
    groups := Gen.fix44Groups.map fun ts => ts.map mkTrait }

end Fix8Model.Codec
