import Fix8Model.Codec.Model
import Fix8Model.Gen.SchemaUTEST
/-!
The generated FIX42UTEST schema as a `Schema` value (the same construction as the codec driver uses; the
tables in `Gen/SchemaUTEST.lean` are regenerated from the compiled C++ trait tables on every run).  No proofs here,
so that the driver can import this file; `SchemaWF utest` is proved in `SchemaUTESTWF.lean`.
-/
namespace Fix8Model.Codec
open Fix8Model

def kindOfNat : Nat → Kind
  | 0 => .int | 1 => .length | 2 => .char | 3 => .bool | 4 => .float | 5 => .string | 6 => .monthYear
  | 7 => .timestamp | 8 => .timeOnly | 9 => .dateOnly | 10 => .data | _ => .other

def flagBit (flags i : Nat) : Bool := flags / 2 ^ i % 2 == 1

def mkTrait (r : Gen.RawTrait) : Trait :=
  { tag := r.tag
    kind := kindOfNat ((Gen.ftypeKind.lookup r.ftype).getD 11)
    pos := if flagBit r.flags 2 then r.pos else 0     -- `getPos` reports 0 unless the position bit is set
    mandatory := flagBit r.flags 0, preset := flagBit r.flags 1, group := flagBit r.flags 3, suppress := flagBit r.flags 5, automatic := flagBit r.flags 6
    sub := r.sub }

def utest : Schema :=
  { fieldTable := Gen.utestFieldTable
    beginStr := Gen.utestBeginStr
    header := Gen.utestHeader.map mkTrait
    trailer := Gen.utestTrailer.map mkTrait
    msgs := Gen.utestMsgs.map fun (k, ts) => (k, ts.map mkTrait)
    groups := Gen.utestGroups.map fun ts => ts.map mkTrait }

end Fix8Model.Codec
