import Fix8Model.Codec.Model
import Fix8Model.Codec.TokenLemmas
import Fix8Model.Gen.EncodeLadder
/-!
Index model of `Message::encode(char**)` writing into the stack buffer
`char output[FIX8_MAX_MSG_LENGTH + HEADER_CALC_OFFSET]` of `Message::encode(f8String&)` (runtime/message.cpp).

* header, body and trailer (= the payload, `msgLen` bytes) are written upward from index `HEADER_CALC_OFFSET`;
* `hlen = _preamble_sz + ladder msgLen`, `_preamble_sz = 2 + |BeginString| + 1 + 3`; the preamble
  `8=<BeginString>|9=<msgLen>|` is written upward from index `HEADER_CALC_OFFSET - hlen`;
* the CheckSum field `10=ccc|` (7 bytes) is written after the payload, then one NUL.

Indices are relative to `output`; they are integers because the preamble start is computed by pointer subtraction.
-/
namespace Fix8Model.Codec
open Fix8Model Fix8Model.Digits

/-- `msgLen < 10 ? 1 : msgLen < 100 ? 2 : … : 7` with the thresholds taken from the source -/
def ladder (msgLen : Nat) : Nat :=
  ((Gen.encodeLadder.find? fun p => msgLen < p.1).map (·.2)).getD Gen.encodeLadderDefault

/-- `sizeof output` in `Message::encode(f8String&)` -/
def encBufSize : Nat := Gen.maxMsgLength + Gen.headerCalcOffset

/-- `hlen` -/
def hlen (beginLen msgLen : Nat) : Nat := beginLen + Gen.preambleExtra + ladder msgLen

/-- index of the first preamble byte: `moffs - hlen` -/
def preambleStart (beginLen msgLen : Nat) : Int := (Gen.headerCalcOffset : Int) - (hlen beginLen msgLen : Int)

/-- the writes of one `encode` call, in program order: (index into `output`, byte) -/
def encodeWrites (S : Schema) (payload : Bytes) : List (Int × Nat) :=
  let msgLen := payload.length
  let pre := renderField 8 S.beginStr ++ renderField 9 (itoa msgLen)
  let lo := preambleStart S.beginStr.length msgLen
  let ck := renderField 10 (fmt3 (byteSum (pre ++ payload) % 256))
  (payload.zipIdx.map fun ci => (((Gen.headerCalcOffset + ci.2 : Nat) : Int), ci.1)) ++
  (pre.zipIdx.map fun ci => (lo + (ci.2 : Nat), ci.1)) ++
  (ck.zipIdx.map fun ci => (((Gen.headerCalcOffset + msgLen + ci.2 : Nat) : Int), ci.1)) ++
  [(((Gen.headerCalcOffset + msgLen + ck.length : Nat) : Int), 0)]

/-- lowest and highest index written, as functions of the two lengths only -/
def lowestIndex (beginLen msgLen : Nat) : Int := preambleStart beginLen msgLen
def highestIndex (msgLen : Nat) : Int := ((Gen.headerCalcOffset + msgLen + 7 : Nat) : Int)

/-- every write of the call lies inside `output` -/
def encodeInBuffer (beginLen msgLen : Nat) : Prop := 0 ≤ lowestIndex beginLen msgLen ∧ highestIndex msgLen < (encBufSize : Int)

instance (a b : Nat) : Decidable (encodeInBuffer a b) := by unfold encodeInBuffer; exact inferInstance

/-! ### the ladder -/

theorem natDigits_length_eq : ∀ (k n : Nat), 10 ^ k ≤ n → n < 10 ^ (k + 1) → (natDigits n).length = k + 1
  | 0, n, _, h2 => by rw [natDigits_lt n (by simpa using h2)]; rfl
  | k + 1, n, h1, h2 => by
    have h10 : ¬ n < 10 := by
      have : 10 ^ 1 ≤ 10 ^ (k + 1) := Nat.pow_le_pow_right (by omega) (by omega)
      omega
    rw [natDigits_ge n h10]
    have ih := natDigits_length_eq k (n / 10) (by
        rw [Nat.pow_succ] at h1; exact (Nat.le_div_iff_mul_le (by omega)).mpr h1) (by
        rw [Nat.pow_succ] at h2; exact Nat.div_lt_of_lt_mul (by omega))
    simp [ih]

/-- (i) the ladder is the number of decimal digits of `msgLen` for every `msgLen < 10^7` -/
theorem ladder_eq_digits (n : Nat) (h : n < 10 ^ 7) : ladder n = (natDigits n).length := by
  unfold ladder
  simp only [Gen.encodeLadder, Gen.encodeLadderDefault, List.find?]
  by_cases h1 : n < 10
  · simp [h1, natDigits_lt n h1]
  · by_cases h2 : n < 100
    · simp [h1, h2, natDigits_length_eq 1 n (by omega) (by omega)]
    · by_cases h3 : n < 1000
      · simp [h1, h2, h3, natDigits_length_eq 2 n (by omega) (by omega)]
      · by_cases h4 : n < 10000
        · simp [h1, h2, h3, h4, natDigits_length_eq 3 n (by omega) (by omega)]
        · by_cases h5 : n < 100000
          · simp [h1, h2, h3, h4, h5, natDigits_length_eq 4 n (by omega) (by omega)]
          · by_cases h6 : n < 1000000
            · simp [h1, h2, h3, h4, h5, h6, natDigits_length_eq 5 n (by omega) (by omega)]
            · simp [h1, h2, h3, h4, h5, h6, natDigits_length_eq 6 n (by omega) (by omega)]

theorem ladder_pos_le (n : Nat) : 1 ≤ ladder n ∧ ladder n ≤ 7 := by
  unfold ladder
  simp only [Gen.encodeLadder, Gen.encodeLadderDefault, List.find?]
  by_cases h1 : n < 10
  · simp [h1]
  · by_cases h2 : n < 100
    · simp [h1, h2]
    · by_cases h3 : n < 1000
      · simp [h1, h2, h3]
      · by_cases h4 : n < 10000
        · simp [h1, h2, h3, h4]
        · by_cases h5 : n < 100000
          · simp [h1, h2, h3, h4, h5]
          · by_cases h6 : n < 1000000
            · simp [h1, h2, h3, h4, h5, h6]
            · simp [h1, h2, h3, h4, h5, h6]

theorem natDigits_length_ge : ∀ (k m : Nat), 10 ^ k ≤ m → k + 1 ≤ (natDigits m).length := by
  intro k
  induction k with
  | zero => intro m _; exact natDigits_length_pos m
  | succ k ih =>
    intro m hm
    have hm10 : ¬ m < 10 := by
      have : 10 ^ 1 ≤ 10 ^ (k + 1) := Nat.pow_le_pow_right (by omega) (by omega)
      omega
    rw [natDigits_ge m hm10]
    have := ih (m / 10) (by rw [Nat.pow_succ] at hm; exact (Nat.le_div_iff_mul_le (by omega)).mpr hm)
    simp; omega

/-- beyond the ladder the digit count exceeds what was reserved: the preamble then runs into the payload -/
theorem ladder_short (n : Nat) (h : 10 ^ 7 ≤ n) : ladder n < (natDigits n).length := by
  have hl := (ladder_pos_le n).2
  have := natDigits_length_ge 7 n h
  omega

/-! ### lengths of the fixed parts -/

theorem natDigits_8 : natDigits 8 = [56] := natDigits_lt 8 (by omega)
theorem natDigits_9 : natDigits 9 = [57] := natDigits_lt 9 (by omega)
theorem natDigits_10 : natDigits 10 = [49, 48] := by
  rw [natDigits_ge 10 (by omega), natDigits_lt (10 / 10) (by omega)]; rfl

theorem itoa_nat (n : Nat) : itoa (n : Int) = natDigits n := by
  rw [itoa_eq]
  unfold decimalRepr
  have : ¬ ((n : Nat) : Int) < 0 := by omega
  simp [this]

/-- the CheckSum field is 7 bytes -/
theorem checksum_field_length (c : Nat) : (renderField 10 (fmt3 c)).length = 7 := by
  simp [renderField, renderTag, natDigits_10, fmt3]

/-- the preamble as written: `2 + |BeginString| + 1 + 2 + digits + 1` bytes -/
theorem preamble_length (S : Schema) (n : Nat) :
    (renderField 8 S.beginStr ++ renderField 9 (itoa (n : Int))).length = S.beginStr.length + 6 + (natDigits n).length := by
  simp [renderField, renderTag, natDigits_8, natDigits_9, itoa_nat]
  omega

end Fix8Model.Codec
