import Fix8Model.Codec.Model
namespace Fix8Model.Codec

def SortedPos (l : List (Nat × Item)) : Prop := l.Pairwise (fun a b => a.1 ≤ b.1)

theorem insertByPos_perm (p : Nat) (x : Nat × Item) (l : List (Nat × Item)) : (insertByPos p x l).Perm (x :: l) := by
  induction l with
  | nil => exact List.Perm.refl _
  | cons y ys ih =>
    unfold insertByPos
    split
    · exact List.Perm.refl _
    · exact (List.Perm.cons y ih).trans (List.Perm.swap x y ys)

theorem insertByPos_mem (p : Nat) (x : Nat × Item) (l : List (Nat × Item)) (z : Nat × Item) :
    z ∈ insertByPos p x l ↔ z = x ∨ z ∈ l := by
  rw [(insertByPos_perm p x l).mem_iff]; simp

theorem insertByPos_sorted (x : Nat × Item) (l : List (Nat × Item)) (h : SortedPos l) : SortedPos (insertByPos x.1 x l) := by
  induction l with
  | nil => simp [insertByPos, SortedPos]
  | cons y ys ih =>
    unfold insertByPos
    have hy := List.pairwise_cons.mp h
    split
    · rename_i hlt
      refine List.pairwise_cons.mpr ⟨?_, h⟩
      intro z hz
      simp at hz
      rcases hz with hz | hz
      · subst hz; omega
      · have := hy.1 z hz; omega
    · rename_i hge
      refine List.pairwise_cons.mpr ⟨?_, ih hy.2⟩
      intro z hz
      rw [insertByPos_mem] at hz
      rcases hz with hz | hz
      · subst hz; omega
      · exact hy.1 z hz

/-- every entry is keyed by the schema position of its tag -/
def KeyedBy (ts : List Trait) (l : List (Nat × Item)) : Prop :=
  ∀ e ∈ l, ∃ tr, findTrait ts e.2.tag = some tr ∧ e.1 = tr.pos

theorem placeItem_inv (ts : List Trait) (acc acc' : List (Nat × Item)) (it : Item)
    (hs : SortedPos acc) (hk : KeyedBy ts acc) (h : placeItem ts acc it = .ok acc') :
    SortedPos acc' ∧ KeyedBy ts acc' := by
  unfold placeItem at h
  cases hf : findTrait ts it.tag with
  | none => rw [hf] at h; cases h
  | some tr =>
    rw [hf] at h
    simp only at h
    split at h
    · -- replace: keys unchanged
      injection h with h; subst h
      constructor
      · unfold SortedPos
        rw [List.pairwise_map]
        refine List.Pairwise.imp ?_ hs
        intro a b hab
        split <;> split <;> exact hab
      · intro e he
        rw [List.mem_map] at he
        obtain ⟨e0, he0, rfl⟩ := he
        split
        · rename_i heq
          refine ⟨tr, ?_, ?_⟩
          · exact hf
          · obtain ⟨tr0, h1, h2⟩ := hk e0 he0
            have : e0.2.tag = it.tag := by simpa using heq
            rw [this, hf] at h1
            injection h1 with h1; subst h1; exact h2
        · exact hk e0 he0
    · injection h with h; subst h
      constructor
      · exact insertByPos_sorted (tr.pos, it) acc hs
      · intro e he
        rw [insertByPos_mem] at he
        rcases he with he | he
        · subst he; exact ⟨tr, hf, rfl⟩
        · exact hk e he

theorem placeAll_inv (ts : List Trait) (items : List Item) : ∀ (init out : List (Nat × Item)),
    SortedPos init → KeyedBy ts init → placeAll ts init items = .ok out → SortedPos out ∧ KeyedBy ts out := by
  induction items with
  | nil =>
    intro init out hs hk h
    simp [placeAll, List.foldlM, pure, Except.pure] at h
    subst h; exact ⟨hs, hk⟩
  | cons it rest ih =>
    intro init out hs hk h
    simp only [placeAll, List.foldlM_cons] at h
    cases h1 : placeItem ts init it with
    | error e => rw [h1] at h; simp [bind, Except.bind] at h
    | ok acc1 =>
      rw [h1] at h
      simp only [bind, Except.bind] at h
      obtain ⟨s1, k1⟩ := placeItem_inv ts init acc1 it hs hk h1
      exact ih acc1 out s1 k1 h

/-- when no tag repeats, placing is a permutation of the keyed items -/
theorem placeAll_perm (ts : List Trait) (items : List Item) : ∀ (init out : List (Nat × Item)),
    (∀ it ∈ items, ∀ e ∈ init, e.2.tag ≠ it.tag) → (items.map (·.tag)).Nodup →
    placeAll ts init items = .ok out →
    ∃ keyed : List (Nat × Item), out.Perm (keyed ++ init) ∧ keyed.map (·.2) = items.reverse ∧
      ∀ e ∈ keyed, ∃ tr, findTrait ts e.2.tag = some tr ∧ e.1 = tr.pos := by
  induction items with
  | nil =>
    intro init out _ _ h
    simp [placeAll, List.foldlM, pure, Except.pure] at h
    subst h
    exact ⟨[], List.Perm.refl _, rfl, by simp⟩
  | cons it rest ih =>
    intro init out hfresh hnd h
    simp only [placeAll, List.foldlM_cons] at h
    cases h1 : placeItem ts init it with
    | error e => rw [h1] at h; simp [bind, Except.bind] at h
    | ok acc1 =>
      rw [h1] at h
      simp only [bind, Except.bind] at h
      -- the insert branch
      unfold placeItem at h1
      cases hf : findTrait ts it.tag with
      | none => rw [hf] at h1; cases h1
      | some tr =>
        rw [hf] at h1
        simp only at h1
        have hno : init.any (fun e => e.2.tag == it.tag) = false := by
          rw [List.any_eq_false]
          intro e he
          have := hfresh it (by simp) e he
          simp [this]
        rw [hno] at h1
        simp only [Bool.false_eq_true, if_false] at h1
        injection h1 with h1
        subst h1
        have hnd' : it.tag ∉ rest.map (·.tag) ∧ (rest.map (·.tag)).Nodup := by
          rw [List.map_cons] at hnd; exact List.nodup_cons.mp hnd
        have hfresh' : ∀ it' ∈ rest, ∀ e ∈ insertByPos tr.pos (tr.pos, it) init, e.2.tag ≠ it'.tag := by
          intro it' hit' e he
          rw [insertByPos_mem] at he
          rcases he with he | he
          · subst he
            intro heq
            apply hnd'.1
            rw [List.mem_map]
            exact ⟨it', hit', heq.symm⟩
          · exact hfresh it' (by simp [hit']) e he
        obtain ⟨keyed, hp, hm, hk⟩ := ih _ out hfresh' hnd'.2 h
        refine ⟨keyed ++ [(tr.pos, it)], ?_, ?_, ?_⟩
        · refine hp.trans ?_
          have := insertByPos_perm tr.pos (tr.pos, it) init
          have h2 : (keyed ++ insertByPos tr.pos (tr.pos, it) init).Perm (keyed ++ ((tr.pos, it) :: init)) :=
            List.Perm.append_left keyed this
          refine h2.trans ?_
          simp
        · simp [hm]
        · intro e he
          rw [List.mem_append] at he
          rcases he with he | he
          · exact hk e he
          · simp at he; subst he; exact ⟨tr, hf, rfl⟩

end Fix8Model.Codec
