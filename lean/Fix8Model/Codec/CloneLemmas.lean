import Fix8Model.Codec.Clone
import Fix8Model.Codec.EncodeLemmas
/-!
Helper definitions (the decidable `Canonical` predicate, `presetOk`) and lemmas for C11
(`copy_legal` / `move_legal` / `clone`).
-/
namespace Fix8Model.Codec

/-! ## predicates used in the statements -/

/-- schema position of an item's tag in a trait list (0 when the tag is not legal) -/
def posOf (ts : List Trait) (it : Item) : Nat := ((findTrait ts it.tag).map (·.pos)).getD 0

/-- consecutive numbers strictly increasing -/
def strictInc : List Nat → Bool
  | [] => true
  | a :: rest => (match rest with | [] => true | b :: _ => decide (a < b)) && strictInc rest

/-- one level: every tag is legal and the schema positions of consecutive items strictly increase -/
def topOk (ts : List Trait) (items : List Item) : Bool :=
  items.all (fun it => (findTrait ts it.tag).isSome) && strictInc (items.map (posOf ts))

mutual
  /-- the nested part: a `.grp` item has a group trait and every element is canonical w.r.t. the group's traits -/
  def deepOk (S : Schema) (ts : List Trait) : List Item → Bool
    | [] => true
    | it :: rest =>
      (match it with
       | .fld _ _ => true
       | .grp t _ els =>
         match findTrait ts t with
         | none => false
         | some tr => tr.group && elemsOk S (S.group tr.sub) els)
      && deepOk S ts rest
  def elemsOk (S : Schema) (gts : List Trait) : List (List Item) → Bool
    | [] => true
    | e :: es => topOk gts e && deepOk S gts e && elemsOk S gts es
end

/-- a section as the API builds it (any insertion order): legal tags, strictly increasing schema positions (hence no
tag twice), groups on group traits only, every group element again canonical – to any depth -/
def Canonical (S : Schema) (ts : List Trait) (items : List Item) : Bool := topOk ts items && deepOk S ts items

/-- `.fld t v ∈ items`, decidably -/
def hasFld (items : List Item) (t : Nat) (v : Bytes) : Bool :=
  items.any fun it => match it with
    | .fld t' v' => t' == t && v' == v
    | .grp _ _ _ => false

/-- every field the constructor of the target has already set is either never encoded (`suppress`) or is a plain
field that occurs identically in the source -/
def presetOk (ts : List Trait) (fresh : List (Nat × Item)) (items : List Item) : Bool :=
  fresh.all fun e => (findTrait ts e.2.tag).any (·.suppress) ||
    (match e.2 with
     | .fld t v => hasFld items t v
     | .grp _ _ _ => false)

/-- the field is encoded (its trait does not carry `suppress`) -/
def visible (ts : List Trait) (it : Item) : Bool := !(findTrait ts it.tag).any (·.suppress)

/-! ## generic list facts -/

theorem strictInc_iff : ∀ l : List Nat, strictInc l = true ↔ l.Pairwise (· < ·)
  | [] => by simp [strictInc]
  | [a] => by simp [strictInc]
  | a :: b :: r => by
    have ih := strictInc_iff (b :: r)
    rw [strictInc, Bool.and_eq_true, ih]
    simp only [decide_eq_true_eq]
    constructor
    · rintro ⟨hab, hp⟩
      refine List.pairwise_cons.mpr ⟨?_, hp⟩
      intro x hx
      rcases List.mem_cons.mp hx with rfl | hx
      · exact hab
      · exact Nat.lt_trans hab ((List.pairwise_cons.mp hp).1 x hx)
    · intro hp
      have := List.pairwise_cons.mp hp
      exact ⟨this.1 b (by simp), this.2⟩

theorem pairwise_lt_inj {α : Type} (k : α → Nat) : ∀ (l : List α), l.Pairwise (fun a b => k a < k b) →
    ∀ a b, a ∈ l → b ∈ l → k a = k b → a = b
  | [], _, a, _, ha, _, _ => by cases ha
  | x :: xs, hp, a, b, ha, hb, hk => by
    have hx := List.pairwise_cons.mp hp
    rcases List.mem_cons.mp ha with rfl | ha' <;> rcases List.mem_cons.mp hb with rfl | hb'
    · rfl
    · have := hx.1 b hb'; omega
    · have := hx.1 a ha'; omega
    · exact pairwise_lt_inj k xs hx.2 a b ha' hb' hk

/-- a list sorted by a key is determined by its members when equal keys mean equal members -/
theorem eq_of_sorted_nodup_mem {α : Type} (k : α → Nat) (l1 l2 : List α)
    (s1 : l1.Pairwise (fun a b => k a ≤ k b)) (s2 : l2.Pairwise (fun a b => k a ≤ k b))
    (n1 : l1.Nodup) (n2 : l2.Nodup) (hm : ∀ a, a ∈ l1 ↔ a ∈ l2)
    (hinj : ∀ a b, a ∈ l2 → b ∈ l2 → k a = k b → a = b) : l1 = l2 := by
  have hperm : l1.Perm l2 := (List.perm_ext_iff_of_nodup n1 n2).mpr hm
  refine List.Perm.eq_of_pairwise (le := fun a b => k a ≤ k b) ?_ s1 s2 hperm
  intro a b ha hb hab hba
  exact hinj a b ((hm a).mp ha) hb (by omega)

theorem find_tag {items : List Item} {t : Nat} {it : Item} (h : items.find? (·.tag == t) = some it) :
    it.tag = t ∧ it ∈ items := by
  refine ⟨?_, List.mem_of_find?_eq_some h⟩
  have := List.find?_some h
  simpa using this

theorem findTrait_tag {ts : List Trait} {t : Nat} {tr : Trait} (h : findTrait ts t = some tr) : tr.tag = t ∧ tr ∈ ts := by
  unfold findTrait at h
  refine ⟨?_, List.mem_of_find?_eq_some h⟩
  have := List.find?_some h
  simpa using this

theorem posOf_of_find {ts : List Trait} {it : Item} {tr : Trait} (h : findTrait ts it.tag = some tr) : posOf ts it = tr.pos := by
  simp [posOf, h]

theorem posOf_tag {ts : List Trait} {a b : Item} (h : a.tag = b.tag) : posOf ts a = posOf ts b := by
  simp [posOf, h]

theorem visible_tag {ts : List Trait} {a b : Item} (h : a.tag = b.tag) : visible ts a = visible ts b := by
  simp [visible, h]

theorem hasFld_iff (items : List Item) (t : Nat) (v : Bytes) : hasFld items t v = true ↔ Item.fld t v ∈ items := by
  unfold hasFld
  rw [List.any_eq_true]
  constructor
  · rintro ⟨it, hit, h⟩
    cases it with
    | fld t' v' =>
      simp only [Bool.and_eq_true, beq_iff_eq] at h
      obtain ⟨rfl, rfl⟩ := h
      exact hit
    | grp _ _ _ => simp at h
  · intro h
    exact ⟨_, h, by simp⟩

theorem topOk_iff (ts : List Trait) (items : List Item) :
    topOk ts items = true ↔
      (∀ it ∈ items, ∃ tr, findTrait ts it.tag = some tr) ∧ items.Pairwise (fun a b => posOf ts a < posOf ts b) := by
  unfold topOk
  rw [Bool.and_eq_true, strictInc_iff, List.pairwise_map, List.all_eq_true]
  constructor
  · rintro ⟨h1, h2⟩
    refine ⟨?_, h2⟩
    intro it hit
    exact Option.isSome_iff_exists.mp (h1 it hit)
  · rintro ⟨h1, h2⟩
    refine ⟨?_, h2⟩
    intro it hit
    exact Option.isSome_iff_exists.mpr (h1 it hit)

/-! ## `insertByPos`, `placeItem` -/

/-- under the guards of `copy_legal` (`legal`, `absent`) the model's insertion is exactly `add_field` = `placeItem` -/
theorem placeItem_of_legal_absent (tts : List Trait) (tgt : List (Nat × Item)) (it : Item) (ttr : Trait)
    (hl : findTrait tts it.tag = some ttr) (ha : tgt.any (·.2.tag == it.tag) = false) :
    placeItem tts tgt it = .ok (insertByPos ttr.pos (ttr.pos, it) tgt) := by
  unfold placeItem
  rw [hl]
  simp only [ha, Bool.false_eq_true, if_false]

/-- one `copy_legal` iteration that transfers a field is `add_field` on the target -/
theorem transferStep_eq_placeItem (tts : List Trait) (items : List Item) (tgt : List (Nat × Item)) (pp : Trait)
    (it : Item) (ttr : Trait) (hp : items.find? (·.tag == pp.tag) = some it) (hl : findTrait tts pp.tag = some ttr)
    (ha : tgt.any (·.2.tag == pp.tag) = false) :
    placeItem tts tgt it = .ok (transferStep tts items tgt pp) := by
  have ht := (find_tag hp).1
  unfold transferStep
  rw [hp]
  simp only [hl, ha, Bool.false_eq_true, if_false]
  exact placeItem_of_legal_absent tts tgt it ttr (by rw [ht]; exact hl) (by rw [ht]; exact ha)

/-! ## the trait iteration -/

/-- what one iteration may add -/
def Cand (tts : List Trait) (items : List Item) (tgt : List (Nat × Item)) (pp : Trait) (e : Nat × Item) : Prop :=
  ∃ it ttr, items.find? (·.tag == pp.tag) = some it ∧ findTrait tts pp.tag = some ttr ∧
    tgt.any (·.2.tag == pp.tag) = false ∧ e = (ttr.pos, it)

theorem transferStep_mem (tts : List Trait) (items : List Item) (tgt : List (Nat × Item)) (pp : Trait) (e : Nat × Item) :
    e ∈ transferStep tts items tgt pp ↔ e ∈ tgt ∨ Cand tts items tgt pp e := by
  unfold transferStep
  cases hp : items.find? (·.tag == pp.tag) with
  | none =>
    refine ⟨Or.inl, ?_⟩
    rintro (h | ⟨it, ttr, h1, _⟩)
    · exact h
    · rw [hp] at h1; cases h1
  | some it =>
    cases hl : findTrait tts pp.tag with
    | none =>
      refine ⟨Or.inl, ?_⟩
      rintro (h | ⟨it, ttr, _, h2, _⟩)
      · exact h
      · rw [hl] at h2; cases h2
    | some ttr =>
      cases ha : tgt.any (·.2.tag == pp.tag) with
      | true =>
        simp only [if_true]
        refine ⟨Or.inl, ?_⟩
        rintro (h | ⟨it, ttr, _, _, h3, _⟩)
        · exact h
        · rw [ha] at h3; cases h3
      | false =>
        simp only [Bool.false_eq_true, if_false]
        rw [insertByPos_mem]
        constructor
        · rintro (h | h)
          · exact Or.inr ⟨it, ttr, hp, hl, ha, h⟩
          · exact Or.inl h
        · rintro (h | ⟨it', ttr', h1, h2, _, h4⟩)
          · exact Or.inr h
          · rw [hp] at h1; rw [hl] at h2
            injection h1 with h1; injection h2 with h2; subst h1; subst h2; exact Or.inl h4

theorem transferStep_sub (tts : List Trait) (items : List Item) (tgt : List (Nat × Item)) (pp : Trait) (e : Nat × Item)
    (h : e ∈ tgt) : e ∈ transferStep tts items tgt pp := (transferStep_mem tts items tgt pp e).mpr (Or.inl h)

theorem any_tag_mono {l1 l2 : List (Nat × Item)} (t : Nat) (hsub : ∀ e ∈ l1, e ∈ l2)
    (h : l2.any (·.2.tag == t) = false) : l1.any (·.2.tag == t) = false := by
  rw [List.any_eq_false] at h ⊢
  intro x hx
  exact h x (hsub x hx)

/-- membership in the result of the whole iteration: what was there, plus, for every trait present in the source,
legal for the target and absent from the ORIGINAL target, the source's field keyed by the target's position -/
theorem transfer_mem (tts : List Trait) (items : List Item) (e : Nat × Item) : ∀ (sts : List Trait) (tgt : List (Nat × Item)),
    e ∈ transfer sts tts items tgt ↔ e ∈ tgt ∨ ∃ pp ∈ sts, Cand tts items tgt pp e := by
  intro sts
  induction sts with
  | nil => intro tgt; simp [transfer]
  | cons pp rest ih =>
    intro tgt
    have ih' := ih (transferStep tts items tgt pp)
    unfold transfer at ih' ⊢
    rw [List.foldl_cons, ih', transferStep_mem]
    constructor
    · rintro ((h | h) | ⟨pp', hpp', it, ttr, h1, h2, h3, h4⟩)
      · exact Or.inl h
      · exact Or.inr ⟨pp, by simp, h⟩
      · exact Or.inr ⟨pp', by simp [hpp'], it, ttr, h1, h2,
          any_tag_mono pp'.tag (fun x hx => transferStep_sub tts items tgt pp x hx) h3, h4⟩
    · rintro (h | ⟨pp', hpp', it, ttr, h1, h2, h3, h4⟩)
      · exact Or.inl (Or.inl h)
      · rcases List.mem_cons.mp hpp' with rfl | hin
        · exact Or.inl (Or.inr ⟨it, ttr, h1, h2, h3, h4⟩)
        · cases hany : (transferStep tts items tgt pp).any (·.2.tag == pp'.tag) with
          | false => exact Or.inr ⟨pp', hin, it, ttr, h1, h2, hany, h4⟩
          | true =>
            -- an entry with this tag appeared in this very step: it is the same entry
            rw [List.any_eq_true] at hany
            obtain ⟨x, hx, hxt⟩ := hany
            rcases (transferStep_mem tts items tgt pp x).mp hx with hx | ⟨it0, ttr0, g1, g2, _, g4⟩
            · rw [List.any_eq_false] at h3
              exact absurd hxt (h3 x hx)
            · have e0 : it0.tag = pp.tag := (find_tag g1).1
              have e1 : pp.tag = pp'.tag := by
                subst g4
                simp only [beq_iff_eq] at hxt
                rw [← e0]; exact hxt
              rw [e1] at g1 g2
              rw [g1] at h1; rw [g2] at h2
              injection h1 with h1; injection h2 with h2
              subst h1; subst h2
              refine Or.inl (Or.inr ⟨it0, ttr0, ?_, ?_, ?_, h4⟩)
              · rw [e1]; exact g1
              · rw [e1]; exact g2
              · rw [e1]; exact h3

theorem transfer_sub (sts tts : List Trait) (items : List Item) (tgt : List (Nat × Item)) (e : Nat × Item)
    (h : e ∈ tgt) : e ∈ transfer sts tts items tgt := (transfer_mem tts items e sts tgt).mpr (Or.inl h)

theorem transferStep_sorted (tts : List Trait) (items : List Item) (tgt : List (Nat × Item)) (pp : Trait)
    (h : SortedPos tgt) : SortedPos (transferStep tts items tgt pp) := by
  unfold transferStep
  split
  · exact h
  · split
    · exact h
    · split
      · exact h
      · exact insertByPos_sorted (_, _) tgt h

theorem transfer_sorted (tts : List Trait) (items : List Item) : ∀ (sts : List Trait) (tgt : List (Nat × Item)),
    SortedPos tgt → SortedPos (transfer sts tts items tgt) := by
  intro sts
  induction sts with
  | nil => intro tgt h; exact h
  | cons pp rest ih =>
    intro tgt h
    unfold transfer
    rw [List.foldl_cons]
    exact ih _ (transferStep_sorted tts items tgt pp h)

theorem transfer_keyed (sts tts : List Trait) (items : List Item) (tgt : List (Nat × Item))
    (h : KeyedBy tts tgt) : KeyedBy tts (transfer sts tts items tgt) := by
  intro e he
  rcases (transfer_mem tts items e sts tgt).mp he with he | ⟨pp, _, it, ttr, h1, h2, _, h4⟩
  · exact h e he
  · subst h4
    refine ⟨ttr, ?_, rfl⟩
    show findTrait tts it.tag = some ttr
    rw [(find_tag h1).1]; exact h2

/-- no tag twice in a `_pos` map -/
def TagsNodup (l : List (Nat × Item)) : Prop := (l.map (·.2.tag)).Nodup

theorem insertByPos_tagsNodup (p : Nat) (x : Nat × Item) (l : List (Nat × Item))
    (h : TagsNodup l) (ha : l.any (·.2.tag == x.2.tag) = false) : TagsNodup (insertByPos p x l) := by
  unfold TagsNodup at h ⊢
  rw [((insertByPos_perm p x l).map _).nodup_iff, List.map_cons, List.nodup_cons]
  refine ⟨?_, h⟩
  intro hin
  rw [List.mem_map] at hin
  obtain ⟨y, hy, hyt⟩ := hin
  rw [List.any_eq_false] at ha
  exact ha y hy (by simp [hyt])

theorem transferStep_tagsNodup (tts : List Trait) (items : List Item) (tgt : List (Nat × Item)) (pp : Trait)
    (h : TagsNodup tgt) : TagsNodup (transferStep tts items tgt pp) := by
  unfold transferStep
  cases hp : items.find? (·.tag == pp.tag) with
  | none => exact h
  | some it =>
    cases hl : findTrait tts pp.tag with
    | none => exact h
    | some ttr =>
      cases ha : tgt.any (·.2.tag == pp.tag) with
      | true => simpa using h
      | false =>
        simp only [Bool.false_eq_true, if_false]
        refine insertByPos_tagsNodup _ _ _ h ?_
        show tgt.any (·.2.tag == it.tag) = false
        rw [(find_tag hp).1]; exact ha

theorem transfer_tagsNodup (tts : List Trait) (items : List Item) : ∀ (sts : List Trait) (tgt : List (Nat × Item)),
    TagsNodup tgt → TagsNodup (transfer sts tts items tgt) := by
  intro sts
  induction sts with
  | nil => intro tgt h; exact h
  | cons pp rest ih =>
    intro tgt h
    unfold transfer
    rw [List.foldl_cons]
    exact ih _ (transferStep_tagsNodup tts items tgt pp h)

theorem tagsNodup_items {l : List (Nat × Item)} (h : TagsNodup l) : (l.map (·.2)).Nodup := by
  unfold TagsNodup at h
  have : (l.map (·.2.tag)) = (l.map (·.2)).map (·.tag) := by rw [List.map_map]; rfl
  rw [this] at h
  unfold List.Nodup at h ⊢
  rw [List.pairwise_map] at h
  exact h.imp (fun hab heq => hab (by rw [heq]))

theorem sorted_items {ts : List Trait} {l : List (Nat × Item)} (hs : SortedPos l) (hk : KeyedBy ts l) :
    (l.map (·.2)).Pairwise (fun a b => posOf ts a ≤ posOf ts b) := by
  rw [List.pairwise_map]
  refine List.Pairwise.imp_of_mem ?_ hs
  intro a b ha hb hab
  obtain ⟨ta, fa, qa⟩ := hk a ha
  obtain ⟨tb, fb, qb⟩ := hk b hb
  rw [posOf_of_find fa, posOf_of_find fb, ← qa, ← qb]; exact hab

/-! ## same-type transfer: the visible part of the result is the visible part of the source -/

/-- the general statement behind `copy_legal_same`, `move_legal_same` and `clone`: transferring a canonical level
into a target of the SAME trait list whose pre-set visible fields all occur identically in the source yields, after
dropping the suppressed fields, exactly the source's visible fields in the source's order -/
theorem transfer_visible_same (ts : List Trait) (items : List Item) (fresh : List (Nat × Item))
    (hc : topOk ts items = true) (hs : SortedPos fresh) (hk : KeyedBy ts fresh) (hn : TagsNodup fresh)
    (hpre : ∀ e ∈ fresh, visible ts e.2 = true → e.2 ∈ items) :
    ((transfer ts ts items fresh).map (·.2)).filter (visible ts) = items.filter (visible ts) := by
  obtain ⟨hleg, hstrict⟩ := (topOk_iff ts items).mp hc
  have hinj := pairwise_lt_inj (posOf ts) items hstrict
  refine eq_of_sorted_nodup_mem (posOf ts) _ _ ?_ ?_ ?_ ?_ ?_ ?_
  · exact (sorted_items (transfer_sorted ts items ts fresh hs) (transfer_keyed ts ts items fresh hk)).filter _
  · exact (hstrict.imp (fun h => Nat.le_of_lt h)).filter _
  · exact List.Pairwise.filter _ (tagsNodup_items (transfer_tagsNodup ts items ts fresh hn))
  · refine List.Pairwise.filter _ (hstrict.imp ?_)
    intro a b hab heq; subst heq; omega
  · intro a
    rw [List.mem_filter, List.mem_filter, List.mem_map]
    constructor
    · rintro ⟨⟨e, he, rfl⟩, hv⟩
      refine ⟨?_, hv⟩
      rcases (transfer_mem ts items e ts fresh).mp he with he | ⟨pp, _, it, ttr, h1, _, _, h4⟩
      · exact hpre e he hv
      · subst h4; exact (find_tag h1).2
    · rintro ⟨ha, hv⟩
      refine ⟨?_, hv⟩
      obtain ⟨tr, htr⟩ := hleg a ha
      cases hany : fresh.any (·.2.tag == a.tag) with
      | true =>
        rw [List.any_eq_true] at hany
        obtain ⟨f, hf, hft⟩ := hany
        have hft' : f.2.tag = a.tag := by simpa using hft
        have hfv : visible ts f.2 = true := by rw [visible_tag hft']; exact hv
        have hfi := hpre f hf hfv
        have : f.2 = a := hinj f.2 a hfi ha (posOf_tag hft')
        exact ⟨f, transfer_sub ts ts items fresh f hf, this⟩
      | false =>
        have htag := findTrait_tag htr
        refine ⟨(tr.pos, a), ?_, rfl⟩
        refine (transfer_mem ts items _ ts fresh).mpr (Or.inr ⟨tr, htag.2, ?_⟩)
        cases hfind : items.find? (·.tag == tr.tag) with
        | none =>
          rw [List.find?_eq_none] at hfind
          exact absurd (by simp [htag.1]) (hfind a ha)
        | some it' =>
          have h' := find_tag hfind
          have : it' = a := hinj it' a h'.2 ha (posOf_tag (by rw [h'.1, htag.1]))
          subst this
          exact ⟨it', tr, hfind, by rw [htag.1]; exact htr, by rw [htag.1]; exact hany, rfl⟩
  · intro a b ha hb
    exact hinj a b (List.mem_filter.mp ha).1 (List.mem_filter.mp hb).1

/-- into the empty target: the result is the source -/
theorem transfer_same (ts : List Trait) (items : List Item) (hc : topOk ts items = true) :
    (transfer ts ts items []).map (·.2) = items := by
  obtain ⟨hleg, hstrict⟩ := (topOk_iff ts items).mp hc
  have hinj := pairwise_lt_inj (posOf ts) items hstrict
  have hs : SortedPos ([] : List (Nat × Item)) := List.Pairwise.nil
  have hk : KeyedBy ts [] := by intro e he; cases he
  have hn : TagsNodup [] := List.Pairwise.nil
  refine eq_of_sorted_nodup_mem (posOf ts) _ _ ?_ ?_ ?_ ?_ ?_ hinj
  · exact sorted_items (transfer_sorted ts items ts [] hs) (transfer_keyed ts ts items [] hk)
  · exact hstrict.imp (fun h => Nat.le_of_lt h)
  · exact tagsNodup_items (transfer_tagsNodup ts items ts [] hn)
  · refine hstrict.imp ?_
    intro a b hab heq; subst heq; omega
  · intro a
    rw [List.mem_map]
    constructor
    · rintro ⟨e, he, rfl⟩
      rcases (transfer_mem ts items e ts []).mp he with he | ⟨pp, _, it, ttr, h1, _, _, h4⟩
      · cases he
      · subst h4; exact (find_tag h1).2
    · intro ha
      obtain ⟨tr, htr⟩ := hleg a ha
      have htag := findTrait_tag htr
      refine ⟨(tr.pos, a), ?_, rfl⟩
      refine (transfer_mem ts items _ ts []).mpr (Or.inr ⟨tr, htag.2, ?_⟩)
      cases hfind : items.find? (·.tag == tr.tag) with
      | none =>
        rw [List.find?_eq_none] at hfind
        exact absurd (by simp [htag.1]) (hfind a ha)
      | some it' =>
        have h' := find_tag hfind
        have : it' = a := hinj it' a h'.2 ha (posOf_tag (by rw [h'.1, htag.1]))
        subst this
        exact ⟨it', tr, hfind, by rw [htag.1]; exact htr, rfl, rfl⟩

/-! ## the deep copies of a canonical section are the section -/

mutual
  theorem copyItems_same (S : Schema) (ts : List Trait) : ∀ items : List Item, deepOk S ts items = true →
      copyItems S ts ts items = items
    | [], _ => by rw [copyItems]
    | .fld t v :: rest, h => by
      rw [deepOk, Bool.and_eq_true] at h
      rw [copyItems, copyItems_same S ts rest h.2]
    | .grp t v els :: rest, h => by
      rw [deepOk, Bool.and_eq_true] at h
      rw [copyItems, copyItems_same S ts rest h.2]
      cases hf : findTrait ts t with
      | none => rw [hf] at h; simp at h
      | some tr =>
        rw [hf] at h
        simp only [Bool.and_eq_true] at h
        simp only [h.1.1, if_true, Option.map, Option.getD]
        rw [copyElems_same S (S.group tr.sub) els h.1.2]
  theorem copyElems_same (S : Schema) (gts : List Trait) : ∀ els : List (List Item), elemsOk S gts els = true →
      copyElems S gts gts els = els
    | [], _ => by rw [copyElems]
    | e :: es, h => by
      rw [elemsOk, Bool.and_eq_true, Bool.and_eq_true] at h
      rw [copyElems, copyItems_same S gts e h.1.2, transfer_same gts e h.1.1, copyElems_same S gts es h.2]
end

/-- the nested check looks at each item on its own -/
theorem deepOk_cons (S : Schema) (ts : List Trait) (it : Item) (rest : List Item) :
    deepOk S ts (it :: rest) = (deepOk S ts [it] && deepOk S ts rest) := by
  cases it <;> simp only [deepOk, Bool.and_true, Bool.true_and]

theorem deepOk_iff_forall (S : Schema) (ts : List Trait) : ∀ l : List Item,
    deepOk S ts l = true ↔ ∀ it ∈ l, deepOk S ts [it] = true
  | [] => by simp [deepOk]
  | it :: rest => by
    rw [deepOk_cons, Bool.and_eq_true, deepOk_iff_forall S ts rest]
    simp

/-! ## encoding ignores suppressed fields -/

theorem encodeItems_filter (ts : List Trait) (S : Schema) : ∀ l : List Item,
    encodeItems ts S (l.filter (visible ts)) = encodeItems ts S l
  | [] => rfl
  | it :: rest => by
    have ih := encodeItems_filter ts S rest
    cases hv : visible ts it with
    | true =>
      rw [List.filter_cons_of_pos hv]
      cases it with
      | fld t v => rw [encodeItems, encodeItems, ih]
      | grp t v els => rw [encodeItems, encodeItems, ih]
    | false =>
      rw [List.filter_cons_of_neg (by simp [hv]), ih]
      have hs : (findTrait ts it.tag).any (·.suppress) = true := by
        unfold visible at hv; simpa using hv
      cases it with
      | fld t v => rw [encodeItems]; simp only [Item.tag] at hs; simp [hs]
      | grp t v els => rw [encodeItems]; simp only [Item.tag] at hs; simp [hs]

/-! ## the constructor's pre-set fields -/

theorem placePreset_inv (ts : List Trait) (acc : List (Nat × Item)) (tag : Nat) (val : Bytes)
    (hs : SortedPos acc) (hk : KeyedBy ts acc) (hn : TagsNodup acc) :
    SortedPos (placePreset ts acc tag val) ∧ KeyedBy ts (placePreset ts acc tag val) ∧ TagsNodup (placePreset ts acc tag val) := by
  unfold placePreset
  cases hf : findTrait ts tag with
  | none => exact ⟨hs, hk, hn⟩
  | some tr =>
    cases ha : acc.any (·.2.tag == tag) with
    | true => simpa using ⟨hs, hk, hn⟩
    | false =>
      simp only [Bool.false_eq_true, if_false]
      refine ⟨insertByPos_sorted (tr.pos, .fld tag val) acc hs, ?_, insertByPos_tagsNodup _ _ _ hn ha⟩
      intro e he
      rw [insertByPos_mem] at he
      rcases he with he | he
      · subst he; exact ⟨tr, hf, rfl⟩
      · exact hk e he

theorem freshHeader_inv (S : Schema) (mt : Bytes) :
    SortedPos (freshHeader S mt) ∧ KeyedBy S.header (freshHeader S mt) ∧ TagsNodup (freshHeader S mt) := by
  unfold freshHeader
  have h0 : SortedPos ([] : List (Nat × Item)) ∧ KeyedBy S.header [] ∧ TagsNodup [] :=
    ⟨List.Pairwise.nil, (by intro e he; cases he), List.Pairwise.nil⟩
  have h1 := placePreset_inv S.header [] 8 S.beginStr h0.1 h0.2.1 h0.2.2
  have h2 := placePreset_inv S.header _ 9 [48] h1.1 h1.2.1 h1.2.2
  exact placePreset_inv S.header _ 35 mt h2.1 h2.2.1 h2.2.2

theorem freshTrailer_inv (S : Schema) :
    SortedPos (freshTrailer S) ∧ KeyedBy S.trailer (freshTrailer S) ∧ TagsNodup (freshTrailer S) := by
  unfold freshTrailer
  exact placePreset_inv S.trailer [] 10 [] List.Pairwise.nil (by intro e he; cases he) List.Pairwise.nil

theorem presetOk_spec (ts : List Trait) (fresh : List (Nat × Item)) (items : List Item) (h : presetOk ts fresh items = true) :
    ∀ e ∈ fresh, visible ts e.2 = true → e.2 ∈ items := by
  intro e he hv
  unfold presetOk at h
  rw [List.all_eq_true] at h
  have := h e he
  unfold visible at hv
  rw [Bool.or_eq_true] at this
  rcases this with h1 | h1
  · rw [h1] at hv; simp at hv
  · cases he2 : e.2 with
    | fld t v => rw [he2] at h1; exact (hasFld_iff items t v).mp h1
    | grp t v els => rw [he2] at h1; simp at h1

/-- `copy_legal` of a canonical section into a compatible target of the same type: same encoded bytes -/
theorem copyLegal_encode_same (S : Schema) (ts : List Trait) (items : List Item) (fresh : List (Nat × Item))
    (hc : Canonical S ts items = true) (hs : SortedPos fresh) (hk : KeyedBy ts fresh) (hn : TagsNodup fresh)
    (hpre : presetOk ts fresh items = true) :
    encodeItems ts S ((copyLegal S ts ts items fresh).map (·.2)) = encodeItems ts S items := by
  unfold Canonical at hc
  rw [Bool.and_eq_true] at hc
  unfold copyLegal
  rw [copyItems_same S ts items hc.2, ← encodeItems_filter, ← encodeItems_filter ts S items,
    transfer_visible_same ts items fresh hc.1 hs hk hn (presetOk_spec ts fresh items hpre)]

end Fix8Model.Codec
