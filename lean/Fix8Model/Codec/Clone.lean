import Fix8Model.Codec.Model
/-!
Executable model of `MessageBase::copy_legal`, `MessageBase::move_legal` (runtime/message.cpp, `force = false`)
and `Message::clone` on the message tree of `Codec/Model.lean`.

A section (header / body / trailer / one group element) is
* on the SOURCE side a `List Item` – the fields in `_pos` order, as a `Msg` keeps them;
* on the TARGET side a `List (Nat × Item)` – the `_pos` multimap (key = schema position) as in `placeItem`.

A field is `present` in a section iff an item with its tag is in the list (`add_field` sets the flag together
with the `_pos` entry; the model has no separate flag).  The trait lists (`List Trait`) are the generated
`FieldTrait` tables in the iteration order of the `Presence` container (tag order).

Nothing here throws: in the C++ the legality test `to->_fp.has(fnum)` precedes `to->add_field(nf)`, so
`add_field(BaseField*)` never reaches its `throw InvalidField`; the functions are total, without `Except`.

Not modelled (stated, not proved): the separate `present` flags and the null pointers `move_legal` leaves in the
source's `_fields`/`_groups`; a target whose trait for a group tag is not a group (`to->find_group` returns null,
the C++ dereferences it – here the sub-schema index falls back to the one the trait carries); a target whose
(empty-count) group object already holds elements; `force = true`; `FIX8_POPULATE_METADATA`.
-/
namespace Fix8Model.Codec

/-- one iteration of `for (const auto& pp : _fp.get_presence())` in `copy_legal`/`move_legal` (`force = false`):
`items` are the source's fields (for `copy_legal` already deep-copied), `tgt` the target's `_pos`.
`pp._field_traits & present` = an item with the tag is in the source; `to->_fp.has(fnum)` = the target has a trait;
`!to->_fp.get(fnum)` = no item with the tag in the target; `to->add_field(nf)` = insertion at the TARGET trait's
position (stable, after equal keys: `std::multimap::insert`). -/
def transferStep (tts : List Trait) (items : List Item) (tgt : List (Nat × Item)) (pp : Trait) : List (Nat × Item) :=
  match items.find? (·.tag == pp.tag) with
  | none => tgt
  | some it =>
    match findTrait tts pp.tag with
    | none => tgt
    | some ttr => if tgt.any (·.2.tag == pp.tag) then tgt else insertByPos ttr.pos (ttr.pos, it) tgt

/-- the whole trait iteration: `sts` = the source section's traits in `Presence` order -/
def transfer (sts tts : List Trait) (items : List Item) (tgt : List (Nat × Item)) : List (Nat × Item) :=
  sts.foldl (transferStep tts items) tgt

mutual
  /-- the copies `copy_legal` makes of the fields of one section: `get_field(fnum)->copy()` for a plain field; for a
  group (`pp._field_traits & group && find_group(fnum)`) every element `qq` is copied with `qq->copy_legal(grc)` into
  a fresh deep-constructed element `grc = gb1->create_group(true)` of the target's group, and appended.
  `sts`/`tts` = traits of the source/target section.

  The copies are computed for EVERY item up front, the C++ computes them only for the fields that pass the
  present/legal/absent test.  Everything is pure and total, so computing a copy that is then dropped changes nothing. -/
  def copyItems (S : Schema) (sts tts : List Trait) : List Item → List Item
    | [] => []
    | it :: rest =>
      (match it with
       | .fld t v => .fld t v
       | .grp t v els =>
         match findTrait sts t with
         | none => .fld t v
         | some str =>
           if str.group then
             .grp t v (copyElems S (S.group str.sub) (S.group (((findTrait tts t).map (·.sub)).getD str.sub)) els)
           else .fld t v)
      :: copyItems S sts tts rest
  /-- the elements of one group: each is `copy_legal`-ed into an empty element (`sg`/`tg` = element traits of the
  source/target group) -/
  def copyElems (S : Schema) (sg tg : List Trait) : List (List Item) → List (List Item)
    | [] => []
    | e :: es => (transfer sg tg (copyItems S sg tg e) []).map (·.2) :: copyElems S sg tg es
end

/-- `src.copy_legal(&tgt)` (`force = false`): `sts`/`tts` the traits of the source/target section -/
def copyLegal (S : Schema) (sts tts : List Trait) (src : List Item) (tgt : List (Nat × Item)) : List (Nat × Item) :=
  transfer sts tts (copyItems S sts tts src) tgt

/-- place the preset field `tag=val` at the position of its trait; no trait: not placed -/
def placePreset (ts : List Trait) (acc : List (Nat × Item)) (tag : Nat) (val : Bytes) : List (Nat × Item) :=
  match findTrait ts tag with
  | none => acc
  | some tr => if acc.any (·.2.tag == tag) then acc else insertByPos tr.pos (tr.pos, .fld tag val) acc

/-- the header of `bme._create._do(true)`: BeginString, BodyLength (0), MsgType are added by the constructors -/
def freshHeader (S : Schema) (mt : Bytes) : List (Nat × Item) :=
  placePreset S.header (placePreset S.header (placePreset S.header [] 8 S.beginStr) 9 [48]) 35 mt

/-- the trailer of `bme._create._do(true)`: an empty CheckSum -/
def freshTrailer (S : Schema) : List (Nat × Item) := placePreset S.trailer [] 10 []

/-- `bme._create._do(true)`: (header, body, trailer) as `_pos` maps; the body is empty -/
def freshMsg (S : Schema) (mt : Bytes) : List (Nat × Item) × List (Nat × Item) × List (Nat × Item) :=
  (freshHeader S mt, [], freshTrailer S)

/-- `Message::clone`: `copy_legal` of the body, the header and the trailer into a fresh message of the same type.
The permissive-mode `_unknown` bytes of the three sections are NOT copied (`copy_legal` does not touch `_unknown`). -/
def clone (S : Schema) (bodyTs : List Trait) (m : Msg) : Msg :=
  let f := freshMsg S m.msgType
  { msgType := m.msgType
    header := (copyLegal S S.header S.header m.header f.1).map (·.2)
    body := (copyLegal S bodyTs bodyTs m.body f.2.1).map (·.2)
    trailer := (copyLegal S S.trailer S.trailer m.trailer f.2.2).map (·.2)
    hUnknown := [], bUnknown := [], tUnknown := [] }

/-- `src.move_legal(&tgt)` (`force = false`): the same iteration, but the field object itself (a group as a whole:
`to->replace(fnum, gitr->second)` puts the source's `GroupBase` in the place of the target's empty one) goes to
the target; then `clear_positions()` empties the source's `_pos`.  Result: (target, source) afterwards.
The real source keeps its `present` flags and null `_fields`/`_groups` entries; it is modelled as having no fields. -/
def moveLegal (_S : Schema) (sts tts : List Trait) (src : List Item) (tgt : List (Nat × Item)) : List (Nat × Item) × List Item :=
  (transfer sts tts src tgt, [])

end Fix8Model.Codec
