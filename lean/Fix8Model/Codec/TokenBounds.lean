import Fix8Model.Codec.Model
/-!
Facts about the tokenisers `extractElementCap` / `extractFixed`: what a successful extraction says about the
input (exact decomposition), the buffer bounds, and the consumed length.
-/
namespace Fix8Model.Codec

theorem mem_takeWhile_imp {α} {p : α → Bool} {l : List α} {x : α} (h : x ∈ l.takeWhile p) : p x = true := by
  induction l with
  | nil => simp at h
  | cons y ys ih =>
    rw [List.takeWhile_cons] at h
    split at h
    · rename_i hy
      rcases List.mem_cons.mp h with h | h
      · subst h; exact hy
      · exact ih h
    · simp at h

/-- a successful `extract_element`: the input is `tag '=' val SOH rest`, the tag is all digits and fits its buffer
with the terminator, the value has no SOH and fits its buffer with the terminator -/
theorem extractElementCap_some (tc vc : Nat) (b tag val rest : Bytes)
    (h : extractElementCap tc vc b = some (tag, val, rest)) :
    b = tag ++ 61 :: (val ++ 1 :: rest) ∧ tag.length < tc ∧ val.length < vc ∧
      (∀ c ∈ tag, isDigit c = true) ∧ (∀ c ∈ val, c ≠ 1) := by
  unfold extractElementCap at h
  simp only at h
  split at h
  · cases h
  · rename_i htl
    split at h
    · rename_i r hd
      split at h
      · rename_i rest' hd2
        split at h
        · cases h
        · rename_i hvl
          injection h with h
          injection h with h1 h
          injection h with h2 h3
          subst h1 h2 h3
          refine ⟨?_, by omega, by omega, ?_, ?_⟩
          · have e1 := List.takeWhile_append_dropWhile (p := isDigit) (l := b)
            have e2 := List.takeWhile_append_dropWhile (p := (· != 1)) (l := r)
            rw [hd] at e1
            rw [hd2] at e2
            rw [e2]
            exact e1.symm
          · intro c hc
            exact (mem_takeWhile_imp hc)
          · intro c hc
            have := mem_takeWhile_imp hc
            simpa using this
      · cases h
    · cases h

theorem extractElementCap_length (tc vc : Nat) (b tag val rest : Bytes)
    (h : extractElementCap tc vc b = some (tag, val, rest)) :
    b.length = tag.length + val.length + 2 + rest.length := by
  have := (extractElementCap_some tc vc b tag val rest h).1
  rw [this]; simp; omega

theorem extractElement_lt (b tag val rest : Bytes) (h : extractElement b = some (tag, val, rest)) :
    rest.length < b.length := by
  have := extractElementCap_length _ _ b tag val rest h
  omega

/-- a successful `extract_element_fixed_width`: the tag fits its buffer, the value is exactly the `n` bytes after
'=', and the rest is what follows the one byte skipped after the value -/
theorem extractFixed_some (b : Bytes) (n : Nat) (tag dat rest : Bytes) (h : extractFixed b n = some (tag, dat, rest)) :
    tag.length < Gen.maxMsgTypeFieldLen ∧ dat.length = n ∧ (∀ c ∈ tag, isDigit c = true) ∧
      ∃ r, b = tag ++ 61 :: r ∧ n ≤ r.length ∧ dat = r.take n ∧ rest = r.drop (n + 1) := by
  unfold extractFixed at h
  simp only at h
  split at h
  · cases h
  · rename_i htl
    split at h
    · cases h
    · rename_i c r hd
      split at h
      · cases h
      · rename_i hc
        split at h
        · cases h
        · rename_i hn
          injection h with h
          injection h with h1 h
          injection h with h2 h3
          subst h1 h2 h3
          have hc' : c = 61 := by simpa using hc
          subst hc'
          refine ⟨by omega, ?_, ?_, r, ?_, by omega, rfl, rfl⟩
          · rw [List.length_take]; omega
          · intro c hc; exact mem_takeWhile_imp hc
          · have e1 := List.takeWhile_append_dropWhile (p := isDigit) (l := b)
            rw [hd] at e1
            exact e1.symm

theorem extractFixed_lt (b : Bytes) (n : Nat) (tag dat rest : Bytes) (h : extractFixed b n = some (tag, dat, rest)) :
    rest.length < b.length := by
  obtain ⟨_, _, _, r, hb, _, _, hr⟩ := extractFixed_some b n tag dat rest h
  rw [hb, hr]; simp; omega

end Fix8Model.Codec
