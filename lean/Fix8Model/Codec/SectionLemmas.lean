import Fix8Model.Codec.TokenBounds
/-!
What an accepted run of `factory` / `decodeSection` / `decodeGroup` / `decodeElem` says about its result:
inversion of `factory`, and the invariants of the three loops.
-/
namespace Fix8Model.Codec

/-- tags whose `present` flag is set by the constructor -/
def presetTags (ts : List Trait) : List Nat := (ts.filter (·.preset)).map (·.tag)

/-- where the pre-set CheckSum item sits among the decoded trailer fields: it has key `pos(10)` (3) in the `_pos`
multimap, the decoded fields get keys 2, 3, … -/
def chkSlot (S : Schema) : Nat := ((findTrait S.trailer 10).map (·.pos)).getD 3 - 2

theorem eraseIdx_insert {α} (x : α) : ∀ (l : List α) (k : Nat), (l.take k ++ [x] ++ l.drop k).eraseIdx (min k l.length) = l
  | [], k => by simp
  | a :: l, 0 => by simp
  | a :: l, k + 1 => by
    have := eraseIdx_insert x l k
    simp only [List.take_succ_cons, List.drop_succ_cons, List.length_cons, List.cons_append, Nat.add_min_add_right, List.eraseIdx_cons_succ]
    rw [this]

/-- everything an accepted `factory` run went through -/
structure FactoryRun (S : Schema) (perm : Bool) (b : Bytes) (m : Msg) where
  t1 : Bytes
  v1 : Bytes
  r1 : Bytes
  t2 : Bytes
  lenT : Bytes
  r2 : Bytes
  t3 : Bytes
  mtype : Bytes
  r3 : Bytes
  bodyTs : List Trait
  h : SecResult
  bd : SecResult
  tr : SecResult
  e1 : extractElement b = some (t1, v1, r1)
  g1 : t1.head? = some 56
  e2 : extractElementCap Gen.maxMsgTypeFieldLen Gen.maxMsgTypeFieldLen r1 = some (t2, lenT, r2)
  g2 : t2.head? = some 57
  e3 : extractElementCap Gen.maxMsgTypeFieldLen Gen.maxMsgTypeFieldLen r2 = some (t3, mtype, r3)
  g3 : t3.take 2 = [51, 53]
  hm : S.msgs.find? (·.1 == cstr mtype) = some (m.msgType, bodyTs)
  dh : decodeSection S S.header perm (b.length + 2) r3 [] (presetTags S.header) [] none = .ok h
  db : decodeSection S bodyTs perm (b.length + 2) h.rest [] (presetTags bodyTs) [] none = .ok bd
  dt : decodeSection S S.trailer perm (b.length + 2) (bd.rest.take (bd.rest.length - 7)) [] (presetTags S.trailer) [] none = .ok tr
  tail10 : (b.drop (b.length - 7)).take 2 = [49, 48]
  chk : atoiU (((b.drop (b.length - 7)).drop 3).take 3) = byteSum (b.take (b.length - 7)) % 256
  hdr : m.header = [.fld 8 S.beginStr, .fld 9 (Digits.itoa (wrapInt32 (atoiU (cstr lenT)))), .fld 35 m.msgType] ++ h.items
  bdy : m.body = bd.items
  trl : m.trailer = tr.items.take (chkSlot S) ++ [.fld 10 (((b.drop (b.length - 7)).drop 3).take 3)] ++ tr.items.drop (chkSlot S)
  hu : m.hUnknown = h.unknown
  bu : m.bUnknown = bd.unknown
  tu : m.tUnknown = tr.unknown

theorem factory_ok_inv (S : Schema) (perm : Bool) (b : Bytes) (m : Msg) (h : factory S perm b = .ok m) :
    Nonempty (FactoryRun S perm b m) := by
  unfold factory at h
  split at h
  · cases h
  · rename_i t1 v1 r1 e1
    split at h
    · cases h
    · rename_i g1
      split at h
      · cases h
      · rename_i t2 lenT r2 e2
        split at h
        · cases h
        · rename_i g2
          split at h
          · cases h
          · rename_i t3 mtype r3 e3
            split at h
            · cases h
            · rename_i g3
              split at h
              · cases h
              · rename_i mt bodyTs hm
                simp only at h
                split at h
                · cases h
                · rename_i hr dh
                  split at h
                  · cases h
                  · rename_i bd db
                    split at h
                    · cases h
                    · rename_i tr dt
                      split at h
                      · cases h
                      · rename_i g10
                        split at h
                        · cases h
                        · rename_i gchk
                          injection h with h
                          subst h
                          exact ⟨{ t1 := t1, v1 := v1, r1 := r1, t2 := t2, lenT := lenT, r2 := r2, t3 := t3, mtype := mtype, r3 := r3,
                                   bodyTs := bodyTs, h := hr, bd := bd, tr := tr, e1 := e1,
                                   g1 := by simpa using g1, e2 := e2, g2 := by simpa using g2, e3 := e3,
                                   g3 := by simpa using g3, hm := hm, dh := dh, db := db, dt := dt,
                                   tail10 := by simpa using g10, chk := by simpa using gchk,
                                   hdr := rfl, bdy := rfl, trl := rfl, hu := rfl, bu := rfl, tu := rfl }⟩


/-! ## well-formedness of decoded group elements -/

/-- sub-group index of a tag in a trait list (as `encodeItems` looks it up) -/
def subOf (ts : List Trait) (t : Nat) : Nat := ((findTrait ts t).map (·.sub)).getD 0

/-- shape of one group element (items in arrival order): it starts with the group's position-1 field, no tag
occurs twice, every tag belongs to the group -/
def elemShape (gts : List Trait) (e : List Item) : Bool :=
  (match e with
   | [] => false
   | it :: _ => (findTrait gts it.tag).any (·.pos == 1)) &&
  decide ((e.map (·.tag)).Nodup) && e.all fun it => (findTrait gts it.tag).isSome

mutual
  /-- every group inside the item (to any depth) consists of well-shaped elements -/
  def itemOk (S : Schema) (ts : List Trait) : Item → Bool
    | .fld _ _ => true
    | .grp t _ els => elemsAllOk S (S.group (subOf ts t)) els
  def itemsOk (S : Schema) (ts : List Trait) : List Item → Bool
    | [] => true
    | it :: rest => itemOk S ts it && itemsOk S ts rest
  def elemsAllOk (S : Schema) (gts : List Trait) : List (List Item) → Bool
    | [] => true
    | e :: es => (elemShape gts e && itemsOk S gts e) && elemsAllOk S gts es
end

def elemOk (S : Schema) (gts : List Trait) (e : List Item) : Bool := elemShape gts e && itemsOk S gts e

theorem itemsOk_iff (S : Schema) (ts : List Trait) (l : List Item) : itemsOk S ts l = true ↔ ∀ it ∈ l, itemOk S ts it = true := by
  induction l with
  | nil => simp [itemsOk]
  | cons a l ih => simp [itemsOk, ih]

theorem elemsAllOk_iff (S : Schema) (gts : List Trait) (es : List (List Item)) :
    elemsAllOk S gts es = true ↔ ∀ e ∈ es, elemOk S gts e = true := by
  induction es with
  | nil => simp [elemsAllOk]
  | cons a l ih => simp [elemsAllOk, elemOk, ih]


/-- invariant of the element loop; `items` is newest-first -/
structure ElemInv (S : Schema) (gts : List Trait) (items : List Item) (seen : List Nat) : Prop where
  lock : seen = items.map (·.tag)
  nodup : (items.map (·.tag)).Nodup
  legal : ∀ it ∈ items, (findTrait gts it.tag).isSome = true
  first : ∀ it, items.getLast? = some it → (findTrait gts it.tag).any (·.pos == 1) = true
  nested : ∀ it ∈ items, itemOk S gts it = true

theorem ElemInv.nil (S : Schema) (gts : List Trait) : ElemInv S gts [] [] :=
  ⟨rfl, by simp, by simp, by simp, by simp⟩

theorem subOf_eq {ts : List Trait} {t : Nat} {tr : Trait} (h : findTrait ts t = some tr) : subOf ts t = tr.sub := by
  simp [subOf, h]

theorem ElemInv.push {S : Schema} {gts : List Trait} {items : List Item} {seen : List Nat} (inv : ElemInv S gts items seen)
    (it : Item) (tr : Trait) (hf : findTrait gts it.tag = some tr) (hns : seen.contains it.tag = false)
    (hpos : seen.isEmpty = true → tr.pos = 1) (hok : itemOk S gts it = true) :
    ElemInv S gts (it :: items) (it.tag :: seen) := by
  refine ⟨by rw [inv.lock]; rfl, ?_, ?_, ?_, ?_⟩
  · rw [List.map_cons, List.nodup_cons]
    refine ⟨?_, inv.nodup⟩
    rw [← inv.lock]
    intro hc
    have : seen.contains it.tag = true := by simpa using hc
    rw [this] at hns; cases hns
  · intro x hx
    rcases List.mem_cons.mp hx with hx | hx
    · subst hx; simp [hf]
    · exact inv.legal x hx
  · intro x hx
    cases items with
    | nil =>
      simp at hx; subst hx
      have : seen = [] := by rw [inv.lock]; rfl
      have := hpos (by simp [this])
      simp [hf, this]
    | cons y ys =>
      apply inv.first x
      simpa [List.getLast?_cons_cons] using hx
  · intro x hx
    rcases List.mem_cons.mp hx with hx | hx
    · subst hx; exact hok
    · exact inv.nested x hx

theorem ElemInv.shape {S : Schema} {gts : List Trait} {items : List Item} {seen : List Nat} (inv : ElemInv S gts items seen)
    (hne : items ≠ []) : elemOk S gts items.reverse = true := by
  unfold elemOk elemShape
  simp only [Bool.and_eq_true, decide_eq_true_eq, List.all_eq_true]
  refine ⟨⟨⟨?_, ?_⟩, ?_⟩, ?_⟩
  · cases hr : items.reverse with
    | nil => simp at hr; exact absurd hr hne
    | cons a l =>
      simp only
      apply inv.first a
      have : items.reverse.head? = some a := by rw [hr]; rfl
      rw [List.head?_reverse] at this
      exact this
  · rw [List.map_reverse]
    have := inv.nodup
    unfold List.Nodup at this ⊢
    rw [List.pairwise_reverse]
    exact this.imp (fun h => fun e => h e.symm)
  · intro x hx
    exact inv.legal x (List.mem_reverse.mp hx)
  · rw [itemsOk_iff]
    intro x hx
    exact inv.nested x (List.mem_reverse.mp hx)

theorem group_elem_inv (S : Schema) (fieldOk : Nat → Bool) : ∀ (fuel : Nat),
    (∀ gts inp acc els rest, decodeGroup S fieldOk gts fuel inp acc = .ok (els, rest) →
      (∀ e ∈ acc, elemOk S gts e = true) → ∀ e ∈ els, elemOk S gts e = true) ∧
    (∀ gts inp items seen items' seen' rest more, decodeElem S fieldOk gts fuel inp items seen = .ok (items', seen', rest, more) →
      ElemInv S gts items seen → ElemInv S gts items' seen' ∧ ((rest = inp ∧ items' = items) ∨ items' ≠ [])) := by
  intro fuel
  induction fuel with
  | zero =>
    constructor
    · intro gts inp acc els rest h; rw [decodeGroup] at h; cases h
    · intro gts inp items seen items' seen' rest more h; rw [decodeElem] at h; cases h
  | succ fuel ih =>
    obtain ⟨ihG, ihE⟩ := ih
    constructor
    · intro gts inp acc els rest h hacc
      rw [decodeGroup] at h
      split at h
      · injection h with h; injection h with h1 h2; subst h1
        intro e he; exact hacc e (List.mem_reverse.mp he)
      · split at h
        · cases h
        · rename_i items seen rest1 more he
          obtain ⟨inv, hprog⟩ := ihE gts inp [] [] items seen rest1 more he (ElemInv.nil S gts)
          split at h
          · cases h
          · split at h
            · injection h with h; injection h with h1 h2; subst h1
              intro e he; exact hacc e (List.mem_reverse.mp he)
            · rename_i hneq
              have hne : items ≠ [] := by
                rcases hprog with ⟨h1, _⟩ | h1
                · subst h1; simp at hneq
                · exact h1
              have hacc' : ∀ e ∈ items.reverse :: acc, elemOk S gts e = true := by
                intro e he
                rcases List.mem_cons.mp he with he | he
                · subst he; exact inv.shape hne
                · exact hacc e he
              split at h
              · exact ihG gts rest1 _ els rest h hacc'
              · injection h with h; injection h with h1 h2; subst h1
                intro e he; exact hacc' e (List.mem_reverse.mp he)
    · intro gts inp items seen items' seen' rest more h inv
      rw [decodeElem] at h
      split at h
      · injection h with h; injection h with h1 h; injection h with h2 h; injection h with h3 h4
        subst h1 h2 h3
        exact ⟨inv, Or.inl ⟨rfl, rfl⟩⟩
      · rename_i tagT val rest1 hx
        simp only at h
        split at h
        · injection h with h; injection h with h1 h; injection h with h2 h; injection h with h3 h4
          subst h1 h2 h3
          exact ⟨inv, Or.inl ⟨rfl, rfl⟩⟩
        · rename_i hns
          split at h
          · split at h
            · cases h
            · injection h with h; injection h with h1 h; injection h with h2 h; injection h with h3 h4
              subst h1 h2 h3
              exact ⟨inv, Or.inl ⟨rfl, rfl⟩⟩
          · rename_i tr hf
            split at h
            · cases h
            · rename_i hpos
              split at h
              · injection h with h; injection h with h1 h; injection h with h2 h; injection h with h3 h4
                subst h1 h2 h3
                exact ⟨inv, Or.inl ⟨rfl, rfl⟩⟩
              · split at h
                · cases h
                · rename_i cv hcv
                  have hns' : seen.contains (tagNum tagT) = false := by simpa using hns
                  have hpos' : seen.isEmpty = true → tr.pos = 1 := by
                    intro he
                    simp only [he, Bool.true_and, bne_iff_ne, ne_eq, Decidable.not_not] at hpos
                    exact hpos
                  split at h
                  · split at h
                    · cases h
                    · rename_i els rest' hg
                      have hels := ihG (S.group tr.sub) rest1 [] els rest' hg (by simp)
                      have inv' := inv.push (.grp (tagNum tagT) cv els) tr hf hns' hpos' (by
                        rw [itemOk, subOf_eq hf, elemsAllOk_iff]; exact hels)
                      obtain ⟨r1, r2⟩ := ihE gts rest' _ _ items' seen' rest more h inv'
                      refine ⟨r1, Or.inr ?_⟩
                      rcases r2 with ⟨_, r2⟩ | r2
                      · rw [r2]; simp
                      · exact r2
                  · have inv' := inv.push (.fld (tagNum tagT) cv) tr hf hns' hpos' (by rw [itemOk])
                    obtain ⟨r1, r2⟩ := ihE gts rest1 _ _ items' seen' rest more h inv'
                    refine ⟨r1, Or.inr ?_⟩
                    rcases r2 with ⟨_, r2⟩ | r2
                    · rw [r2]; simp
                    · exact r2


/-- the tag is a `data` field of the section -/
def isData (ts : List Trait) (t : Nat) : Bool := (findTrait ts t).any (·.kind == .data)

/-- invariant of the section loop; `items` is newest-first, `seen0` the tags preset by the constructor -/
structure SecInv (S : Schema) (ts : List Trait) (seen0 : List Nat) (items : List Item) (seen : List Nat) : Prop where
  lock : seen = items.map (·.tag) ++ seen0
  legal : ∀ it ∈ items, (findTrait ts it.tag).isSome = true ∧ S.fieldTable.contains it.tag = true
  uniq : items.Pairwise (fun a b => a.tag = b.tag → isData ts a.tag = true)
  fresh : ∀ it ∈ items, it.tag ∈ seen0 → isData ts it.tag = true
  nested : ∀ it ∈ items, itemOk S ts it = true

theorem SecInv.nil (S : Schema) (ts : List Trait) (seen0 : List Nat) : SecInv S ts seen0 [] seen0 :=
  ⟨rfl, by simp, by simp, by simp, by simp⟩

theorem SecInv.push {S : Schema} {ts : List Trait} {seen0 : List Nat} {items : List Item} {seen : List Nat}
    (inv : SecInv S ts seen0 items seen) (it : Item) (tr : Trait) (hf : findTrait ts it.tag = some tr)
    (hft : S.fieldTable.contains it.tag = true)
    (hns : seen.contains it.tag = false ∨ isData ts it.tag = true) (hok : itemOk S ts it = true) :
    SecInv S ts seen0 (it :: items) (it.tag :: seen) := by
  have hnm : isData ts it.tag = true ∨ it.tag ∉ seen := by
    rcases hns with h | h
    · right; intro hc
      have : seen.contains it.tag = true := by simpa using hc
      rw [this] at h; cases h
    · left; exact h
  refine ⟨by rw [inv.lock]; rfl, ?_, ?_, ?_, ?_⟩
  · intro x hx
    rcases List.mem_cons.mp hx with hx | hx
    · subst hx; exact ⟨by simp [hf], hft⟩
    · exact inv.legal x hx
  · rw [List.pairwise_cons]
    refine ⟨?_, inv.uniq⟩
    intro b hb heq
    rcases hnm with h | h
    · exact h
    · exfalso; apply h; rw [inv.lock, heq]
      exact List.mem_append_left _ (List.mem_map.mpr ⟨b, hb, rfl⟩)
  · intro x hx hx0
    rcases List.mem_cons.mp hx with hx | hx
    · subst hx
      rcases hnm with h | h
      · exact h
      · exfalso; apply h; rw [inv.lock]; exact List.mem_append_right _ hx0
    · exact inv.fresh x hx hx0
  · intro x hx
    rcases List.mem_cons.mp hx with hx | hx
    · subst hx; exact hok
    · exact inv.nested x hx

theorem SecInv.pushFld {S : Schema} {ts : List Trait} {seen0 : List Nat} {items : List Item} {seen : List Nat}
    (inv : SecInv S ts seen0 items seen) (tv : Nat) (cv : Bytes) (tr : Trait) (hf : findTrait ts tv = some tr)
    (hft : ¬(!S.fieldTable.contains tv) = true) (hns : ¬seen.contains tv = true) :
    SecInv S ts seen0 (.fld tv cv :: items) (tv :: seen) :=
  inv.push (.fld tv cv) tr hf (by simpa [Item.tag] using hft) (Or.inl (by simpa [Item.tag] using hns)) (by rw [itemOk])

theorem SecInv.pushData {S : Schema} {ts : List Trait} {seen0 : List Nat} {items : List Item} {seen : List Nat}
    (inv : SecInv S ts seen0 items seen) (tv tv2 : Nat) (cv : Bytes) (tr2 : Trait) (hf : findTrait ts tv2 = some tr2)
    (hk : ¬(tr2.kind != Kind.data || tv + 1 != tv2) = true)
    (hft : ¬(!S.fieldTable.contains tv2) = true) :
    SecInv S ts seen0 (.fld tv2 cv :: items) (tv2 :: seen) := by
  refine inv.push (.fld tv2 cv) tr2 hf (by simpa [Item.tag] using hft) (Or.inr ?_) (by rw [itemOk])
  have : tr2.kind = Kind.data := by
    simp only [Bool.or_eq_true, bne_iff_ne, ne_eq, not_or, Decidable.not_not] at hk
    exact hk.1
  simp only [isData, Item.tag]
  rw [hf]; simp [this]

theorem SecInv.pushGrp {S : Schema} {ts : List Trait} {seen0 : List Nat} {items : List Item} {seen : List Nat}
    (inv : SecInv S ts seen0 items seen) (tv : Nat) (cv : Bytes) (els : List (List Item)) (tr : Trait) (hf : findTrait ts tv = some tr)
    (hft : ¬(!S.fieldTable.contains tv) = true) (hns : ¬seen.contains tv = true)
    {fo : Nat → Bool} {fuel : Nat} {inp rest : Bytes}
    (hg : decodeGroup S fo (S.group tr.sub) fuel inp [] = .ok (els, rest)) :
    SecInv S ts seen0 (.grp tv cv els :: items) (tv :: seen) := by
  refine inv.push (.grp tv cv els) tr hf (by simpa [Item.tag] using hft) (Or.inl (by simpa [Item.tag] using hns)) ?_
  rw [itemOk, subOf_eq hf, elemsAllOk_iff]
  exact (group_elem_inv S fo fuel).1 _ _ [] els rest hg (by simp)

theorem finish_inv {ts : List Trait} {seen : List Nat} {items : List Item} {unk X : Bytes} {r : SecResult}
    (h : (match findMissing ts seen with
          | some t => Except.error (DecErr.missingMandatory t)
          | none => Except.ok { items := items, seen := seen, unknown := unk, rest := X }) = Except.ok r) :
    findMissing ts seen = none ∧ r = { items := items, seen := seen, unknown := unk, rest := X } := by
  split at h
  · cases h
  · rename_i hm
    injection h with h
    exact ⟨hm, h.symm⟩

theorem section_inv (S : Schema) (ts : List Trait) (perm : Bool) (seen0 : List Nat) (fuel : Nat) (inp : Bytes) (items : List Item)
    (seen : List Nat) (unk : Bytes) (firstUnk : Option (Bytes × Nat)) (r : SecResult)
    (h : decodeSection S ts perm fuel inp items seen unk firstUnk = .ok r) (inv : SecInv S ts seen0 items seen) :
    SecInv S ts seen0 r.items.reverse r.seen ∧ findMissing ts r.seen = none := by
  fun_induction decodeSection S ts perm fuel inp items seen unk firstUnk
  case case1 => cases h
  case case2 =>
    obtain ⟨h1, h2⟩ := finish_inv h
    subst h2; simp only [List.reverse_reverse]; exact ⟨inv, h1⟩
  case case4 =>
    obtain ⟨h1, h2⟩ := finish_inv h
    subst h2; simp only [List.reverse_reverse]; exact ⟨inv, h1⟩
  case case3 ih => exact ih h inv
  case case5 ih => exact ih h inv
  case case10 ih =>
    exact ih h (inv.pushGrp _ _ _ _ (by assumption) (by assumption) (by assumption) (by assumption))
  case case13 ih =>
    exact ih h (inv.pushFld _ _ _ (by assumption) (by assumption) (by assumption))
  case case15 =>
    injection h with h; subst h
    simp only [List.reverse_reverse]
    exact ⟨inv.pushFld _ _ _ (by assumption) (by assumption) (by assumption), by assumption⟩
  case case16 ih =>
    exact ih h (inv.pushFld _ _ _ (by assumption) (by assumption) (by assumption))
  case case18 ih =>
    exact ih h ((inv.pushFld _ _ _ (by assumption) (by assumption) (by assumption)).pushData _ _ _ _ (by assumption) (by assumption) (by assumption))
  case case19 ih =>
    exact ih h (inv.pushFld _ _ _ (by assumption) (by assumption) (by assumption))
  all_goals cases h

theorem ext_push {Q : Prop} {l : List Item} {x : Item} {items extra : List Item} (e1 : l = (x :: items).reverse ++ extra) :
    ∃ extra', l = items.reverse ++ extra' ∧ (extra' = [] → Q) :=
  ⟨x :: extra, by rw [e1]; simp, by intro he; cases he⟩

/-- what any accepted section run returns, relative to the state it was started in: the items found so far stay
(as a prefix, in arrival order); if nothing was added, the `seen` set is unchanged and – in permissive mode with a
recorded first-unknown offset whose item count still matches – the returned rest is that offset -/
theorem section_extends (S : Schema) (ts : List Trait) (perm : Bool) (fuel : Nat) (inp : Bytes) (items : List Item)
    (seen : List Nat) (unk : Bytes) (firstUnk : Option (Bytes × Nat)) (r : SecResult)
    (h : decodeSection S ts perm fuel inp items seen unk firstUnk = .ok r) :
    ∃ extra, r.items = items.reverse ++ extra ∧
      (extra = [] → r.seen = seen ∧ ∀ p n, firstUnk = some (p, n) → n = items.length → perm = true → r.rest = p) := by
  fun_induction decodeSection S ts perm fuel inp items seen unk firstUnk
  case case1 => cases h
  case case2 =>
    obtain ⟨h1, h2⟩ := finish_inv h
    subst h2
    refine ⟨[], by simp, fun _ => ⟨rfl, ?_⟩⟩
    intro p n hf hn hp
    subst hf hn hp
    simp
  case case4 =>
    rename_i hperm
    obtain ⟨h1, h2⟩ := finish_inv h
    subst h2
    refine ⟨[], by simp, fun _ => ⟨rfl, ?_⟩⟩
    intro p n hf hn hp
    exact absurd hp hperm
  case case3 ih =>
    obtain ⟨extra, e1, e2⟩ := ih h
    refine ⟨extra, e1, fun he => ⟨(e2 he).1, ?_⟩⟩
    intro p n hf hn hp
    exact (e2 he).2 p n (by rw [hf]; rfl) hn hp
  case case5 ih => exact ih h
  case case10 ih =>
    obtain ⟨extra, e1, _⟩ := ih h
    exact ext_push e1
  case case13 ih =>
    obtain ⟨extra, e1, _⟩ := ih h
    exact ext_push e1
  case case15 =>
    injection h with h; subst h
    exact ext_push (extra := []) (List.append_nil _).symm
  case case16 ih =>
    obtain ⟨extra, e1, _⟩ := ih h
    exact ext_push e1
  case case18 ih =>
    obtain ⟨extra, e1, _⟩ := ih h
    obtain ⟨extra2, e2, _⟩ := ext_push (Q := True) e1
    exact ext_push e2
  case case19 ih =>
    obtain ⟨extra, e1, _⟩ := ih h
    exact ext_push e1
  all_goals cases h
theorem section_sim (S : Schema) (ts : List Trait) (fuel : Nat) (inp : Bytes) (items : List Item)
    (seen : List Nat) (unk : Bytes) (fu : Option (Bytes × Nat)) (r r' : SecResult) (hfu : fu = none)
    (hs : decodeSection S ts false fuel inp items seen unk fu = .ok r)
    (hp : decodeSection S ts true fuel inp items seen unk fu = .ok r') :
    ∃ extra, r'.items = r.items ++ extra ∧ (extra = [] → r'.rest = r.rest ∧ r'.seen = r.seen) := by
  fun_induction decodeSection S ts false fuel inp items seen unk fu
  case case1 => cases hs
  case case2 =>
    subst hfu
    obtain ⟨_, h2⟩ := finish_inv hs
    subst h2
    clear hs
    rw [decodeSection] at hp
    simp (config := {zetaDelta := true}) only [*] at hp
    injection hp with hp
    subst hp
    exact ⟨[], by simp, fun _ => ⟨rfl, rfl⟩⟩
  case case3 => contradiction
  case case4 =>
    subst hfu
    obtain ⟨_, h2⟩ := finish_inv hs
    subst h2
    clear hs
    rw [decodeSection] at hp
    simp (config := {zetaDelta := true}) only [*, if_true, Option.getD_none] at hp
    obtain ⟨extra, e1, e2⟩ := section_extends _ _ _ _ _ _ _ _ _ _ hp
    refine ⟨extra, e1, fun he => ?_⟩
    obtain ⟨k1, k2⟩ := e2 he
    exact ⟨k2 _ _ rfl rfl rfl, k1⟩
  case case5 ih =>
    subst hfu
    rw [decodeSection] at hp
    simp (config := {zetaDelta := true}) only [*, if_true] at hp
    exact ih rfl hs hp
  case case10 ih =>
    subst hfu
    rw [decodeSection] at hp
    simp (config := {zetaDelta := true}) only [*, if_true] at hp
    exact ih rfl hs hp
  case case13 => contradiction
  case case15 =>
    subst hfu
    rw [decodeSection] at hp
    simp (config := {zetaDelta := true}) only [*, if_true, if_false, Option.getD_none] at hp
    injection hs with hs; subst hs
    obtain ⟨extra, e1, e2⟩ := section_extends _ _ _ _ _ _ _ _ _ _ hp
    refine ⟨extra, e1, fun he => ?_⟩
    obtain ⟨k1, k2⟩ := e2 he
    exact ⟨k2 _ _ rfl rfl rfl, k1⟩
  case case16 ih =>
    subst hfu
    rw [decodeSection] at hp
    simp (config := {zetaDelta := true}) only [*, if_true] at hp
    exact ih rfl hs hp
  case case18 ih =>
    subst hfu
    rw [decodeSection] at hp
    simp (config := {zetaDelta := true}) only [*, if_true] at hp
    exact ih rfl hs hp
  case case19 ih =>
    subst hfu
    rw [decodeSection] at hp
    simp (config := {zetaDelta := true}) only [*, if_true] at hp
    exact ih rfl hs hp
  all_goals cases hs
/-! ## the sections of an accepted message -/

/-- the header fields found by the decoder (after the three the constructor presets: 8, 9, 35) -/
def hdrFields (m : Msg) : List Item := m.header.drop 3
/-- the trailer fields found by the decoder: the trailer without the CheckSum item, which `factory` takes from the last
7 bytes and which sits at slot `chkSlot S` (or at the end when fewer fields were decoded) -/
def trlFields (S : Schema) (m : Msg) : List Item := m.trailer.eraseIdx (min (chkSlot S) (m.trailer.length - 1))

/-- what holds of the decoded fields of one section (arrival order) -/
structure SectionValid (S : Schema) (ts : List Trait) (sec : List Item) : Prop where
  /-- every tag is defined for this section and is in the field table -/
  legal : ∀ it ∈ sec, (findTrait ts it.tag).isSome = true ∧ S.fieldTable.contains it.tag = true
  /-- no field repeats, except that a `data` field may (KNOWN FINDING `data-duplicate`) -/
  unique : ((sec.filter fun it => !isData ts it.tag).map (·.tag)).Nodup
  /-- the same, as a statement on pairs -/
  repeatsOnlyData : sec.Pairwise (fun a b => a.tag = b.tag → isData ts a.tag = true)
  /-- no decoded field repeats one preset by the constructor (8, 9, 35, 10) -/
  notPreset : ∀ it ∈ sec, it.tag ∈ presetTags ts → isData ts it.tag = true
  /-- every mandatory field of the section is there -/
  mandatory : ∀ tr ∈ ts, tr.mandatory = true → tr.tag ∈ presetTags ts ∨ tr.tag ∈ sec.map (·.tag)
  /-- every repeating group, to any depth, consists of well-shaped elements (see `elemOk`) -/
  groups : ∀ it ∈ sec, itemOk S ts it = true

theorem sectionValid_of_run {S : Schema} {ts : List Trait} {perm : Bool} {fuel : Nat} {inp : Bytes} {r : SecResult}
    (h : decodeSection S ts perm fuel inp [] (presetTags ts) [] none = .ok r) : SectionValid S ts r.items := by
  obtain ⟨inv, hm⟩ := section_inv S ts perm (presetTags ts) fuel inp [] (presetTags ts) [] none r h (SecInv.nil S ts _)
  have hpw : r.items.Pairwise (fun a b => a.tag = b.tag → isData ts a.tag = true) := by
    have := inv.uniq
    rw [List.pairwise_reverse] at this
    exact this.imp (fun {a b} hab e => by rw [e]; exact hab e.symm)
  refine ⟨?_, ?_, hpw, ?_, ?_, ?_⟩
  · intro it hit; exact inv.legal it (List.mem_reverse.mpr hit)
  · unfold List.Nodup
    rw [List.pairwise_map]
    refine (hpw.filter _).imp_of_mem ?_
    intro a b ha _ hab e
    have hna := (List.mem_filter.mp ha).2
    have := hab e
    rw [this] at hna; cases hna
  · intro it hit; exact inv.fresh it (List.mem_reverse.mpr hit)
  · intro tr htr hmand
    unfold findMissing at hm
    rw [Option.map_eq_none_iff, List.find?_eq_none] at hm
    have := hm tr htr
    simp only [hmand, Bool.true_and, Bool.not_eq_true', Bool.not_eq_false, List.contains_eq_mem, decide_eq_true_eq] at this
    rw [inv.lock, List.mem_append] at this
    rcases this with h1 | h1
    · right
      rw [List.map_reverse] at h1
      exact List.mem_reverse.mp h1
    · left; exact h1
  · intro it hit; exact inv.nested it (List.mem_reverse.mpr hit)

/-- the sections of an accepted message as the three section runs returned them -/
theorem accepted_sections (S : Schema) (perm : Bool) (b : Bytes) (m : Msg) (h : factory S perm b = .ok m) :
    ∃ bodyTs, (m.msgType, bodyTs) ∈ S.msgs ∧
      SectionValid S S.header (hdrFields m) ∧ SectionValid S bodyTs m.body ∧ SectionValid S S.trailer (trlFields S m) := by
  obtain ⟨run⟩ := factory_ok_inv S perm b m h
  refine ⟨run.bodyTs, List.mem_of_find?_eq_some run.hm, ?_, ?_, ?_⟩
  · have : hdrFields m = run.h.items := by unfold hdrFields; rw [run.hdr]; rfl
    rw [this]; exact sectionValid_of_run run.dh
  · rw [run.bdy]; exact sectionValid_of_run run.db
  · have : trlFields S m = run.tr.items := by
      unfold trlFields; rw [run.trl]
      have hl : (List.take (chkSlot S) run.tr.items ++ [Item.fld 10 (List.take 3 (List.drop 3 (List.drop (b.length - 7) b)))] ++
          List.drop (chkSlot S) run.tr.items).length - 1 = run.tr.items.length := by
        simp only [List.length_append, List.length_take, List.length_drop, List.length_cons, List.length_nil]; omega
      rw [hl]; exact eraseIdx_insert _ _ _
    rw [this]; exact sectionValid_of_run run.dt

/-- the two runs of `factory` on the same bytes went through the same preamble and message type -/
theorem runs_agree {S : Schema} {b : Bytes} {m m' : Msg} (run : FactoryRun S false b m) (run' : FactoryRun S true b m') :
    run'.r3 = run.r3 ∧ run'.lenT = run.lenT ∧ m'.msgType = m.msgType ∧ run'.bodyTs = run.bodyTs := by
  have e1 := run.e1.symm.trans run'.e1
  injection e1 with e1; injection e1 with a1 e1; injection e1 with a2 a3
  have e2 := run.e2
  rw [a3] at e2
  have e2 := e2.symm.trans run'.e2
  injection e2 with e2; injection e2 with b1 e2; injection e2 with b2 b3
  have e3 := run.e3
  rw [b3] at e3
  have e3 := e3.symm.trans run'.e3
  injection e3 with e3; injection e3 with c1 e3; injection e3 with c2 c3
  have hm := run.hm
  rw [c2] at hm
  have hm := hm.symm.trans run'.hm
  injection hm with hm; injection hm with d1 d2
  exact ⟨c3.symm, b2.symm, d1.symm, d2.symm⟩

end Fix8Model.Codec
