import Fix8Model.Net.Framer
/-! Lemmas about the framing model: the chunked socket against the flat stream. -/
namespace Fix8Model.Net.Framer

theorem flat_nil : flat [] = [] := rfl
theorem flat_cons (c : List Nat) (cs : Src) : flat (c :: cs) = c ++ flat cs := by simp [flat]

/-- reading `n` bytes over any chunking = the first `n` bytes of the stream, and what is left is the rest -/
theorem sockRead_flat : ∀ (src : Src) (n : Nat),
    (sockRead n src).map (fun p => (p.1, flat p.2)) = sockReadF n (flat src) := by
  intro src
  induction src with
  | nil =>
    intro n
    cases n with
    | zero => simp [sockRead, sockReadF, flat_nil]
    | succ n => simp [sockRead, sockReadF, flat_nil]
  | cons c cs ih =>
    intro n
    cases n with
    | zero => simp [sockRead, sockReadF]
    | succ n =>
      rw [sockRead, flat_cons]
      by_cases h : c.length ≤ n + 1
      · rw [if_pos h]
        have ih' := ih (n + 1 - c.length)
        unfold sockReadF at ih' ⊢
        by_cases h2 : n + 1 - c.length ≤ (flat cs).length
        · rw [if_pos h2] at ih'
          have h3 : n + 1 ≤ (c ++ flat cs).length := by rw [List.length_append]; omega
          rw [if_pos h3]
          cases hs : sockRead (n + 1 - c.length) cs with
          | none => rw [hs] at ih'; simp at ih'
          | some p =>
            rw [hs] at ih'
            simp only [Option.map_some, Option.some.injEq, Prod.mk.injEq] at ih'
            simp only [Option.map_some, Option.some.injEq, Prod.mk.injEq]
            rw [List.take_append, List.drop_append, ih'.1, ih'.2]
            have e1 : List.take (n + 1) c = c := List.take_of_length_le h
            have e2 : List.drop (n + 1) c = [] := List.drop_of_length_le h
            rw [e1, e2]; simp
        · rw [if_neg h2] at ih'
          have h3 : ¬ n + 1 ≤ (c ++ flat cs).length := by rw [List.length_append]; omega
          rw [if_neg h3]
          cases hs : sockRead (n + 1 - c.length) cs with
          | none => simp
          | some p => rw [hs] at ih'; simp at ih'
      · rw [if_neg h]
        unfold sockReadF
        have h3 : n + 1 ≤ (c ++ flat cs).length := by rw [List.length_append]; omega
        rw [if_pos h3]
        simp only [Option.map_some, Option.some.injEq, Prod.mk.injEq, flat_cons]
        have hle : n + 1 ≤ c.length := by omega
        rw [List.take_append_of_le_length hle, List.drop_append_of_le_length hle]
        exact ⟨rfl, rfl⟩

def LoopR.mapRest {σ τ : Type} (f : σ → τ) : LoopR σ → LoopR τ
  | .eof => .eof
  | .illegal r => .illegal (f r)
  | .oob i => .oob i
  | .done b r => .done b (f r)

def Rd.mapRest {σ τ : Type} (f : σ → τ) : Rd σ → Rd τ
  | .frame m r => .frame m (f r)
  | .err e r => .err e (f r)
  | .oob b i => .oob b i

theorem sockReadF_one_nil : sockReadF 1 [] = none := by simp [sockReadF]
theorem sockReadF_one_cons (b : Nat) (s : List Nat) : sockReadF 1 (b :: s) = some ([b], s) := by
  simp [sockReadF]

theorem digitLoop_flat (P : Params) : ∀ (k : Nat) (acc : List Nat) (src : Src),
    (digitLoop P k acc src).mapRest flat = digitLoopF P k acc (flat src) := by
  intro k
  induction k with
  | zero =>
    intro acc src
    have h := sockRead_flat src 1
    unfold digitLoop
    cases hf : flat src with
    | nil =>
      rw [hf, sockReadF_one_nil] at h
      cases hs : sockRead 1 src with
      | none => simp [digitLoopF, LoopR.mapRest]
      | some p => rw [hs] at h; simp at h
    | cons b s' =>
      rw [hf, sockReadF_one_cons] at h
      cases hs : sockRead 1 src with
      | none => rw [hs] at h; simp at h
      | some p =>
        rw [hs] at h
        simp only [Option.map_some, Option.some.injEq, Prod.mk.injEq] at h
        obtain ⟨h1, h2⟩ := h
        simp only [h1, List.headD_cons, digitLoopF]
        split <;> (try split) <;> (try split) <;> simp [LoopR.mapRest, h2]
  | succ k ih =>
    intro acc src
    have h := sockRead_flat src 1
    unfold digitLoop
    cases hf : flat src with
    | nil =>
      rw [hf, sockReadF_one_nil] at h
      cases hs : sockRead 1 src with
      | none => simp [digitLoopF, LoopR.mapRest]
      | some p => rw [hs] at h; simp at h
    | cons b s' =>
      rw [hf, sockReadF_one_cons] at h
      cases hs : sockRead 1 src with
      | none => rw [hs] at h; simp at h
      | some p =>
        rw [hs] at h
        simp only [Option.map_some, Option.some.injEq, Prod.mk.injEq] at h
        obtain ⟨h1, h2⟩ := h
        simp only [h1, List.headD_cons, digitLoopF]
        split
        · simp [LoopR.mapRest, h2]
        · split
          · simp [LoopR.mapRest]
          · split
            · simp [LoopR.mapRest, h2]
            · rw [ih, h2]

/-- `sockRead` against `sockReadF`, case form -/
theorem sockRead_cases (src : Src) (n : Nat) :
    (sockRead n src = none ∧ sockReadF n (flat src) = none) ∨
    (∃ b r, sockRead n src = some (b, r) ∧ sockReadF n (flat src) = some (b, flat r)) := by
  have h := sockRead_flat src n
  cases hs : sockRead n src with
  | none => rw [hs] at h; left; exact ⟨rfl, by simpa using h.symm⟩
  | some p =>
    rw [hs] at h; right
    exact ⟨p.1, p.2, rfl, by simpa using h.symm⟩

/-- one `read` over any chunking = `readF` on the stream -/
theorem read_flat (P : Params) (src : Src) : (read P src).mapRest flat = readF P (flat src) := by
  unfold read readF
  by_cases h0 : P.maxMsgLen < P.bg
  · simp [h0, Rd.mapRest]
  · simp only [h0, if_false]
    rcases sockRead_cases src P.bg with ⟨e1, e2⟩ | ⟨b, src1, e1, e2⟩
    · rw [e1, e2]; simp [Rd.mapRest, flat_nil]
    · rw [e1, e2]
      simp only
      by_cases hc : (P.firstCheck && !isDigit (b.getLastD 0)) = true
      · rw [if_pos hc, if_pos hc]; simp [Rd.mapRest]
      · rw [if_neg hc, if_neg hc]
        have hl := digitLoop_flat P (P.loopLimit - P.bg - 1) [] src1
        cases hd : digitLoop P (P.loopLimit - P.bg - 1) [] src1 with
        | eof => rw [hd] at hl; rw [← hl]; simp [LoopR.mapRest, Rd.mapRest, flat_nil]
        | illegal r => rw [hd] at hl; rw [← hl]; simp [LoopR.mapRest, Rd.mapRest]
        | oob i => rw [hd] at hl; rw [← hl]; simp [LoopR.mapRest, Rd.mapRest]
        | done ds src2 =>
          rw [hd] at hl; rw [← hl]
          simp only [LoopR.mapRest]
          cases hp : parseHeader P (b ++ ds) with
          | oob bf i => simp [Rd.mapRest]
          | err e => simp [Rd.mapRest]
          | len mlen =>
            simp only
            by_cases h1 : P.maxMsgLen < mlen
            · simp [h1, Rd.mapRest]
            · simp only [h1, if_false]
              rcases sockRead_cases src2 mlen with ⟨f1, f2⟩ | ⟨body, src3, f1, f2⟩
              · rw [f1, f2]; simp [Rd.mapRest, flat_nil]
              · rw [f1, f2]
                simp only
                by_cases h2 : P.maxMsgLen < mlen + P.chksumSz
                · simp [h2, Rd.mapRest]
                · simp only [h2, if_false]
                  rcases sockRead_cases src3 P.chksumSz with ⟨g1, g2⟩ | ⟨tr, src4, g1, g2⟩
                  · rw [g1, g2]; simp [Rd.mapRest, flat_nil]
                  · rw [g1, g2]; simp [Rd.mapRest]

theorem runLoop_flat (P : Params) : ∀ (f : Nat) (src : Src) (acc : List (List Nat)),
    runLoop P f src acc = runLoopF P f (flat src) acc := by
  intro f
  induction f with
  | zero => intro src acc; simp [runLoop, runLoopF]
  | succ f ih =>
    intro src acc
    have h := read_flat P src
    unfold runLoop runLoopF
    cases hr : read P src with
    | frame m r => rw [hr] at h; rw [← h]; simp only [Rd.mapRest]; exact ih r _
    | err e r => rw [hr] at h; rw [← h]; simp [Rd.mapRest]
    | oob b i => rw [hr] at h; rw [← h]; simp [Rd.mapRest]

/-- the whole run depends on the stream only, not on how it was cut into chunks -/
theorem readAll_flat (P : Params) (src : Src) : readAll P src = readAllF P (flat src) := by
  unfold readAll readAllF
  exact runLoop_flat P _ src []

end Fix8Model.Net.Framer
