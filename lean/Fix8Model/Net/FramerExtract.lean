import Fix8Model.Net.Framer
/-! Lemmas about `extract_element` (forward computation, inversion, index safety) and `fast_atoi<unsigned>`. -/
namespace Fix8Model.Net.Framer

/-- every byte is an ASCII digit -/
def digits (l : List Nat) : Prop := ∀ c ∈ l, isDigit c = true

instance (l : List Nat) : Decidable (digits l) := by unfold digits; infer_instance

theorem digits_nil : digits [] := by intro c h; cases h
theorem digits_cons {c : Nat} {l : List Nat} : digits (c :: l) ↔ isDigit c = true ∧ digits l := by
  unfold digits; simp
theorem digits_append {a b : List Nat} : digits (a ++ b) ↔ digits a ∧ digits b := by
  unfold digits; simp only [List.mem_append]
  constructor
  · intro h; exact ⟨fun c hc => h c (Or.inl hc), fun c hc => h c (Or.inr hc)⟩
  · intro h c hc; rcases hc with hc | hc; exact h.1 c hc; exact h.2 c hc

theorem isDigit_iff (c : Nat) : isDigit c = true ↔ 48 ≤ c ∧ c ≤ 57 := by
  unfold isDigit; simp

theorem digit_ne_one {c : Nat} (h : isDigit c = true) : c ≠ 1 := by
  rw [isDigit_iff] at h; omega
theorem digit_ne_eq {c : Nat} (h : isDigit c = true) : c ≠ 61 := by
  rw [isDigit_iff] at h; omega
theorem digit_ne_zero {c : Nat} (h : isDigit c = true) : c ≠ 0 := by
  rw [isDigit_iff] at h; omega
theorem digits_no_one {l : List Nat} (h : digits l) : 1 ∉ l := by
  intro h1; exact digit_ne_one (h 1 h1) rfl
theorem digits_no_eq {l : List Nat} (h : digits l) : 61 ∉ l := by
  intro h1; exact digit_ne_eq (h 61 h1) rfl
theorem digits_no_zero {l : List Nat} (h : digits l) : 0 ∉ l := by
  intro h1; exact digit_ne_zero (h 0 h1) rfl

/-! ### forward -/

theorem getValue_forward (bd : Bool) (tagSz valSz : Nat) (tag : List Nat) (htag : tag.length < tagSz) :
    ∀ (v val rest : List Nat) (ii : Nat), 1 ∉ v → val.length + v.length < valSz →
      getValue bd tagSz valSz tag (v ++ 1 :: rest) val ii = .ret (ii + v.length + 1) tag (val ++ v) := by
  intro v
  induction v with
  | nil =>
    intro val rest ii _ hl
    simp only [List.nil_append, getValue, if_true, terminate, List.length_nil, Nat.add_zero, List.append_nil]
    simp only [List.length_nil, Nat.add_zero] at hl
    rw [if_pos htag, if_pos hl]
  | cons c v ih =>
    intro val rest ii h1 hl
    have hc : c ≠ 1 := by intro h; apply h1; rw [h]; exact List.mem_cons_self
    have hv : 1 ∉ v := fun h => h1 (List.mem_cons_of_mem _ h)
    simp only [List.length_cons] at hl
    simp only [List.cons_append, getValue, if_neg hc]
    rw [if_neg (by omega), if_pos (by omega)]
    rw [ih (val ++ [c]) rest (ii + 1) hv (by simp only [List.length_append, List.length_singleton]; omega)]
    simp only [List.length_cons, List.append_assoc, List.singleton_append]
    congr 1; omega

theorem getTag_forward (bd : Bool) (tagSz valSz : Nat) :
    ∀ (t tag v rest : List Nat) (ii : Nat), digits t → tag.length + t.length < tagSz → 1 ∉ v → v.length < valSz →
      getTag bd tagSz valSz (t ++ 61 :: (v ++ 1 :: rest)) tag ii = .ret (ii + t.length + 1 + v.length + 1) (tag ++ t) v := by
  intro t
  induction t with
  | nil =>
    intro tag v rest ii _ hl h1 hv
    have h61 : isDigit 61 = false := by decide
    simp only [List.nil_append, getTag, h61, Bool.false_eq_true, if_false, if_true, List.length_nil, Nat.add_zero, List.append_nil]
    simp only [List.length_nil, Nat.add_zero] at hl
    rw [getValue_forward bd tagSz valSz tag hl v [] rest (ii + 1) h1 (by simpa using hv)]
    simp
  | cons c t ih =>
    intro tag v rest ii hd hl h1 hv
    rw [digits_cons] at hd
    simp only [List.length_cons] at hl
    simp only [List.cons_append, getTag, hd.1, if_true]
    rw [if_neg (by omega), if_pos (by omega)]
    rw [ih (tag ++ [c]) v rest (ii + 1) hd.2 (by simp only [List.length_append, List.length_singleton]; omega) h1 hv]
    simp only [List.length_cons, List.append_assoc, List.singleton_append]
    congr 1; omega

theorem extract_forward (bd : Bool) (tagSz valSz : Nat) (t v rest : List Nat) (hd : digits t) (ht : t.length < tagSz)
    (h1 : 1 ∉ v) (hv : v.length < valSz) :
    extractElement bd tagSz valSz (t ++ 61 :: (v ++ 1 :: rest)) = .ret (t.length + 1 + v.length + 1) t v := by
  unfold extractElement
  rw [getTag_forward bd tagSz valSz t [] v rest 0 hd (by simpa using ht) h1 hv]
  simp

/-! ### inversion -/

theorem terminate_ret {tagSz valSz r : Nat} {tag val tg vl : List Nat} {r' : Nat}
    (h : terminate tagSz valSz r tag val = .ret r' tg vl) :
    r' = r ∧ tg = tag ∧ vl = val ∧ tag.length < tagSz ∧ val.length < valSz := by
  unfold terminate at h
  split at h
  · split at h
    · injection h with a b c; exact ⟨a.symm, b.symm, c.symm, by assumption, by assumption⟩
    · cases h
  · cases h

theorem getValue_spec (bd : Bool) (tagSz valSz : Nat) (tag : List Nat) :
    ∀ (l val : List Nat) (ii r : Nat) (tg vl : List Nat),
      getValue bd tagSz valSz tag l val ii = .ret r tg vl → r ≠ 0 →
      ∃ v rest, l = v ++ 1 :: rest ∧ 1 ∉ v ∧ vl = val ++ v ∧ tg = tag ∧ r = ii + v.length + 1 ∧
        vl.length < valSz ∧ tag.length < tagSz := by
  intro l
  induction l with
  | nil =>
    intro val ii r tg vl h hr
    simp only [getValue] at h
    exact absurd (terminate_ret h).1 hr
  | cons c cs ih =>
    intro val ii r tg vl h hr
    simp only [getValue] at h
    by_cases hc : c = 1
    · rw [if_pos hc] at h
      obtain ⟨a, b, d, e, f⟩ := terminate_ret h
      refine ⟨[], cs, by simp [hc], by simp, by simp [d], b, by simp [a], by rw [d]; exact f, e⟩
    · rw [if_neg hc] at h
      by_cases hb : bd = true ∧ val.length + 1 = valSz
      · rw [if_pos hb] at h; exact absurd (terminate_ret h).1 hr
      rw [if_neg hb] at h
      by_cases hl : val.length < valSz
      · rw [if_pos hl] at h
        obtain ⟨v, rest, e1, e2, e3, e4, e5, e6, e7⟩ := ih _ _ _ _ _ h hr
        refine ⟨c :: v, rest, by simp [e1], ?_, by simp [e3], e4, by simp [e5]; omega, e6, e7⟩
        intro hm
        rcases List.mem_cons.mp hm with hm | hm
        · exact hc hm.symm
        · exact e2 hm
      · rw [if_neg hl] at h; cases h

theorem getTag_spec (bd : Bool) (tagSz valSz : Nat) :
    ∀ (l tag : List Nat) (ii r : Nat) (tg vl : List Nat),
      getTag bd tagSz valSz l tag ii = .ret r tg vl → r ≠ 0 →
      ∃ t v rest, l = t ++ 61 :: (v ++ 1 :: rest) ∧ digits t ∧ 1 ∉ v ∧ tg = tag ++ t ∧ vl = v ∧
        r = ii + t.length + 1 + v.length + 1 ∧ tg.length < tagSz ∧ v.length < valSz := by
  intro l
  induction l with
  | nil =>
    intro tag ii r tg vl h hr
    simp only [getTag] at h
    exact absurd (terminate_ret h).1 hr
  | cons c cs ih =>
    intro tag ii r tg vl h hr
    simp only [getTag] at h
    by_cases hd : isDigit c = true
    · rw [if_pos hd] at h
      by_cases hb : bd = true ∧ tag.length + 1 = tagSz
      · rw [if_pos hb] at h; exact absurd (terminate_ret h).1 hr
      rw [if_neg hb] at h
      by_cases hl : tag.length < tagSz
      · rw [if_pos hl] at h
        obtain ⟨t, v, rest, e1, e2, e3, e4, e5, e6, e7, e8⟩ := ih _ _ _ _ _ h hr
        refine ⟨c :: t, v, rest, by simp [e1], digits_cons.mpr ⟨hd, e2⟩, e3, by simp [e4], e5, by simp [e6]; omega, e7, e8⟩
      · rw [if_neg hl] at h; cases h
    · rw [if_neg hd] at h
      by_cases hc : c = 61
      · rw [if_pos hc] at h
        obtain ⟨v, rest, e1, e2, e3, e4, e5, e6, e7⟩ := getValue_spec bd tagSz valSz tag _ _ _ _ _ _ h hr
        refine ⟨[], v, rest, by simp [hc, e1], digits_nil, e2, by simp [e4], by simpa using e3, by simp [e5], by simp [e4, e7], ?_⟩
        rw [e3] at e6; simpa using e6
      · rw [if_neg hc] at h
        exact absurd (terminate_ret h).1 hr

theorem extract_spec {bd : Bool} {tagSz valSz : Nat} {l : List Nat} {r : Nat} {tg vl : List Nat}
    (h : extractElement bd tagSz valSz l = .ret r tg vl) (hr : r ≠ 0) :
    ∃ rest, l = tg ++ 61 :: (vl ++ 1 :: rest) ∧ digits tg ∧ 1 ∉ vl ∧
      r = tg.length + 1 + vl.length + 1 ∧ tg.length < tagSz ∧ vl.length < valSz := by
  unfold extractElement at h
  obtain ⟨t, v, rest, e1, e2, e3, e4, e5, e6, e7, e8⟩ := getTag_spec bd tagSz valSz l [] 0 r tg vl h hr
  simp only [List.nil_append] at e4
  subst e4; subst e5
  exact ⟨rest, e1, e2, e3, by omega, e7, e8⟩

/-! ### index safety of the two fixed buffers -/

theorem terminate_no_oob {tagSz valSz r : Nat} {tag val : List Nat} (h1 : tag.length < tagSz) (h2 : val.length < valSz) :
    terminate tagSz valSz r tag val = .ret r tag val := by
  unfold terminate; rw [if_pos h1, if_pos h2]

theorem getValue_no_oob (bd : Bool) (tagSz valSz : Nat) (tag : List Nat) (htag : tag.length < tagSz) :
    ∀ (l val : List Nat) (ii : Nat), val.length + l.length < valSz →
      ∃ r tg vl, getValue bd tagSz valSz tag l val ii = .ret r tg vl := by
  intro l
  induction l with
  | nil =>
    intro val ii h
    simp only [getValue]
    exact ⟨_, _, _, terminate_no_oob htag (by simpa using h)⟩
  | cons c cs ih =>
    intro val ii h
    simp only [List.length_cons] at h
    simp only [getValue]
    by_cases hc : c = 1
    · rw [if_pos hc]; exact ⟨_, _, _, terminate_no_oob htag (by omega)⟩
    · rw [if_neg hc]
      by_cases hb : bd = true ∧ val.length + 1 = valSz
      · rw [if_pos hb]; exact ⟨_, _, _, terminate_no_oob htag (by omega)⟩
      rw [if_neg hb, if_pos (by omega)]
      exact ih _ _ (by simp only [List.length_append, List.length_singleton]; omega)

theorem getTag_no_oob (bd : Bool) (tagSz valSz : Nat) :
    ∀ (l tag : List Nat) (ii : Nat), tag.length + l.length < tagSz → l.length < valSz →
      ∃ r tg vl, getTag bd tagSz valSz l tag ii = .ret r tg vl := by
  intro l
  induction l with
  | nil =>
    intro tag ii h1 h2
    simp only [getTag]
    exact ⟨_, _, _, terminate_no_oob (by simpa using h1) (by simpa using h2)⟩
  | cons c cs ih =>
    intro tag ii h1 h2
    simp only [List.length_cons] at h1 h2
    simp only [getTag]
    by_cases hd : isDigit c = true
    · rw [if_pos hd]
      by_cases hb : bd = true ∧ tag.length + 1 = tagSz
      · rw [if_pos hb]; exact ⟨_, _, _, terminate_no_oob (by omega) (by simp only [List.length_nil]; omega)⟩
      rw [if_neg hb, if_pos (by omega)]
      exact ih _ _ (by simp only [List.length_append, List.length_singleton]; omega) (by omega)
    · rw [if_neg hd]
      by_cases hc : c = 61
      · rw [if_pos hc]
        exact getValue_no_oob bd tagSz valSz tag (by omega) cs [] _ (by simp only [List.length_nil]; omega)
      · rw [if_neg hc]; exact ⟨_, _, _, terminate_no_oob (by omega) (by simp only [List.length_nil]; omega)⟩

/-- an input shorter than both buffers never drives an index out of them -/
theorem extract_no_oob {bd : Bool} {tagSz valSz : Nat} {l : List Nat} (h1 : l.length < tagSz) (h2 : l.length < valSz) :
    ∃ r tg vl, extractElement bd tagSz valSz l = .ret r tg vl := by
  unfold extractElement
  exact getTag_no_oob bd tagSz valSz l [] 0 (by simpa using h1) h2

/-! ### the bounded form never leaves the buffers -/

theorem getValue_bounded_no_oob (tagSz valSz : Nat) (tag : List Nat) (htag : tag.length < tagSz) :
    ∀ (l val : List Nat) (ii : Nat), val.length < valSz →
      ∃ r tg vl, getValue true tagSz valSz tag l val ii = .ret r tg vl := by
  intro l
  induction l with
  | nil =>
    intro val ii h
    simp only [getValue]
    exact ⟨_, _, _, terminate_no_oob htag h⟩
  | cons c cs ih =>
    intro val ii h
    simp only [getValue]
    by_cases hc : c = 1
    · rw [if_pos hc]; exact ⟨_, _, _, terminate_no_oob htag h⟩
    · rw [if_neg hc]
      by_cases hb : True ∧ val.length + 1 = valSz
      · rw [if_pos hb]; exact ⟨_, _, _, terminate_no_oob htag h⟩
      · rw [if_neg hb, if_pos h]
        have : ¬ val.length + 1 = valSz := fun e => hb ⟨trivial, e⟩
        exact ih _ _ (by simp only [List.length_append, List.length_singleton]; omega)

theorem getTag_bounded_no_oob (tagSz valSz : Nat) (hv : 0 < valSz) :
    ∀ (l tag : List Nat) (ii : Nat), tag.length < tagSz →
      ∃ r tg vl, getTag true tagSz valSz l tag ii = .ret r tg vl := by
  intro l
  induction l with
  | nil =>
    intro tag ii h
    simp only [getTag]
    exact ⟨_, _, _, terminate_no_oob h (by simpa using hv)⟩
  | cons c cs ih =>
    intro tag ii h
    simp only [getTag]
    by_cases hd : isDigit c = true
    · rw [if_pos hd]
      by_cases hb : True ∧ tag.length + 1 = tagSz
      · rw [if_pos hb]; exact ⟨_, _, _, terminate_no_oob h (by simpa using hv)⟩
      · rw [if_neg hb, if_pos h]
        have : ¬ tag.length + 1 = tagSz := fun e => hb ⟨trivial, e⟩
        exact ih _ _ (by simp only [List.length_append, List.length_singleton]; omega)
    · rw [if_neg hd]
      by_cases hc : c = 61
      · rw [if_pos hc]
        exact getValue_bounded_no_oob tagSz valSz tag h cs [] _ (by simpa using hv)
      · rw [if_neg hc]; exact ⟨_, _, _, terminate_no_oob h (by simpa using hv)⟩

/-- with the bounds tests no input at all drives an index out of `tag` / `val` -/
theorem extract_bounded_no_oob {tagSz valSz : Nat} (ht : 0 < tagSz) (hv : 0 < valSz) (l : List Nat) :
    ∃ r tg vl, extractElement true tagSz valSz l = .ret r tg vl := by
  unfold extractElement
  exact getTag_bounded_no_oob tagSz valSz hv l [] 0 (by simpa using ht)

/-! ### `fast_atoi<unsigned>` on digit strings -/

/-- the decimal value of a digit string, continuing from `r` -/
def decAcc (r : Nat) (ds : List Nat) : Nat := ds.foldl (fun r c => r * 10 + (c - 48)) r

/-- the decimal value of a digit string -/
def decVal (ds : List Nat) : Nat := decAcc 0 ds

theorem decAcc_nil (r : Nat) : decAcc r [] = r := by
  unfold decAcc; rw [List.foldl_nil]
theorem decAcc_cons (r c : Nat) (ds : List Nat) : decAcc r (c :: ds) = decAcc (r * 10 + (c - 48)) ds := by
  unfold decAcc; rw [List.foldl_cons]

theorem atoiStepU_digit (r c : Nat) (hc : isDigit c = true) :
    atoiStepU false r c = (r * 10 + (c - 48)) % 4294967296 := by
  rw [isDigit_iff] at hc
  have h : c < 128 := by omega
  have e : atoiStepU false r c = (((r : Int) * 8 + (r : Int) * 2 + ((c : Int) - 48) - 0) % 4294967296).toNat := by
    unfold atoiStepU Digits.atoiStep
    rw [if_pos h]
    rfl
  rw [e]
  omega

theorem foldl_atoiU_digits : ∀ (ds : List Nat) (a b : Nat), digits ds → a = b % 4294967296 →
    ds.foldl (atoiStepU false) a = decAcc b ds % 4294967296 := by
  intro ds
  induction ds with
  | nil => intro a b _ h; simpa [decAcc_nil] using h
  | cons c ds ih =>
    intro a b hd h
    rw [digits_cons] at hd
    rw [List.foldl_cons, decAcc_cons]
    apply ih _ _ hd.2
    rw [atoiStepU_digit a c hd.1, h]
    omega

/-- on a digit string `fast_atoi<unsigned>` is the decimal value reduced modulo 2^32 -/
theorem atoiU_digits (ds : List Nat) (h : digits ds) : atoiU ds = decVal ds % 4294967296 := by
  unfold decVal
  cases ds with
  | nil => rfl
  | cons c cs =>
    have hc : c ≠ 45 := by
      have := (isDigit_iff c).mp ((digits_cons.mp h).1); omega
    have e : atoiU (c :: cs) = (c :: cs).foldl (atoiStepU false) 0 := by
      unfold atoiU
      split
      · rename_i heq; injection heq with h1 _; exact absurd h1 hc
      · rfl
    rw [e]
    exact foldl_atoiU_digits (c :: cs) 0 0 h rfl

theorem decAcc_lt : ∀ (ds : List Nat) (r : Nat), digits ds → decAcc r ds < (r + 1) * 10 ^ ds.length := by
  intro ds
  induction ds with
  | nil => intro r _; simp [decAcc_nil]
  | cons c ds ih =>
    intro r hd
    rw [digits_cons] at hd
    rw [decAcc_cons, List.length_cons, Nat.pow_succ]
    have h1 := ih (r * 10 + (c - 48)) hd.2
    have hc := (isDigit_iff c).mp hd.1
    have h2 : r * 10 + (c - 48) + 1 ≤ (r + 1) * 10 := by omega
    have h3 := Nat.mul_le_mul_right (10 ^ ds.length) h2
    calc decAcc (r * 10 + (c - 48)) ds < (r * 10 + (c - 48) + 1) * 10 ^ ds.length := h1
      _ ≤ (r + 1) * 10 * 10 ^ ds.length := h3
      _ = (r + 1) * (10 ^ ds.length * 10) := by rw [Nat.mul_assoc, Nat.mul_comm 10]

theorem decVal_lt_of_len {ds : List Nat} (hd : digits ds) (hl : ds.length ≤ 9) : decVal ds < 1000000000 := by
  have h := decAcc_lt ds 0 hd
  have hp : 10 ^ ds.length ≤ 10 ^ 9 := Nat.pow_le_pow_right (by decide) hl
  have e : (10 : Nat) ^ 9 = 1000000000 := by decide
  unfold decVal
  omega

/-- up to nine digits are read exactly -/
theorem atoiU_exact {ds : List Nat} (hd : digits ds) (hl : ds.length ≤ 9) : atoiU ds = decVal ds := by
  rw [atoiU_digits ds hd]
  have := decVal_lt_of_len hd hl
  omega

theorem cstr_of_no_zero {l : List Nat} (h : 0 ∉ l) : cstr l = l := by
  unfold cstr
  induction l with
  | nil => rfl
  | cons x xs ih =>
    have hx : x ≠ 0 := fun e => h (e ▸ List.mem_cons_self)
    rw [List.takeWhile_cons]
    simp only [ne_eq, hx, not_false_eq_true, decide_true, if_true]
    rw [ih (fun hm => h (List.mem_cons_of_mem _ hm))]

end Fix8Model.Net.Framer
