import Fix8Model.Net.FramerReject
/-! Index safety of `msg_buf`, `tag`, `val` in `FIXReader::read`. -/
namespace Fix8Model.Net.Framer

theorem terminate_oob_buf {tagSz valSz r : Nat} {tag val : List Nat} {b : Buf} {i : Nat}
    (h : terminate tagSz valSz r tag val = .oob b i) : b ≠ .msg := by
  unfold terminate at h
  split at h
  · split at h
    · cases h
    · injection h with h1 _; rw [← h1]; intro hh; cases hh
  · injection h with h1 _; rw [← h1]; intro hh; cases hh

theorem getValue_oob_buf (bd : Bool) (tagSz valSz : Nat) (tag : List Nat) : ∀ (l val : List Nat) (ii : Nat) (b : Buf) (i : Nat),
    getValue bd tagSz valSz tag l val ii = .oob b i → b ≠ .msg := by
  intro l
  induction l with
  | nil => intro val ii b i h; simp only [getValue] at h; exact terminate_oob_buf h
  | cons c cs ih =>
    intro val ii b i h
    simp only [getValue] at h
    split at h
    · exact terminate_oob_buf h
    · split at h
      · exact terminate_oob_buf h
      · split at h
        · exact ih _ _ _ _ h
        · injection h with h1 _; rw [← h1]; intro hh; cases hh

theorem getTag_oob_buf (bd : Bool) (tagSz valSz : Nat) : ∀ (l tag : List Nat) (ii : Nat) (b : Buf) (i : Nat),
    getTag bd tagSz valSz l tag ii = .oob b i → b ≠ .msg := by
  intro l
  induction l with
  | nil => intro tag ii b i h; simp only [getTag] at h; exact terminate_oob_buf h
  | cons c cs ih =>
    intro tag ii b i h
    simp only [getTag] at h
    split at h
    · split at h
      · exact terminate_oob_buf h
      · split at h
        · exact ih _ _ _ _ h
        · injection h with h1 _; rw [← h1]; intro hh; cases hh
    · split at h
      · exact getValue_oob_buf _ _ _ _ _ _ _ _ _ h
      · exact terminate_oob_buf h

theorem parseHeader_oob {P : Params} {to : List Nat} {b : Buf} {i : Nat} (h : parseHeader P to = .oob b i) :
    b ≠ .msg ∧ (P.tagSz ≤ to.length ∨ P.valSz ≤ to.length) ∧ (P.boundedExtract = true → P.tagSz = 0 ∨ P.valSz = 0) := by
  unfold parseHeader at h
  split at h
  · rename_i b' i' hx
    injection h with h1 h2
    subst h1
    refine ⟨getTag_oob_buf _ _ _ _ _ _ _ _ hx, ?_, ?_⟩
    · apply Classical.byContradiction
      intro hn
      obtain ⟨r, tg, vl, hr⟩ := extract_no_oob (bd := P.boundedExtract) (tagSz := P.tagSz) (valSz := P.valSz) (l := to) (by omega) (by omega)
      rw [hr] at hx; cases hx
    · intro hbd
      apply Classical.byContradiction
      intro hn
      rw [hbd] at hx
      obtain ⟨r, tg, vl, hr⟩ := extract_bounded_no_oob (tagSz := P.tagSz) (valSz := P.valSz) (by omega) (by omega) to
      rw [hr] at hx; cases hx
  · rename_i r1 tg1 v1 hx1
    split at h
    · cases h
    · split at h
      · cases h
      · split at h
        · cases h
        · split at h
          · rename_i b' i' hx
            injection h with h1 h2
            subst h1
            refine ⟨getTag_oob_buf _ _ _ _ _ _ _ _ hx, ?_, ?_⟩
            · apply Classical.byContradiction
              intro hn
              have hl : (List.drop r1 to).length ≤ to.length := by rw [List.length_drop]; omega
              obtain ⟨r, tg, vl, hr⟩ := extract_no_oob (bd := P.boundedExtract) (tagSz := P.tagSz) (valSz := P.valSz) (l := List.drop r1 to) (by omega) (by omega)
              rw [hr] at hx; cases hx
            · intro hbd
              apply Classical.byContradiction
              intro hn
              rw [hbd] at hx
              obtain ⟨r, tg, vl, hr⟩ := extract_bounded_no_oob (tagSz := P.tagSz) (valSz := P.valSz) (by omega) (by omega) (List.drop r1 to)
              rw [hr] at hx; cases hx
          · split at h
            · cases h
            · split at h
              · cases h
              · simp only at h
                split at h <;> cases h

theorem digitLoopF_no_oob (P : Params) : ∀ (k : Nat) (acc s : List Nat) (i : Nat),
    P.bg + acc.length + k < P.maxMsgLen → digitLoopF P k acc s ≠ .oob i := by
  intro k
  induction k with
  | zero =>
    intro acc s i hk h
    cases s with
    | nil => simp [digitLoopF] at h
    | cons bt s' =>
      unfold digitLoopF at h
      split at h
      · cases h
      · split at h
        · omega
        · split at h
          · cases h
          · simp only at h; cases h
  | succ k ih =>
    intro acc s i hk h
    cases s with
    | nil => simp [digitLoopF] at h
    | cons bt s' =>
      unfold digitLoopF at h
      split at h
      · cases h
      · split at h
        · omega
        · split at h
          · cases h
          · simp only at h
            exact ih _ _ _ (by simp only [List.length_append, List.length_singleton]; omega) h

/-- an out-of-range index can only be one into `tag` or `val`, and only with a header at least as long as the
smaller of the two (`msg_buf` is never overrun) -/
theorem readF_oob {P : Params} (hw : WFParams P) {s : List Nat} {bf : Buf} {i : Nat} (h : readF P s = .oob bf i) :
    bf ≠ .msg ∧ ∃ b dsb s2 ds, s = (b ++ dsb) ++ s2 ∧ b.length = P.bg ∧ digits ds ∧ (dsb = ds ++ [1] ∨ dsb = ds) ∧
      dsb.length ≤ P.loopLimit - P.bg ∧ (P.tagSz ≤ (b ++ dsb).length ∨ P.valSz ≤ (b ++ dsb).length) ∧
      P.boundedExtract = false := by
  have hsz := hw.size
  have hle := hw.loop_le
  have hge := hw.loop_ge
  unfold readF at h
  split at h
  · omega
  · split at h
    · cases h
    · rename_i b s1 hs1
      obtain ⟨e1, l1⟩ := sockReadF_some hs1
      split at h
      · cases h
      · split at h
        · cases h
        · cases h
        · rename_i i' hl
          exact absurd hl (digitLoopF_no_oob P _ _ _ _ (by simp only [List.length_nil]; omega))
        · rename_i dsb s2 hl
          obtain ⟨ds, hds, es1, hcase, _⟩ := digitLoopF_done_split hl
          simp only at h
          split at h
          · rename_i bf' i' hp
            injection h with h1 h2
            subst h1
            obtain ⟨p1, p2, p3⟩ := parseHeader_oob hp
            have hbd : P.boundedExtract = false := by
              cases hb : P.boundedExtract with
              | false => rfl
              | true =>
                have htg := hw.tag_sz
                have hvl := hw.val_sz
                rcases p3 hb with h0 | h0 <;> omega
            refine ⟨p1, b, dsb, s2, ds, by rw [e1, es1]; simp, l1, hds, ?_, ?_, p2, hbd⟩
            · rcases hcase with ⟨a, _⟩ | ⟨a, _⟩
              · exact Or.inl a
              · exact Or.inr a
            · rcases hcase with ⟨a, la⟩ | ⟨a, la⟩
              · rw [a]; simp only [List.length_append, List.length_singleton]; omega
              · rw [a]; omega
          · cases h
          · rename_i mlen hp
            obtain ⟨_, _, _, _, _, _, _, _, _, _, _, _, _, _, hml⟩ := parseHeader_len hp
            rw [sizeLimit_eq hw] at hml
            split at h
            · omega
            · split at h
              · cases h
              · split at h
                · omega
                · split at h <;> cases h

theorem digits_prefix_le_run : ∀ (ds t : List Nat), digits ds → ds.length ≤ ((ds ++ t).takeWhile isDigit).length := by
  intro ds
  induction ds with
  | nil => intro t _; simp
  | cons c ds ih =>
    intro t hd
    rw [digits_cons] at hd
    rw [List.cons_append, List.takeWhile_cons, hd.1]
    simp only [if_true, List.length_cons]
    have := ih t hd.2
    omega

end Fix8Model.Net.Framer
