import Fix8Model.Net.FramerLemmas
import Fix8Model.Net.FramerExtract
/-! The reader on well-formed frames; what a successful read returns; the run over a whole stream. -/
namespace Fix8Model.Net.Framer

/-- side conditions on the configuration under which the statements are made (all hold for the compiled
constants and any BeginString without SOH / NUL shorter than the value buffer) -/
structure WFParams (P : Params) : Prop where
  bs_soh : 1 ∉ P.beginStr
  bs_nul : 0 ∉ P.beginStr
  bs_len : P.beginStr.length < P.valSz
  tag_sz : 1 < P.tagSz
  val_sz : 9 < P.valSz
  size : P.bg + P.chksumSz ≤ P.maxMsgLen
  loop_le : P.loopLimit ≤ P.maxMsgLen
  loop_ge : P.bg + 9 ≤ P.loopLimit
  max_lt : P.maxMsgLen < 18446744073709551616

theorem sizeLimit_eq {P : Params} (h : WFParams P) : P.sizeLimit = P.maxMsgLen - P.bg - P.chksumSz := by
  have h1 := h.size
  have h2 := h.max_lt
  unfold Params.sizeLimit
  omega

/-- "8=" BeginString SOH "9=" -/
def preamble (P : Params) : List Nat := [56, 61] ++ P.beginStr ++ [1, 57, 61]

theorem preamble_length (P : Params) : (preamble P).length + 1 = P.bg := by
  unfold preamble Params.bg
  simp only [List.length_append, List.length_cons, List.length_nil]

/-- a frame the property calls valid: configured BeginString, BodyLength = the true body byte count (decimal,
at most nine digits, within the size limit), `_chksum_sz` trailer bytes -/
def WFFrame (P : Params) (f : List Nat) : Prop :=
  ∃ ds body tr, f = preamble P ++ ds ++ [1] ++ body ++ tr ∧ ds ≠ [] ∧ digits ds ∧ ds.length ≤ 9 ∧
    decVal ds = body.length ∧ 1 ≤ body.length ∧ body.length ≤ P.maxMsgLen - P.bg - P.chksumSz ∧
    tr.length = P.chksumSz

theorem sockReadF_append (a b : List Nat) : sockReadF a.length (a ++ b) = some (a, b) := by
  unfold sockReadF
  rw [if_pos (by simp)]
  simp

theorem sockReadF_some {n : Nat} {s a b : List Nat} (h : sockReadF n s = some (a, b)) :
    s = a ++ b ∧ a.length = n := by
  unfold sockReadF at h
  split at h
  · rename_i hn
    injection h with h; injection h with h1 h2
    subst h1; subst h2
    exact ⟨(List.take_append_drop n s).symm, by simp [Nat.min_eq_left hn]⟩
  · cases h

theorem sockReadF_none {n : Nat} {s : List Nat} (h : sockReadF n s = none) : s.length < n := by
  unfold sockReadF at h
  split at h
  · cases h
  · omega

/-! ### the digit loop -/

theorem digitLoopF_forward (P : Params) :
    ∀ (ds : List Nat) (k : Nat) (acc rest : List Nat), digits ds → ds.length ≤ k →
      P.bg + acc.length + ds.length < P.maxMsgLen →
      digitLoopF P k acc (ds ++ 1 :: rest) = .done (acc ++ ds ++ [1]) rest := by
  intro ds
  induction ds with
  | nil =>
    intro k acc rest _ _ hm
    simp only [List.length_nil, Nat.add_zero] at hm
    simp only [List.nil_append, List.append_nil]
    unfold digitLoopF
    have h1 : (!isDigit 1 && (1 != 1)) = false := by decide
    rw [h1]
    simp only [Bool.false_eq_true, if_false]
    rw [if_neg (by omega)]
    simp
  | cons c ds ih =>
    intro k acc rest hd hk hm
    rw [digits_cons] at hd
    simp only [List.length_cons] at hk hm
    have hc1 : c ≠ 1 := digit_ne_one hd.1
    simp only [List.cons_append]
    unfold digitLoopF
    simp only [hd.1, Bool.not_true, Bool.false_and, Bool.false_eq_true, if_false]
    rw [if_neg (by omega)]
    have hb : (c == 1) = false := by simpa using hc1
    rw [hb]
    simp only [Bool.false_eq_true, if_false]
    cases k with
    | zero => omega
    | succ k' =>
      simp only
      rw [ih k' (acc ++ [c]) rest hd.2 (by omega) (by simp only [List.length_append, List.length_singleton]; omega)]
      simp

/-- what a finished digit loop has read: digits up to and including the SOH, or `k + 1` digits without one -/
theorem digitLoopF_done (P : Params) :
    ∀ (k : Nat) (acc s bytes s2 : List Nat), digitLoopF P k acc s = .done bytes s2 →
      ∃ ds, digits ds ∧ s = ds ++ (bytes.drop (acc.length + ds.length) ++ s2) ∧
        ((bytes = acc ++ ds ++ [1] ∧ ds.length ≤ k) ∨ (bytes = acc ++ ds ∧ ds.length = k + 1)) ∧
        P.bg + bytes.length ≤ P.maxMsgLen := by
  intro k
  induction k with
  | zero =>
    intro acc s bytes s2 h
    cases s with
    | nil => simp [digitLoopF] at h
    | cons bt s' =>
      unfold digitLoopF at h
      split at h
      · cases h
      · rename_i h1
        split at h
        · cases h
        · rename_i h2
          split at h
          · rename_i h3
            injection h with e1 e2
            have hb : bt = 1 := by simpa using h3
            subst e1; subst e2; subst hb
            refine ⟨[], digits_nil, by simp, Or.inl ⟨by simp, by simp⟩, ?_⟩
            simp only [List.length_append, List.length_singleton]; omega
          · rename_i h3
            simp only at h
            injection h with e1 e2
            subst e1; subst e2
            have hb : bt ≠ 1 := by simpa using h3
            have hd : isDigit bt = true := by
              cases hdd : isDigit bt with
              | true => rfl
              | false => rw [hdd] at h1; simp at h1; exact absurd h1 hb
            refine ⟨[bt], digits_cons.mpr ⟨hd, digits_nil⟩, by simp, Or.inr ⟨by simp, by simp⟩, ?_⟩
            simp only [List.length_append, List.length_singleton]; omega
  | succ k ih =>
    intro acc s bytes s2 h
    cases s with
    | nil => simp [digitLoopF] at h
    | cons bt s' =>
      unfold digitLoopF at h
      split at h
      · cases h
      · rename_i h1
        split at h
        · cases h
        · rename_i h2
          split at h
          · rename_i h3
            injection h with e1 e2
            have hb : bt = 1 := by simpa using h3
            subst e1; subst e2; subst hb
            refine ⟨[], digits_nil, by simp, Or.inl ⟨by simp, by simp⟩, ?_⟩
            simp only [List.length_append, List.length_singleton]; omega
          · rename_i h3
            simp only at h
            have hb : bt ≠ 1 := by simpa using h3
            have hd : isDigit bt = true := by
              cases hdd : isDigit bt with
              | true => rfl
              | false => rw [hdd] at h1; simp at h1; exact absurd h1 hb
            obtain ⟨ds, g1, g2, g3, g4⟩ := ih _ _ _ _ h
            refine ⟨bt :: ds, digits_cons.mpr ⟨hd, g1⟩, ?_, ?_, g4⟩
            · simp only [List.length_append, List.length_cons] at g2 ⊢
              rw [List.cons_append]
              congr 1
              have e : acc.length + (ds.length + 1) = acc.length + 1 + ds.length := by omega
              rw [e]; exact g2
            · rcases g3 with ⟨g3, g5⟩ | ⟨g3, g5⟩
              · left; exact ⟨by rw [g3]; simp, by simp; omega⟩
              · right; exact ⟨by rw [g3]; simp, by simp [g5]⟩

/-! ### the header of a valid frame -/

theorem parseHeader_canon {P : Params} (h : WFParams P) {v2 : List Nat} (h1 : 1 ∉ v2) (hl : v2.length < P.valSz) :
    parseHeader P (preamble P ++ v2 ++ [1]) =
      (if atoiU (cstr v2) = 0 ∨ atoiU (cstr v2) > P.sizeLimit then .err .invalidBodyLength else .len (atoiU (cstr v2))) := by
  have e0 : preamble P ++ v2 ++ [1] = [56] ++ 61 :: (P.beginStr ++ 1 :: ([57] ++ 61 :: (v2 ++ 1 :: []))) := by
    unfold preamble; simp
  have d8 : digits [56] := by intro c hc; simp at hc; subst hc; decide
  have d9 : digits [57] := by intro c hc; simp at hc; subst hc; decide
  have x1 := extract_forward P.boundedExtract P.tagSz P.valSz [56] P.beginStr ([57] ++ 61 :: (v2 ++ 1 :: [])) d8
    (by simpa using h.tag_sz) h.bs_soh h.bs_len
  have x2 := extract_forward P.boundedExtract P.tagSz P.valSz [57] v2 [] d9 (by simpa using h.tag_sz) h1 hl
  unfold parseHeader
  rw [e0, x1]
  simp only [List.length_singleton]
  have hr : ¬ (1 + 1 + P.beginStr.length + 1 = 0) := by omega
  rw [if_neg hr]
  rw [if_neg (by simp), cstr_of_no_zero h.bs_nul, if_neg (by simp)]
  have ed : List.drop (1 + 1 + P.beginStr.length + 1) ([56] ++ 61 :: (P.beginStr ++ 1 :: ([57] ++ 61 :: (v2 ++ 1 :: [])))) =
      [57] ++ 61 :: (v2 ++ 1 :: []) := by
    have : [56] ++ 61 :: (P.beginStr ++ 1 :: ([57] ++ 61 :: (v2 ++ 1 :: []))) =
        ([56, 61] ++ P.beginStr ++ [1]) ++ ([57] ++ 61 :: (v2 ++ 1 :: [])) := by simp
    rw [this]
    apply List.drop_left'
    simp only [List.length_append, List.length_cons, List.length_nil]
  rw [ed, x2]
  simp only [List.length_singleton]
  have hr2 : ¬ (1 + 1 + v2.length + 1 = 0) := by omega
  rw [if_neg hr2, if_neg (by simp)]

theorem parseHeader_valid {P : Params} (h : WFParams P) {ds : List Nat} (hd : digits ds) (hl : ds.length ≤ 9)
    (h1 : 1 ≤ decVal ds) (h2 : decVal ds ≤ P.maxMsgLen - P.bg - P.chksumSz) :
    parseHeader P (preamble P ++ ds ++ [1]) = .len (decVal ds) := by
  rw [parseHeader_canon h (digits_no_one hd) (by have := h.val_sz; omega)]
  rw [cstr_of_no_zero (digits_no_zero hd), atoiU_exact hd hl, sizeLimit_eq h]
  rw [if_neg (by omega)]

theorem getLastD_append_singleton (a : List Nat) (x d : Nat) : (a ++ [x]).getLastD d = x := by
  simp [List.getLastD_eq_getLast?]

/-- one `read` on a stream that starts with a valid frame returns exactly that frame and leaves exactly the rest -/
theorem readF_frame {P : Params} (h : WFParams P) {f : List Nat} (hf : WFFrame P f) (tail : List Nat) :
    readF P (f ++ tail) = .frame f tail := by
  obtain ⟨ds, body, tr, ef, hne, hd, hl, hv, hb1, hb2, htr⟩ := hf
  cases ds with
  | nil => exact absurd rfl hne
  | cons d0 ds' =>
    have hd' := digits_cons.mp hd
    have hsz := h.size
    have hle := h.loop_le
    have hge := h.loop_ge
    have hpl := preamble_length P
    simp only [List.length_cons] at hl
    have es : f ++ tail = (preamble P ++ [d0]) ++ (ds' ++ 1 :: (body ++ (tr ++ tail))) := by rw [ef]; simp
    have hlen : (preamble P ++ [d0]).length = P.bg := by
      simp only [List.length_append, List.length_singleton]; exact hpl
    unfold readF
    rw [if_neg (by omega), es]
    have sr := sockReadF_append (preamble P ++ [d0]) (ds' ++ 1 :: (body ++ (tr ++ tail)))
    rw [hlen] at sr
    rw [sr]
    simp only
    rw [getLastD_append_singleton]
    have hc : ¬ ((P.firstCheck && !isDigit d0) = true) := by simp [hd'.1]
    rw [if_neg hc]
    rw [digitLoopF_forward P ds' (P.loopLimit - P.bg - 1) [] (body ++ (tr ++ tail)) hd'.2 (by omega)
      (by simp only [List.length_nil]; omega)]
    simp only [List.nil_append]
    have eto : preamble P ++ [d0] ++ (ds' ++ [1]) = preamble P ++ (d0 :: ds') ++ [1] := by simp
    rw [eto, parseHeader_valid h hd (by simpa using hl) (by omega) (by omega)]
    simp only
    rw [if_neg (by omega), hv, sockReadF_append body (tr ++ tail)]
    simp only
    rw [if_neg (by omega), ← htr, sockReadF_append tr tail]
    simp only
    rw [ef]
    simp

/-! ### what a successful read returns, for every stream -/

/-- whatever `read` hands on is, byte for byte, a prefix of the unread stream, and it is longer than `_bg_sz` -/
theorem readF_frame_inv {P : Params} {s m r : List Nat} (h : readF P s = .frame m r) :
    s = m ++ r ∧ P.bg < m.length := by
  unfold readF at h
  split at h
  · cases h
  · split at h
    · cases h
    · rename_i b s1 hs1
      obtain ⟨e1, l1⟩ := sockReadF_some hs1
      split at h
      · cases h
      · split at h
        · cases h
        · cases h
        · cases h
        · rename_i dsb s2 hloop
          obtain ⟨ds, _, g2, g3, _⟩ := digitLoopF_done P _ _ _ _ _ hloop
          simp only [List.length_nil, Nat.zero_add, List.nil_append] at g2 g3
          have es1 : s1 = dsb ++ s2 ∧ 0 < dsb.length := by
            rcases g3 with ⟨g3, _⟩ | ⟨g3, g5⟩
            · rw [g3] at g2
              have : List.drop ds.length (ds ++ [1]) = [1] := by
                rw [List.drop_left']; rfl
              rw [this] at g2
              rw [g2, g3]; simp
            · rw [g3] at g2
              have : List.drop ds.length ds = [] := List.drop_of_length_le (Nat.le_refl _)
              rw [this] at g2
              rw [g2, g3]; simp [g5]
          simp only at h
          split at h
          · cases h
          · cases h
          · split at h
            · cases h
            · split at h
              · cases h
              · rename_i body s3 hs3
                obtain ⟨e3, _⟩ := sockReadF_some hs3
                split at h
                · cases h
                · split at h
                  · cases h
                  · rename_i tr s4 hs4
                    obtain ⟨e4, _⟩ := sockReadF_some hs4
                    injection h with hm hr
                    subst hm; subst hr
                    refine ⟨?_, ?_⟩
                    · rw [e1, es1.1, e3, e4]; simp
                    · simp only [List.length_append]; omega

/-! ### the run over a whole stream -/

theorem runLoopF_acc (P : Params) : ∀ (f : Nat) (s : List Nat) (acc : List (List Nat)),
    runLoopF P f s acc =
      ⟨acc ++ (runLoopF P f s []).frames, (runLoopF P f s []).status, (runLoopF P f s []).unread⟩ := by
  intro f
  induction f with
  | zero => intro s acc; simp [runLoopF]
  | succ f ih =>
    intro s acc
    unfold runLoopF
    cases hr : readF P s with
    | frame m r =>
      simp only
      rw [ih r (acc ++ [m]), ih r ([] ++ [m])]
      simp
    | err e r => simp
    | oob b i => simp

/-- more rounds than bytes are never used up -/
theorem runLoopF_fuel (P : Params) : ∀ (f f' : Nat) (s : List Nat) (acc : List (List Nat)),
    s.length < f → s.length < f' → runLoopF P f s acc = runLoopF P f' s acc := by
  intro f
  induction f with
  | zero => intro f' s acc h; omega
  | succ f ih =>
    intro f' s acc h h'
    cases f' with
    | zero => omega
    | succ f' =>
      unfold runLoopF
      cases hr : readF P s with
      | frame m r =>
        simp only
        obtain ⟨e, hm⟩ := readF_frame_inv hr
        have : r.length < s.length := by rw [e, List.length_append]; omega
        exact ih f' r _ (by omega) (by omega)
      | err e r => rfl
      | oob b i => rfl

theorem runLoopF_no_fuel (P : Params) : ∀ (f : Nat) (s : List Nat) (acc : List (List Nat)),
    s.length < f → (runLoopF P f s acc).status ≠ .fuel := by
  intro f
  induction f with
  | zero => intro s acc h; omega
  | succ f ih =>
    intro s acc h
    unfold runLoopF
    cases hr : readF P s with
    | frame m r =>
      simp only
      obtain ⟨e, hm⟩ := readF_frame_inv hr
      have : r.length < s.length := by rw [e, List.length_append]; omega
      exact ih r _ (by omega)
    | err e r => simp
    | oob b i => simp

theorem readAllF_no_fuel (P : Params) (s : List Nat) : (readAllF P s).status ≠ .fuel :=
  runLoopF_no_fuel P _ s [] (by omega)

/-- a stream that starts with a valid frame: that frame is handed on, then the run continues on the rest -/
theorem readAllF_frame {P : Params} (h : WFParams P) {f : List Nat} (hf : WFFrame P f) (tail : List Nat) :
    readAllF P (f ++ tail) =
      ⟨f :: (readAllF P tail).frames, (readAllF P tail).status, (readAllF P tail).unread⟩ := by
  unfold readAllF
  rw [runLoopF]
  rw [readF_frame h hf tail]
  simp only
  rw [runLoopF_acc P _ tail ([] ++ [f])]
  rw [runLoopF_fuel P (f ++ tail).length (tail.length + 1) tail []
    (by
      obtain ⟨ds, body, tr, ef, _, _, _, _, hb1, _, _⟩ := hf
      rw [ef]; simp only [List.length_append]; omega)
    (by omega)]
  simp

theorem readAllF_frames {P : Params} (h : WFParams P) : ∀ (fs : List (List Nat)), (∀ f ∈ fs, WFFrame P f) →
    ∀ tail : List Nat, readAllF P (fs.flatten ++ tail) =
      ⟨fs ++ (readAllF P tail).frames, (readAllF P tail).status, (readAllF P tail).unread⟩ := by
  intro fs
  induction fs with
  | nil => intro _ tail; simp
  | cons f fs ih =>
    intro hw tail
    have hf := hw f List.mem_cons_self
    have ih' := ih (fun g hg => hw g (List.mem_cons_of_mem _ hg)) tail
    rw [List.flatten_cons, List.append_assoc, readAllF_frame h hf, ih']
    simp

theorem readF_nil {P : Params} (h : WFParams P) : readF P [] = .err .peerReset [] := by
  have hsz := h.size
  unfold readF
  rw [if_neg (by omega)]
  have : sockReadF P.bg [] = none := by
    unfold sockReadF Params.bg; simp
  rw [this]

theorem readAllF_nil {P : Params} (h : WFParams P) : readAllF P [] = ⟨[], .err .peerReset, 0⟩ := by
  unfold readAllF
  rw [runLoopF, readF_nil h]
  rfl

/-- the frames handed on, concatenated, are a prefix of the stream: nothing is altered, dropped or invented between them -/
theorem runLoopF_prefix (P : Params) : ∀ (f : Nat) (s : List Nat),
    ∃ t, s = (runLoopF P f s []).frames.flatten ++ t := by
  intro f
  induction f with
  | zero => intro s; exact ⟨s, by simp [runLoopF]⟩
  | succ f ih =>
    intro s
    unfold runLoopF
    cases hr : readF P s with
    | frame m r =>
      simp only
      obtain ⟨e, _⟩ := readF_frame_inv hr
      obtain ⟨t, ht⟩ := ih r
      rw [runLoopF_acc P f r ([] ++ [m])]
      refine ⟨t, ?_⟩
      simp only [List.nil_append, List.flatten_append, List.flatten_cons, List.flatten_nil, List.append_nil,
        List.append_assoc]
      rw [← ht]; exact e
    | err e r => exact ⟨s, by simp⟩
    | oob b i => exact ⟨s, by simp⟩

theorem read_err_of_readF {P : Params} {src : Src} {e : Err} {r' : List Nat} (h : readF P (flat src) = .err e r') :
    ∃ r, read P src = .err e r ∧ flat r = r' := by
  have hf := read_flat P src
  rw [h] at hf
  cases hr : read P src with
  | frame m r => rw [hr] at hf; simp [Rd.mapRest] at hf
  | err e2 r =>
    rw [hr] at hf
    simp only [Rd.mapRest] at hf
    injection hf with h1 h2
    exact ⟨r, by rw [h1], h2⟩
  | oob b i => rw [hr] at hf; simp [Rd.mapRest] at hf

theorem read_oob_iff {P : Params} {src : Src} {b : Buf} {i : Nat} :
    read P src = .oob b i ↔ readF P (flat src) = .oob b i := by
  have hf := read_flat P src
  constructor
  · intro h; rw [h] at hf; simpa [Rd.mapRest] using hf.symm
  · intro h
    rw [h] at hf
    cases hr : read P src with
    | frame m r => rw [hr] at hf; simp [Rd.mapRest] at hf
    | err e2 r => rw [hr] at hf; simp [Rd.mapRest] at hf
    | oob b2 i2 =>
      rw [hr] at hf
      simp only [Rd.mapRest] at hf
      injection hf with h1 h2
      rw [h1, h2]

end Fix8Model.Net.Framer
