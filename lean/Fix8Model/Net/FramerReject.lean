import Fix8Model.Net.FramerValid
/-! Which headers the reader accepts (goes on to read a body for), for every stream. -/
namespace Fix8Model.Net.Framer

/-! ### list helpers -/

theorem len1_head {l : List Nat} {a : Nat} (h1 : l.length = 1) (h2 : l.head? = some a) : l = [a] := by
  match l, h1, h2 with
  | [x], _, h2 => simp at h2; rw [h2]

theorem len2_head {l : List Nat} {a : Nat} (h1 : l.length = 2) (h2 : l.head? = some a) : ∃ d, l = [a, d] := by
  match l, h1, h2 with
  | [x, y], _, h2 => simp at h2; exact ⟨y, by rw [h2]⟩

/-- the first SOH splits a list uniquely -/
theorem split_unique : ∀ (a b c d : List Nat), a ++ 1 :: b = c ++ 1 :: d → 1 ∉ a → 1 ∉ c → a = c ∧ b = d := by
  intro a
  induction a with
  | nil =>
    intro b c d h _ hc
    cases c with
    | nil => simp at h; exact ⟨rfl, h⟩
    | cons x c' =>
      simp at h
      exact absurd (h.1 ▸ List.mem_cons_self) hc
  | cons x a' ih =>
    intro b c d h ha hc
    cases c with
    | nil =>
      simp at h
      exact absurd (h.1 ▸ List.mem_cons_self) ha
    | cons y c' =>
      simp only [List.cons_append, List.cons.injEq] at h
      obtain ⟨e1, e2⟩ := ih b c' d h.2 (fun hm => ha (List.mem_cons_of_mem _ hm)) (fun hm => hc (List.mem_cons_of_mem _ hm))
      exact ⟨by rw [h.1, e1], e2⟩

theorem mem_of_split {X Y b dsb : List Nat} {x : Nat} (h : X ++ x :: Y = b ++ dsb) (hl : b.length ≤ X.length) :
    x ∈ dsb := by
  have h1 : List.drop b.length (X ++ x :: Y) = List.drop b.length X ++ x :: Y := List.drop_append_of_le_length hl
  have h2 : List.drop b.length (b ++ dsb) = dsb := List.drop_left' rfl
  rw [h, h2] at h1
  rw [h1]; simp

theorem append_split_len1 {a b c d : List Nat} (h : a ++ b = c ++ d) (hl : a.length + 1 = c.length) :
    ∃ x, c = a ++ [x] ∧ b = x :: d := by
  have h1 : List.take a.length (a ++ b) = a := List.take_left' rfl
  have h2 : List.take a.length (c ++ d) = List.take a.length c := List.take_append_of_le_length (by omega)
  rw [h, h2] at h1
  have h3 : List.drop a.length (a ++ b) = b := List.drop_left' rfl
  have h4 : List.drop a.length (c ++ d) = List.drop a.length c ++ d := List.drop_append_of_le_length (by omega)
  rw [h, h4] at h3
  have hc : c = a ++ List.drop a.length c := by
    conv => lhs; rw [← List.take_append_drop a.length c]
    rw [h1]
  have hd : (List.drop a.length c).length = 1 := by rw [List.length_drop]; omega
  match hdc : List.drop a.length c, hd with
  | [x], _ =>
    rw [hdc] at hc h3
    exact ⟨x, hc, by rw [← h3]; rfl⟩

theorem cstr_prefix (v : List Nat) : ∃ t, v = cstr v ++ t := by
  unfold cstr
  exact ⟨v.dropWhile (· ≠ 0), (List.takeWhile_append_dropWhile).symm⟩

theorem cstr_length_le (v : List Nat) : (cstr v).length ≤ v.length := by
  obtain ⟨t, h⟩ := cstr_prefix v
  have := congrArg List.length h
  rw [List.length_append] at this
  omega

theorem cstr_eq_len {v bs : List Nat} (h : cstr v = bs) (hl : v.length = bs.length) : v = bs := by
  obtain ⟨t, ht⟩ := cstr_prefix v
  rw [h] at ht
  have := congrArg List.length ht
  rw [List.length_append] at this
  have : t = [] := List.eq_nil_of_length_eq_zero (by omega)
  rw [this] at ht; simpa using ht

theorem cstr_append_of_no_zero {a b : List Nat} (h : 0 ∉ a) : cstr (a ++ b) = a ++ cstr b := by
  induction a with
  | nil => rfl
  | cons x a ih =>
    have hx : x ≠ 0 := fun e => h (e ▸ List.mem_cons_self)
    unfold cstr at ih ⊢
    rw [List.cons_append, List.takeWhile_cons]
    simp only [ne_eq, hx, not_false_eq_true, decide_true, if_true]
    rw [ih (fun hm => h (List.mem_cons_of_mem _ hm))]
    rfl

theorem cstr_eq_len1 {v bs : List Nat} (h : cstr v = bs) (h0 : 0 ∉ bs) (hl : v.length = bs.length + 1) :
    v = bs ++ [0] := by
  obtain ⟨t, ht⟩ := cstr_prefix v
  rw [h] at ht
  have hlen := congrArg List.length ht
  rw [List.length_append] at hlen
  have ht1 : t.length = 1 := by omega
  match t, ht1 with
  | [x], _ =>
    have hc : cstr v = bs ++ cstr [x] := by rw [ht]; exact cstr_append_of_no_zero h0
    rw [h] at hc
    have : cstr [x] = [] := by simpa using hc.symm
    by_cases hx : x = 0
    · rw [ht, hx]
    · unfold cstr at this
      simp [hx] at this

/-! ### the headers for which a body is read -/

/-- `Shape P to v2`: the header `to` and the text `v2` that `fast_atoi` is given, for every header that passes
the tag / BeginString tests -/
inductive Shape (P : Params) : List Nat → List Nat → Prop
  /-- "8=" BeginString SOH "9=" c digits SOH: `c` is the unchecked last byte of the first `_bg_sz` -/
  | canon (c : Nat) (ds : List Nat) : c ≠ 1 → digits ds → Shape P (preamble P ++ [c] ++ ds ++ [1]) (c :: ds)
  /-- "8d=" ...: only the first character of the tag is compared -/
  | tag8 (d : Nat) (ds : List Nat) : isDigit d = true → digits ds →
      Shape P ([56, d, 61] ++ P.beginStr ++ [1, 57, 61] ++ ds ++ [1]) ds
  /-- BeginString followed by a NUL: `compare(const char*)` stops there -/
  | nul (ds : List Nat) : digits ds → Shape P ([56, 61] ++ P.beginStr ++ [0, 1, 57, 61] ++ ds ++ [1]) ds
  /-- "9d=" ... -/
  | tag9 (d : Nat) (ds : List Nat) : isDigit d = true → digits ds →
      Shape P ([56, 61] ++ P.beginStr ++ [1, 57, d, 61] ++ ds ++ [1]) ds

theorem atoiU_nil : atoiU [] = 0 := rfl

theorem parseHeader_len {P : Params} {to : List Nat} {mlen : Nat} (hp : parseHeader P to = .len mlen) :
    ∃ tg1 v1 tg2 v2 rest2, to = tg1 ++ 61 :: (v1 ++ 1 :: (tg2 ++ 61 :: (v2 ++ 1 :: rest2))) ∧
      digits tg1 ∧ 1 ∉ v1 ∧ tg1.head? = some 56 ∧ cstr v1 = P.beginStr ∧
      digits tg2 ∧ 1 ∉ v2 ∧ tg2.head? = some 57 ∧
      mlen = atoiU (cstr v2) ∧ mlen ≠ 0 ∧ mlen ≤ P.sizeLimit := by
  unfold parseHeader at hp
  split at hp
  · cases hp
  · rename_i r1 tg1 v1 hx1
    split at hp
    · cases hp
    · rename_i hr1
      split at hp
      · cases hp
      · rename_i ht1
        split at hp
        · cases hp
        · rename_i hv1
          obtain ⟨rest1, e1, d1, n1, l1, _, _⟩ := extract_spec hx1 hr1
          have edrop : List.drop r1 to = rest1 := by
            have : to = (tg1 ++ 61 :: v1 ++ [1]) ++ rest1 := by rw [e1]; simp
            rw [this]
            apply List.drop_left'
            simp only [List.length_append, List.length_cons, List.length_nil]; omega
          rw [edrop] at hp
          split at hp
          · cases hp
          · rename_i r2 tg2 v2 hx2
            split at hp
            · cases hp
            · rename_i hr2
              split at hp
              · cases hp
              · rename_i ht2
                simp only at hp
                split at hp
                · cases hp
                · rename_i hg
                  injection hp with hm
                  obtain ⟨rest2, e2, d2, n2, l2, _, _⟩ := extract_spec hx2 hr2
                  refine ⟨tg1, v1, tg2, v2, rest2, by rw [e1, e2], d1, n1, ?_, ?_, d2, n2, ?_, hm.symm, ?_, ?_⟩
                  · simpa using ht1
                  · simpa using hv1
                  · simpa using ht2
                  · rw [← hm]; intro h0; exact hg (Or.inl h0)
                  · rw [← hm]; exact Nat.le_of_not_gt (fun h0 => hg (Or.inr h0))

theorem head_some_length {l : List Nat} {a : Nat} (h : l.head? = some a) : 1 ≤ l.length := by
  cases l with
  | nil => simp at h
  | cons x xs => simp

/-- the loop's bytes after the SOH-or-limit: `v2 ++ SOH ++ rest2` can only be all of them -/
theorem loop_tail {ds dsb v2 rest2 : List Nat} (hds : digits ds) (hdsb : dsb = ds ++ [1] ∨ dsb = ds)
    (n2 : 1 ∉ v2) (e : v2 ++ 1 :: rest2 = dsb) : v2 = ds ∧ rest2 = [] ∧ dsb = ds ++ [1] := by
  rcases hdsb with hd | hd
  · rw [hd] at e
    have : ds ++ [1] = ds ++ 1 :: [] := rfl
    rw [this] at e
    obtain ⟨a, b⟩ := split_unique v2 rest2 ds [] e n2 (digits_no_one hds)
    exact ⟨a, b, hd⟩
  · rw [hd] at e
    exact absurd (e ▸ (by simp : (1 : Nat) ∈ v2 ++ 1 :: rest2)) (digits_no_one hds)

/-- every header for which `read` goes on to read a body has one of four shapes -/
theorem header_shape {P : Params} (h : WFParams P) {b dsb ds : List Nat} (hb : b.length = P.bg) (hds : digits ds)
    (hdsb : dsb = ds ++ [1] ∨ dsb = ds) {mlen : Nat} (hp : parseHeader P (b ++ dsb) = .len mlen) :
    ∃ v2, Shape P (b ++ dsb) v2 ∧ mlen = atoiU (cstr v2) ∧ mlen ≠ 0 ∧ mlen ≤ P.sizeLimit := by
  obtain ⟨tg1, v1, tg2, v2, rest2, e, d1, n1, hh1, hc1, d2, n2, hh2, hm, hm0, hml⟩ := parseHeader_len hp
  have l1 := head_some_length hh1
  have l2 := head_some_length hh2
  have lv : P.beginStr.length ≤ v1.length := by rw [← hc1]; exact cstr_length_le v1
  have hbg : P.bg = P.beginStr.length + 6 := by unfold Params.bg; omega
  have hmem : ∀ x ∈ dsb, isDigit x = true ∨ x = 1 := by
    intro x hx
    rcases hdsb with hd | hd
    · rw [hd] at hx
      rcases List.mem_append.mp hx with hx | hx
      · exact Or.inl (hds x hx)
      · right; simpa using hx
    · rw [hd] at hx; exact Or.inl (hds x hx)
  -- the second '=' lies inside the first _bg_sz bytes
  have eX : b ++ dsb = (tg1 ++ 61 :: (v1 ++ 1 :: tg2)) ++ 61 :: (v2 ++ 1 :: rest2) := by rw [e]; simp
  have hX : (tg1 ++ 61 :: (v1 ++ 1 :: tg2)).length < b.length := by
    apply Nat.lt_of_not_ge
    intro hge
    have := mem_of_split eX.symm hge
    rcases hmem 61 this with h61 | h61
    · exact absurd h61 (by decide)
    · exact absurd h61 (by decide)
  simp only [List.length_append, List.length_cons] at hX
  rw [hb, hbg] at hX
  have hcase : (tg1.length = 1 ∧ v1.length = P.beginStr.length ∧ tg2.length = 1) ∨
      (tg1.length = 2 ∧ v1.length = P.beginStr.length ∧ tg2.length = 1) ∨
      (tg1.length = 1 ∧ v1.length = P.beginStr.length + 1 ∧ tg2.length = 1) ∨
      (tg1.length = 1 ∧ v1.length = P.beginStr.length ∧ tg2.length = 2) := by omega
  rcases hcase with ⟨c1, c2, c3⟩ | ⟨c1, c2, c3⟩ | ⟨c1, c2, c3⟩ | ⟨c1, c2, c3⟩
  · -- canonical position of "9="
    have t1 := len1_head c1 hh1
    have t2 := len1_head c3 hh2
    have tv := cstr_eq_len hc1 c2
    subst t1; subst t2; subst tv
    have e' : preamble P ++ (v2 ++ 1 :: rest2) = b ++ dsb := by rw [e]; unfold preamble; simp
    have hl : (preamble P).length + 1 = b.length := by rw [hb]; exact preamble_length P
    obtain ⟨x, ebx, ev⟩ := append_split_len1 e' hl
    cases v2 with
    | nil => exact absurd hm (by simpa [cstr, atoiU_nil] using hm0)
    | cons c v2' =>
      simp only [List.cons_append, List.cons.injEq] at ev
      obtain ⟨ecx, ev'⟩ := ev
      have n2' : 1 ∉ v2' := fun hm1 => n2 (List.mem_cons_of_mem _ hm1)
      have hc : c ≠ 1 := fun hc1' => n2 (hc1' ▸ List.mem_cons_self)
      obtain ⟨a1, a2, a3⟩ := loop_tail hds hdsb n2' ev'
      refine ⟨c :: v2', ?_, hm, hm0, hml⟩
      rw [ebx, a3, ← ecx, a1]
      have := Shape.canon (P := P) c ds hc hds
      simpa using this
  · -- "8d="
    obtain ⟨d, t1⟩ := len2_head c1 hh1
    have t2 := len1_head c3 hh2
    have tv := cstr_eq_len hc1 c2
    subst t1; subst t2; subst tv
    have e' : ([56, d, 61] ++ P.beginStr ++ [1, 57, 61]) ++ (v2 ++ 1 :: rest2) = b ++ dsb := by rw [e]; simp
    have hl : ([56, d, 61] ++ P.beginStr ++ [1, 57, 61]).length = b.length := by
      rw [hb, hbg]; simp only [List.length_append, List.length_cons, List.length_nil]; omega
    obtain ⟨eb, ed⟩ := List.append_inj e' hl
    obtain ⟨a1, a2, a3⟩ := loop_tail hds hdsb n2 ed
    have hdd : isDigit d = true := (digits_cons.mp (digits_cons.mp d1).2).1
    refine ⟨v2, ?_, hm, hm0, hml⟩
    rw [← eb, a3, a1]
    have := Shape.tag8 (P := P) d ds hdd hds
    simpa using this
  · -- BeginString NUL
    have t1 := len1_head c1 hh1
    have t2 := len1_head c3 hh2
    have tv := cstr_eq_len1 hc1 h.bs_nul c2
    subst t1; subst t2; subst tv
    have e' : ([56, 61] ++ P.beginStr ++ [0, 1, 57, 61]) ++ (v2 ++ 1 :: rest2) = b ++ dsb := by rw [e]; simp
    have hl : ([56, 61] ++ P.beginStr ++ [0, 1, 57, 61]).length = b.length := by
      rw [hb, hbg]; simp only [List.length_append, List.length_cons, List.length_nil]; omega
    obtain ⟨eb, ed⟩ := List.append_inj e' hl
    obtain ⟨a1, a2, a3⟩ := loop_tail hds hdsb n2 ed
    refine ⟨v2, ?_, hm, hm0, hml⟩
    rw [← eb, a3, a1]
    have := Shape.nul (P := P) ds hds
    simpa using this
  · -- "9d="
    have t1 := len1_head c1 hh1
    obtain ⟨d, t2⟩ := len2_head c3 hh2
    have tv := cstr_eq_len hc1 c2
    subst t1; subst t2; subst tv
    have e' : ([56, 61] ++ P.beginStr ++ [1, 57, d, 61]) ++ (v2 ++ 1 :: rest2) = b ++ dsb := by rw [e]; simp
    have hl : ([56, 61] ++ P.beginStr ++ [1, 57, d, 61]).length = b.length := by
      rw [hb, hbg]; simp only [List.length_append, List.length_cons, List.length_nil]; omega
    obtain ⟨eb, ed⟩ := List.append_inj e' hl
    obtain ⟨a1, a2, a3⟩ := loop_tail hds hdsb n2 ed
    have hdd : isDigit d = true := (digits_cons.mp (digits_cons.mp d2).2).1
    refine ⟨v2, ?_, hm, hm0, hml⟩
    rw [← eb, a3, a1]
    have := Shape.tag9 (P := P) d ds hdd hds
    simpa using this

/-! ### `readF` in two stages: header, body -/

/-- the reader has decided to read a body of `mlen` bytes after header `to = b ++ dsb` -/
def Passes (P : Params) (s b dsb s2 : List Nat) (mlen : Nat) : Prop :=
  ¬ P.maxMsgLen < P.bg ∧
  sockReadF P.bg s = some (b, dsb ++ s2) ∧
  ¬ ((P.firstCheck && !isDigit (b.getLastD 0)) = true) ∧
  digitLoopF P (P.loopLimit - P.bg - 1) [] (dsb ++ s2) = .done dsb s2 ∧
  parseHeader P (b ++ dsb) = .len mlen

theorem digitLoopF_done_split {P : Params} {k : Nat} {s dsb s2 : List Nat}
    (hl : digitLoopF P k [] s = .done dsb s2) :
    ∃ ds, digits ds ∧ s = dsb ++ s2 ∧ ((dsb = ds ++ [1] ∧ ds.length ≤ k) ∨ (dsb = ds ∧ ds.length = k + 1)) ∧
      P.bg + dsb.length ≤ P.maxMsgLen := by
  obtain ⟨ds, g1, g2, g3, g4⟩ := digitLoopF_done P _ _ _ _ _ hl
  simp only [List.length_nil, Nat.zero_add, List.nil_append] at g2 g3
  refine ⟨ds, g1, ?_, g3, g4⟩
  rcases g3 with ⟨g3, _⟩ | ⟨g3, _⟩
  · rw [g3] at g2
    have : List.drop ds.length (ds ++ [1]) = [1] := by rw [List.drop_left']; rfl
    rw [this] at g2
    rw [g2, g3]; simp
  · rw [g3] at g2
    have : List.drop ds.length ds = [] := List.drop_of_length_le (Nat.le_refl _)
    rw [this] at g2
    rw [g2, g3]; simp

theorem digitLoopF_eof (P : Params) : ∀ (k : Nat) (acc s : List Nat), digitLoopF P k acc s = .eof → digits s := by
  intro k
  induction k with
  | zero =>
    intro acc s h
    cases s with
    | nil => exact digits_nil
    | cons bt s' =>
      unfold digitLoopF at h
      split at h
      · cases h
      · split at h
        · cases h
        · split at h
          · cases h
          · simp only at h; cases h
  | succ k ih =>
    intro acc s h
    cases s with
    | nil => exact digits_nil
    | cons bt s' =>
      unfold digitLoopF at h
      split at h
      · cases h
      · rename_i h1
        split at h
        · cases h
        · split at h
          · cases h
          · rename_i h3
            simp only at h
            have hb : bt ≠ 1 := by simpa using h3
            have hd : isDigit bt = true := by
              cases hdd : isDigit bt with
              | true => rfl
              | false => rw [hdd] at h1; simp at h1; exact absurd h1 hb
            exact digits_cons.mpr ⟨hd, ih _ _ h⟩

theorem parseHeader_err_ne_reset {P : Params} {to : List Nat} {e : Err} (h : parseHeader P to = .err e) :
    e ≠ .peerReset := by
  unfold parseHeader at h
  repeat' split at h
  all_goals (try simp only at h)
  all_goals (try split at h)
  all_goals (cases h)
  all_goals (intro hh; cases hh)

/-- every `read` either stops in the header stage – out-of-range index, or an error that is PeerResetConnection
only if the stream ended while the header was still being collected – or goes on to read a body -/
theorem readF_stages (P : Params) (s : List Nat) :
    (∃ bf i, readF P s = .oob bf i) ∨
    (∃ e r, readF P s = .err e r ∧ (e = .peerReset → s.length < P.bg ∨ digits (s.drop P.bg))) ∨
    (∃ b dsb s2 mlen, Passes P s b dsb s2 mlen) := by
  unfold readF
  split
  · exact Or.inl ⟨_, _, rfl⟩
  · rename_i h0
    split
    · rename_i hs
      exact Or.inr (Or.inl ⟨_, _, rfl, fun _ => Or.inl (sockReadF_none hs)⟩)
    · rename_i b s1 hs1
      obtain ⟨e1, l1⟩ := sockReadF_some hs1
      have edrop : s.drop P.bg = s1 := by rw [e1, ← l1]; exact List.drop_left' rfl
      split
      · exact Or.inr (Or.inl ⟨_, _, rfl, fun hh => by cases hh⟩)
      · rename_i hc
        split
        · rename_i hl
          exact Or.inr (Or.inl ⟨_, _, rfl, fun _ => Or.inr (by rw [edrop]; exact digitLoopF_eof P _ _ _ hl)⟩)
        · exact Or.inr (Or.inl ⟨_, _, rfl, fun hh => by cases hh⟩)
        · exact Or.inl ⟨_, _, rfl⟩
        · rename_i dsb s2 hl
          obtain ⟨ds, _, es1, _, _⟩ := digitLoopF_done_split hl
          simp only
          split
          · exact Or.inl ⟨_, _, rfl⟩
          · rename_i e hp
            exact Or.inr (Or.inl ⟨_, _, rfl, fun hh => absurd hh (parseHeader_err_ne_reset hp)⟩)
          · rename_i mlen hp
            right; right
            refine ⟨b, dsb, s2, mlen, h0, ?_, hc, ?_, hp⟩
            · rw [← es1]; exact hs1
            · rw [← es1]; exact hl

/-- a frame is handed on only after the header stage let it pass -/
theorem readF_frame_passes {P : Params} {s m r : List Nat} (h : readF P s = .frame m r) :
    ∃ b dsb s2 mlen, Passes P s b dsb s2 mlen := by
  rcases readF_stages P s with ⟨bf, i, h1⟩ | ⟨e, r', h1, _⟩ | h1
  · rw [h1] at h; cases h
  · rw [h1] at h; cases h
  · exact h1

/-- what passing means for the stream: it starts with a header of one of the four shapes whose length text, read by
`fast_atoi<unsigned>`, is within 1..limit; with the first-character test the last of the first `_bg_sz` bytes is a
digit; the header holds at most `loopLimit − _bg_sz` loop bytes -/
theorem passes_shape {P : Params} (h : WFParams P) {s b dsb s2 : List Nat} {mlen : Nat}
    (hp : Passes P s b dsb s2 mlen) :
    ∃ v2, Shape P (b ++ dsb) v2 ∧ s = (b ++ dsb) ++ s2 ∧ b.length = P.bg ∧
      mlen = atoiU (cstr v2) ∧ mlen ≠ 0 ∧ mlen ≤ P.sizeLimit ∧
      (P.firstCheck = true → isDigit (b.getLastD 0) = true) ∧
      dsb.length ≤ P.loopLimit - P.bg := by
  obtain ⟨_, hs, hc, hl, hh⟩ := hp
  obtain ⟨es, lb⟩ := sockReadF_some hs
  obtain ⟨ds, hds, _, hcase, _⟩ := digitLoopF_done_split hl
  have hge := h.loop_ge
  have hdsb : dsb = ds ++ [1] ∨ dsb = ds := by
    rcases hcase with ⟨a, _⟩ | ⟨a, _⟩
    · exact Or.inl a
    · exact Or.inr a
  obtain ⟨v2, sh, e1, e2, e3⟩ := header_shape h lb hds hdsb hh
  refine ⟨v2, sh, by rw [es]; simp, lb, e1, e2, e3, ?_, ?_⟩
  · intro hf
    cases hd : isDigit (b.getLastD 0) with
    | true => rfl
    | false => rw [hf, hd] at hc; simp at hc
  · rcases hcase with ⟨a, la⟩ | ⟨a, la⟩
    · rw [a]; simp only [List.length_append, List.length_singleton]; omega
    · rw [a]; omega

end Fix8Model.Net.Framer
