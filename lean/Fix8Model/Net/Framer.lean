import Fix8Model.Basic.Digits
import Fix8Model.Gen.Reader
/-!
Model of the socket reader's framing: `FIXReader::read` (runtime/connection.cpp), `FIXReader::sockRead`
(include/fix8/connection.hpp, the unbuffered variant that this build compiles), `MessageBase::extract_element`
(include/fix8/message.hpp) with its two fixed buffers, `fast_atoi<unsigned>` (include/fix8/f8utils.hpp), and the
read loop of `FIXReader::execute` (pm_thread branch).

Bytes are `Nat` (0..255) as in the other models.  The byte source is a list of chunks: what successive
`receiveBytes` calls find in the socket.  Every store into `msg_buf[_max_msg_len]`, `tag[MAX_MSGTYPE_FIELD_LEN]`
and `val[FIX8_MAX_FLD_LENGTH]` carries its index; an index outside the buffer ends the run with `oob`.

The model is parametric in the two places where a repair of the defects found here would change the code
(`loopExtra`, `firstCheck`); their current values are read from the source on every run (`Gen/Reader.lean`).
-/
namespace Fix8Model.Net.Framer
open Fix8Model

/-- the socket: the chunks successive `recv` calls will find; `[]` = the peer has closed -/
abbrev Src := List (List Nat)

def flat (s : Src) : List Nat := s.flatten

/-- `FIXReader::sockRead(where, sz)`: loop `receiveBytes(where + rddone, remaining)` until `sz` bytes are in;
each call returns at most what the current chunk still holds (an empty chunk is a call that brought nothing:
EAGAIN, retried); end of stream (`rdSz == 0`) throws PeerResetConnection = `none`. -/
def sockRead : Nat → Src → Option (List Nat × Src)
  | 0, src => some ([], src)
  | _ + 1, [] => none
  | n + 1, c :: cs =>
    if c.length ≤ n + 1 then
      match sockRead (n + 1 - c.length) cs with
      | some (bs, r) => some (c ++ bs, r)
      | none => none
    else some (c.take (n + 1), c.drop (n + 1) :: cs)

/-- the same on an unchunked stream -/
def sockReadF (n : Nat) (s : List Nat) : Option (List Nat × List Nat) :=
  if n ≤ s.length then some (s.take n, s.drop n) else none

structure Params where
  /-- `_session.get_ctx()._beginStr` -/
  beginStr : List Nat
  /-- `_max_msg_len`: size of `msg_buf` -/
  maxMsgLen : Nat
  /-- `_chksum_sz` -/
  chksumSz : Nat
  /-- `char tag[MAX_MSGTYPE_FIELD_LEN]` -/
  tagSz : Nat
  /-- `char val[FIX8_MAX_FLD_LENGTH]` -/
  valSz : Nat
  /-- digit loop runs while `offs < _max_msg_len` (`none`) or `offs < _bg_sz + k` (`some k`) -/
  loopExtra : Option Nat
  /-- `msg_buf[_bg_sz - 1]` is tested with `isdigit` before the loop -/
  firstCheck : Bool
  /-- `extract_element` refuses (returns 0) an element whose tag / value does not fit `tag_sz` / `val_sz`
  (defaults = the sizes of the buffers `read` passes) instead of storing past the end -/
  boundedExtract : Bool

/-- `set_preamble_sz`: `_bg_sz = 2 + _beginStr.size() + 1 + 3`  ("8=" BeginString SOH "9=x") -/
def Params.bg (P : Params) : Nat := 2 + P.beginStr.length + 1 + 3

def Params.loopLimit (P : Params) : Nat :=
  match P.loopExtra with
  | none => P.maxMsgLen
  | some k => P.bg + k

/-- `_max_msg_len - _bg_sz - _chksum_sz` evaluated in `size_t` -/
def Params.sizeLimit (P : Params) : Nat :=
  (((P.maxMsgLen : Int) - (P.bg : Int) - (P.chksumSz : Int)) % 18446744073709551616).toNat

/-- the reader as compiled now, for a session with this BeginString -/
def current (bs : List Nat) : Params :=
  ⟨bs, Gen.readerMaxMsgLen, Gen.readerChksumSz, Gen.readerTagBuf, Gen.readerValBuf, Gen.readerLoopExtra, Gen.readerFirstCheck, Gen.extractBounded⟩

inductive Buf | tag | val | msg
  deriving DecidableEq, Repr

/-- result of `extract_element`: bytes consumed (0 = no element) and the C strings left in `tag` / `val` -/
inductive XR
  | ret (consumed : Nat) (tag val : List Nat)
  | oob (b : Buf) (idx : Nat)
  deriving DecidableEq, Repr

def isDigit (c : Nat) : Bool := decide (48 ≤ c) && decide (c ≤ 57)

/-- `*val = *tag = 0; return r;` – both terminators are stores -/
def terminate (tagSz valSz r : Nat) (tag val : List Nat) : XR :=
  if tag.length < tagSz then
    if val.length < valSz then .ret r tag val else .oob .val val.length
  else .oob .tag tag.length

/-- state `get_value`; `ii` is the loop index, `val` what has been stored so far; `bd`: the bounded form
(`if (val == val_last) return *val = *tag = 0;` before the store) -/
def getValue (bd : Bool) (tagSz valSz : Nat) (tag : List Nat) : List Nat → List Nat → Nat → XR
  | [], val, _ => terminate tagSz valSz 0 tag val
  | c :: cs, val, ii =>
    if c = 1 then terminate tagSz valSz (ii + 1) tag val
    else if bd = true ∧ val.length + 1 = valSz then terminate tagSz valSz 0 tag val
    else if val.length < valSz then getValue bd tagSz valSz tag cs (val ++ [c]) (ii + 1)
    else .oob .val val.length

/-- state `get_tag` (`bd`: `if (tag == tag_last) return *val = *tag = 0;` before the store) -/
def getTag (bd : Bool) (tagSz valSz : Nat) : List Nat → List Nat → Nat → XR
  | [], tag, _ => terminate tagSz valSz 0 tag []
  | c :: cs, tag, ii =>
    if isDigit c then
      if bd = true ∧ tag.length + 1 = tagSz then terminate tagSz valSz 0 tag []
      else if tag.length < tagSz then getTag bd tagSz valSz cs (tag ++ [c]) (ii + 1) else .oob .tag tag.length
    else if c = 61 then getValue bd tagSz valSz tag cs [] (ii + 1)
    else terminate tagSz valSz 0 tag []

/-- `MessageBase::extract_element(from, sz, tag, val)` on `from[0..sz)` -/
def extractElement (bd : Bool) (tagSz valSz : Nat) (l : List Nat) : XR := getTag bd tagSz valSz l [] 0

/-- what C string functions see of a buffer -/
def cstr (l : List Nat) : List Nat := l.takeWhile (· ≠ 0)

/-- one iteration of `fast_atoi<unsigned>`: `Digits.atoiStep` with `*str` a signed `char`, the result
reduced to 32 bits -/
def atoiStepU (neg : Bool) (r : Nat) (c : Nat) : Nat :=
  ((Digits.atoiStep neg (r : Int) c - (if c < 128 then 0 else 256)) % 4294967296).toNat

/-- `fast_atoi<unsigned>(str)` on a NUL-free string: no character is checked -/
def atoiU (s : List Nat) : Nat :=
  match s with
  | 45 :: rest => rest.foldl (atoiStepU true) 0
  | _ => s.foldl (atoiStepU false) 0

inductive Err | peerReset | illegalMessage | invalidVersion | invalidBodyLength
  deriving DecidableEq, Repr

/-- outcome of the two `extract_element` calls, the comparisons and the length guard on the header `to` -/
inductive Hdr
  | oob (b : Buf) (idx : Nat)
  | err (e : Err)
  | len (mlen : Nat)
  deriving DecidableEq, Repr

def parseHeader (P : Params) (to : List Nat) : Hdr :=
  match extractElement P.boundedExtract P.tagSz P.valSz to with
  | .oob b i => .oob b i
  | .ret r1 tag1 val1 =>
    if r1 = 0 then .err .illegalMessage                         -- falls out to the final throw
    else if tag1.head? ≠ some 56 then .err .illegalMessage      -- *tag != '8'
    else if cstr val1 ≠ P.beginStr then .err .invalidVersion    -- _beginStr.compare(val)
    else
      match extractElement P.boundedExtract P.tagSz P.valSz (to.drop r1) with
      | .oob b i => .oob b i
      | .ret r2 tag2 val2 =>
        if r2 = 0 then .err .illegalMessage
        else if tag2.head? ≠ some 57 then .err .illegalMessage  -- *tag != '9'
        else
          let mlen := atoiU (cstr val2)
          if mlen = 0 ∨ mlen > P.sizeLimit then .err .invalidBodyLength else .len mlen

inductive LoopR (σ : Type)
  | eof
  | illegal (rest : σ)
  | oob (idx : Nat)
  | done (bytes : List Nat) (rest : σ)

/-- the do-while that reads the rest of BodyLength byte by byte; `k` = iterations still allowed after this
one (`offs < limit`), `acc` = bytes stored so far at `msg_buf[_bg_sz ..]` -/
def digitLoop (P : Params) : Nat → List Nat → Src → LoopR Src
  | k, acc, src =>
    match sockRead 1 src with
    | none => .eof
    | some (bs, src') =>
      let bt := bs.headD 0
      if !isDigit bt && bt != 1 then .illegal src'
      else if P.maxMsgLen ≤ P.bg + acc.length then .oob (P.bg + acc.length)
      else if bt == 1 then .done (acc ++ [bt]) src'
      else
        match k with
        | 0 => .done (acc ++ [bt]) src'
        | k' + 1 => digitLoop P k' (acc ++ [bt]) src'

def digitLoopF (P : Params) : Nat → List Nat → List Nat → LoopR (List Nat)
  | _, _, [] => .eof
  | k, acc, bt :: s' =>
    if !isDigit bt && bt != 1 then .illegal s'
    else if P.maxMsgLen ≤ P.bg + acc.length then .oob (P.bg + acc.length)
    else if bt == 1 then .done (acc ++ [bt]) s'
    else
      match k with
      | 0 => .done (acc ++ [bt]) s'
      | k' + 1 => digitLoopF P k' (acc ++ [bt]) s'

/-- result of one `read(msg)`; `rest` is what is still unread -/
inductive Rd (σ : Type)
  | frame (msg : List Nat) (rest : σ)
  | err (e : Err) (rest : σ)
  | oob (b : Buf) (idx : Nat)
  deriving DecidableEq

/-- `FIXReader::read`, path by path -/
def read (P : Params) (src : Src) : Rd Src :=
  if P.maxMsgLen < P.bg then .oob .msg P.maxMsgLen else       -- sockRead(msg_buf, _bg_sz)
  match sockRead P.bg src with
  | none => .err .peerReset []
  | some (b, src1) =>
    if P.firstCheck && !isDigit (b.getLastD 0) then .err .illegalMessage src1 else
    match digitLoop P (P.loopLimit - P.bg - 1) [] src1 with
    | .eof => .err .peerReset []
    | .illegal r => .err .illegalMessage r
    | .oob i => .oob .msg i
    | .done ds src2 =>
      let to := b ++ ds                                        -- to.assign(msg_buf, offs)
      match parseHeader P to with
      | .oob bf i => .oob bf i
      | .err e => .err e src2
      | .len mlen =>
        if P.maxMsgLen < mlen then .oob .msg P.maxMsgLen else  -- sockRead(msg_buf, mlen)
        match sockRead mlen src2 with
        | none => .err .peerReset []
        | some (body, src3) =>
          if P.maxMsgLen < mlen + P.chksumSz then .oob .msg P.maxMsgLen else   -- sockRead(msg_buf + mlen, _chksum_sz)
          match sockRead P.chksumSz src3 with
          | none => .err .peerReset []
          | some (tr, src4) => .frame (to ++ (body ++ tr)) src4   -- to.append(msg_buf, mlen + _chksum_sz)

/-- the same reader on an unchunked stream -/
def readF (P : Params) (s : List Nat) : Rd (List Nat) :=
  if P.maxMsgLen < P.bg then .oob .msg P.maxMsgLen else
  match sockReadF P.bg s with
  | none => .err .peerReset []
  | some (b, s1) =>
    if P.firstCheck && !isDigit (b.getLastD 0) then .err .illegalMessage s1 else
    match digitLoopF P (P.loopLimit - P.bg - 1) [] s1 with
    | .eof => .err .peerReset []
    | .illegal r => .err .illegalMessage r
    | .oob i => .oob .msg i
    | .done ds s2 =>
      let to := b ++ ds
      match parseHeader P to with
      | .oob bf i => .oob bf i
      | .err e => .err e s2
      | .len mlen =>
        if P.maxMsgLen < mlen then .oob .msg P.maxMsgLen else
        match sockReadF mlen s2 with
        | none => .err .peerReset []
        | some (body, s3) =>
          if P.maxMsgLen < mlen + P.chksumSz then .oob .msg P.maxMsgLen else
          match sockReadF P.chksumSz s3 with
          | none => .err .peerReset []
          | some (tr, s4) => .frame (to ++ (body ++ tr)) s4

inductive Status
  | err (e : Err)
  | oob (b : Buf) (idx : Nat)
  | fuel
  deriving DecidableEq, Repr

/-- what a connection's reader did: the frames handed to `Session::process` in order, why it stopped, and how
many bytes of the stream it had not taken from the socket by then -/
structure Run where
  frames : List (List Nat)
  status : Status
  unread : Nat
  deriving DecidableEq, Repr

/-- the loop of `FIXReader::execute` (pm_thread): read, hand on, until an exception ends it -/
def runLoop (P : Params) : Nat → Src → List (List Nat) → Run
  | 0, src, acc => ⟨acc, .fuel, (flat src).length⟩
  | f + 1, src, acc =>
    match read P src with
    | .frame m r => runLoop P f r (acc ++ [m])
    | .err e r => ⟨acc, .err e, (flat r).length⟩
    | .oob b i => ⟨acc, .oob b i, 0⟩

/-- every successful `read` takes at least one byte, so `length + 1` rounds are never exhausted
(`Status.fuel` is unreachable: `FramerLemmas.readAllF_no_fuel`) -/
def readAll (P : Params) (src : Src) : Run := runLoop P ((flat src).length + 1) src []

def runLoopF (P : Params) : Nat → List Nat → List (List Nat) → Run
  | 0, s, acc => ⟨acc, .fuel, s.length⟩
  | f + 1, s, acc =>
    match readF P s with
    | .frame m r => runLoopF P f r (acc ++ [m])
    | .err e r => ⟨acc, .err e, r.length⟩
    | .oob b i => ⟨acc, .oob b i, 0⟩

def readAllF (P : Params) (s : List Nat) : Run := runLoopF P (s.length + 1) s []

end Fix8Model.Net.Framer
