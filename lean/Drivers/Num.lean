import Fix8Model.Basic.Digits
import Fix8Model.Basic.Decimal
import Drivers.Common
namespace Drivers.Num
open Fix8Model.Digits Fix8Model.Decimal

def inRange (x : Int) : Bool := decide (-2147483648 ≤ x) && decide (x ≤ 2147483647)

/-! ### binary64 values as exact rationals (for the floating half) -/

/-- number of trailing zero bits (0 for 0) -/
def twos (n : Nat) : Nat :=
  let rec go : Nat → Nat → Nat → Nat
    | 0, _, acc => acc
    | fuel + 1, n, acc => if n % 2 = 0 ∧ n ≠ 0 then go fuel (n / 2) (acc + 1) else acc
  go (n.log2 + 1) n 0

/-- `some k` when `d = 2^k` -/
def pow2Exp? (d : Nat) : Option Nat :=
  if d ≠ 0 ∧ 2 ^ (twos d) = d then some (twos d) else none

def bitLen (n : Nat) : Nat := if n = 0 then 0 else n.log2 + 1

/-- is `num / 2^k` a binary64 number (normal or subnormal, finite)? -/
def isB64 (num k : Nat) : Bool :=
  if num = 0 then true else
  let s := twos num
  let odd := num / 2 ^ s
  -- value = odd * 2^(s-k)
  decide (bitLen odd ≤ 53) && decide ((s : Int) - (k : Int) ≥ -1074) && decide ((bitLen odd : Int) + (s : Int) - (k : Int) ≤ 1024)

/-- `mant exp` with `mant` odd (or `0 0`) for the rational `n / d` when `d` is a power of two after
reduction, otherwise `nd` -/
def dyadic (n : Int) (d : Nat) : String :=
  if n = 0 then "0 0" else
  let g := Nat.gcd n.natAbs d
  let a := n.natAbs / g
  let d := d / g
  match pow2Exp? d with
  | none => "nd"
  | some k =>
    let s := twos a
    let sgn := if n < 0 then "-" else ""
    if k = 0 then s!"{sgn}{a / 2 ^ s} {s}" else s!"{sgn}{a} -{k}"

def hexToNat (s : String) : Option Nat :=
  s.toList.foldl (fun acc c => do let a ← acc; let v ← Drivers.hexVal c; pure (a * 16 + v)) (some 0)

/-- decode the bit pattern of a finite double into `(n, d)` with value `n / d`, `d` a power of two -/
def decodeBits (b : Nat) : Option (Int × Nat) :=
  let sign : Nat := b / 2 ^ 63 % 2
  let e : Nat := b / 2 ^ 52 % 2048
  let mant : Nat := b % 2 ^ 52
  if e = 2047 then none else
  let m : Nat := if e = 0 then mant else mant + 2 ^ 52
  let ex : Int := (if e = 0 then 1 else (e : Int)) - 1075
  let v : Int × Nat := if ex ≥ 0 then ((m * 2 ^ ex.toNat : Nat), 1) else ((m : Int), 2 ^ (-ex).toNat)
  some (if sign = 1 then (-v.1, v.2) else v)

/-- model text plus the exactness flag of the one rounding operation of `modp_dtoa`:
`x` when `(value - whole) * pow10_[prec]` is exact in binary64 for the binary64 value `n / d` -/
def dtoaLine (n : Int) (d : Nat) (prec : Int) (repr : Bool) : String :=
  match dtoa n d prec with
  | none => "domain"
  | some t =>
    let p := clampPrec prec
    let exact := match pow2Exp? d with
      | some k => repr && isB64 ((n.natAbs % d) * 10 ^ p) k
      | none => false
    Drivers.hex t ++ (if exact then " x" else " i")

/-- reduce `m / 10^e` -/
def reduceDec (v : Dec) : Int × Nat :=
  let g := Nat.gcd v.m.natAbs (10 ^ v.e)
  if g = 0 then (v.m, 10 ^ v.e) else (v.m / (g : Int), 10 ^ v.e / g)

/-- `itoa <dec>` -> hex text;  `atoi <hex>` -> value, or `ovf` when an intermediate leaves int32;
`dtoa <bits> <prec>` -> hex text + exactness flag | `domain`;  `atof <hex>` -> exact value as `mant exp` | `nd`;
`rt <hex> <prec>` -> text of print(parse(text)) + exactness flag -/
def step (line : String) : String :=
  match Drivers.words line with
  | ["itoa", v] =>
    match v.toInt? with
    | some v => Drivers.hex (itoa v)
    | none => "bad-op"
  | ["atoi", h] =>
    match Drivers.unhex h with
    | some s =>
      if (fastAtoiTrace s).all inRange then s!"{fastAtoi s}" else "ovf"
    | none => "bad-op"
  | ["dtoa", b, pr] =>
    match hexToNat b, pr.toInt? with
    | some b, some prec =>
      match decodeBits b with
      | some (n, d) => dtoaLine n d prec true
      | none => "domain"
    | _, _ => "bad-op"
  | ["atof", h] =>
    match Drivers.unhex h with
    | some s => let r := reduceDec (atof s); dyadic r.1 r.2
    | none => "bad-op"
  | ["rt", h, pr] =>
    match Drivers.unhex h, pr.toInt? with
    | some s, some prec =>
      let r := reduceDec (atof s)
      let repr := match pow2Exp? r.2 with
        | some k => isB64 r.1.natAbs k
        | none => false
      dtoaLine r.1 r.2 prec repr
    | _, _ => "bad-op"
  | _ => "bad-op"

end Drivers.Num
