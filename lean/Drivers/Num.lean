import Fix8Model.Basic.Digits
import Drivers.Common
namespace Drivers.Num
open Fix8Model.Digits

def inRange (x : Int) : Bool := decide (-2147483648 ≤ x) && decide (x ≤ 2147483647)

/-- `itoa <dec>` -> hex text;  `atoi <hex>` -> value, or `ovf` when an intermediate leaves int32 -/
def step (line : String) : String :=
  match Drivers.words line with
  | ["itoa", v] =>
    match v.toInt? with
    | some v => Drivers.hex (itoa v)
    | none => "bad-op"
  | ["atoi", h] =>
    match Drivers.unhex h with
    | some s =>
      if (fastAtoiTrace s).all inRange then s!"{fastAtoi s}" else "ovf"
    | none => "bad-op"
  | _ => "bad-op"

end Drivers.Num
