import Fix8Model.Time.Schedule
import Drivers.Common
/-! line-protocol driver of the C24 model (same protocol as harness/sched.cpp) -/
namespace Drivers.SchedD
open Fix8Model.Time.Schedule Fix8Model.Gen

def tk (t : Int) : String := if t = errorTicks then "E" else toString t
def untk (s : String) : Option Int := if s == "E" then some errorTicks else s.toInt?

def b01 (b : Bool) : String := if b then "1" else "0"

def lcgNext (x : Nat) : Nat := (x * 6364136223846793005 + 1442695040888963407) % 18446744073709551616

/-- the distances between consecutive checks described by a gap specification -/
def gaps (spec : String) : Option (List Int) :=
  match spec.splitOn ":" with
  | ["f", n, g] => do
    let n ← n.toNat?; let g ← g.toInt?
    if n ≥ 1 then some (List.replicate (n - 1) g) else none
  | ["r", n, seed, mg] => do
    let n ← n.toNat?; let seed ← seed.toNat?; let mg ← mg.toNat?
    if n < 1 ∨ mg = 0 then none else
    let rec go : Nat → Nat → List Int → List Int
      | 0, _, acc => acc.reverse
      | k + 1, x, acc => let x' := lcgNext x; go k x' (((1 + (x' / 2048) % mg : Nat) : Int) :: acc)
    some (go (n - 1) seed [])
  | ["l", ds] => if ds == "-" then some [] else (ds.splitOn ",").mapM (·.toInt?)
  | _ => none

def instants (t0 : Int) (ds : List Int) : List Int :=
  let rec go : Int → List Int → List Int → List Int
    | _, [], acc => acc.reverse
    | t, d :: r, acc => go (t + d) r ((t + d) :: acc)
  go t0 ds [t0]

/-- `n=<checks> s0=<first state> flips=<indices where the state differs from the previous one>` -/
def rle (states : List Bool) : String :=
  match states with
  | [] => "n=0"
  | s0 :: rest =>
    let rec go : Bool → Nat → List Bool → List Nat → List Nat
      | _, _, [], acc => acc.reverse
      | p, i, s :: r, acc => go s (i + 1) r (if s != p then i :: acc else acc)
    let fl := go s0 1 rest []
    s!"n={states.length} s0={b01 s0} flips=" ++ (if fl.isEmpty then "-" else ",".intercalate (fl.map toString))

/-- tail-recursive `run` (the model's `run` is the specification; equal by construction, used for 60 000-step traces) -/
def runFast (c : Sched) (init : Bool) (ts : List Int) : Option (List Bool) :=
  let rec go : Bool → List Int → List Bool → Option (List Bool)
    | _, [], acc => some acc.reverse
    | st, t :: r, acc => match test c t st with
      | none => none
      | some s => go s r (s :: acc)
  go init ts []

def trace (c : Sched) (init : String) (t0 : String) (g : String) : String :=
  match t0.toInt?, gaps g with
  | some t0, some ds =>
    match runFast c (init == "1") (instants t0 ds) with
    | some st => rle st
    | none => "ub"
  | _, _ => "bad-op"

def hhmmss (s : String) : Option (Option Int) :=
  if s == "-" then some none else
  match s.toList with
  | [a, b, _, c, d, _, e, f] =>
    let dv (x : Char) : Int := (x.toNat : Int) - 48
    -- parse_decimal on three two-character groups (valid digits only are generated)
    some (some (((dv a * 10 + dv b) * 3600 + (dv c * 10 + dv d) * 60 + (dv e * 10 + dv f)) * tickSecond))
  | _ => some none      -- `time_str.size() == 8` fails: errorticks

def dayStr (s : String) : Option (Option (List Nat)) :=
  if s == "-" then some none
  else if s.startsWith "h" then
    let h := (s.drop 1).toString
    if h.isEmpty then some (some []) else (Drivers.unhex h).map some
  else none

def mkCfg (w : List String) : Option SchedCfg :=
  match w with
  | [st, en, du, ut, sd, ed] => do
    let st ← hhmmss st
    let en ← hhmmss en
    let du ← if du == "-" then some 0 else du.toNat?
    let ut ← if ut == "-" then some 0 else ut.toInt?
    let sd ← dayStr sd
    let ed ← dayStr ed
    some ⟨st, en, du, ut, sd, ed⟩
  | _ => none

def step (line : String) : String :=
  match Drivers.words line with
  | ["consts"] => s!"{errorTicks} {tickDay} {tickMinute} {tickSecond}"
  | ["dow", h] =>
    match Drivers.unhex h with
    | some bs => toString (decodeDow bs)
    | none => "bad-op"
  | ["at", st, en, ut, sd, ed, clk, prev] =>
    match untk st, untk en, ut.toInt?, sd.toInt?, ed.toInt?, clk.toInt? with
    | some st, some en, some ut, some sd, some ed, some clk =>
      match Sched.make st en 0 ut sd ed with
      | none => "ub"
      | some c => match test c clk (prev == "1") with
        | some b => b01 b
        | none => "ub"
    | _, _, _, _, _, _ => "bad-op"
  | ["cfg", a, b, c, d, e, f] =>
    match mkCfg [a, b, c, d, e, f] with
    | none => "bad-op"
    | some x => match createSchedule x with
      | .invalid => "invalid"
      | .configError => "throw:ConfigurationError"
      | .ub => "ub"
      | .ok s => s!"ok {tk s.start} {tk s.endT} {s.duration} {s.utcOff} {s.startDay} {s.endDay} {s.toffset}"
  | ["run", st, en, ut, sd, ed, init, t0, g] =>
    match untk st, untk en, ut.toInt?, sd.toInt?, ed.toInt? with
    | some st, some en, some ut, some sd, some ed =>
      match Sched.make st en 0 ut sd ed with
      | none => "ub"
      | some c => trace c init t0 g
    | _, _, _, _, _ => "bad-op"
  | ["runx", a, b, c, d, e, f, init, t0, g] =>
    match mkCfg [a, b, c, d, e, f] with
    | none => "bad-op"
    | some x => match createSchedule x with
      | .invalid => "invalid"
      | .configError => "throw:ConfigurationError"
      | .ub => "ub"
      | .ok s => trace s init t0 g
  | _ => "bad-op"

end Drivers.SchedD
