import Fix8Model.Conc.Logger
import Drivers.Common
/-! line-protocol driver of the C28 logger model (protocol: see harness/logh.cpp); the model is the code with the two
proposed fixes (`Fix8Model.Conc.Logger.fixed`) -/
namespace Drivers.LogD
open Fix8Model.Conc.Logger

structure St where
  live : Bool := false
  pipe : Bool := false
  cfg : Cfg := ⟨0, false, false, false⟩
  s : State := {}

def V : Variant := fixed

def parseCfg (kind lv fl : String) : Option (Bool × Cfg) := do
  let pipe ← if kind == "file" then some false else if kind == "pipe" then some true else none
  let levels ← lv.toNat?
  if levels > 31 then none
  let cs := if fl == "-" then [] else fl.toList
  if cs.all (fun ch => ch == 's' || ch == 'd' || ch == 'l') then
    pure (pipe, ⟨levels, cs.contains 's', cs.contains 'd', cs.contains 'l'⟩)
  else none

/-- physical lines of the file: every written element is its rendering followed by `endl`; a text that contains line feeds
(`^` in the script) spreads over several lines; an empty physical line is shown as `~` -/
def physLines (st : St) : List String :=
  (st.s.written.map (render st.cfg)).flatMap fun r => (r.splitOn "\n").map fun l => if l.isEmpty then "~" else l

def showFile (st : St) : String :=
  if st.s.written.isEmpty then "file=-" else "file=" ++ "|".intercalate (physLines st)

/-- `^` in a scripted text stands for a line feed -/
def scriptText (text : String) : List Char := if text == "-" then [] else text.toList.map fun c => if c == '^' then '\n' else c

def run (st : St) : St := { st with s := runWriter V st.cfg (writerFuel st.s) st.s }

def stopperSteps (n : Nat) (st : St) : St :=
  { st with s := execAll V st.cfg (List.replicate n .stopper) st.s }

/-- the whole of `stop()` with the writer thread running freely: flag, empty element, the writer drains, join -/
def fullStop (st : St) : St :=
  let st := match st.s.spc with
    | .idle => stopperSteps 3 st
    | .flagged => stopperSteps 2 st
    | .pushing => stopperSteps 1 st
    | _ => st
  stopperSteps 1 (run st)

def step (st : St) (line : String) : St × String :=
  match Drivers.words line with
  | ["new", kind, lv, fl] =>
    match parseCfg kind lv fl with
    | some (pipe, cfg) => (run { live := true, pipe := pipe, cfg := cfg, s := init }, "ok")
    | none => (st, "bad-op")
  | ["take", p, lev, val, text] =>
    -- `send` by producer p up to and including its ticket; the element is published by a later `publish p`
    if st.live then
      match p.toNat?, lev.toNat?, val.toNat? with
      | some p, some lev, some val =>
        if lev > 4 then (st, "bad-op") else
        let t := scriptText text
        let s' := execAll V st.cfg [.submit p lev val t true true] st.s
        ({ st with s := s' }, if st.cfg.loggable lev then "ok" else "ret=1")
      | _, _, _ => (st, "bad-op")
    else (st, "bad-op")
  | [op, p, lev, val, text] =>
    if (op == "send" || op == "enq") && st.live then
      match p.toNat?, lev.toNat?, val.toNat? with
      | some p, some lev, some val =>
        if lev > 4 then (st, "bad-op") else
        let t := scriptText text
        let s' := execAll V st.cfg (callActions st.s p lev val t (op == "send")) st.s
        let r := match s'.rets.getLast? with
          | some (_, true) => "ret=1"
          | _ => "ret=0"
        ({ st with s := s' }, r)
      | _, _, _ => (st, "bad-op")
    else (st, "bad-op")
  | ["quick", trials, _] => ({ st with live := false }, "quick ok=" ++ trials ++ " of " ++ trials)   -- stop() right after creation: every accepted line written (C28_stop_writes_all), whatever the start-up race
  | ["djoin"] => ({ st with live := false }, "dtor=prompt join=0")   -- regression of `destructor-joins-twice`: nothing to model, the expected answer is fixed
  | ["publish", p] =>
    -- the rest of the push of the stalled producer `p` (its ticket is the first incomplete slot carrying its pid)
    if st.live then
      match p.toNat? with
      | some p =>
        match st.s.queue.findIdx? (fun sl => !sl.done && sl.line.pid == p && !sl.line.isStop) with
        | some i =>
          match exec V st.cfg (.pushDone i) st.s with
          | some s' => ({ st with s := s' }, "ret=1")
          | none => (st, "bad-op")
        | none => (st, "bad-op")
      | none => (st, "bad-op")
    else (st, "bad-op")
  | ["run"] =>
    if st.live then
      let st := run st
      (st, if st.s.cpc == .exited then "exited" else "parked")
    else (st, "bad-op")
  | ["flag"] => if st.live then (if st.s.spc == .idle then stopperSteps 1 st else st, "ok") else (st, "bad-op")
  | ["sentinel"] => if st.live then (if st.s.spc == .flagged then stopperSteps 2 st else st, "ok") else (st, "bad-op")
  | ["join"] =>
    if st.live then
      let st := stopperSteps 1 (run st)
      (st, if st.s.cpc == .exited then "joined" else "hang")
    else (st, "bad-op")
  | ["stop"] =>
    if st.live && st.s.spc == .idle then
      let st := fullStop st
      (st, if st.s.spc == .joined then "stopped" else "hang")
    else (st, "bad-op")
  | ["dump"] => if st.live then (st, if st.pipe then "file=?" else showFile st) else (st, "bad-op")
  | ["close"] =>
    if st.live then
      let st := fullStop st
      ({ st with live := false }, showFile st ++ (if st.s.cpc == .exited then "" else " hang"))
    else (st, "bad-op")
  | ["thr", kind, lv, fl, np, nl, mode, pc] =>
    match parseCfg kind lv fl, np.toNat?, nl.toNat?, pc.toNat? with
    | some _, some np, some nl, some _ =>
      if np < 1 || np > 8 || nl > 100000 || !(mode == "after" || mode == "mid" || mode == "start") then (st, "bad-op")
      else ({ st with live := false }, "free-running")
    | _, _, _, _ => (st, "bad-op")
  | _ => (st, "bad-op")

end Drivers.LogD
