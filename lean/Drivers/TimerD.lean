import Fix8Model.Conc.Timer
import Drivers.Common
/-!
`timer` stream: the model of `Timer<T>` driven by the same script as harness/timer.cpp (deterministic mode).
A `tick` is one wake-up of the timer thread (`Timer.tick`); callback `c` returns `now < stopT c`.
Runs are printed with the due time the event had in the queue (`cb@now:res/due`) – the implementation cannot print it; the
comparison uses it only to know which consecutive runs were tied (same due time) and may legally appear in another order.
-/
namespace Drivers.TimerD
open Fix8Model.Conc.Timer

def ncb : Nat := 32

structure St where
  live : Bool := false
  s : State := ⟨0, [], 0⟩
  stops : List (Nat × Nat) := []      -- callback ↦ time from which it returns false (absent: always true)

def St.res (st : St) (now c : Nat) : Bool :=
  match st.stops.lookup c with
  | some t => decide (now < t)
  | none => true

/-- decimal natural number, digits only, at most 18 of them -/
def num? (w : String) : Option Nat :=
  if w.length = 0 ∨ w.length > 18 ∨ !(w.toList.all Char.isDigit) then none else w.toNat?

def b01 (b : Bool) : String := if b then "1" else "0"

def showRuns (obs : List Obs) : List String :=
  obs.filterMap fun o => match o with
    | .ran e t r => some s!"{e.cb}@{t}:{b01 r}/{e.due}"
    | _ => none

def joinOr (xs : List String) : String := if xs.isEmpty then "-" else " ".intercalate xs

/-- the iterations of one wake-up, each with the queue length after it (for the concurrent clear) -/
def tickSteps (st : St) : Nat → State → List (Obs × Nat) → State × List (Obs × Nat)
  | 0, s, acc => (s, acc.reverse)
  | fuel + 1, s, acc =>
    let r := iter firstMin s (st.res s.now)
    if r.2 = .sleep then (r.1, acc.reverse) else tickSteps st fuel r.1 ((r.2, r.1.pending.length) :: acc)

def step (st : St) (line : String) : St × String :=
  match Drivers.words line with
  | ["new", g, t0] =>
    match num? g, num? t0 with
    | some _, some t0 => ({ live := true, s := init t0, stops := [] }, "ok")
    | _, _ => (st, "bad-op")
  | "thr" :: _ => (st, if st.live then "bad-op" else "thr -")
  | w =>
    if !st.live then (st, if w.head? ∈ [some "sched", some "stop", some "tick", some "clear", some "cclear", some "end"] then "no-timer" else "bad-op") else
    match w with
    | ["sched", c, d, r] =>
      match num? c, num? d with
      | some c, some d =>
        if c < ncb ∧ d ≤ 4294967295 ∧ (r == "0" || r == "1") then
          let s' := (schedule st.s c d (r == "1") 0).1   -- the script thread calls schedule() while the clock stands still: lag 0
          ({ st with s := s' }, s!"ok q={s'.pending.length}")
        else (st, "bad-op")
      | _, _ => (st, "bad-op")
    | ["stop", c, t] =>
      match num? c with
      | some c =>
        if c < ncb then
          if t == "inf" then ({ st with stops := st.stops.filter (·.1 != c) }, "ok")
          else match num? t with
            | some t => ({ st with stops := (c, t) :: st.stops.filter (·.1 != c) }, "ok")
            | none => (st, "bad-op")
        else (st, "bad-op")
      | none => (st, "bad-op")
    | ["tick", a] =>
      match num? a with
      | some a =>
        if a ≤ 10000000000000 then
          let s1 := (Fix8Model.Conc.Timer.step firstMin st.s (.advance a)).1
          let r := tick firstMin st.res s1
          ({ st with s := r.1 }, s!"run {joinOr (showRuns r.2)} | q={r.1.pending.length}")
        else (st, "bad-op")
      | none => (st, "bad-op")
    | ["clear"] =>
      let r := clear st.s
      ({ st with s := r.1 }, s!"cleared {st.s.pending.length}")
    | ["cclear", a] =>
      match num? a with
      | some a =>
        if a ≤ 10000000000000 then
          let s1 := (Fix8Model.Conc.Timer.step firstMin st.s (.advance a)).1
          let r := tickSteps st (s1.pending.length + 1) s1 []
          let runs := r.2.filterMap fun p => match p.1 with
            | .ran e t res => some (s!"{e.cb}@{t}:{b01 res}/{e.due}/{b01 (res && e.rep)}", p.2 + (if res && e.rep then 0 else 1))
            | _ => none
          -- `n0`: queue length when the first callback is invoked (what clear() would report just before that iteration); every run that
          -- is not re-queued (`/0`) lowers it by one.  The clear takes effect after one of the iterations that ran a callback (or after
          -- the wake-up if none did); either way the queue is empty afterwards.
          let n0 := match runs.head? with | some x => x.2 | none => r.1.pending.length
          ({ st with s := { r.1 with pending := [] } }, s!"crun {joinOr (runs.map (·.1))} | n0={n0} | q=0")
        else (st, "bad-op")
      | none => (st, "bad-op")
    | ["end"] => ({ st with live := false }, s!"end q={st.s.pending.length}")
    | _ => (st, "bad-op")

end Drivers.TimerD
