import Fix8Model.Net.Framer
import Drivers.Common
/-! stream `framer`: `r|x <hexstream> <chunks>` -> `frames=<n>[:<hex>,..] st=<status> used=<n>` (see harness/framer.cpp) -/
namespace Drivers.FramerD
open Fix8Model.Net.Framer

/-- split `total` bytes as the harness' writer does: `a`, or sizes `n`, the last possibly `k*` -/
def chunkSizes (spec : String) (total : Nat) : Option (List Nat) :=
  if spec == "a" then some (if total = 0 then [] else [total]) else
  let rec go : List String → Nat → List Nat → Option (List Nat)
    | [], used, acc => some (if used < total then acc ++ [total - used] else acc)
    | it :: rest, used, acc =>
      if used ≥ total then some acc else
      let rep := it.endsWith "*"
      let numS := if rep then (it.dropEnd 1).toString else it
      match numS.toNat? with
      | none => none
      | some 0 => none
      | some k =>
        if numS.length > 6 then none else
        if rep then
          let n := (total - used + k - 1) / k
          let sizes := (List.range n).map fun i => min k (total - used - i * k)
          go rest total (acc ++ sizes)
        else
          let n := min k (total - used)
          go rest (used + n) (acc ++ [n])
  go (spec.splitOn ",") 0 []

def split (bs : List Nat) : List Nat → List (List Nat)
  | [] => []
  | n :: ns => bs.take n :: split (bs.drop n) ns

def bufName : Buf → String
  | .tag => "tag" | .val => "val" | .msg => "msg"

def errName : Err → String
  | .peerReset => "PeerResetConnection" | .illegalMessage => "IllegalMessage"
  | .invalidVersion => "InvalidVersion" | .invalidBodyLength => "InvalidBodyLength"

def render (mode : String) (total : Nat) (r : Run) : String :=
  match r.status with
  | .oob b i => s!"oob:{bufName b}:{i}"
  | .fuel => "fuel"
  | .err e =>
    let fr := if r.frames.isEmpty then "" else ":" ++ ",".intercalate (r.frames.map Drivers.hex)
    let st := if mode == "x" then "ret=-1:terminated" else "throw:" ++ errName e
    s!"frames={r.frames.length}{fr} st={st} used={total - r.unread}"

def step (line : String) : String :=
  match Drivers.words line with
  | [mode, h, spec] =>
    if mode != "r" && mode != "x" then "bad-op" else
    match Drivers.unhex h with
    | none => "bad-op"
    | some bs =>
      match chunkSizes spec bs.length with
      | none => "bad-op"
      | some sizes => render mode bs.length (readAll (current Fix8Model.Gen.readerBeginStr) (split bs sizes))
  | _ => "bad-op"

end Drivers.FramerD
