import Fix8Model.Conc.Writer
import Fix8Model.Conc.Mpmc
import Drivers.Common
/-! `conc` stream: replays a schedule of the cooperative scheduler of harness/conc.cpp on the writer model.

    det <thread|coro|pipe> <mem|file>   fresh session after start() (Logon = number 1, next send number 2)
    call <t> w <pid> | call <t> b <pid>...
    run <t>                              thread t continues to its next YIELD POINT of the harness: the micro-steps of the
                                         model between two yield points are executed together (thread model: acq | put | rel | out;
                                         pipelined: acq | rel | out, a bare `write` has no yield point; the writer thread is run
                                         until it has processed every ticket after each command)
    end                                  everything written, everything stored
    free ...                             free-running mode of the harness: no model counterpart

answer: `<ok|spin|bad> at=<idle|acq|put|rel> lock=<t|-> ns=.. wire=.. buf=.. st=.. new=<seq:pid,...>` -/
namespace Drivers.ConcD
open Fix8Model.Session Fix8Model.Conc.Writer


def s1 : Sess := ((Sess.init ⟨true, 1, 2⟩ Code.fixed true).step (.start 0 0)).1

structure St where
  pl : Bool
  n : Nat
  σ : Option State
  seen : Nat
  /-- threads parked at the harness's yield point `out`: lock released, call not yet returned (idle in the model) -/
  outs : List Nat := []

def St.none : St := ⟨false, 1, Option.none, 0, []⟩

def slots : Nat := Fix8Model.Conc.Mpmc.slotsOf Fix8Model.Gen.mpmcDefaultQueues

def atOf (pl : Bool) (σ : State) (t : Tid) : String :=
  match σ.pc t with
  | .idle => "idle"
  | .acq _ => "acq"
  | .cs _ (.put _) _ => "put"
  | .rel => "rel"
  | .push [] true => if pl ∧ σ.q.pc t = .idle then "rel" else "?"
  | _ => "?"

def stored (σ : State) : List Nat := match σ.sess.store with
  | some st => st.msgs.map (·.1)
  | Option.none => []

def showFrames (ms : List Msg) : String :=
  if ms.isEmpty then "-" else ",".intercalate (ms.map fun m => s!"{m.seq}:{m.pid.getD 0}")

def showState (s : St) (σ : State) (res at_ : String) : St × String :=
  let lock := match σ.lock with | some t => toString t | Option.none => "-"
  let new := σ.wire.drop s.seen
  ({ s with σ := some σ, seen := σ.wire.length },
   s!"{res} at={at_} lock={lock} ns={σ.sess.ns} wire={σ.wire.length} buf={σ.sess.buf.length} st={(stored σ).length} new={showFrames new}")

/-- repeat micro-steps of `t` while `cont` holds (bounded) -/
def settle (pl : Bool) (n : Nat) (t : Tid) (cont : State → Bool) : Nat → State → State
  | 0, σ => σ
  | fuel + 1, σ => if cont σ then settle pl n t cont fuel (next pl n σ t) else σ

def hidden (σ : State) (t : Tid) : Bool :=
  match σ.pc t with
  | .cs _ .enc _ => true
  | .cs _ .inc _ => true
  | _ => false

/-- the writer thread processes every ticket handed out so far -/
def drain (n : Nat) (σ : State) : State :=
  settle true n W (fun σ => !(σ.lin.length == σ.plog.length && σ.pc W == .wpop && σ.uninc == 0 && σ.q.pc W == .idle)) 100000 σ

/-- a pipelined sender runs until all its pushes are complete -/
def pushAll (n : Nat) (t : Tid) (σ : State) : State :=
  settle true n t (fun σ => match σ.pc t with
    | .push [] true => !(σ.q.pc t == .idle)
    | .push _ _ => true
    | _ => false) 100000 σ

def parseCall : List String → Option Call
  | ["w", p] => p.toNat?.map Call.write
  | "b" :: ps => (ps.mapM String.toNat?).map Call.batch
  | _ => Option.none

def step (s : St) (line : String) : St × String :=
  match Drivers.words line with
  | ["det", pm, _] =>
    let pl := pm == "pipe"
    let σ := init pl s1
    -- pipelined: the Logon went through the queue before the senders start; it is part of `s1` here
    showState { pl := pl, n := slots, σ := Option.none, seen := 0, outs := [] } σ "ok" "-"
  | "free" :: _ => (s, "free")
  | ["end"] =>
    match s.σ with
    | Option.none => (s, "no-session")
    | some σ =>
      let wire := ",".intercalate ("1:A:-" :: σ.wire.map fun m => s!"{m.seq}:D:{m.pid.getD 0}")
      let st := stored σ
      (St.none, s!"first={s1.ns} ns={σ.sess.ns} wire={wire} store={if st.isEmpty then "-" else ",".intercalate (st.map toString)}")
  | "call" :: t :: rest =>
    match s.σ, t.toNat?, parseCall rest with
    | some σ, some t, some c =>
      if t < 1 ∨ t > 64 then (s, "bad") else
      if s.outs.contains t then showState s σ "bad" "out" else
      if σ.pc t ≠ .idle then showState s σ "bad" (atOf s.pl σ t) else
      let σ1 := call s.pl σ t c
      let σ2 := if s.pl then (match σ1.pc t with
                   | .push _ false => drain s.n (pushAll s.n t σ1)
                   | _ => σ1) else σ1
      showState s σ2 "ok" (atOf s.pl σ2 t)
    | Option.none, _, _ => (s, "no-session")
    | _, _, _ => (s, "bad")
  | ["run", t] =>
    match s.σ, t.toNat? with
    | some σ, some t =>
      if s.outs.contains t then showState { s with outs := s.outs.erase t } σ "ok" "idle" else
      match σ.pc t with
      | .acq _ =>
        let σ1 := next s.pl s.n σ t
        match σ1.pc t with
        | .acq _ => showState s σ1 "spin" "acq"
        | _ =>
          let σ2 := if s.pl then drain s.n (pushAll s.n t σ1) else settle false s.n t (fun σ => hidden σ t) 1000 σ1
          showState s σ2 "ok" (atOf s.pl σ2 t)
      | .cs _ (.put _) _ =>
        let σ2 := settle s.pl s.n t (fun σ => hidden σ t) 1000 (next s.pl s.n σ t)
        showState s σ2 "ok" (atOf s.pl σ2 t)
      | .rel =>
        let σ2 := next s.pl s.n σ t
        showState { s with outs := t :: s.outs } σ2 "ok" "out"
      | .push [] true =>
        if s.pl ∧ σ.q.pc t = .idle then
          let σ2 := next s.pl s.n σ t
          showState { s with outs := t :: s.outs } σ2 "ok" "out"
        else showState s σ "bad" (atOf s.pl σ t)
      | _ => showState s σ "bad" (atOf s.pl σ t)
    | Option.none, _ => (s, "no-session")
    | _, _ => (s, "bad")
  | _ => (s, "bad-op")

end Drivers.ConcD
