import Fix8Model.Session.Step
import Fix8Model.Session.Ext
import Fix8Model.Session.Scan
import Drivers.Common
/-! line-protocol driver of the session model (streams `sess` = fixed code, `sessbase` = base commit).
Input lines are the harness lines; an `in` line additionally carries the abstract record the harness printed for the
real decode of the frame (`abs{...}`), which the Python side appends after the harness has run. -/
namespace Drivers.SessD
open Fix8Model.Session

def mtOfString (t : String) : MT :=
  match t with
  | "0" => .heartbeat | "1" => .testRequest | "2" => .resendRequest | "3" => .reject
  | "4" => .sequenceReset | "5" => .logout | "A" => .logon
  | _ => .app (t.toList.foldl (fun a c => a * 256 + c.toNat) 0)

def mtToString : MT → String
  | .heartbeat => "0" | .testRequest => "1" | .resendRequest => "2" | .reject => "3"
  | .sequenceReset => "4" | .logout => "5" | .logon => "A"
  | .app c => String.ofList ((if c ≥ 256 then [Char.ofNat (c / 256)] else []) ++ [Char.ofNat (c % 256)])

def compOf (s : String) : Nat := if s == "CLI" then 1 else if s == "SRV" then 2 else 9
def compTo (n : Nat) : String := if n == 1 then "CLI" else if n == 2 then "SRV" else "BAD"

def optNat (s : String) : Option Nat := if s == "-" then none else s.toNat?
def optBool (s : String) : Option Bool := if s == "1" then some true else if s == "0" then some false else none
def showOptNat : Option Nat → String | some n => toString n | none => "-"
def showOptBool : Option Bool → String | some true => "1" | some false => "0" | none => "-"

def showMsg (m : Msg) : String :=
  s!"t={mtToString m.mtype},seq={m.seq},pd={showOptBool m.possDup},st={m.st},ost={showOptNat m.ost},snd={compTo m.snd},tgt={compTo m.tgt},new={showOptNat m.newSeq},gf={showOptBool m.gapFill},b={showOptNat m.beginNo},e={showOptNat m.endNo},ref={showOptNat m.refSeq},trq={showOptNat m.testReq},pid={showOptNat m.pid},adm={if m.admin then 1 else 0}"

/-- parse `k=v,k=v,...` -/
def kvs (s : String) : List (String × String) :=
  (s.splitOn ",").filterMap fun kv => match kv.splitOn "=" with
    | [k, v] => some (k, v)
    | _ => none

def look (l : List (String × String)) (k : String) : String := ((l.find? (·.1 == k)).map (·.2)).getD "-"

def parseMsg (l : List (String × String)) : Msg :=
  { mtype := mtOfString (look l "t"), seq := (optNat (look l "seq")).getD 0, possDup := optBool (look l "pd"),
    st := (optNat (look l "st")).getD 0, ost := optNat (look l "ost"), snd := compOf (look l "snd"), tgt := compOf (look l "tgt"),
    newSeq := optNat (look l "new"), gapFill := optBool (look l "gf"), beginNo := optNat (look l "b"), endNo := optNat (look l "e"),
    refSeq := optNat (look l "ref"), testReq := optNat (look l "trq"), pid := optNat (look l "pid"), admin := look l "adm" == "1" }

/-- `abs{dec=ok,...}` / `abs{dec=throw,fl=1}` / `abs{dec=null}` -/
def parseDec (w : String) : Option Dec :=
  if w.startsWith "abs{" && w.endsWith "}" then
    let inner := ((w.drop 4).dropEnd 1).toString
    let l := kvs inner
    match look l "dec" with
    | "ok" => some (.ok (parseMsg l))
    | "throw" => some (.throws (look l "fl" == "1"))
    | "null" => some .null
    | _ => none
  else none

def showOut : Out → String
  | .wire m => "out{dec=ok," ++ showMsg m ++ "}"
  | .deliver raw m => s!"dlv\{raw={raw}," ++ showMsg m ++ "}"
  | .admin raw => s!"adm\{raw={raw}}"

def stName : St → String
  | .none => "none" | .continuous => "continuous" | .terminated => "session_terminated" | .waitForLogon => "wait_for_logon"
  | .notLoggedIn => "not_logged_in" | .logonSent => "logon_sent" | .logonReceived => "logon_received" | .logoffSent => "logoff_sent"
  | .logoffReceived => "logoff_received" | .testRequestSent => "test_request_sent" | .sequenceResetSent => "sequence_reset_sent"
  | .sequenceResetReceived => "sequence_reset_received" | .resendRequestSent => "resend_request_sent"
  | .resendRequestReceived => "resend_request_received"

def summary (s : Sess) : String :=
  if !s.started then "| nosession" else
  let c := match s.store.bind (·.ctrl) with | some (a, b) => s!"{a},{b}" | none => "none"
  s!"| st={stName s.state} ns={s.ns} nr={s.nr} ctrl={c} sd={if s.shutdown then 1 else 0}"

def render (pre : String) (outs : List Out) (s : Sess) : String :=
  pre ++ String.join (outs.map fun o => showOut o ++ " ") ++ summary s

/-- the harness's virtual clock starts at 2020-09-13T12:26:40Z; times are ms since the epoch -/
def t0 : Nat := 1600000000000

structure DSt where
  s : Sess
  soh : Bool          -- which scan pattern (fixed code: SOH "34=")
  unmodelled : Bool := false   -- segment with _always_seqnum_assign on: not modelled, every line answers `unmodelled`

def init (fixed : Bool) : DSt := ⟨Sess.init ⟨true, 1, 2⟩ (if fixed then Code.fixed else Code.base) false, fixed, false⟩

def newSeg (d : DSt) (pk enf ss rs : String) : DSt × String :=
  match ss.toNat?, rs.toNat? with
  | some ss, some rs =>
    let s0 := ((Sess.init ⟨enf == "1", 1, 2⟩ d.s.code (pk != "none")).step (.clock t0)).1
    let r := s0.step (.start ss rs)
    ({ d with s := r.1, unmodelled := false }, render "" r.2 r.1)
  | _, _ => (d, "bad-op")

/-- `pid` (a new order) or `pid@seq` (an order that already carries MsgSeqNum seq) -/
def parseEl (w : String) : Option BEl :=
  match w.splitOn "@" with
  | [p] => p.toNat?.map BEl.new
  | [p, k] => match p.toNat?, k.toNat? with
    | some p, some k => some (.dup p k)
    | _, _ => none
  | _ => none

def step (d : DSt) (line : String) : DSt × String :=
  let w := Drivers.words line
  let s := d.s
  match w with
  | ["new", _, _, _, _, "A"] => ({ d with unmodelled := true }, "unmodelled")
  | ["new", pk, enf, ss, rs] => newSeg d pk enf ss rs
  | ["new", pk, enf, ss, rs, "X"] => newSeg d pk enf ss rs      -- segment with the extended operations (Sess.stepX)
  | ["restart", ss, rs] =>
    if d.unmodelled then (d, "unmodelled") else
    match ss.toNat?, rs.toNat? with
    | some ss, some rs => let r := s.step (.start ss rs); ({ d with s := r.1 }, render "" r.2 r.1)
    | _, _ => (d, "bad-op")
  | ["clock", ms] =>
    if d.unmodelled then (d, "unmodelled") else
    match ms.toNat? with
    | some ms => let r := s.step (.clock (t0 + ms)); ({ d with s := r.1 }, summary r.1)
    | none => (d, "bad-op")
  | _ =>
    if d.unmodelled then (d, "unmodelled") else
    if !s.started then (d, "no-session") else
    match w with
    | ["get", n] =>
      match n.toNat? with
      | some n =>
        let txt := match s.store.bind (·.get n) with
          | some (.frame m) => "stored{dec=ok," ++ showMsg m ++ "} "
          | some .empty => "stored{dec=throw,fl=0} "
          | none => "stored{none} "
        (d, txt ++ summary s)
      | none => (d, "bad-op")
    | _ =>
      if s.shutdown then (d, "stopped " ++ summary s) else
      match w with
      | ["in", hx, ab] =>
        match Drivers.unhex hx, parseDec ab with
        | some raw, some dec =>
          let r := s.step (.inbound (scanSeq d.soh raw) dec)
          ({ d with s := r.1 }, render (ab ++ " ") r.2 r.1)
        | _, _ => (d, "bad-op")
      | ["app", pid, custom, noinc] =>
        match pid.toNat?, custom.toNat? with
        | some pid, some custom => let r := s.step (.appSend pid custom (noinc == "1")); ({ d with s := r.1 }, render "" r.2 r.1)
        | _, _ => (d, "bad-op")
      | ["adm", custom, noinc] =>
        match custom.toNat? with
        | some custom => let r := s.step (.admSend custom (noinc == "1")); ({ d with s := r.1 }, render "" r.2 r.1)
        | none => (d, "bad-op")
      | "bbatch" :: _ :: pids =>
        match pids.mapM (·.toNat?) with
        | some (p :: ps) => let r := s.step (.batch (p :: ps)); ({ d with s := r.1 }, render "" r.2 r.1)
        | _ => (d, "bad-op")
      | ["fwd", pid, seq] =>
        match pid.toNat?, seq.toNat? with
        | some pid, some seq => let r := s.stepX (.fwd pid seq); ({ d with s := r.1 }, render "" r.2 r.1)
        | _, _ => (d, "bad-op")
      | ["wfail", pid] =>
        match pid.toNat? with
        | some pid => let r := s.stepX (.wfail pid); ({ d with s := r.1 }, render "" r.2 r.1)
        | none => (d, "bad-op")
      | "dbatch" :: els =>
        match els.mapM parseEl with
        | some (e :: es) => let r := s.stepX (.dbatch (e :: es)); ({ d with s := r.1 }, render "" r.2 r.1)
        | _ => (d, "bad-op")
      | "batch" :: pids =>
        match pids.mapM (·.toNat?) with
        | some (p :: ps) => let r := s.step (.batch (p :: ps)); ({ d with s := r.1 }, render "" r.2 r.1)
        | _ => (d, "bad-op")
      | _ => (d, "bad-op")

end Drivers.SessD
