import Fix8Model.Store.Rotation
import Drivers.Common
namespace Drivers.RotD
open Fix8Model.Store.Rotation

def nums (s : String) : Option (List Nat) :=
  if s == "-" then some [] else (s.splitOn ",").mapM (·.toNat?)

def mkDir (g0 g1 others : List Nat) : Dir :=
  g0.map (fun k => (Name.gen 0 k, 100000 + k)) ++ g1.map (fun k => (Name.gen 1 k, 200000 + k)) ++
    others.map (fun i => (Name.other i, 900000 + i))

/-- sorted as the harness sorts its strings -/
def listing (d : Dir) (fams : List Nat) (top : Nat) (others : List Nat) : String :=
  let items : List String :=
    (fams.flatMap fun f => (List.range (top + 1)).filterMap fun k =>
      (d.get (.gen f k)).map fun c => s!"g{f}.{k}={c}") ++
    ((List.range 8).filterMap fun i => if others.contains i then (d.get (.other i)).map fun c => s!"o{i}={c}" else none)
  let sorted := items.toArray.qsort (· < ·) |>.toList
  if sorted.isEmpty then "empty" else " ".intercalate sorted

def step (line : String) : String :=
  match Drivers.words line with
  | ["log", r, a, f, g, o] =>
    match r.toNat?, nums g, nums o with
    | some r, some g, some o =>
      let d := mkDir g [] o
      let s1 := logRotate d r (a == "1") false
      let s2 := if f == "1" then logRotate s1.dir r (a == "1") true else s1
      (if s1.oob || s2.oob then "oob " else "") ++ listing s2.dir [0] (g.foldl max 0 + 3) o
    | _, _, _ => "bad-op"
  | ["purge", r, g0, g1, o] =>
    match r.toNat?, nums g0, nums g1, nums o with
    | some r, some g0, some g1, some o =>
      let s := purgeRotate (mkDir g0 g1 o) r
      let top := ((g0 ++ g1).foldl max 0) + 2
      (if s.oob then "oob " else "") ++ listing s.dir [0, 1] top o
    | _, _, _, _ => "bad-op"
  | _ => "bad-op"

end Drivers.RotD
