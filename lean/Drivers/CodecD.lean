import Fix8Model.Codec.Model
import Fix8Model.Codec.Clone
import Fix8Model.Codec.SchemaUTEST
import Fix8Model.Codec.SchemaFIX44
import Fix8Model.Codec.RoundTripNorm
import Drivers.Common
namespace Drivers.CodecD
open Fix8Model.Codec Fix8Model

/-- the FIX42UTEST schema: the very value `SchemaWF` is proved about (Fix8Model/Codec/SchemaUTESTWF.lean) -/
def utest : Schema := Fix8Model.Codec.utest

/-! spec parsing -/

inductive Sec | h | b | t deriving DecidableEq

structure SpecItem where
  sec : Sec
  tag : Nat
  val : Bytes
  elems : Option (List (List SpecItem))

partial def parseItems (toks : List String) (acc : List SpecItem) : Option (List SpecItem × List String) :=
  match toks with
  | [] => some (acc.reverse, [])
  | "}" :: _ => some (acc.reverse, toks)
  | "]" :: _ => some (acc.reverse, toks)
  | t :: rest =>
    let cs := t.toList
    let (sec, cs') := match cs with
      | 'h' :: r => (Sec.h, r)
      | 't' :: r => (Sec.t, r)
      | _ => (Sec.b, cs)
    match (String.ofList cs').splitOn "=" with
    | [tg, v] =>
      let vc := v.toList
      let isGrp : Bool := vc.getLast? == some '['
      let vh : String := if isGrp then String.ofList vc.dropLast else v
      match tg.toNat?, Drivers.unhex vh with
      | some tag, some val =>
        if isGrp then
          let rec elems (toks : List String) (acc2 : List (List SpecItem)) : Option (List (List SpecItem) × List String) :=
            match toks with
            | "{" :: r =>
              match parseItems r [] with
              | some (its, "}" :: r2) => elems r2 (its :: acc2)
              | some (its, r2) => elems r2 (its :: acc2)
              | none => none
            | "]" :: r => some (acc2.reverse, r)
            | r => some (acc2.reverse, r)
          match elems rest [] with
          | some (els, r) => parseItems r (⟨sec, tag, val, some els⟩ :: acc)
          | none => none
        else parseItems rest (⟨sec, tag, val, none⟩ :: acc)
      | _, _ => none
    | _ => none

/-! building through the API -/

partial def buildSection (S : Schema) (ts : List Trait) (init : List (Nat × Item)) (items : List SpecItem) : Except BuildErr (List (Nat × Item)) :=
  items.foldlM (fun acc si => do
    match findTrait ts si.tag with
    | none => throw (.invalidField si.tag)
    | some tr =>
      if !S.fieldTable.contains si.tag then throw (.invalidField si.tag)
      let cv ← match canon tr.kind si.val with
        | some c => pure c
        | none => throw .unmodelled
      match si.elems with
      | none => placeItem ts acc (.fld si.tag cv)
      | some els =>
        if !tr.group then throw (.invalidGroup si.tag)
        let built ← els.mapM fun e => do
          let r ← buildSection S (S.group tr.sub) [] e
          pure (r.map (·.2))
        placeItem ts acc (.grp si.tag cv built)) init

def findMsg (S : Schema) (mt : Bytes) : Option (Bytes × List Trait) := S.msgs.find? (·.1 == mt)

def buildMsg (S : Schema) (mt : Bytes) (bodyTs : List Trait) (items : List SpecItem) : Except BuildErr Msg := do
  -- items are applied in insertion order; each section keeps its own position map
  let hInit : List (Nat × Item) := [(1, .fld 8 S.beginStr), (2, .fld 9 [48]), (3, .fld 35 mt)]
  let tInit : List (Nat × Item) := [(3, .fld 10 [])]
  -- process in global insertion order so that error precedence matches the harness
  let st ← items.foldlM (fun (st : List (Nat × Item) × List (Nat × Item) × List (Nat × Item)) si => do
      match si.sec with
      | .h => let h ← buildSection S S.header st.1 [si]; pure (h, st.2.1, st.2.2)
      | .b => let b ← buildSection S bodyTs st.2.1 [si]; pure (st.1, b, st.2.2)
      | .t => let t ← buildSection S S.trailer st.2.2 [si]; pure (st.1, st.2.1, t)) (hInit, [], tInit)
  pure { msgType := mt, header := st.1.map (·.2), body := st.2.1.map (·.2), trailer := st.2.2.map (·.2) }

/-! printing -/

partial def dumpItems (items : List Item) : String :=
  " ".intercalate (items.map fun it =>
    match it with
    | .fld t v => s!"{t}={Drivers.hex v}"
    | .grp t v els =>
      s!"{t}={Drivers.hex v}" ++ (if els.isEmpty then "" else "[" ++ String.join (els.map fun e => "{" ++ dumpItems e ++ "}") ++ "]"))

def dumpSec (items : List Item) (unk : Bytes) : String :=
  let a := dumpItems items
  if unk.isEmpty then a else (if a.isEmpty then "" else a ++ " ") ++ "U" ++ Drivers.hex unk

def dumpMsg (m : Msg) : String :=
  s!"H[{dumpSec m.header m.hUnknown}] B[{dumpSec m.body m.bUnknown}] T[{dumpSec m.trailer m.tUnknown}]"

def decErr : DecErr → String
  | .invalidMessage => "throw:InvalidMessage"
  | .duplicateField _ => "throw:DuplicateField"
  | .unknownField _ => "throw:UnknownField"
  | .missingMandatory _ => "throw:MissingMandatoryField"
  | .valueTooLarge => "throw:f8Exception"
  | .missingFixed => "throw:MissingMandatoryField"
  | .missingGroupField _ => "throw:MissingRepeatingGroupField"
  | .invalidGroup _ => "throw:InvalidRepeatingGroup"
  | .badCheckSum => "throw:BadCheckSum"
  | .fuel => "hang"
  | .unmodelled => "UNMODELLED"

def buildErr : BuildErr → String
  | .invalidField _ => "throw:InvalidField"
  | .invalidGroup _ => "throw:InvalidRepeatingGroup"
  | .unmodelled => "UNMODELLED"

/-- the header of a message about to be encoded: MsgType is set from the message class -/
def encodeBuilt (S : Schema) (bodyTs : List Trait) (m : Msg) : Bytes := encodeMsg S bodyTs m

/-- re-encode a decoded message -/
def reencode (S : Schema) (m : Msg) : String :=
  match findMsg S m.msgType with
  | some (_, ts) => Drivers.hex (encodeMsg S ts m)
  | none => "throw:InvalidMessage"

def withSpec (S : Schema) (w : List String) (k : Bytes → List Trait → Msg → String) : String :=
  match w with
  | m :: rest =>
    if m.toList.take 2 != ['M', '='] then "bad-op" else
    match Drivers.unhex (String.ofList (m.toList.drop 2)) with
    | none => "bad-op"
    | some mt =>
      match findMsg S mt with
      | none => "throw:InvalidMessage"
      | some (_, ts) =>
        match parseItems rest [] with
        | none => "bad-op"
        | some (items, _) =>
          match buildMsg S mt ts items with
          | .error e => buildErr e
          | .ok msg => k mt ts msg
  | [] => "bad-op"

/-- the one preamble shape the model does not follow: BeginString and BodyLength tokenise, the MsgType field does not (no SOH
before the end of input, or over-long): `extract_header` then returns the offset after BodyLength and the factory goes on with the
partial MsgType text left in its buffer.  (For a schema with mandatory header fields the outcome is always an exception.) -/
def msgTypeUnterminated (b : Bytes) : Bool :=
  match extractElement b with
  | some (t1, _, r1) =>
    t1.head? == some 56 &&
    (match extractElementCap Gen.maxMsgTypeFieldLen Gen.maxMsgTypeFieldLen r1 with
     | some (t2, _, r2) => t2.head? == some 57 && (extractElementCap Gen.maxMsgTypeFieldLen Gen.maxMsgTypeFieldLen r2).isNone
     | none => false)
  | none => false

def stepS (S : Schema) (line : String) : String :=
  match Drivers.words line with
  | "enc" :: w => withSpec S w fun _ ts m =>
      if !encodeFitsBuffer S ts m then "oob" else "wire " ++ Drivers.hex (encodeBuilt S ts m)
  | "conf" :: w => withSpec S w fun _ ts m =>
      -- is the built message inside the hypothesis of C01_roundtrip (as built) or of C01_roundtrip_norm (after normMsg)?
      if RT.Conforms S ts m then "conf 1" else if RT.Conforms S ts (RT.normMsg m) then "conf n" else "conf 0"
  | "rt" :: w => withSpec S w fun _ ts m =>
      let wire := encodeBuilt S ts m
      "wire=" ++ Drivers.hex wire ++
        (match factory S false wire with
         | .error e => " " ++ decErr e
         | .ok d => " dec=" ++ dumpMsg d ++ " re=" ++ reencode S d)
  | ["dec", mode, h] =>
    match Drivers.unhex h with
    | none => "bad-op"
    | some raw =>
      if msgTypeUnterminated raw then "UNMODELLED" else
      match factory S (mode == "p") raw with
      | .error e => decErr e
      | .ok d => "ok " ++ dumpMsg d ++ " re=" ++ reencode S d
  | ["decn", mode, h] =>
    match Drivers.unhex h with
    | none => "bad-op"
    | some raw =>
      if msgTypeUnterminated raw then "UNMODELLED" else
      match factory S (mode == "p") raw with
      | .error e => decErr e
      | .ok d => "ok " ++ dumpMsg d
  | "clone" :: w => withSpec S w fun mt ts m =>
      -- Message::clone; copy_legal / move_legal of body, header, trailer into `bme._create._do(true)` (Codec/Clone.lean)
      let f := freshMsg S mt
      let cp : Msg :=
        { msgType := mt
          header := (copyLegal S S.header S.header m.header f.1).map (·.2)
          body := (copyLegal S ts ts m.body f.2.1).map (·.2)
          trailer := (copyLegal S S.trailer S.trailer m.trailer f.2.2).map (·.2) }
      let mv : Msg :=
        { msgType := mt
          header := (moveLegal S S.header S.header m.header f.1).1.map (·.2)
          body := (moveLegal S ts ts m.body f.2.1).1.map (·.2)
          trailer := (moveLegal S S.trailer S.trailer m.trailer f.2.2).1.map (·.2) }
      s!"clone={Drivers.hex (encodeMsg S ts (clone S ts m))} copy={Drivers.hex (encodeMsg S ts cp)} orig={Drivers.hex (encodeMsg S ts m)} moved={Drivers.hex (encodeMsg S ts mv)} smoved={Drivers.hex (encodeMsg S ts mv)}"
  | "xcopy" :: tt :: w =>
    -- copy_legal of the body into a fresh message of another type (header and trailer of the target stay as created)
    match Drivers.unhex tt with
    | none => "bad-op"
    | some tmt =>
      withSpec S w fun _ ts m =>
        match findMsg S tmt with
        | none => "throw:InvalidMessage"
        | some (_, tts) =>
          let f := freshMsg S tmt
          let t : Msg := { msgType := tmt, header := f.1.map (·.2), body := (copyLegal S ts tts m.body f.2.1).map (·.2), trailer := f.2.2.map (·.2) }
          s!"xcopy={Drivers.hex (encodeMsg S tts t)}"
  | ["dclone", mode, h] =>
    match Drivers.unhex h with
    | none => "bad-op"
    | some raw =>
      match factory S (mode == "p") raw with
      | .error e => decErr e
      | .ok d =>
        match findMsg S d.msgType with
        | none => "throw:InvalidMessage"
        | some (_, ts) => s!"dec={dumpMsg d} re={reencode S d} clone={Drivers.hex (encodeMsg S ts (clone S ts d))}"
  | _ => "bad-op"

/-- stream `codec`: FIX42UTEST -/
def step (line : String) : String := stepS utest line

/-- stream `codec44`: the stock FIX44 schema -/
def step44 (line : String) : String := stepS Fix8Model.Codec.fix44 line

end Drivers.CodecD
