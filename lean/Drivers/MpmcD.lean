import Fix8Model.Conc.Mpmc
import Drivers.Common
/-! `mpmc` stream: replays a schedule on the model of `ff::uMPMC_Ptr_Queue`, one command per line.

    new <nqueues> <innersize>     fresh queue (`init(nqueues, innersize)`; `new 0 0` = the default geometry, which the
                                  harness reaches through `FIX8::ff_unbounded_queue`); thread ids are < 64
    push <t> <d> | pop <t>        idle thread t starts an operation (parks before its first shared access)
    run <t>                       thread t performs its next shared access (up to the following one / the return)
    stress ...                    free-running mode of the harness: no model counterpart

answer: `<result> P=.. C=.. sP=a,b,.. sC=a,b,.. len=l0,l1,..` with result `-` (operation still in progress),
`pushed`, `empty`, `pop=<d>`, `pop=nil`, `new`, `bad` (not a transition: state unchanged). -/
namespace Drivers.MpmcD
open Fix8Model.Conc.Mpmc

structure St where
  n : Nat
  σ : State

def St.none : St := ⟨0, init⟩

def commaList (xs : List Nat) : String := ",".intercalate (xs.map toString)

def showState (s : St) : String :=
  let is := List.range s.n
  s!"P={s.σ.P} C={s.σ.C} sP={commaList (is.map s.σ.sP)} sC={commaList (is.map s.σ.sC)} len={commaList (is.map fun i => (s.σ.buf i).length)}"

def showRet : Ret → String
  | .none => "-"
  | .pushed => "pushed"
  | .empty => "empty"
  | .popped (some d) => s!"pop={d}"
  | .popped Option.none => "pop=nil"

def doCmd (s : St) (c : Cmd) (t : Nat) (isRun : Bool) : St × String :=
  if s.n = 0 ∨ t ≥ 64 then (s, "bad") else
  match exec1 s.n s.σ c with
  | some σ' =>
    let r := if isRun then retOf s.n s.σ t else Ret.none
    let s' : St := ⟨s.n, σ'⟩
    (s', showRet r ++ " " ++ showState s')
  | Option.none => (s, "bad " ++ showState s)

def step (s : St) (line : String) : St × String :=
  match Drivers.words line with
  | ["new", q, _] =>
    match q.toNat? with
    | some q =>
      let s' : St := ⟨slotsOf (if q = 0 then Fix8Model.Gen.mpmcDefaultQueues else q), init⟩
      (s', "new " ++ showState s')
    | Option.none => (s, "bad")
  | ["push", t, d] =>
    match t.toNat?, d.toNat? with
    | some t, some d => if d = 0 then (s, "bad") else doCmd s (.call t (.push d)) t false
    | _, _ => (s, "bad")
  | ["pop", t] =>
    match t.toNat? with
    | some t => doCmd s (.call t .pop) t false
    | Option.none => (s, "bad")
  | ["run", t] =>
    match t.toNat? with
    | some t => doCmd s (.run t) t true
    | Option.none => (s, "bad")
  | "stress" :: _ => (s, "stress")
  | _ => (s, "bad")

end Drivers.MpmcD
