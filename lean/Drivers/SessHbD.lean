import Fix8Model.Session.Logon
import Fix8Model.Session.Heartbeat
import Drivers.Common
/-! line-protocol driver of the `sesshb` stream (C22, C23): same scenario lines as harness/sesshb.cpp -/
namespace Drivers.SessHbD
open Fix8Model.SessLH

/-- the time origin of the protocol (ns): harness/sesshb.cpp `BASE` -/
def base : Nat := 1600000000 * 1000000000

/-- bytes ↔ characters below 256, so that every byte string is a `String` and equality is byte equality -/
def strOfBytes (bs : List Nat) : String := String.ofList (bs.map Char.ofNat)
def hexStr (s : String) : String := Drivers.hex (s.toList.map Char.toNat)
def unhexStr (h : String) : Option String := (Drivers.unhex h).map strOfBytes

def splitOn (s : String) (sep : String) : List String := s.splitOn sep

def showFrame (f : Frame) : String :=
  f.msgType ++ ":34=" ++ toString f.seq ++ ":49=" ++ hexStr f.sender ++ ":56=" ++ hexStr f.target ++
  (match f.hbi with | some h => ":108=" ++ toString h | none => "") ++
  (match f.reset with | some b => ":141=" ++ (if b then "Y" else "N") | none => "") ++
  (match f.testReqId with | some i => ":112=" ++ hexStr i | none => "") ++
  (match f.refSeq with | some r => ":45=" ++ toString r | none => "") ++
  (match f.text with | some t => ":58=" ++ t | none => "")

def showSeg (s : Sess) (fs : List Frame) : String :=
  (if fs.isEmpty then "-" else "|".intercalate (fs.map showFrame)) ++
  " st=" ++ s.state.name ++ " ns=" ++ toString s.nextSend ++ " nr=" ++ toString s.nextRecv ++
  " sd=" ++ (if s.shutdown then "1" else "0") ++ " hb=" ++ toString s.hb ++ "," ++ toString (hb20 s.hb) ++
  " pc=" ++ (if !s.hasPersist then "x" else match s.ctrl with | some (a, b) => toString a ++ "," ++ toString b | none => "-")

def bit (s : String) : Option Bool := if s == "1" then some true else if s == "0" then some false else none

def stepSid (w : List String) : String :=
  match w.mapM unhexStr with
  | some [b1, s1, t1, b2, s2, t2] =>
    let a : SessionID := ⟨b1, s1, t1⟩
    let b : SessionID := ⟨b2, s2, t2⟩
    let n (x : Bool) := if x then "1" else "0"
    s!"eq={n (a.eq b)} ne={n (a.ne b)} req={n (b.eq a)} rne={n (b.ne a)} seq={n (a.eq a)} sne={n (a.ne a)}"
  | _ => "bad-op"

def parseClients (s : String) : Option (List (String × Nat)) :=
  if s == "-" then some [] else
  (splitOn s ",").mapM fun it =>
    match splitOn it ":" with
    | [h, ip] => do
      let id ← unhexStr h
      let n ← ip.toNat?
      pure (id, n)
    | _ => none

/-- `unordered_map::insert` keeps the first entry of a key: the same as `List.find?` on the list in line order -/
def parseCtrl (s : String) : Option (Bool × Option (Nat × Nat)) :=
  if s == "-" then some (false, none) else
  if s == "e" then some (true, none) else
  match splitOn s "," with
  | [a, b] => do
    let x ← a.toNat?
    let y ← b.toNat?
    pure (true, some (x, y))
  | _ => none

/-- one inbound Logon of an `lg` line: `<seq>,<sender hex|~>,<target hex|~>,<hbi|~>,<reset -|Y|N>,<pd 0|1|2|3>` -/
def parseLogon (f : String) : Option (Nat × Option LogonIn) :=
  match splitOn f "," with
  | [sq, snd, tgt, hbi, rs, pd] => do
    let seq ← sq.toNat?
    let reset ← if rs == "-" then some none else if rs == "Y" then some (some true) else if rs == "N" then some (some false) else none
    let (possDup, origLater) ← match pd with
      | "0" => some (none, false) | "1" => some (some true, false) | "2" => some (some true, true) | "3" => some (some false, false)
      | _ => none
    if snd == "~" || tgt == "~" || hbi == "~" then
      pure (seq, none)
    else
      let s ← unhexStr snd
      let t ← unhexStr tgt
      let h ← hbi.toInt?
      pure (seq, some { sender := s, target := t, hbi := h, reset := reset, possDup := possDup, origLater := origLater })
  | _ => none

def runLogons (s : Sess) (now : Nat) (acc : String) : List (Nat × Option LogonIn) → String
  | [] => acc
  | (seq, m) :: rest =>
    if s.isShutdown then acc else
    let (s1, fs) := processLogon s now seq m
    runLogons s1 now (acc ++ " / " ++ showSeg s1 fs) rest

def stepLg (w : List String) : String :=
  match w with
  | [role, enf, ownS, ownT, cl, reqS, reqR, rec, sched, auth, hb0, rsn, silent, frames] =>
    let r : Option String := do
      let acc ← if role == "A" then some true else if role == "I" then some false else none
      let enforce ← bit enf
      let oS ← unhexStr ownS
      let oT ← unhexStr ownT
      let clients ← parseClients cl
      let rs ← reqS.toNat?
      let rr ← reqR.toNat?
      let (hasP, ctrl) ← parseCtrl rec
      let sc ← sched.toNat?
      let au ← bit auth
      let hb ← hb0.toNat?
      let rn ← bit rsn
      let si ← bit silent
      let fr ← (splitOn frames ";").mapM parseLogon
      let cfg : Cfg := { role := if acc then .acceptor else .initiator, enforce := enforce, clients := clients, peerIp := 1,
                         silent := si, resetOnStart := rn, auth := au, schedBlocks := sc == 2, beginStr := "FIX.4.2" }
      let s0 := if acc then fresh cfg oS ⟨"", "", ""⟩ hb hasP ctrl else fresh cfg "" ⟨"FIX.4.2", oS, oT⟩ hb hasP ctrl
      let now := base + 1000 * 1000000000
      let (s1, fs) := start s0 now rs rr
      pure (runLogons s1 now (showSeg s1 fs) fr)
    r.getD "bad-op"
  | _ => "bad-op"

def parseEv (e : String) : Option Ev :=
  match e.toList with
  | 'T' :: rest => (String.ofList rest).toNat?.map fun t => Ev.tick (base + t)
  | 'S' :: rest => (String.ofList rest).toNat?.map fun t => Ev.appSend (base + t)
  | 'R' :: rest =>
    match splitOn (String.ofList rest) "," with
    | [t, "0"] => t.toNat?.map fun t => Ev.recv (base + t) (.heartbeat none)
    | [t, "0", h] => do let t ← t.toNat?; let i ← unhexStr h; pure (Ev.recv (base + t) (.heartbeat (some i)))
    | [t, "1", h] => do let t ← t.toNat?; let i ← unhexStr h; pure (Ev.recv (base + t) (.testRequest i))
    | [t, "D"] => t.toNat?.map fun t => Ev.recv (base + t) .app
    | [t, "5"] => t.toNat?.map fun t => Ev.recv (base + t) .logout
    | [t, "G"] => t.toNat?.map fun t => Ev.recv (base + t) .gap
    | _ => none
  | _ => none

def runEvs (s : Sess) (acc : String) : List Ev → String
  | [] => acc
  | e :: rest =>
    let (s1, fs) := step s e
    runEvs s1 (acc ++ " / " ++ showSeg s1 fs) rest

def stepHb (w : List String) : String :=
  match w with
  | [role, hS, hb0S, silent, t0S, evs] =>
    let r : Option String := do
      let acc ← if role == "A" then some true else if role == "I" then some false else none
      let h ← hS.toNat?
      let hb0 ← hb0S.toNat?
      let si ← bit silent
      let t0 ← t0S.toNat?
      let es ← ((splitOn evs ";").filter (· ≠ "")).mapM parseEv
      let cfg : Cfg := { role := if acc then .acceptor else .initiator, enforce := true, clients := [], peerIp := 1,
                         silent := si, resetOnStart := false, auth := true, schedBlocks := false, beginStr := "FIX.4.2" }
      let me := if acc then "SRV" else "CLI"
      let you := if acc then "CLI" else "SRV"
      let s0 := if acc then fresh cfg me ⟨"", "", ""⟩ hb0 false none else fresh cfg "" ⟨"FIX.4.2", me, you⟩ h false none
      let now := base + t0
      let (s1, f1) := start s0 now 0 0
      let (s2, f2) := processLogon s1 now 1 (some { sender := you, target := me, hbi := Int.ofNat h, reset := none, possDup := none, origLater := false })
      pure (runEvs s2 (showSeg s2 (f1 ++ f2)) es)
    r.getD "bad-op"
  | _ => "bad-op"

def stepLine (line : String) : String :=
  match Drivers.words line with
  | "sid" :: rest => stepSid rest
  | "lg" :: rest => stepLg rest
  | "hb" :: rest => stepHb rest
  | _ => "bad-op"

end Drivers.SessHbD
