import Fix8Model.Xml.Print
import Drivers.Common
/-! line protocol of the `xml` stream (see harness/xmlh.cpp) -/
namespace Drivers.XmlD
open Fix8Model.Xml

def errName : XErr → String
  | .depth => "throw:depth"
  | .unmatched => "throw:unmatched"
  | .incl => "throw:include"
  | .illegalChar => "throw:illegal"
  | .dupAttr => "throw:dup"
  | .fuel => "model-out-of-fuel"

def optHex : Option Bytes → String
  | some b => Drivers.hex b
  | none => "~"

def dumpAttrs (a : Attrs) : String :=
  if a.isEmpty then "-" else ",".intercalate (a.map fun kv => Drivers.hex kv.1 ++ "=" ++ Drivers.hex kv.2)

mutual
def dump : Elem → String
  | ⟨tag, attrs, value, decl, children⟩ =>
    "(" ++ Drivers.hex tag ++ ";" ++ dumpAttrs attrs ++ ";" ++ optHex value ++ ";" ++ optHex decl ++ ";" ++ dumpList children ++ ")"
def dumpList : List Elem → String
  | [] => ""
  | e :: es => dump e ++ dumpList es
end

def pathStr (p : Path) : String :=
  if p.isEmpty then "r" else ".".intercalate (p.map toString)

def parsePath (s : String) : Option Path :=
  if s == "r" then some [] else (s.splitOn ".").mapM (·.toNat?)

def optUnhex (s : String) : Option (Option Bytes) :=
  if s == "~" then some none else (Drivers.unhex s).map some

def query (root : Elem) (q : String) : String :=
  match q.splitOn ":" with
  | ["q", o, w, k, v] =>
    match parsePath o, Drivers.unhex w, optUnhex k, optUnhex v with
    | some p, some w, some k, some v =>
      match elemAt root p with
      | none => "q=badorigin"
      | some cur =>
        let flt : Filter := match k, v with
          | some k, some v => some (k, v)
          | _, _ => none
        let one := find1 root cur p w flt
        let all := findN root cur p w flt
        "q=" ++ (match one with | some x => pathStr x | none => "none") ++ "/" ++ toString all.length ++ "/" ++
          (if all.isEmpty then "-" else ";".intercalate (all.map pathStr))
    | _, _, _, _ => "q=bad"
  | ["g", o, n] =>
    match parsePath o, Drivers.unhex n with
    | some p, some n =>
      match elemAt root p with
      | none => "g=badorigin"
      | some cur => "g=" ++ optHex (getAttr cur n)
    | _, _ => "g=bad"
  | _ => "bad-query"

def step (line : String) : String :=
  match (Drivers.words line).filter (fun t => !t.startsWith "e=") with
  | "doc" :: h :: qs =>
    match Drivers.unhex h with
    | none => "bad-op"
    | some s =>
      match parseDoc s with
      | .error e => errName e
      | .ok t => " ".intercalate (("ok " ++ dump t) :: qs.map (query t))
  | ["xl", h] =>
    match Drivers.unhex h with
    | none => "bad-op"
    | some s => Drivers.hex (xlate s)
  | ["at", h] =>
    match Drivers.unhex h with
    | none => "bad-op"
    | some s =>
      match parseAttrs s with
      | .error e => errName e
      | .ok a => "ok " ++ dumpAttrs a
  | _ => "bad-op"

end Drivers.XmlD
