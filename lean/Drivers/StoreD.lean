import Fix8Model.Store.Model
import Fix8Model.Store.Crash
import Drivers.Common
namespace Drivers.StoreD
open Fix8Model.Store

inductive St | none | mem (m : Mem) | file (f : File)

def showOut : Out → String
  | .bool b => if b then "true" else "false"
  | .msg (some m) => "msg " ++ Drivers.hex m
  | .msg Option.none => "msg none"
  | .ctrl (some (a, b)) => s!"ctrl {a},{b}"
  | .ctrl Option.none => "ctrl none"
  | .num n => s!"num {n}"
  | .visit ks d => "visit" ++ String.join (ks.map fun k => s!" {k}") ++ (if d then " done" else " notdone")

def parseOp (w : List String) : Option Op :=
  match w with
  | ["put", s, h] => do let s ← s.toNat?; let m ← Drivers.unhex h; pure (.put s m)
  | ["cput", a, b] => do let a ← a.toNat?; let b ← b.toNat?; pure (.cput a b)
  | ["get", s] => do let s ← s.toNat?; pure (.get s)
  | ["cget"] => some .cget
  | ["last"] => some .last
  | ["near", r] => do let r ← r.toNat?; pure (.near r)
  | ["range", f, t] => do let f ← f.toNat?; let t ← t.toNat?; pure (.range f t)
  | _ => Option.none

def step (st : St) (line : String) : St × String :=
  let w := Drivers.words line
  match w with
  | "open" :: "mem" :: _ => (.mem ⟨[], Option.none⟩, "ok")
  | "open" :: "file" :: _ => (.file ⟨[], Option.none, []⟩, "ok")
  | ["reopen"] => (st, "ok")
  | ["budget", _] => (st, "ok")
  | _ =>
    match parseOp w with
    | Option.none => (st, "bad-op")
    | some op =>
      match st with
      | .none => (st, "no-store")
      | .mem m => let r := Mem.step m op; (.mem r.1, showOut r.2)
      | .file f => let r := File.step f op; (.file r.1, showOut r.2)

end Drivers.StoreD

namespace Drivers.CrashD
open Fix8Model.Store

/-- `crash` stream: the syscall-level model `FS` (budget = crash point) -/
def step (st : FS) (line : String) : FS × String :=
  match Drivers.words line with
  | "open" :: _ => (FS.init, "ok")
  | ["budget", k] =>
    match k.toInt? with
    | some k => ({ st with budget := if k < 0 then none else some k.toNat }, "ok")
    | none => (st, "bad-op")
  | ["reopen"] => (st.reopen, "ok")
  | ["put", s, h] =>
    match s.toNat?, Drivers.unhex h with
    | some s, some m => let r := st.put s m; (r.1, if r.2 then "true" else "false")
    | _, _ => (st, "bad-op")
  | ["cput", a, b] =>
    match a.toNat?, b.toNat? with
    | some a, some b => let r := st.cput a b; (r.1, if r.2 then "true" else "false")
    | _, _ => (st, "bad-op")
  | ["get", s] =>
    match s.toNat? with
    | some s => (st, match st.get s with | some m => "msg " ++ Drivers.hex m | none => "msg none")
    | none => (st, "bad-op")
  | ["cget"] => (st, match st.memCtrl with | some (a, b) => s!"ctrl {a},{b}" | none => "ctrl none")
  | _ => (st, "bad-op")

end Drivers.CrashD
