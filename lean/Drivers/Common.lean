/-! shared helpers of the line-protocol drivers -/
namespace Drivers

def hexVal (c : Char) : Option Nat :=
  if '0' ≤ c ∧ c ≤ '9' then some (c.toNat - '0'.toNat)
  else if 'a' ≤ c ∧ c ≤ 'f' then some (c.toNat - 'a'.toNat + 10)
  else if 'A' ≤ c ∧ c ≤ 'F' then some (c.toNat - 'A'.toNat + 10)
  else none

/-- decode a hex string into bytes ("-" is the empty string) -/
def unhex (s : String) : Option (List Nat) :=
  if s == "-" then some [] else
  let rec go : List Char → List Nat → Option (List Nat)
    | [], acc => some acc.reverse
    | [_], _ => none
    | a :: b :: rest, acc => do
        let x ← hexVal a
        let y ← hexVal b
        go rest ((16 * x + y) :: acc)
  go s.toList []

def hexDigit (n : Nat) : Char := "0123456789abcdef".toList.getD n '?'

def hex (bs : List Nat) : String :=
  if bs.isEmpty then "-" else
  String.ofList (bs.flatMap fun b => [hexDigit (b / 16 % 16), hexDigit (b % 16)])

def words (line : String) : List String :=
  (line.trimAscii.toString.splitOn " ").filter (· ≠ "")

/-- run a stateful line processor over stdin -/
partial def loop {σ : Type} (h : IO.FS.Stream) (st : σ) (step : σ → String → σ × String) : IO Unit := do
  let line ← h.getLine
  if line.isEmpty then return ()
  let (st', out) := step st line
  IO.println out
  loop h st' step

end Drivers
