import Fix8Model.Time.Calendar
import Drivers.Common
namespace Drivers.TimeD
open Fix8Model.Time

def optStr : Option Nat → String
  | some v => toString v
  | none => "0"

def step (line : String) : String :=
  match Drivers.words line with
  | ["ts", t, ms] =>
    match t.toNat?, ms.toNat? with
    | some t, some ms =>
      let txt := dateTimeFormat t ms .withMs
      s!"{Drivers.hex txt} {optStr (dateTimeParse txt)}"
    | _, _ => "bad-op"
  | ["to", t, ms] =>
    match t.toNat?, ms.toNat? with
    | some t, some ms =>
      let txt := dateTimeFormat t ms .timeWithMs
      s!"{Drivers.hex txt} {optStr (timeParseOnly txt)}"
    | _, _ => "bad-op"
  | ["do", t] =>
    match t.toNat? with
    | some t =>
      let txt := dateTimeFormat t 0 .dateOnly
      s!"{Drivers.hex txt} {dateParse txt}"
    | _ => "bad-op"
  | ["my", t] =>
    match t.toNat? with
    | some t =>
      let c := civilFromDays (t / 86400)
      let sod := t % 86400
      let v := timeToEpoch c (sod / 3600) (sod % 3600 / 60) (sod % 60)
      let txt := dateTimeFormat v 0 .shortDateOnly
      let txt2 := dateTimeFormat (dateParse txt) 0 .shortDateOnly
      s!"{Drivers.hex txt} {Drivers.hex txt2}"
    | _ => "bad-op"
  | ["civil", z] =>
    match z.toNat? with
    | some z => let c := civilFromDays z; s!"{c.year} {c.mon} {c.day}"
    | _ => "bad-op"
  | ["log", t, ns, dp] =>
    match t.toNat?, ns.toNat?, dp.toNat? with
    | some t, some ns, some dp => Drivers.hex (logStampSecs t ns dp)
    | _, _, _ => "bad-op"
  | _ => "bad-op"

end Drivers.TimeD
