import Fix8Model.Tables.Realm
import Fix8Model.Tables.SortedSet
import Fix8Model.Basic.Digits
import Fix8Model.Gen.TablesUTEST
import Drivers.Common
namespace Drivers.Tab
open Fix8Model.Realm Fix8Model.Gen Fix8Model.SortedSet

/-- order-preserving code of a NUL-free string of at most 32 bytes (same as tools/gen_facts.py) -/
def encStr (s : List Nat) : Int :=
  ((s ++ List.replicate (32 - s.length) 0).foldl (fun a b => a * 256 + b) 0 : Nat)

def optIdx : Option Nat → String
  | some i => toString i
  | none => "-1"

def valueOf (ty : Nat) (txt : List Nat) : Int :=
  if ty = 0 then Fix8Model.Digits.fastAtoi txt
  else if ty = 1 then (txt.getD 0 0 : Nat)
  else encStr txt

def stepS (st : PSet) (line : String) : PSet × String :=
  match Drivers.words line with
  | ["new", _, r] =>
    match r.toNat? with
    | some r => (⟨[], calcReserve 0 r, r⟩, "ok")
    | none => (st, "bad-op")
  | ["ins", k] =>
    match k.toInt? with
    | some k =>
      let r : PSet × Bool := Fix8Model.SortedSet.insert st k
      (r.1, s!"{if r.2 then 1 else 0} sz={r.1.arr.length} rsz={r.1.rsz}")
    | none => (st, "bad-op")
  | "insr" :: ks =>
    -- range insert: element by element, stops at the first one that is refused
    match ks.mapM (·.toInt?) with
    | some (k :: rest) =>
      let r := (k :: rest).foldl (fun (acc : PSet × Bool) x => if acc.2 then Fix8Model.SortedSet.insert acc.1 x else acc) (st, true)
      (r.1, s!"sz={r.1.arr.length} rsz={r.1.rsz}")
    | _ => (st, "bad-op")
  | ["fnd", k] =>
    match k.toInt? with
    | some k => (st, s!"{if (find st k).2 then 1 else 0}")
    | none => (st, "bad-op")
  | ["clr"] => (clear st, "ok")
  | ["arr"] => (st, " ".intercalate (st.arr.map toString) ++ ".")
  | _ => (st, "")

def step1 (line : String) : String :=
  match Drivers.words line with
  | ["idx", fnum, h] =>
    match fnum.toNat?, Drivers.unhex h with
    | some fnum, some txt =>
      match realmTables.find? (fun r => r.1 == fnum) with
      | some (_, isSet, ty, vals) =>
        let v := valueOf ty txt
        if isSet then s!"idx={optIdx (getRlmIdxSet vals v)} valid={if isValidSet vals v then 1 else 0}"
        else s!"idx={optIdx (getRlmIdxRange (vals.getD 0 0) (vals.getD 1 0) v)} valid={if isValidRange (vals.getD 0 0) (vals.getD 1 0) v then 1 else 0}"
      | none => "no-realm"
    | _, _ => "bad-op"
  | ["rng", lo, hi, v] =>
    match lo.toInt?, hi.toInt?, v.toInt? with
    | some lo, some hi, some v =>
      s!"idx={optIdx (getRlmIdxRange lo hi v)} valid={if isValidRange lo hi v then 1 else 0}"
    | _, _, _ => "bad-op"
  | ["fld", k] =>
    match k.toInt? with
    | some k => if (getRlmIdxSet fieldKeys k).isSome then "hit" else "miss"
    | none => "bad-op"
  | ["msg", h] =>
    match Drivers.unhex h with
    | some s => if (getRlmIdxSet msgKeys (encStr s)).isSome then "hit" else "miss"
    | none => "bad-op"
  | ["trait", h, t] =>
    match Drivers.unhex h, t.toInt? with
    | some s, some t =>
      match traitTags.find? (fun r => r.1 == encStr s) with
      | some (_, tags) =>
        match getRlmIdxSet tags t with
        | some i => s!"has=1 pos={i}"
        | none => "has=0 pos=0"
      | none => "no-msg"
    | _, _ => "bad-op"
  | _ => "bad-op"

/-- `asg fnum v1 v2 mode`: a field object that held (and was looked up with) `v1` receives `v2`; the lookup depends on the current value only -/
def step (line : String) : String :=
  match Drivers.words line with
  | ["asg", fnum, _, h, _] => step1 ("idx " ++ fnum ++ " " ++ h)
  | _ => step1 line

def stepAll (st : PSet) (line : String) : PSet × String :=
  let r := stepS st line
  if r.2 == "" then (st, step line) else r

end Drivers.Tab
