import Fix8Model.Checksum.Model
import Drivers.Common
namespace Drivers.Chk
open Fix8Model.Checksum

/-- `chk <hexbuf> <off> <len|-1>` : value, whether every read is inside the buffer and inside
[off, off+elen) -/
def step (line : String) : String :=
  match Drivers.words line with
  | ["chk", h, off, len] =>
    match Drivers.unhex h, off.toNat?, len.toInt? with
    | some buf, some off, some len =>
      let l : Option Nat := if len < 0 then none else some len.toNat
      let sz := buf.length
      let v := calcChksum buf sz off l
      let rd := readIdx sz off l
      let elen := effLen sz off l
      let oob := rd.any fun i => i < off || i ≥ off + elen || i ≥ sz
      s!"v={v} oob={if oob then 1 else 0}"
    | _, _, _ => "bad-op"
  | _ => "bad-op"

end Drivers.Chk
