import Fix8Model.Session.Duo
import Drivers.SessD
/-! line-protocol driver of the C21 two-party model (stream `duo`); same lines and result format as harness/duo.cpp -/
namespace Drivers.DuoD
open Fix8Model.Session

/-- CompIDs as the second party sees them: the acceptor is SRV (2), the initiator CLI (1) – `Drivers.SessD.compTo` already maps 1/2 -/
def sideName (n : Nat) : String := if n == 1 then "A" else "B"

def summary (tag : String) (s : Sess) : String :=
  let c := match s.store.bind (·.ctrl) with | some (a, b) => s!"{a},{b}" | none => "none"
  if !s.started then s!"{tag}| gone ctrl={c}"
  else s!"{tag}| st={Drivers.SessD.stName s.state} ns={s.ns} nr={s.nr} ctrl={c} sd={if s.shutdown then 1 else 0}"

def showMicro (m : DMicro) : String :=
  let head := match m.inb with
    | some f => "abs{dec=ok," ++ Drivers.SessD.showMsg f ++ "}"
    | none => "call"
  sideName m.side ++ ":" ++ head ++ " " ++ String.join (m.outs.map fun o => Drivers.SessD.showOut o ++ " ")

def render (ms : List DMicro) (d : Duo) : String :=
  String.join (ms.map fun m => showMicro m ++ "/ ") ++ "|| " ++ summary "A" d.a ++ " " ++ summary "B" d.b ++
    s!" ab={d.ab.length} ba={d.ba.length} up={if d.up then 1 else 0}"

/-- CompID code 0 is the empty CompID of an acceptor that has not yet accepted a Logon (`Drivers.SessD.compTo` prints every
unknown code as BAD; the harness prints an empty field as `-`) -/
def fixEmpty (s : String) : String := (s.replace "snd=BAD" "snd=-").replace "tgt=BAD" "tgt=-"

def step (st : Option Duo) (line : String) : Option Duo × String :=
  let w := Drivers.words line
  match w with
  | ["new", enf] => let d := Duo.init (enf == "1") Drivers.SessD.t0; (some d, render [] d)
  | _ =>
    match st with
    | none => (st, if w.isEmpty then "bad-op" else "no-world")
    | some d =>
      let ev : Option DEv := match w with
        | ["connect"] => some .connect
        | ["tick", ms] => ms.toNat?.map DEv.tick
        | ["sendA", pid] => pid.toNat?.map DEv.sendA
        | ["sendB", pid] => pid.toNat?.map DEv.sendB
        | ["dAB"] => some .dAB
        | ["dBA"] => some .dBA
        | ["drop"] => some .drop
        | ["restartA"] => some .restartA
        | ["restartB"] => some .restartB
        | _ => none
      match ev with
      | none => (st, "bad-op")
      | some ev => let r := d.step ev; (some r.1, fixEmpty (render r.2 r.1))

end Drivers.DuoD
