import Fix8Model.Session.Peer
import Drivers.SessD
/-! line-protocol driver of the C20 composition (stream `gap`): the session step function composed with the model of a
conformant counterparty; same lines and the same result format as harness/gap.cpp -/
namespace Drivers.GapD
open Fix8Model.Session

def parseKind (w : String) : Option PKind :=
  if w == "h" then some .hb
  else if w.startsWith "a" then ((w.drop 1).toString.toNat?).map PKind.app
  else none

def showMicro (m : Micro) : String :=
  let head := match m.inb with
    | some f => "abs{dec=ok," ++ Drivers.SessD.showMsg f ++ "}"
    | none => "call"
  head ++ " " ++ String.join (m.outs.map fun o => Drivers.SessD.showOut o ++ " ") ++ Drivers.SessD.summary m.after

def render (ms : List Micro) (c : Comp) : String :=
  String.join (ms.map fun m => showMicro m ++ " / ") ++ "|| " ++ Drivers.SessD.summary c.s ++ s!" pns={c.p.ns} un={c.unanswered}"

def step (st : Option Comp) (line : String) : Option Comp × String :=
  let w := Drivers.words line
  match w with
  | ["new", pk, enf, tr] =>
    if pk == "mem" || pk == "file" then
      let c := Comp.init (enf == "1") (tr == "1") Drivers.SessD.t0
      (some c, render [] c)
    else (st, "bad-op")
  | _ =>
    match st with
    | none => (st, if w.isEmpty then "bad-op" else "no-world")
    | some c =>
      let ev : Option CEv := match w with
        | ["connect"] => some .connect
        | ["tick", ms] => ms.toNat?.map CEv.tick
        | ["lose", k] => (parseKind k).map CEv.lose
        | ["sess", pid] => pid.toNat?.map CEv.sess
        | "peer" :: k :: infl => match parseKind k, infl.mapM parseKind with
          | some k, some infl => some (.peer k infl)
          | _, _ => none
        | _ => none
      match ev with
      | none => (st, "bad-op")
      | some ev => let r := c.step ev; (some r.1, render r.2 r.1)

end Drivers.GapD
