import Fix8Model.Compiler.Compile
import Drivers.Common
/-!
Driver of the `f8c` stream (C13/C14): one schema per line (token format written by tools/f8ctv.py `to_line`),
answer = the metadata `compile s` in the text form of `harness/f8cdump.cpp dump` (items joined by " | "),
followed by " || " and the finding classes the schema falls into.
-/
namespace Drivers.F8cD
open Fix8Model.Compiler

def unhexStr (s : String) : Option String :=
  (Drivers.unhex s).map fun bs => String.ofList (bs.map Char.ofNat)

def hexStr (s : String) : String := Drivers.hex (s.toUTF8.toList.map (·.toNat))

def tok (s : String) : String := if s == "-" then "" else s


partial def pElem : List String → Option (Elem × List String)
  | "f" :: n :: r :: rest => some (.field (tok n) (tok r), rest)
  | "c" :: n :: r :: rest => some (.comp (tok n) (tok r), rest)
  | "g" :: n :: r :: rest =>
    match pBody rest with
    | some (b, rest') => some (.group (tok n) (tok r) b, rest')
    | none => none
  | _ => none
where
  pBody : List String → Option (List Elem × List String)
    | k :: rest =>
      match k.toNat? with
      | none => none
      | some n =>
        let rec go : Nat → List String → List Elem → Option (List Elem × List String)
          | 0, ts, acc => some (acc.reverse, ts)
          | n + 1, ts, acc =>
            match pElem ts with
            | some (e, ts') => go n ts' (e :: acc)
            | none => none
        go n rest []
    | [] => none

def pBody := @pElem.pBody

def repeatP {α : Type} (p : List String → Option (α × List String)) : Nat → List String → List α → Option (List α × List String)
  | 0, ts, acc => some (acc.reverse, ts)
  | n + 1, ts, acc =>
    match p ts with
    | some (a, ts') => repeatP p n ts' (a :: acc)
    | none => none

def pCount {α : Type} (p : List String → Option (α × List String)) : List String → Option (List α × List String)
  | k :: rest => match k.toNat? with
    | some n => repeatP p n rest []
    | none => none
  | [] => none

def pValue : List String → Option (ValueDef × List String)
  | e :: d :: r :: rest =>
    match unhexStr e, unhexStr d with
    | some e', some d' => some (⟨e', d', tok r⟩, rest)
    | _, _ => none
  | _ => none

def pField : List String → Option (FieldDef × List String)
  | num :: name :: ty :: rest =>
    match num.toNat?, pCount pValue rest with
    | some n, some (vs, rest') => some (⟨n, tok name, tok ty, vs⟩, rest')
    | _, _ => none
  | _ => none

def pComp : List String → Option ((String × List Elem) × List String)
  | name :: rest => match pBody rest with
    | some (b, rest') => some ((tok name, b), rest')
    | none => none
  | _ => none

def pMsg : List String → Option (MsgDef × List String)
  | name :: mt :: cat :: rest =>
    match unhexStr mt, pBody rest with
    | some mt', some (b, rest') => some (⟨tok name, mt', tok cat, b⟩, rest')
    | _, _ => none
  | _ => none

def pSchema : List String → Option Schema
  | "S" :: kind :: ma :: mi :: rv :: rest =>
    match ma.toNat?, mi.toNat?, rv.toNat? with
    | some ma, some mi, some rv =>
      match pCount pField rest with
      | none => none
      | some (fs, r1) =>
        match pCount pComp r1 with
        | none => none
        | some (cs, r2) =>
          match pBody r2 with
          | none => none
          | some (hd, r3) =>
            match pBody r3 with
            | none => none
            | some (tr, r4) =>
              match pCount pMsg r4 with
              | some (ms, []) => some ⟨tok kind, ma, mi, rv, fs, cs, hd, tr, ms⟩
              | _ => none
    | _, _, _ => none
  | _ => none

def showRVal (ft : Nat) : RVal → String
  | .num v => toString v
  | .str s => if isString ft then hexStr s else "?"

def showField (f : FieldMeta) : String :=
  s!"fld {f.number} {hexStr f.name}" ++
    match f.realm with
    | none => ""
    | some r => s!" {if r.isRange then "range" else "set"} {r.ftype} {r.vals.length}" ++
        String.join (r.vals.map fun v => s!" {showRVal r.ftype v.1}:{hexStr v.2}")

partial def showTraits (ts : List Trait) (gs : List (Nat × GSpec)) : String :=
  ";".intercalate (ts.map fun t =>
    s!"{t.tag},{t.ftype},{t.pos},{t.comp},{t.flags}" ++
      (if t.flags.testBit Fix8Model.Gen.bitGroup then
        match gs.lookup t.tag with
        | some (.mk gts ggs) => "{" ++ showTraits gts ggs ++ "}"
        | none => "{?}"
      else ""))

def showMsg (m : MsgMeta) : String :=
  s!"msg {hexStr m.key} {hexStr m.name} {if m.admin then 1 else 0} {showTraits m.traits m.groups}"

def showMeta (m : Metadata) : String :=
  " | ".intercalate ([s!"ver {m.version} {hexStr m.beginStr}"] ++ m.fields.map showField ++
    [" ".intercalate ("cn" :: m.comps.map hexStr)] ++ m.msgs.map showMsg)

/-- the component table is only readable up to the largest index used by a trait: trim like the dumper -/
partial def maxComp (ts : List Trait) (gs : List (Nat × GSpec)) : Nat :=
  (ts.map (·.comp)).foldl max 0 |> fun a => gs.foldl (fun acc g => match g.2 with | .mk t g' => max acc (maxComp t g')) a

/-- class `depth3`: at message level (depth 3) `process_component` hands the reference's own `required` down and forgets
the enclosing one: a required reference directly inside the definition of a component that was referenced as optional -/
partial def depth3In (comps : List (String × List Elem)) (fuel : Nat) (enclosingReq : Bool) (body : List Elem) : Bool :=
  body.any fun e =>
    match e with
    | .comp n r =>
      (!enclosingReq && reqBool r) ||
        (match fuel, comps.lookup n with
         | f + 1, some b => depth3In comps f (reqBool r) b
         | _, _ => false)
    | _ => false

def classes (s : Schema) : List String :=
  (match load s with
   | none => []
   | some l => (if collides l.occs then ["collision"] else [])) ++
  (if s.msgs.any (fun m => depth3In s.comps (s.comps.length + 1) true m.body) then ["depth3"] else [])

def natList (s : String) : Option (List Nat) :=
  if s == "-" then some [] else (s.splitOn ",").mapM (·.toNat?)

/-- `partner x xs ys`: the tag proved to collide by `Props.C14.C14_key_collision_any`;
    `hash xs`: `foldTags 0 xs` -/
def stepAux (ws : List String) : Option String :=
  match ws with
  | ["partner", x, xs, ys] =>
    match x.toNat?, natList xs, natList ys with
    | some x, some xs, some ys =>
      some (toString (partner xs ys x))
    | _, _, _ => some "bad-op"
  | ["hash", xs] =>
    match natList xs with
    | some xs => some (toString (foldTags 0 xs).toNat)
    | none => some "bad-op"
  | _ => none

def step (line : String) : String :=
  match stepAux (Drivers.words line) with
  | some r => r
  | none =>
  match pSchema (Drivers.words line) with
  | none => "bad-schema"
  | some s =>
    match compile s with
    | none => "fail"
    | some m =>
      let mc := m.msgs.foldl (fun acc x => max acc (maxComp x.traits x.groups)) 0
      showMeta { m with comps := m.comps.take mc } ++ " || " ++ " ".intercalate ("classes" :: classes s)

end Drivers.F8cD
