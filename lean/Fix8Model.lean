import Fix8Model.Props.C07
import Fix8Model.Props.C08
import Fix8Model.Props.C09
import Fix8Model.Props.C10
import Fix8Model.Props.C12
import Fix8Model.Props.C26
import Fix8Model.Props.C27
import Fix8Model.Props.C29
