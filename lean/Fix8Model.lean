import Fix8Model.Props.C07
