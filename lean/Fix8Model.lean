import Fix8Model.Props.C07
import Fix8Model.Props.C08
