import Drivers.Chk
import Drivers.Num
import Drivers.TimeD
import Drivers.Tab
import Drivers.StoreD
import Drivers.RotD
import Drivers.CodecD
import Drivers.TimerD
import Drivers.XmlD
import Drivers.LogD
import Drivers.SchedD
import Drivers.SessHbD
import Drivers.F8cD
import Drivers.SessD
import Drivers.FramerD
import Drivers.GapD
import Drivers.DuoD
import Drivers.ConcD
import Drivers.MpmcD

def main (args : List String) : IO UInt32 := do
  let stdin ← IO.getStdin
  match args with
  | ["chk"] => Drivers.loop stdin () (fun _ l => ((), Drivers.Chk.step l)); return 0
  | ["num"] => Drivers.loop stdin () (fun _ l => ((), Drivers.Num.step l)); return 0
  | ["time"] => Drivers.loop stdin () (fun _ l => ((), Drivers.TimeD.step l)); return 0
  | ["tab"] => Drivers.loop stdin (⟨[], 0, 0⟩ : Fix8Model.SortedSet.PSet) Drivers.Tab.stepAll; return 0
  | ["store"] => Drivers.loop stdin Drivers.StoreD.St.none Drivers.StoreD.step; return 0
  | ["crash"] => Drivers.loop stdin Fix8Model.Store.FS.init Drivers.CrashD.step; return 0
  | ["rot"] => Drivers.loop stdin () (fun _ l => ((), Drivers.RotD.step l)); return 0
  | ["codec44"] => Drivers.loop stdin () (fun _ l => ((), Drivers.CodecD.step44 l)); return 0
  | ["codec"] => Drivers.loop stdin () (fun _ l => ((), Drivers.CodecD.step l)); return 0
  | ["timer"] => Drivers.loop stdin ({} : Drivers.TimerD.St) Drivers.TimerD.step; return 0
  | ["xml"] => Drivers.loop stdin () (fun _ l => ((), Drivers.XmlD.step l)); return 0
  | ["log"] => Drivers.loop stdin ({} : Drivers.LogD.St) Drivers.LogD.step; return 0
  | ["sched"] => Drivers.loop stdin () (fun _ l => ((), Drivers.SchedD.step l)); return 0
  | ["mpmc"] => Drivers.loop stdin Drivers.MpmcD.St.none Drivers.MpmcD.step; return 0
  | ["sesshb"] => Drivers.loop stdin () (fun _ l => ((), Drivers.SessHbD.stepLine l)); return 0
  | ["f8c"] => Drivers.loop stdin () (fun _ l => ((), Drivers.F8cD.step l)); return 0
  | ["sess"] => Drivers.loop stdin (Drivers.SessD.init true) Drivers.SessD.step; return 0
  | ["sessbase"] => Drivers.loop stdin (Drivers.SessD.init false) Drivers.SessD.step; return 0
  | ["framer"] => Drivers.loop stdin () (fun _ l => ((), Drivers.FramerD.step l)); return 0
  | ["gap"] => Drivers.loop stdin (none : Option Fix8Model.Session.Comp) Drivers.GapD.step; return 0
  | ["duo"] => Drivers.loop stdin (none : Option Fix8Model.Session.Duo) Drivers.DuoD.step; return 0
  | ["conc"] => Drivers.loop stdin Drivers.ConcD.St.none Drivers.ConcD.step; return 0
  | _ => IO.eprintln "usage: driver <stream>"; return 2
