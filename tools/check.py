#!/usr/bin/env python3
"""single entry point of every registered check:  tools/check.py Cnn [--tier quick|thorough] [--replay file]"""
import argparse, importlib, os, sys, traceback
sys.path.insert(0, os.path.dirname(os.path.abspath(__file__)))
import vlib


def main():
    ap = argparse.ArgumentParser()
    ap.add_argument('pid')
    ap.add_argument('--tier', default=os.environ.get('VERIF_TIER', 'quick'))
    ap.add_argument('--replay')
    a = ap.parse_args()
    seed = int(os.environ.get('VERIF_SEED', '1') or 1)
    tier = a.tier if a.tier in ('quick', 'thorough') else 'quick'
    mod = importlib.import_module('props.' + a.pid.lower())
    res = vlib.Result(a.pid, tier, seed, level=getattr(mod, 'LEVEL', 'proof'))
    try:
        mod.run(res, replay=a.replay)
    except vlib.BuildError as e:
        res.violation(str(e)[-3000:], 'build of the checking machinery failed against the current tree: ' + str(e)[:200].replace('\n', ' '), no_input=True)
        res.cov.setdefault('evaluations', 0)
        res.cov.setdefault('distinct_nontrivial', 0)
    except Exception:
        traceback.print_exc()
        res.violation(traceback.format_exc(), 'internal error of the check (treated as: property not shown to hold)', no_input=True)
    sys.exit(res.finish())


if __name__ == '__main__':
    main()
