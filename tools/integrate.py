#!/usr/bin/env python3
"""integrate a builder's deliverable: tools/integrate.py <workname> --pids C31 --facts timer_consts --harness "dict(name='timer', need_lib=True, extra_flags=['-ldl'])"
copies deliver/ files, pulls gen_facts functions and registry entries out of the builder's work copy, adds imports."""
import argparse, os, re, shutil, sys
ROOT = os.path.dirname(os.path.dirname(os.path.abspath(__file__)))
ap = argparse.ArgumentParser()
ap.add_argument('name')
ap.add_argument('--pids', default='')
ap.add_argument('--facts', default='')
ap.add_argument('--harness', action='append', default=[])
ap.add_argument('--helpers', default='')          # extra top-level names (constants/functions) to copy from gen_facts.py
a = ap.parse_args()
W = '/tmp/wk/%s' % a.name
D = W + '/deliver'
for dp, dn, fn in os.walk(D):
    rel = os.path.relpath(dp, D)
    if rel.split(os.sep)[0] in ('mutants', 'evidence', 'mut'):
        continue
    for f in fn:
        if rel == '.' :
            continue
        dst = os.path.join(ROOT, rel, f)
        os.makedirs(os.path.dirname(dst), exist_ok=True)
        shutil.copy2(os.path.join(dp, f), dst)
        print('copied', os.path.join(rel, f))


def block(src, name):
    """text of top-level `def name(` or `NAME =` block"""
    m = re.search(r'^(def %s\(|%s\s*=)' % (re.escape(name), re.escape(name)), src, re.M)
    if not m:
        raise SystemExit('block %s not found' % name)
    rest = src[m.start():]
    lines = rest.split('\n')
    out = [lines[0]]
    for l in lines[1:]:
        if l and not l[0].isspace() and not l.startswith(')') and not l.startswith(']') and not l.startswith('}'):
            break
        out.append(l)
    return '\n'.join(out).rstrip() + '\n'


gf_path = os.path.join(ROOT, 'tools', 'gen_facts.py')
gf = open(gf_path).read()
wgf = open(W + '/verif/tools/gen_facts.py').read()
for n in [x for x in (a.helpers.split(',') + a.facts.split(',')) if x]:
    if re.search(r'^(def %s\(|%s\s*=)' % (re.escape(n), re.escape(n)), gf, re.M):
        print('gen_facts already has', n)
        continue
    b = block(wgf, n)
    gf = gf.replace('\nALL = dict(', '\n' + b + '\n\nALL = dict(', 1)
    print('gen_facts +', n)
for n in [x for x in a.facts.split(',') if x]:
    if not re.search(r'ALL = dict\([^\n]*\b%s=%s\b' % (n, n), gf):
        gf = gf.replace('ALL = dict(', 'ALL = dict(%s=%s, ' % (n, n), 1)
open(gf_path, 'w').write(gf)

rg_path = os.path.join(ROOT, 'tools', 'registry.py')
rg = open(rg_path).read()
wrg = open(W + '/verif/tools/registry.py').read()
for pid in [x for x in a.pids.split(',') if x]:
    if "'%s': dict(" % pid in rg:
        print('registry already has', pid)
        continue
    m = re.search(r"^    '%s': dict\(\n(.*?\n)    (?='C\d\d': dict\(|\}|$)" % pid, wrg + '\n', re.S | re.M)
    i = wrg.index("    '%s': dict(" % pid)
    j = min([k for k in (wrg.find("\n    'C", i + 10), wrg.find("\n}\n", i)) if k > 0])
    entry = wrg[i:j].rstrip().rstrip(',') + ',\n'
    rg = rg.replace('}\n\nPENDING_REASON', entry + '}\n\nPENDING_REASON', 1)
    print('registry +', pid)
    fm = os.path.join(ROOT, 'lean', 'Fix8Model.lean')
    s = open(fm).read()
    if 'Props.%s\n' % pid not in s:
        open(fm, 'w').write(s + 'import Fix8Model.Props.%s\n' % pid)
open(rg_path, 'w').write(rg)

hl_path = os.path.join(ROOT, 'tools', 'harness_list.py')
hl = open(hl_path).read()
for h in a.harness:
    if h not in hl:
        hl = hl.replace(']\n', '    %s,\n]\n' % h, 1)
open(hl_path, 'w').write(hl)
print('done; now add the Main.lean lines by hand')
