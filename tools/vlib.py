"""Common machinery of the fix8 checks: builds (Lean, harnesses, out-of-tree runtime/f8c/schema
objects keyed by content hash), stream running with sanitizer-abort recovery, audit of the
Lean sources (grep + #print axioms), evidence and verdict plumbing."""
import fcntl, hashlib, json, threading, os, re, shutil, subprocess, sys, time, glob, random, tempfile

ROOT = os.path.dirname(os.path.dirname(os.path.abspath(__file__)))
REPO = os.environ.get('VERIF_REPO', '/repo')
CACHE = os.path.join(ROOT, '.cache')
LEAN = os.path.join(ROOT, 'lean')
EVID = os.path.join(ROOT, 'evidence')
REPLAYS = os.path.join(EVID, 'replays')
NPROC = os.cpu_count() or 4
ALLOWED_AXIOMS = {'propext', 'Quot.sound', 'Classical.choice'}
POCO = ['-lPocoFoundation', '-lPocoNet', '-lPocoUtil', '-lz', '-lpthread']
SAN = {
    'asan': ['-O1', '-g', '-fsanitize=address,undefined', '-fno-sanitize=alignment,vptr', '-fno-sanitize-recover=all', '-D_GLIBCXX_ASSERTIONS', '-D_GLIBCXX_SANITIZE_VECTOR'],
    'tsan': ['-O1', '-g', '-fsanitize=thread'],
    'none': ['-O1', '-g'],
}
BASE_FLAGS = ['-std=c++11', '-w', '-DHAVE_CONFIG_H', '-DFIX8_VERIF']
ENV_RUN = dict(os.environ, ASAN_OPTIONS='detect_leaks=0:abort_on_error=0:halt_on_error=1:allocator_may_return_null=1',
               UBSAN_OPTIONS='print_stacktrace=0:halt_on_error=1', TZ='UTC', LC_ALL='C',
               TSAN_OPTIONS='halt_on_error=0:report_signal_unsafe=0')

for d in (CACHE, EVID, REPLAYS):
    os.makedirs(d, exist_ok=True)


class Lock:
    def __init__(self, name):
        self.path = os.path.join(CACHE, name + '.lock')
    def __enter__(self):
        self.f = open(self.path, 'w')
        fcntl.flock(self.f, fcntl.LOCK_EX)
    def __exit__(self, *a):
        fcntl.flock(self.f, fcntl.LOCK_UN)
        self.f.close()


def sh(cmd, cwd=None, env=None, timeout=None, input=None):
    p = subprocess.run(cmd, cwd=cwd, env=env, timeout=timeout, input=input,
                       stdout=subprocess.PIPE, stderr=subprocess.STDOUT, text=True, errors='replace')
    return p.returncode, p.stdout


def hash_files(paths, extra=''):
    h = hashlib.sha256(extra.encode())
    for p in sorted(paths):
        h.update(p.encode())
        try:
            with open(p, 'rb') as f:
                h.update(f.read())
        except OSError:
            h.update(b'<missing>')
    return h.hexdigest()[:20]


def repo_files(*subdirs, exts=('.cpp', '.hpp', '.h', '.c', '.xml')):
    out = []
    for sd in subdirs:
        base = os.path.join(REPO, sd)
        if os.path.isfile(base):
            out.append(base)
            continue
        for dp, dn, fn in os.walk(base):
            dn[:] = [d for d in dn if d not in ('.libs', '.deps')]
            for f in fn:
                if f.endswith(exts):
                    out.append(os.path.join(dp, f))
    return out


# ------------------------------------------------------------------------------------------------
# C++ builds (never inside /repo)

RUNTIME_SRCS = ['xml', 'f8utils', 'message', 'traits', 'session', 'logger', 'persist', 'connection',
                'configuration', 'consolemenu', 'filepersist', 'precomp', 'f8measure']
INC = ['-I' + os.path.join(REPO, 'include'), '-I' + REPO]


class BuildError(Exception):
    pass


def _par(cmds):
    procs = [(c, subprocess.Popen(c, stdout=subprocess.PIPE, stderr=subprocess.STDOUT, text=True, errors='replace')) for c in cmds]
    for c, p in procs:
        o, _ = p.communicate()
        if p.returncode != 0:
            raise BuildError(' '.join(c) + '\n' + o[-4000:])


def ensure_lib(san='asan'):
    """static library of runtime/*.cpp from the current working tree"""
    files = repo_files('include/fix8', 'runtime')
    key = hash_files(files, 'lib' + san + ' '.join(SAN[san]))
    d = os.path.join(CACHE, 'lib-%s-%s' % (san, key))
    lib = os.path.join(d, 'libfix8v.a')
    with Lock('lib-' + san):
        if os.path.exists(lib):
            return lib
        _gc('lib-%s-' % san)
        tmp = d + '.tmp'
        shutil.rmtree(tmp, ignore_errors=True)
        os.makedirs(tmp)
        cmds = []
        for s in RUNTIME_SRCS:
            cmds.append(['g++'] + BASE_FLAGS + SAN[san] + INC + ['-I' + os.path.join(REPO, 'runtime'), '-c',
                         os.path.join(REPO, 'runtime', s + '.cpp'), '-o', os.path.join(tmp, s + '.o')])
        cmds.append(['gcc', '-w', '-O1', '-DHAVE_CONFIG_H'] + INC + ['-c', os.path.join(REPO, 'runtime', 'modp_numtoa.c'),
                     '-o', os.path.join(tmp, 'modp_numtoa.o')])
        _par(cmds)
        rc, o = sh(['ar', 'rcs', os.path.join(tmp, 'libfix8v.a')] + sorted(glob.glob(os.path.join(tmp, '*.o'))))
        if rc:
            raise BuildError(o)
        os.rename(tmp, d)
        return lib


def ensure_f8c():
    files = repo_files('include/fix8', 'runtime', 'compiler')
    key = hash_files(files, 'f8c')
    d = os.path.join(CACHE, 'f8c-' + key)
    exe = os.path.join(d, 'f8c')
    lib = ensure_lib('none')
    with Lock('f8c'):
        if os.path.exists(exe):
            return exe
        _gc('f8c-')
        tmp = d + '.tmp'
        shutil.rmtree(tmp, ignore_errors=True)
        os.makedirs(tmp)
        cmds = []
        for s in ['f8c', 'f8cutils', 'f8precomp', 'precomp']:
            cmds.append(['g++'] + BASE_FLAGS + SAN['none'] + INC + ['-I' + os.path.join(REPO, 'compiler'), '-c',
                         os.path.join(REPO, 'compiler', s + '.cpp'), '-o', os.path.join(tmp, 'c_' + s + '.o')])
        _par(cmds)
        rc, o = sh(['g++', '-o', os.path.join(tmp, 'f8c')] + sorted(glob.glob(os.path.join(tmp, 'c_*.o'))) + [lib] + POCO)
        if rc:
            raise BuildError(o)
        os.rename(tmp, d)
        return exe


UTEST_EXTRA = ("<field number='9999' name='SampleUserField'  type='STRING' messages='NewOrderSingle:N ExecutionReport:N OrderCancelRequest:Y' />"
               "<field number='9991' name='SampleUserField2' type='STRING' messages='NewOrderSingle:N ExecutionReport:N OrderCancelRequest:Y' />")


def ensure_schema(name='UTEST', xml='schema/FIX42UTEST.xml', prefix='utest', san='asan', extra=UTEST_EXTRA, xmlpath=None, second_only=True):
    """run the freshly built f8c on a schema and compile the generated sources; returns (dir, lib)"""
    f8c = ensure_f8c()
    xmlp = xmlpath or os.path.join(REPO, xml)
    key = hash_files([xmlp, f8c] + repo_files('include/fix8'), 'schema' + name + prefix + san + (extra or '') + ('' if second_only else 'two-pass'))
    d = os.path.join(CACHE, 'schema-%s-%s-%s' % (name, san, key))
    lib = os.path.join(d, 'lib%s.a' % prefix)
    with Lock('schema-' + name + san):
        if os.path.exists(lib):
            return d, lib
        _gc('schema-%s-%s-' % (name, san))
        tmp = d + '.tmp'
        shutil.rmtree(tmp, ignore_errors=True)
        os.makedirs(tmp)
        # -s = second pass only (what utests/Makefile.am does for the component-free FIX42UTEST); schemas with <components> need the precompile pass
        cmd = [f8c, '-sVp' if second_only else '-Vp', prefix, '-n', name, xmlp]
        if extra:
            cmd += ['-F', extra]
        rc, o = sh(cmd, cwd=tmp, timeout=300)
        if rc:
            raise BuildError('f8c failed: ' + o[-3000:])
        cmds = []
        for s in ('types', 'traits', 'classes'):
            cmds.append(['g++'] + BASE_FLAGS + SAN[san] + INC + ['-I' + tmp, '-c', os.path.join(tmp, '%s_%s.cpp' % (prefix, s)),
                         '-o', os.path.join(tmp, '%s_%s.o' % (prefix, s))])
        _par(cmds)
        rc, o = sh(['ar', 'rcs', os.path.join(tmp, 'lib%s.a' % prefix)] + sorted(glob.glob(os.path.join(tmp, '*.o'))))
        if rc:
            raise BuildError(o)
        os.rename(tmp, d)
        return d, lib


def _gc(prefix, keep=2):
    """drop old cache generations with this prefix (keeps the newest `keep`)"""
    ds = sorted([p for p in glob.glob(os.path.join(CACHE, prefix + '*')) if os.path.isdir(p) and not p.endswith('.tmp')],
                key=os.path.getmtime)
    for p in ds[:-keep] if keep else ds:
        shutil.rmtree(p, ignore_errors=True)


def build_harness(name, san='asan', need_lib=False, need_schema=False, extra_src=(), extra_flags=(), deps=(), schema=None):
    """compile harness/<name>.cpp against the current tree; returns path of the executable"""
    src = os.path.join(ROOT, 'harness', name + '.cpp')
    srcs = [src] + [os.path.join(ROOT, 'harness', s) for s in extra_src]
    hdeps = glob.glob(os.path.join(ROOT, 'harness', '*.hpp'))
    link = []
    inc = list(INC)
    if need_schema:
        sd, slib = ensure_schema(san=san, **(schema or {}))
        link.append(slib)
        inc.append('-I' + sd)
    if need_lib or need_schema:
        link.append(ensure_lib(san))
    dep_files = repo_files('include/fix8') + [os.path.join(REPO, d) for d in deps]
    key = hash_files(srcs + hdeps + dep_files + link, name + san + ' '.join(extra_flags))
    tagname = name + ('-' + schema['name'] if schema else '')
    d = os.path.join(CACHE, 'h-%s-%s-%s' % (tagname, san, key))
    exe = os.path.join(d, name)
    with Lock('h-' + tagname + san):
        if os.path.exists(exe):
            return exe
        _gc('h-%s-%s-' % (tagname, san))
        tmp = d + '.tmp'
        shutil.rmtree(tmp, ignore_errors=True)
        os.makedirs(tmp)
        cmd = ['g++'] + BASE_FLAGS + SAN[san] + list(extra_flags) + inc + ['-I' + os.path.join(ROOT, 'harness')] + srcs + \
              ['-o', os.path.join(tmp, name)] + link + POCO
        rc, o = sh(cmd, timeout=900)
        if rc:
            raise BuildError(o[-6000:])
        os.rename(tmp, d)
        return exe


# ------------------------------------------------------------------------------------------------
# Lean

def write_if_changed(path, text):
    try:
        if open(path).read() == text:
            return False
    except OSError:
        pass
    os.makedirs(os.path.dirname(path), exist_ok=True)
    tmp = path + '.tmp%d' % os.getpid()
    open(tmp, 'w').write(text)
    os.rename(tmp, path)
    return True


def lake_build(targets, timeout=3000):
    with Lock('lake'):
        rc, o = sh(['lake', 'build'] + list(targets), cwd=LEAN, timeout=timeout)
    return rc == 0, o


def driver_path():
    return os.path.join(LEAN, '.lake', 'build', 'bin', 'driver')


FORBIDDEN = re.compile(r'\b(sorry|admit|native_decide|bv_decide|implemented_by|unsafe)\b|^\s*axiom\s|maxHeartbeats\s+0')


def strip_comments(src):
    src = re.sub(r'/-.*?-/', lambda m: '\n' * m.group(0).count('\n'), src, flags=re.S)
    return re.sub(r'--.*', '', src)


def grep_sources():
    """forbidden tokens in any Lean source of the library (comments ignored)"""
    bad = []
    for p in glob.glob(os.path.join(LEAN, 'Fix8Model', '**', '*.lean'), recursive=True) + \
            glob.glob(os.path.join(LEAN, 'Drivers', '*.lean')) + [os.path.join(LEAN, 'Main.lean'), os.path.join(LEAN, 'Fix8Model.lean')]:
        for i, line in enumerate(strip_comments(open(p).read()).split('\n'), 1):
            if FORBIDDEN.search(line):
                bad.append('%s:%d: %s' % (os.path.relpath(p, ROOT), i, line.strip()))
    return bad


def print_axioms(module, names):
    """#print axioms for the given fully qualified theorem names; returns {name: [axioms]} (None = missing)"""
    txt = 'import %s\n' % module + ''.join('#print axioms %s\n' % n for n in names)
    f = os.path.join(CACHE, 'axioms_%s_%d.lean' % (module.replace('.', '_'), os.getpid()))
    open(f, 'w').write(txt)
    rc, o = sh(['lake', 'env', 'lean', f], cwd=LEAN, timeout=900)
    os.unlink(f)
    res = {}
    o1 = re.sub(r'\s+', ' ', o)
    for n in names:
        m = re.search(r"'%s' depends on axioms: \[([^\]]*)\]" % re.escape(n), o1)
        if m:
            res[n] = [a.strip() for a in m.group(1).split(',') if a.strip()]
        elif re.search(r"'%s' does not depend on any axioms" % re.escape(n), o1):
            res[n] = []
        else:
            res[n] = None
    return res, o


def lean_obligations(pid, module, theorems, extra_targets=()):
    """build the property module and the driver, audit; returns dict(ok, obligations, discharged, problems, axioms)"""
    t0 = time.time()
    problems = []
    ok, log = lake_build([module, 'driver'] + list(extra_targets))
    if not ok:
        errs = [l for l in log.split('\n') if 'error' in l][:8]
        problems.append('lake build failed: ' + ' | '.join(errs))
        return dict(ok=False, obligations=len(theorems), discharged=0, problems=problems, axioms={}, log=log, wall=time.time() - t0)
    bad = grep_sources()
    if bad:
        problems.append('forbidden tokens: ' + '; '.join(bad[:5]))
    full = ['Fix8Model.Props.%s.%s' % (pid, t) for t in theorems]
    ax, raw = print_axioms(module, full)
    discharged = 0
    for n in full:
        if ax[n] is None:
            problems.append('theorem missing: ' + n)
        elif set(ax[n]) - ALLOWED_AXIOMS:
            problems.append('axioms outside the allow-list in %s: %s' % (n, sorted(set(ax[n]) - ALLOWED_AXIOMS)))
        else:
            discharged += 1
    return dict(ok=not problems, obligations=len(full), discharged=discharged, problems=problems,
                axioms={k: v for k, v in ax.items()}, log=log, wall=time.time() - t0)


def leanchecker(module):
    rc, o = sh(['lake', 'env', 'leanchecker', module], cwd=LEAN, timeout=1800)
    return rc == 0, o[-2000:]


# ------------------------------------------------------------------------------------------------
# streams

def run_driver(stream, lines, timeout=1200):
    rc, o = sh([driver_path(), stream], input='\n'.join(lines) + '\n', timeout=timeout)
    outs = o.split('\n')
    if outs and outs[-1] == '':
        outs.pop()
    if rc != 0 or len(outs) != len(lines):
        raise BuildError('driver %s: rc=%s, %d lines for %d inputs\n%s' % (stream, rc, len(outs), len(lines), o[-2000:]))
    return outs


def classify_abort(err, rc):
    m = re.search(r'ERROR: AddressSanitizer: ([\w-]+)', err)
    if m:
        site = re.search(r'#\d+ 0x[0-9a-f]+ in ([^\s(]+)[^\n]* (/repo|%s)[^\s:]*/([\w.]+):(\d+)' % re.escape(REPO), err)
        return 'abort:asan:' + m.group(1) + ('@' + site.group(3) + ':' + site.group(4) if site else '')
    m = re.search(r'runtime error: ([^\n]+)', err)
    if m:
        return 'abort:ubsan:' + re.sub(r'0x[0-9a-f]+', 'ADDR', m.group(1))[:80].replace(' ', '_')
    if rc is None:
        return 'abort:timeout'
    if rc < 0:
        return 'abort:signal%d' % (-rc)
    return 'abort:exit%d' % rc


TEARDOWN_NOTES = []      # sanitizer reports raised during process tear-down after every line had been answered (recorded, not attributed)


def run_harness(exe, lines, per_line_timeout=20.0, env=None, args=(), stateful=False, cwd=None):
    """feed the script to the harness; a sanitizer abort / crash / hang on line k is recorded as the
    result of line k and the harness is restarted on the rest (stateless protocols) or the rest
    is marked `skipped` (stateful)."""
    outs = []
    aborts = []
    pos = 0
    env = env or ENV_RUN
    if cwd is None:
        cwd = os.path.join(CACHE, 'run')
        os.makedirs(cwd, exist_ok=True)
    while pos < len(lines):
        chunk = lines[pos:]
        errf = os.path.join(CACHE, 'err_%d.txt' % os.getpid())
        # harness scratch files live below one directory per harness process, removed when the process is gone
        scratch = tempfile.mkdtemp(prefix='verif_run_')
        env = dict(env, VERIF_SCRATCH=scratch)
        with open(errf, 'w') as ef:
            p = subprocess.Popen([exe] + list(args), stdin=subprocess.PIPE, stdout=subprocess.PIPE, stderr=ef, text=True,
                                 errors='replace', env=env, cwd=cwd)
            # a hang is "no further output line for 3 * per_line_timeout seconds" (at least 60 s), never a bound on the whole
            # script: a loaded machine makes a long script slow, not hung
            buf, last = [], [time.time()]

            def _feed():
                try:
                    p.stdin.write('\n'.join(chunk) + '\n')
                    p.stdin.close()
                except (BrokenPipeError, OSError, ValueError):
                    pass

            def _read():
                for ln in p.stdout:
                    buf.append(ln)
                    last[0] = time.time()
            tw = threading.Thread(target=_feed, daemon=True)
            tr = threading.Thread(target=_read, daemon=True)
            tw.start()
            tr.start()
            quiet = max(60.0, per_line_timeout * 3)
            rc = 'running'
            while rc == 'running':
                try:
                    p.wait(timeout=1.0)
                    rc = p.returncode
                except subprocess.TimeoutExpired:
                    if time.time() - last[0] > quiet:
                        p.kill()
                        p.wait()
                        rc = None
            tr.join(timeout=30)
            o = ''.join(buf)
        got = o.split('\n')
        if got and got[-1] == '':
            got.pop()
        err = open(errf, errors='replace').read()
        os.unlink(errf)
        shutil.rmtree(scratch, ignore_errors=True)
        if rc == 0 and len(got) == len(chunk):
            outs += got
            break
        # the line after the last complete output is the one that died
        got = got[:len(chunk)]
        outs += got
        k = len(got)
        if k >= len(chunk):
            # all lines answered but non-zero exit.  A sanitizer report raised while the process runs its exit handlers / static
            # destructors (harness tear-down: library globals and still-running service threads) says nothing about the last line:
            # it is kept in the log of the run, not attributed.  Anything else is treated as a failure of the last line.
            if re.search(r'__run_exit_handlers|__cxa_finalize|in exit \(|exit\.c:', err):
                TEARDOWN_NOTES.append(classify_abort(err, rc))
                break
            aborts.append((pos + k - 1, err[-3000:]))
            outs[-1] = outs[-1] + ' ' + classify_abort(err, rc)
            break
        tag = classify_abort(err, rc)
        aborts.append((pos + k, err[-3000:]))
        outs.append(tag)
        pos = pos + k + 1
        if stateful:
            outs += ['skipped'] * (len(lines) - pos)
            break
    return outs, aborts


# ------------------------------------------------------------------------------------------------
# verdicts, evidence, known findings

def known_findings(pid):
    try:
        kf = json.load(open(os.path.join(ROOT, 'known_findings.json')))
    except OSError:
        return []
    return [k for k in kf if k.get('property') == pid and k.get('status') == 'known']


class Result:
    def __init__(self, pid, tier, seed, level='proof'):
        self.pid, self.tier, self.seed, self.level = pid, tier, seed, level
        self.t0 = time.time()
        self.violations = []      # (replay_path, no_input)
        self.known_hit = []
        self.cov = {}
        self.assumptions = []
        self.notes = []

    def violation(self, text, what, no_input=False):
        h = hashlib.sha256(text.encode()).hexdigest()[:10]
        path = os.path.join(REPLAYS, '%s-%s.txt' % (self.pid, h))
        with open(path, 'w') as f:
            f.write('# property %s\n# %s\n' % (self.pid, what.replace('\n', '\n# ')))
            f.write(text if text.endswith('\n') else text + '\n')
        self.violations.append((path, no_input, what))

    def known(self, what):
        self.known_hit.append(what)

    def finish(self):
        ev = dict(property_id=self.pid, tier=self.tier, seed=self.seed, level=self.level, coverage=self.cov,
                  assumptions=self.assumptions, wall_s=round(time.time() - self.t0, 2), violations=len(self.violations))
        if self.notes:
            ev['coverage']['notes'] = self.notes
        if TEARDOWN_NOTES:
            ev['coverage']['teardown_reports_not_attributed'] = TEARDOWN_NOTES[:5]
        write_if_changed(os.path.join(EVID, self.pid + '.json'), json.dumps(ev, indent=1, sort_keys=True) + '\n')
        for w in self.known_hit:
            print('KNOWN-FINDING: property=%s %s' % (self.pid, w))
        seen = set()
        for path, no_input, what in self.violations:
            if path in seen:
                continue
            seen.add(path)
            print('# ' + what.split('\n')[0][:300])
            print('VIOLATION property=%s replay=%s%s' % (self.pid, path, ' no-failing-input-found' if no_input else ''))
        sys.stdout.flush()
        return 1 if self.violations else 0


def rng_for(pid, seed):
    return random.Random('%s/%d' % (pid, seed))


def corpus_lines(pid):
    out = []
    for p in sorted(glob.glob(os.path.join(ROOT, 'corpus', pid, '*.txt'))):
        for l in open(p):
            l = l.rstrip('\n')
            if l and not l.startswith('#'):
                out.append(l)
    return out


def diff_streams(lines, a, b):
    """indices where the two output streams differ"""
    return [i for i in range(len(lines)) if a[i] != b[i]]


# ------------------------------------------------------------------------------------------------
# generic decision procedure for "pure function" streams

def decide_stream(res, *, module, theorems, stream, harness_name, lines, oracle, nontrivial,
                  harness_kw=None, stateful=False, compare=None, what='', thorough_leanchecker=True,
                  canon_impl=None, extra_obligation_problems=(), segment_start=None):
    """The verdict logic of DESIGN.md section 1.
    oracle(line, impl_out) -> (ok: bool|None, klass: str|None)  evaluates the PROPERTY on the
      implementation's own output (None = not applicable to this line); klass names a known-finding class.
    compare(line, impl_out, model_out) -> bool   (default: string equality)
    nontrivial(line) -> key or None     (distinct non-trivial cases are counted by key)
    """
    pid = res.pid
    lean = lean_obligations(pid, module, theorems)
    problems = list(lean['problems']) + list(extra_obligation_problems)
    if res.tier == 'thorough' and lean['ok'] and thorough_leanchecker:
        ok, o = leanchecker(module)
        if not ok:
            problems.append('leanchecker rejected %s: %s' % (module, o[-300:]))
    res.cov.update(obligations=lean['obligations'], discharged=lean['discharged'] if not problems else min(lean['discharged'], lean['obligations'] - 1) if lean['discharged'] == lean['obligations'] else lean['discharged'],
                   checker_cmd='cd lean && lake build %s driver && lake env lean <#print axioms of %s>' % (module, ', '.join(theorems)) + ('; lake env leanchecker ' + module if res.tier == 'thorough' else ''),
                   trusted_base=['Lean 4.33.0 kernel', 'axioms: ' + ', '.join(sorted({a for v in lean['axioms'].values() if v for a in v}) or ['none']),
                                 'hand-written model %s tied to /repo by the %s correspondence stream' % (module, stream),
                                 'harness/%s.cpp, tools/*.py (generator, diff, oracle)' % harness_name],
                   theorems=theorems)
    try:
        exe = build_harness(harness_name, **(harness_kw or {}))
    except BuildError as e:
        res.violation('harness %s does not build against the current tree\n%s' % (harness_name, str(e)[-1500:]),
                      'correspondence harness %s cannot be built from the current tree' % harness_name, no_input=True)
        res.cov.update(evaluations=0, distinct_nontrivial=0)
        return None
    t1 = time.time()
    impl, aborts = run_harness(exe, lines, stateful=stateful)
    if canon_impl:
        impl = [canon_impl(l, o) for l, o in zip(lines, impl)]
    model = None
    model_err = None
    if os.path.exists(driver_path()):
        try:
            model = run_driver(stream, lines)
        except BuildError as e:
            model_err = str(e)
    else:
        model_err = 'driver not built'
    cmp = compare or (lambda l, a, b: a == b)
    keys = set()
    concrete = 0
    unmodelled = 0
    mism = []
    classes = {}
    known = {k['class']: k for k in known_findings(pid)}
    for i, l in enumerate(lines):
        k = nontrivial(l)
        if k is not None:
            keys.add(k)
        ok, klass = oracle(l, impl[i])
        if ok is False:
            if klass and klass in known:
                classes[klass] = classes.get(klass, 0) + 1
            else:
                concrete += 1
                if concrete <= 5:
                    rtxt = l
                    if stateful:
                        seg = segment_start or (lambda x: x.startswith(('open', 'new')))
                        j = i
                        while j > 0 and not seg(lines[j]):
                            j -= 1
                        rtxt = '\n'.join(lines[j:i + 1])
                    res.violation(rtxt, 'property oracle fails on the implementation: %s -> %s%s' % (l[:200], impl[i][:200], (' (model: %s)' % model[i][:200]) if model else ''))
        if model is not None and 'UNMODELLED' in model[i]:
            unmodelled += 1              # outside what the model covers (stated per check): judged by the oracle only
        elif model is not None and not cmp(l, impl[i], model[i]):
            if not (ok is False):
                mism.append(i)
    for klass, n in classes.items():
        res.known('%s: %s [%d cases this run, site %s]' % (klass, known[klass]['what'], n, known[klass].get('site', '?')))
    if mism and not concrete:
        i = mism[0]
        res.violation('\n'.join(lines[j] for j in mism[:5]),
                      'correspondence stream %s: model and implementation differ on %d of %d lines although the property oracle holds; first: %s -> impl %s / model %s'
                      % (stream, len(mism), len(lines), lines[i][:200], impl[i][:200], model[i][:200]), no_input=True)
    if model_err and not concrete:
        res.violation('driver stream %s failed: %s' % (stream, model_err[-1500:]), 'model driver for %s unavailable: correspondence not established' % stream, no_input=True)
    if problems and not concrete:
        res.violation('\n'.join(problems), 'proof obligation of %s no longer checks: %s' % (pid, problems[0][:300]), no_input=True)
    res.cov.update(evaluations=len(lines), distinct_nontrivial=len(keys), aborts=len(aborts),
                   mismatches=len(mism), unmodelled_lines=unmodelled, oracle_failures=concrete, known_class_hits=classes,
                   samples=[dict(input=lines[i][:300], impl=impl[i][:300], model=(model[i][:300] if model else None))
                            for i in sorted(set([0, len(lines) // 2, len(lines) - 1]))],
                   run_s=round(time.time() - t1, 2))
    return dict(lines=lines, impl=impl, model=model, aborts=aborts)


FIX44 = dict(name='FIX44', xml='schema/FIX44.xml', prefix='fix44', extra=None, second_only=False)
FIX44_FLAGS = ['-DSCHEMA_NS=FIX44', '-DSCHEMA_TYPES="fix44_types.hpp"', '-DSCHEMA_ROUTER="fix44_router.hpp"', '-DSCHEMA_CLASSES="fix44_classes.hpp"']
