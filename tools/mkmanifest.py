#!/usr/bin/env python3
import json, os, sys
sys.path.insert(0, os.path.dirname(os.path.abspath(__file__)))
import registry
ROOT = os.path.dirname(os.path.dirname(os.path.abspath(__file__)))
props = [json.loads(l) for l in open(os.path.join(ROOT, 'properties.jsonl'))]
checks, na = [], []
for p in props:
    pid = p['id']
    c = registry.CLAIMED.get(pid)
    if not c:
        na.append(dict(property_id=pid, reason=registry.NOT_APPLICABLE.get(pid, registry.PENDING_REASON) if hasattr(registry, 'NOT_APPLICABLE') else registry.PENDING_REASON))
        continue
    checks.append(dict(
        property_id=pid,
        quick_cmd='python3 tools/check.py %s --tier quick' % pid,
        thorough_cmd='python3 tools/check.py %s --tier thorough' % pid,
        evidence_file='/verif/evidence/%s.json' % pid,
        replay_cmd_template='python3 tools/check.py %s --replay {path}' % pid,
        engine='lean4+correspondence',
        level_claimed=dict(category=c['category'], text=c['text'], design_ref=c['design_ref']),
        level_note=c['note'],
        technique=c['technique']))
hooks = json.load(open(os.path.join(ROOT, 'tools', 'hooks.json')))
m = dict(
    version=1,
    setup_cmd='python3 tools/setup.py',
    hooks=hooks,
    engines=[dict(name='lean4+correspondence', path='/verif/tools/check.py', serves_properties=[c['property_id'] for c in checks],
                  kind_free_text='Lean 4 theorems about hand-written executable models (lean/Fix8Model), tied to /repo by differential correspondence harnesses (harness/*.cpp) compiled from the current working tree with sanitizers')],
    checks=checks,
    notes='Every check rebuilds what it needs from /repo (content-hash keyed cache under /verif/.cache). VERIF_SEED selects the generated cases; VERIF_REPO may point the checks at another tree.',
    not_applicable=na)
json.dump(m, open(os.path.join(ROOT, 'MANIFEST.json'), 'w'), indent=1)
print('claimed', len(checks), 'not claimed', len(na))
