HARNESSES = [
    dict(name='chk'),
    dict(name='num'),
    dict(name='timeh', need_lib=True),
    dict(name='tables', need_schema=True),
    dict(name='store', need_schema=True, extra_flags=['-ldl']),
    dict(name='rot', need_lib=True),
    dict(name='codec', need_schema=True),
    dict(name='timer', need_lib=True, extra_flags=['-ldl']),
    dict(name='xmlh', need_lib=True, deps=['runtime/xml.cpp']),
    dict(name='logh', need_lib=True, extra_flags=['-ldl']),
    dict(name='sched', need_lib=True, extra_flags=['-ldl']),
    dict(name='mpmc'),
]
