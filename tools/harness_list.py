HARNESSES = [
    dict(name='chk'),
    dict(name='num'),
]
