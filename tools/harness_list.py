HARNESSES = [
    dict(name='chk'),
]
