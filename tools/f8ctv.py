"""Translation-validation machinery shared by C13 and C14: abstract schemas (generator families), XML writer, line
format of the Lean `f8c` driver, compile pipeline (fresh f8c -> g++ -> link with the generic dumper), dump parser,
the independent specification oracle (what the generated metadata must say about the schema) and message round trips."""
import hashlib, os, re, shutil, subprocess, glob, threading, concurrent.futures
import vlib, f8cfacts

NS, PREFIX = 'TVS', 'tv'
HDR = [('BeginString', 8, 'STRING'), ('BodyLength', 9, 'LENGTH'), ('MsgType', 35, 'STRING'), ('SenderCompID', 49, 'STRING'),
       ('TargetCompID', 56, 'STRING'), ('MsgSeqNum', 34, 'SEQNUM'), ('SendingTime', 52, 'UTCTIMESTAMP')]
TRL = [('CheckSum', 10, 'STRING')]
RESERVED = {8, 9, 10, 35, 49, 56, 34, 52}
UNCOMPILABLE = ('PATTERN', 'TENOR')
JOBS = 4
_GXX = threading.BoundedSemaphore(JOBS)


# ------------------------------------------------------------------------------------------------
# schema = dict(kind, major, minor, revision, fields=[dict(num,name,type,values=[(enum,desc,range)])], comps=[(name, body)],
#               header=body, trailer=body, msgs=[dict(name,msgtype,msgcat,body)], fam=..., note=...)
# body = [('f', name, req) | ('c', name, req) | ('g', name, req, body)]

def xesc(s):
    return s.replace('&', '&amp;').replace('<', '&lt;').replace('>', '&gt;').replace("'", '&apos;').replace('"', '&quot;')


def body_xml(body, ind):
    o = []
    for e in body:
        if e[0] == 'f':
            o.append("%s<field name='%s' required='%s'/>" % (ind, e[1], e[2]))
        elif e[0] == 'c':
            o.append("%s<component name='%s' required='%s'/>" % (ind, e[1], e[2]))
        else:
            o.append("%s<group name='%s' required='%s'>" % (ind, e[1], e[2]))
            o += body_xml(e[3], ind + ' ')
            o.append("%s</group>" % ind)
    return o


def to_xml(S):
    o = ["<?xml version='1.0' encoding='ISO-8859-1'?>"]
    attrs = "major='%d' minor='%d'" % (S['major'], S['minor'])
    if S.get('revision'):
        attrs += " servicepack='%d'" % S['revision']
    if S.get('kind', 'FIX') != 'FIX':
        attrs += " type='%s'" % S['kind']
    o.append("<fix %s>" % attrs)
    o.append(" <header>"); o += body_xml(S['header'], '  '); o.append(" </header>")
    o.append(" <trailer>"); o += body_xml(S['trailer'], '  '); o.append(" </trailer>")
    o.append(" <messages>")
    for m in S['msgs']:
        o.append("  <message name='%s' msgtype='%s' msgcat='%s'>" % (m['name'], xesc(m['msgtype']), m['msgcat']))
        o += body_xml(m['body'], '   ')
        o.append("  </message>")
    o.append(" </messages>")
    o.append(" <components>")
    for name, body in S['comps']:
        o.append("  <component name='%s'>" % name)
        o += body_xml(body, '   ')
        o.append("  </component>")
    o.append(" </components>")
    o.append(" <fields>")
    for f in S['fields']:
        if f['values']:
            o.append("  <field number='%d' name='%s' type='%s'>" % (f['num'], f['name'], f['type']))
            for e, d, r in f['values']:
                o.append("   <value enum='%s'%s%s/>" % (xesc(e), (" description='%s'" % xesc(d)) if d else '', (" range='%s'" % r) if r else ''))
            o.append("  </field>")
        else:
            o.append("  <field number='%d' name='%s' type='%s'/>" % (f['num'], f['name'], f['type']))
    o.append(" </fields>")
    o.append("</fix>")
    return '\n'.join(o) + '\n'


def hx(s):
    b = s.encode('latin1') if isinstance(s, str) else s
    return b.hex() if b else '-'


def unhx(s):
    return '' if s == '-' else bytes.fromhex(s).decode('latin1')


def tk(s):
    return s if s else '-'


def body_line(body):
    o = [str(len(body))]
    for e in body:
        if e[0] == 'g':
            o += ['g', tk(e[1]), tk(e[2])] + body_line(e[3])
        else:
            o += [e[0], tk(e[1]), tk(e[2])]
    return o


def to_line(S):
    o = ['S', S.get('kind', 'FIX'), str(S['major']), str(S['minor']), str(S.get('revision', 0)), str(len(S['fields']))]
    for f in S['fields']:
        o += [str(f['num']), tk(f['name']), tk(f['type']), str(len(f['values']))]
        for e, d, r in f['values']:
            o += [hx(e), hx(d), tk(r)]
    o.append(str(len(S['comps'])))
    for name, body in S['comps']:
        o += [tk(name)] + body_line(body)
    o += body_line(S['header']) + body_line(S['trailer'])
    o.append(str(len(S['msgs'])))
    for m in S['msgs']:
        o += [tk(m['name']), hx(m['msgtype']), tk(m['msgcat'])] + body_line(m['body'])
    return ' '.join(o)


# ------------------------------------------------------------------------------------------------
# compile pipeline

def harness_flags(san):
    return vlib.BASE_FLAGS + vlib.SAN[san]


def gen_flags(san):
    """flags of the generated translation units: the sanitizers of the harness build, but -O0 and no debug info (compile time)"""
    return vlib.BASE_FLAGS + ['-O0'] + [f for f in vlib.SAN[san] if f not in ('-O1', '-g')]


PCH_TEXT = """// headers included by every f8c-generated translation unit (f8cutils.cpp generate_includes + cs_generated_includes)
#include <fix8/f8config.h>
#include <iostream>
#include <fstream>
#include <iomanip>
#include <sstream>
#include <vector>
#include <map>
#include <list>
#include <set>
#include <iterator>
#include <algorithm>
#include <cerrno>
#include <string.h>
#include <fix8/f8exception.hpp>
#include <fix8/hypersleep.hpp>
#include <fix8/mpmc.hpp>
#include <fix8/thread.hpp>
#include <fix8/f8types.hpp>
#include <fix8/f8utils.hpp>
#include <fix8/tickval.hpp>
#include <fix8/logger.hpp>
#include <fix8/traits.hpp>
#include <fix8/field.hpp>
#include <fix8/message.hpp>
"""


def pch_dir(san):
    """precompiled header for the generated sources (pure build-time optimisation: the text of the header is used when the .gch is rejected)"""
    key = vlib.hash_files(vlib.repo_files('include/fix8'), 'tvpch' + san + ' '.join(gen_flags(san)) + PCH_TEXT)
    d = os.path.join(vlib.CACHE, 'h-tvpch-%s-%s' % (san, key))
    with vlib.Lock('h-tvpch' + san):
        if os.path.exists(os.path.join(d, 'tvpch.hpp')):
            return d
        vlib._gc('h-tvpch-%s-' % san, keep=1)
        tmp = d + '.tmp'
        shutil.rmtree(tmp, ignore_errors=True)
        os.makedirs(tmp)
        open(os.path.join(tmp, 'tvpch.hpp'), 'w').write(PCH_TEXT)
        rc, o = vlib.sh(['g++'] + gen_flags(san) + vlib.INC + ['-x', 'c++-header', os.path.join(tmp, 'tvpch.hpp'), '-o', os.path.join(tmp, 'tvpch.hpp.gch')], timeout=900)
        if rc:     # a header that no longer compiles shows up in the generated sources as well; go on without the .gch
            try:
                os.unlink(os.path.join(tmp, 'tvpch.hpp.gch'))
            except OSError:
                pass
        os.rename(tmp, d)
        return d


def dumper_obj(san):
    """harness/f8cdump.cpp compiled once per state of the tree (it only needs the library headers)"""
    src = os.path.join(vlib.ROOT, 'harness', 'f8cdump.cpp')
    key = vlib.hash_files([src, os.path.join(vlib.ROOT, 'harness', 'hcommon.hpp')] + vlib.repo_files('include/fix8'), 'f8cdump' + san + ' '.join(harness_flags(san)))
    d = os.path.join(vlib.CACHE, 'h-f8cdump-%s-%s' % (san, key))
    obj = os.path.join(d, 'f8cdump.o')
    with vlib.Lock('h-f8cdump' + san):
        if os.path.exists(obj):
            return obj
        vlib._gc('h-f8cdump-%s-' % san)
        tmp = d + '.tmp'
        shutil.rmtree(tmp, ignore_errors=True)
        os.makedirs(tmp)
        rc, o = vlib.sh(['g++'] + harness_flags(san) + vlib.INC + ['-I' + os.path.join(vlib.ROOT, 'harness'), '-c', src, '-o', os.path.join(tmp, 'f8cdump.o')], timeout=900)
        if rc:
            raise vlib.BuildError('harness f8cdump does not compile against the current tree\n' + o[-4000:])
        os.rename(tmp, d)
        return obj


def _gc_schemas(keep=400):
    ds = sorted([p for p in glob.glob(os.path.join(vlib.CACHE, 'tv-*')) if os.path.isdir(p) and not p.endswith('.tmp')], key=os.path.getmtime)
    for p in ds[:-keep]:
        shutil.rmtree(p, ignore_errors=True)


def compile_xml(xml_text, san='asan', f8c_args=(), extra_files=None, name='schema.xml'):
    """fresh f8c on the XML text, g++ on the generated sources, link with the dumper.
    -> dict(status = ok | f8c-error | no-output | cxx-error | link-error, exe, log, dir)"""
    f8c = vlib.ensure_f8c()
    lib = vlib.ensure_lib(san)
    dobj = dumper_obj(san)
    pch = pch_dir(san)
    key = hashlib.sha256((xml_text + '\0' + ' '.join(f8c_args) + '\0' + repr(sorted((extra_files or {}).items()))).encode('latin1', 'replace')).hexdigest()[:16]
    key2 = vlib.hash_files([f8c, dobj, lib], key + san)
    d = os.path.join(vlib.CACHE, 'tv-' + key2)
    stf = os.path.join(d, 'status.txt')
    if os.path.exists(stf):
        st = open(stf).read().split('\n', 1)
        os.utime(d)
        return dict(status=st[0], log=st[1] if len(st) > 1 else '', exe=os.path.join(d, 'f8cdump'), dir=d)
    tmp = d + '.tmp%d' % os.getpid()
    shutil.rmtree(tmp, ignore_errors=True)
    os.makedirs(tmp)
    open(os.path.join(tmp, name), 'w', encoding='latin1').write(xml_text)
    for fn, txt in (extra_files or {}).items():
        open(os.path.join(tmp, fn), 'w', encoding='latin1').write(txt)

    def done(status, log):
        open(os.path.join(tmp, 'status.txt'), 'w').write(status + '\n' + log[-6000:])
        shutil.rmtree(d, ignore_errors=True)
        try:
            os.rename(tmp, d)
        except OSError:
            shutil.rmtree(tmp, ignore_errors=True)
        return dict(status=status, log=log[-6000:], exe=os.path.join(d, 'f8cdump'), dir=d)

    try:
        rc, o = vlib.sh([f8c, '-p', PREFIX, '-n', NS] + list(f8c_args) + [name], cwd=tmp, timeout=300)
    except subprocess.TimeoutExpired:
        return done('f8c-error', 'f8c timed out')
    if rc not in (0, 1) or 'terminate called' in o:
        return done('f8c-error', 'f8c exit %s\n%s' % (rc, o))
    srcs = [os.path.join(tmp, '%s_%s.cpp' % (PREFIX, s)) for s in ('types', 'traits', 'classes')]
    if not all(os.path.exists(s) for s in srcs):
        return done('no-output', o)
    objs = [s[:-4] + '.o' for s in srcs]
    # the types unit first: what is wrong with a generated header shows up there, the other two units need not be tried then

    def cc(s):
        with _GXX:      # at most JOBS g++ processes at a time, over all schemas being compiled
            return vlib.sh(['g++'] + gen_flags(san) + vlib.INC + ['-I' + tmp, '-I' + pch, '-include', 'tvpch.hpp', '-c', s, '-o', s[:-4] + '.o'], timeout=1800)
    log = o
    rc, po = cc(srcs[0])
    bad = bool(rc)
    if bad:
        log += '\n' + po
    else:
        with concurrent.futures.ThreadPoolExecutor(max_workers=2) as ex:
            for rc, po in ex.map(cc, srcs[1:]):
                if rc:
                    bad = True
                    log += '\n' + po
    if bad:
        return done('cxx-error', ('\n'.join(l for l in log.split('\n') if 'error' in l)[:3000] or log).replace(tmp + '/', ''))
    with _GXX:
        rc, lo = vlib.sh(['g++'] + vlib.SAN[san] + ['-o', os.path.join(tmp, 'f8cdump'), dobj] + objs + [lib] + vlib.POCO, timeout=600)
    if rc:
        return done('link-error', lo)
    for ob in objs:
        os.unlink(ob)
    return done('ok', o)


def compile_many(items, san='asan'):
    """items: list of (xml_text, kwargs) -> list of results, at most JOBS/3 schemas at a time (3 translation units each)"""
    vlib.ensure_f8c(); vlib.ensure_lib(san); dumper_obj(san); pch_dir(san)
    _gc_schemas()
    with concurrent.futures.ThreadPoolExecutor(max_workers=3) as ex:
        return list(ex.map(lambda it: compile_xml(it[0], san=san, **it[1]), items))


def run_env():
    """the sanitizer environment of the harness runs + one UBSan suppression: MessageBase::has_group_count (message.hpp:1005)
    reads every group count field through a static_cast to Field<int,0> (a different class with the same layout); the vptr
    check reports that cast on every group, which is the library's documented trick and not what this check is about"""
    sup = os.path.join(vlib.CACHE, 'ubsan_f8cdump.supp')
    vlib.write_if_changed(sup, 'vptr:message.hpp\nvptr:message.cpp\n')
    env = dict(vlib.ENV_RUN)
    env['UBSAN_OPTIONS'] = env.get('UBSAN_OPTIONS', '') + ':suppressions=' + sup
    return env


def run_stream(res, lines):
    return vlib.run_harness(res['exe'], lines, env=run_env())


def run_dump(res):
    rc, o = vlib.sh([res['exe'], 'dump'], env=run_env(), timeout=300)
    if rc:
        return None, vlib.classify_abort(o, rc) + ' ' + o[-500:]
    return [l for l in o.split('\n') if l], None


# ------------------------------------------------------------------------------------------------
# dump parsing

def parse_traits(s):
    """'tag,ft,pos,comp,flags{...};...' -> list of dict(tag, ft, pos, comp, flags, sub=None|list|'?')"""
    pos = 0

    def traits():
        nonlocal pos
        out = []
        if pos >= len(s) or s[pos] == '}':
            return out
        while True:
            m = re.compile(r'(\d+),(\d+),(\d+),(\d+),(\d+)').match(s, pos)
            if not m:
                raise ValueError('bad traits at %d: %s' % (pos, s[pos:pos + 40]))
            t = dict(tag=int(m.group(1)), ft=int(m.group(2)), pos=int(m.group(3)), comp=int(m.group(4)), flags=int(m.group(5)), sub=None)
            pos = m.end()
            if pos < len(s) and s[pos] == '{':
                pos += 1
                if s.startswith('?', pos) or s.startswith('deep', pos):
                    t['sub'] = '?'
                    pos = s.index('}', pos)
                else:
                    t['sub'] = traits()
                if s[pos] != '}':
                    raise ValueError('unbalanced')
                pos += 1
            out.append(t)
            if pos < len(s) and s[pos] == ';':
                pos += 1
                continue
            return out
    r = traits()
    if pos != len(s):
        raise ValueError('trailing text in traits: ' + s[pos:pos + 40])
    return r


def parse_dump(lines):
    d = dict(ver=None, bs=None, cn=[], fields={}, field_order=[], msgs={}, msg_order=[])
    for l in lines:
        w = l.split(' ')
        if w[0] == 'ver':
            d['ver'], d['bs'] = int(w[1]), unhx(w[2])
        elif w[0] == 'cn':
            d['cn'] = [unhx(x) for x in w[1:]]
        elif w[0] == 'fld':
            f = dict(num=int(w[1]), name=unhx(w[2]), realm=None)
            if len(w) > 3:
                f['realm'] = dict(kind=w[3], ft=int(w[4]), n=int(w[5]), vals=[tuple(x.split(':')) for x in w[6:]])
            d['fields'][f['num']] = f
            d['field_order'].append(f['num'])
        elif w[0] == 'msg':
            key = unhx(w[1])
            d['msgs'][key] = dict(key=key, name=unhx(w[2]), admin=w[3] == '1', traits=parse_traits(w[4] if len(w) > 4 else ''))
            d['msg_order'].append(key)
    return d


# ------------------------------------------------------------------------------------------------
# the specification: what the metadata must say about the schema (written against the schema, not against the compiler)

def type_no(facts, ty):
    return dict(facts['types']).get(ty.upper())


def cls_of(facts, ft):
    n, a = facts['names'], facts['alias']
    if n['ft_int'] <= ft <= a['ft_end_int']:
        return 'int'
    if n['ft_char'] <= ft <= a['ft_end_char']:
        return 'char'
    if n['ft_float'] <= ft <= a['ft_end_float']:
        return 'float'
    if n['ft_string'] <= ft <= a['ft_end_string']:
        return 'string'
    return None


def comp_required(s):
    return s.lower() in ('true', 'yes', 'y') or s == '1'


def expand(S, body, required=True, comp='', seen=()):
    """components flattened; each entry carries the effective `required` (own attribute is 'Y' and every enclosing
    component reference is required) and the innermost component name"""
    comps = {}
    for n, b in S['comps']:
        comps.setdefault(n, b)
    out = []
    for e in body:
        if e[0] == 'f':
            out.append(dict(kind='f', name=e[1], req=(e[2] == 'Y') and required, comp=comp))
        elif e[0] == 'g':
            out.append(dict(kind='g', name=e[1], req=(e[2] == 'Y') and required, comp=comp, body=expand(S, e[3], required, '', seen)))
        else:
            if e[1] not in comps or e[1] in seen:
                raise KeyError('component ' + e[1])
            out += expand(S, comps[e[1]], required and comp_required(e[2]), e[1], seen + (e[1],))
    return out


def spec_level(S, facts, byname, cnames, exp, got, where, toplevel, problems):
    bits = facts['bits']
    special = {8: (1, 1), 9: (1, 1), 10: (1, 1), 35: (0, 1)}   # tag -> (suppress, automatic), mandatory cleared
    want = []
    for e in exp:
        f = byname.get(e['name'])
        if f is None:
            problems.append('%s: schema names unknown field %s' % (where, e['name']))
            return
        want.append((f['num'], e, f))
    wtags = [t for t, _, _ in want]
    gtags = [t['tag'] for t in got]
    if gtags != sorted(gtags) or len(set(gtags)) != len(gtags):
        problems.append('%s: trait table not strictly ordered by tag: %s' % (where, gtags))
    if sorted(wtags) != sorted(gtags):
        problems.append('%s: members are %s, the schema says %s' % (where, sorted(gtags), sorted(wtags)))
        return
    bypos = sorted(got, key=lambda t: t['pos'])
    if [t['tag'] for t in bypos] != wtags or len({t['pos'] for t in got}) != len(got):
        problems.append('%s: field order by position is %s, the schema order is %s' % (where, [t['tag'] for t in bypos], wtags))
    if toplevel and [t['pos'] for t in bypos] != list(range(1, len(got) + 1)):
        problems.append('%s: positions of a message are not 1..n: %s' % (where, [t['pos'] for t in bypos]))
    if not toplevel and bypos and bypos[0]['pos'] != 1:
        problems.append('%s: first field of the group is not at position 1' % where)
    g = {t['tag']: t for t in got}
    for tag, e, f in want:
        t = g[tag]
        fl = t['flags']
        mand, sup, aut = (fl >> bits['mandatory']) & 1, (fl >> bits['suppress']) & 1, (fl >> bits['automatic']) & 1
        if tag in special:
            if (mand, sup, aut) != (0,) + special[tag]:
                problems.append('%s: tag %d must be automatic%s and not mandatory, flags %#x' % (where, tag, '+suppressed' if special[tag][0] else '', fl))
        else:
            if mand != (1 if e['req'] else 0):
                problems.append('%s: tag %d mandatory=%d but the schema says required=%s' % (where, tag, mand, 'Y' if e['req'] else 'N'))
            if sup or aut:
                problems.append('%s: tag %d has suppress/automatic set' % (where, tag))
        if not (fl >> bits['position']) & 1:
            problems.append('%s: tag %d without position bit' % (where, tag))
        if ((fl >> bits['group']) & 1) != (1 if e['kind'] == 'g' else 0):
            problems.append('%s: tag %d group bit %d' % (where, tag, (fl >> bits['group']) & 1))
        if ((fl >> bits['component']) & 1) != (1 if e['comp'] else 0) or (t['comp'] != 0) != bool(e['comp']):
            problems.append('%s: tag %d component bit/index does not match component %r' % (where, tag, e['comp']))
        elif e['comp'] and (t['comp'] > len(cnames) or cnames[t['comp'] - 1] != e['comp']):
            problems.append('%s: tag %d component index %d names %r, the schema says %r' % (where, tag, t['comp'], cnames[t['comp'] - 1] if t['comp'] <= len(cnames) else None, e['comp']))
        ft = type_no(facts, f['type'])
        if e['kind'] == 'f':
            if t['ft'] != ft:
                problems.append('%s: tag %d type %d, the schema says %s=%s' % (where, tag, t['ft'], f['type'], ft))
            if t['sub'] is not None:
                problems.append('%s: tag %d is not a group but has a group definition' % (where, tag))
        else:
            if cls_of(facts, t['ft']) != 'int':
                problems.append('%s: group count %d is not of an integer type (%d)' % (where, tag, t['ft']))
            if t['sub'] is None or t['sub'] == '?':
                problems.append('%s: group %d has no generated definition' % (where, tag))
            else:
                spec_level(S, facts, byname, cnames, e['body'], t['sub'], '%s/%s' % (where, e['name']), False, problems)


def realm_expect(facts, f):
    ft = type_no(facts, f['type'])
    c = cls_of(facts, ft)
    vals = {}
    for e, d, r in f['values']:
        if c == 'int':
            k = int(e)
        elif c == 'char':
            k = ord(e[0])
        elif c == 'float':
            k = round(float(e) * 10000)
        else:
            k = e.encode('latin1')
        vals.setdefault(k, d or e)
    ks = sorted(vals)
    kind = 'range' if any(r in ('lower', 'upper') for _, _, r in f['values']) else 'set'
    return kind, ft, [((hx(k) if isinstance(k, bytes) else str(k)), hx(vals[k])) for k in ks]


def used_names(exp, acc):
    for e in exp:
        acc.add(e['name'])
        if e['kind'] == 'g':
            used_names(e['body'], acc)


def spec_oracle(S, facts, d):
    """list of discrepancies between the dumped metadata and the schema (empty = the metadata implements the schema)"""
    problems = []
    byname = {}
    for f in S['fields']:
        if type_no(facts, f['type']) is not None:
            byname.setdefault(f['name'], f)
    cnames = sorted({n for n, _ in S['comps']})
    want_ver = S['major'] * 1000 + S['minor'] * 100 + S.get('revision', 0)
    if d['ver'] != want_ver or d['bs'] != '%s.%d.%d' % (S.get('kind', 'FIX'), S['major'], S['minor']):
        problems.append('version/BeginString %s %r' % (d['ver'], d['bs']))
    if d['cn'] != cnames[:len(d['cn'])]:
        problems.append('component name table %s, the schema has %s' % (d['cn'], cnames))
    entries = [('header', 'header', False, S['header']), ('trailer', 'trailer', False, S['trailer'])] + \
              [(m['msgtype'], m['name'], m['msgcat'].lower() == 'admin', m['body']) for m in S['msgs']]
    keys = [k for k, _, _, _ in entries]
    if d['msg_order'] != sorted(keys, key=lambda k: k.encode('latin1')) or len(set(keys)) != len(keys):
        problems.append('message table keys %s, the schema has %s' % (d['msg_order'], sorted(keys)))
    used = set()
    for key, name, admin, body in entries:
        m = d['msgs'].get(key)
        if m is None:
            problems.append('message %s (%s) missing from the message table' % (name, key))
            continue
        if m['name'] != name:
            problems.append('message %s named %r' % (key, m['name']))
        if m['admin'] != admin:
            problems.append('message %s admin=%s, msgcat says %s' % (key, m['admin'], admin))
        try:
            exp = expand(S, body)
        except KeyError as e:
            problems.append('schema not expandable: %s' % e)
            continue
        used_names(exp, used)
        spec_level(S, facts, byname, cnames, exp, m['traits'], name, True, problems)
    want_fields = sorted(byname[n]['num'] for n in used if n in byname)
    if d['field_order'] != want_fields:
        problems.append('field table keys differ from the fields used by the schema: extra %s missing %s' %
                        (sorted(set(d['field_order']) - set(want_fields))[:8], sorted(set(want_fields) - set(d['field_order']))[:8]))
    for n in used:
        f = byname.get(n)
        if f is None or f['num'] not in d['fields']:
            continue
        g = d['fields'][f['num']]
        if g['name'] != f['name']:
            problems.append('field %d named %r, the schema says %r' % (f['num'], g['name'], f['name']))
        if bool(f['values']) != (g['realm'] is not None):
            problems.append('field %d: enumerated domain %s' % (f['num'], 'missing' if f['values'] else 'unexpected'))
        elif f['values']:
            kind, ft, vals = realm_expect(facts, f)
            r = g['realm']
            if (r['kind'], r['ft'], r['n']) != (kind, ft, len(vals)) or [tuple(v) for v in r['vals']] != vals:
                problems.append('field %d: domain is %s/%d/%s, the schema says %s/%d/%s' % (f['num'], r['kind'], r['ft'], r['vals'][:6], kind, ft, vals[:6]))
    return problems


# ------------------------------------------------------------------------------------------------
# messages through the generated codec

SAMPLE = {   # values whose printed form equals the text they were parsed from
    'int': ['7', '42', '0', '123456'], 'char': ['x', 'A', '3'], 'float': ['1.5', '12.25', '0.75'], 'string': ['abc', 'X1', 'hello'],
}
BYTYPE = {
    'BOOLEAN': ['Y', 'N'], 'MONTHYEAR': ['202401', '199912'], 'UTCTIMESTAMP': ['20240102-03:04:05.678'], 'UTCTIME': ['03:04:05.678'], 'UTCTIMEONLY': ['03:04:05.678'],
    'UTCDATE': ['20240102'], 'UTCDATEONLY': ['20240102'], 'LOCALMKTDATE': ['20231231'], 'TZTIMEONLY': ['03:04:05Z'], 'TZTIMESTAMP': ['20240102-03:04:05Z'],
    'DAYOFMONTH': ['17'], 'NUMINGROUP': ['2'], 'SEQNUM': ['9'], 'TAGNUM': ['55'], 'COUNTRY': ['DE'], 'CURRENCY': ['EUR'], 'EXCHANGE': ['XETR'], 'LANGUAGE': ['en'],
    'MULTIPLEVALUECHAR': ['a b'], 'MULTIPLECHARVALUE': ['a b'], 'MULTIPLESTRINGVALUE': ['ab cd'], 'MULTIPLEVALUESTRING': ['ab cd'],
}
NO_RT_TYPES = ('LENGTH', 'DATA', 'XMLDATA', 'TZTIMEONLY', 'TZTIMESTAMP')     # Length/data pairing is the subject of C06; the TZ types are a known finding (corpus)


def value_for(rng, facts, f):
    ty = f['type'].upper()
    if ty in BYTYPE:
        return rng.choice(BYTYPE[ty])
    c = cls_of(facts, type_no(facts, ty))
    if f['values'] and c in ('int', 'char', 'string') and rng.random() < 0.7:
        v = rng.choice(f['values'])[0]          # a member of the enumerated domain (the codec does not enforce domains)
        if v and (c != 'char' or len(v) == 1) and (c != 'int' or re.fullmatch(r'-?\d+', v)):   # stock FIX4.4 lists '10', '99' for CHAR fields
            return v
    return rng.choice(SAMPLE[c])


def gen_tree(rng, S, facts, byname, exp, full, depth=0):
    """a message tree over the expanded body: list of (tag, value) / (tag, [elements])"""
    out = []
    for i, e in enumerate(exp):
        f = byname[e['name']]
        if f['num'] in RESERVED:
            continue
        if e['kind'] == 'f':
            if f['type'].upper() in NO_RT_TYPES:
                continue
            if not (full or e['req'] or (depth > 0 and i == 0) or rng.random() < 0.5):
                continue
            out.append((f['num'], value_for(rng, facts, f)))
        else:
            if not (full or e['req'] or rng.random() < 0.6):
                continue
            n = rng.randrange(1, 3 if depth else 4)
            out.append((f['num'], [gen_tree(rng, S, facts, byname, e['body'], full, depth + 1) for _ in range(n)]))
    return out


def tree_text(tree, rng=None):
    items = list(tree)
    if rng:
        rng.shuffle(items)
    if not items:
        return '-'
    o = []
    for tag, v in items:
        if isinstance(v, list):
            o.append('%d[%s]' % (tag, '/'.join(tree_text(el, rng) for el in v)))
        else:
            o.append('%d=%s' % (tag, hx(v)))
    return ','.join(o)


def tree_tokens(tree):
    o = []
    for tag, v in tree:
        if isinstance(v, list):
            o.append((tag, str(len(v))))
            for el in v:
                o += tree_tokens(el)
        else:
            o.append((tag, v))
    return o


def rt_oracle(tree, out, hdr_tags=(8, 9, 35, 49, 56, 34, 52)):
    """the codec round trip, stated on the harness output: the decoded tree is the tree that was built (schema order),
    the wire carries exactly its tokens in schema order, re-encoding reproduces the wire"""
    if not out.startswith('wire='):
        return 'codec failed: ' + (out[:20] + ':' + unhx(out.split(':')[-1]) if out.startswith('throw:') else out[:200])
    w = dict(x.split('=', 1) for x in out.split(' '))
    if w['dec'] != tree_text(tree):
        return 'decoded %s, built %s' % (w['dec'][:300], tree_text(tree)[:300])
    toks = [t.split('=', 1) for t in bytes.fromhex(w['wire']).decode('latin1').split('\x01') if t]
    body = [(int(a), b) for a, b in toks if int(a) not in hdr_tags and int(a) != 10]
    if body != tree_tokens(tree):
        return 'wire body %s, expected %s' % (body[:40], tree_tokens(tree)[:40])
    if w['re'] != '1':
        return 're-encoding the decoded message gives different bytes'
    return None


def messages_for(rng, S, facts, per_msg=2):
    byname = {}
    for f in S['fields']:
        if type_no(facts, f['type']) is not None:
            byname.setdefault(f['name'], f)
    out = []
    for m in S['msgs']:
        try:
            exp = expand(S, m['body'])
        except KeyError:
            continue
        for k in range(per_msg):
            tree = gen_tree(rng, S, facts, byname, exp, full=(k == 0))
            out.append((m, tree, 'rt %s %s' % (hx(m['msgtype']), tree_text(tree, rng))))
    return out


# ------------------------------------------------------------------------------------------------
# generator families

ALL_TYPES = ["INT", "LENGTH", "TAGNUM", "SEQNUM", "NUMINGROUP", "DAYOFMONTH", "FLOAT", "QTY", "QUANTITY", "PRICE", "PRICEOFFSET", "AMT", "PERCENTAGE",
             "CHAR", "BOOLEAN", "STRING", "MULTIPLEVALUECHAR", "MULTIPLECHARVALUE", "MULTIPLESTRINGVALUE", "MULTIPLEVALUESTRING", "COUNTRY", "CURRENCY",
             "EXCHANGE", "MONTHYEAR", "UTCTIMESTAMP", "UTCTIME", "UTCTIMEONLY", "UTCDATE", "UTCDATEONLY", "LOCALMKTDATE", "TZTIMEONLY", "TZTIMESTAMP",
             "XMLDATA", "DATA", "LANGUAGE", "RESERVED100PLUS", "RESERVED1000PLUS", "RESERVED4000PLUS"]
PLAIN_TYPES = ["INT", "STRING", "CHAR", "PRICE", "QTY", "BOOLEAN", "UTCTIMESTAMP", "CURRENCY", "SEQNUM", "FLOAT", "MONTHYEAR", "LOCALMKTDATE", "AMT", "EXCHANGE"]


class Builder:
    def __init__(self, rng, fam, major=4, minor=4, hi_tags=True):
        self.rng, self.fam = rng, fam
        self.fields = []
        self.by = {}
        self.comps = []
        self.msgs = []
        self.taken = set(RESERVED)
        self.hi = hi_tags
        self.major, self.minor = major, minor
        for n, t, ty in HDR + TRL:
            if n != 'MsgType':
                self.fields.append(dict(num=t, name=n, type=ty, values=[]))

    def tag(self, lo=1, hi=None):
        hi = hi or (65535 if self.hi and self.rng.random() < 0.2 else 9999 if self.rng.random() < 0.4 else 999)
        for _ in range(10000):
            t = self.rng.randrange(lo, hi + 1)
            if t not in self.taken:
                self.taken.add(t)
                return t
        raise RuntimeError('tag space exhausted')

    def field(self, ty=None, realm=None, tag=None, name=None):
        rng = self.rng
        ty = ty or rng.choice(PLAIN_TYPES)
        if tag is None:
            tag = self.tag()
        else:
            self.taken.add(tag)
        name = name or 'F%d' % tag
        vals = []
        if realm is None:
            realm = rng.choice(['', '', 'set', 'set', 'range']) if ty not in ('UTCTIMESTAMP', 'BOOLEAN') else ''
        if realm:
            vals = realm_values(rng, ty, realm)
        f = dict(num=tag, name=name, type=ty, values=vals)
        self.fields.append(f)
        self.by[name] = f
        return name

    def count(self, tag=None):
        tag = tag if tag is not None else self.tag()
        self.taken.add(tag)
        name = 'No%d' % tag
        f = dict(num=tag, name=name, type=self.rng.choice(['NUMINGROUP', 'NUMINGROUP', 'INT']), values=[])
        self.fields.append(f)
        self.by[name] = f
        return name

    def msg(self, body, cat=None):
        i = len(self.msgs)
        mt = (chr(65 + i) if i < 26 else chr(65 + i // 26 - 1) + chr(65 + i % 26))
        if self.rng.random() < 0.15 and i < 26:
            mt = mt + self.rng.choice('ab1')
        self.msgs.append(dict(name='M%d' % i, msgtype=mt, msgcat=cat or self.rng.choice(['app', 'app', 'admin', 'Admin'] if self.rng.random() < 0.3 else ['app', 'admin']), body=body))

    def schema(self, note=''):
        f35 = dict(num=35, name='MsgType', type='STRING', values=[(m['msgtype'], m['name'].upper(), '') for m in self.msgs])
        nort = {f['name'] for f in self.fields if f['type'].upper() in NO_RT_TYPES}

        def relax(body):      # Length/data fields are never populated by the round trips: keep them optional
            return [(e[0], e[1], 'N') if e[0] == 'f' and e[1] in nort else (e[0], e[1], e[2], relax(e[3])) if e[0] == 'g' else e for e in body]
        self.msgs = [dict(m, body=relax(m['body'])) for m in self.msgs]
        self.comps = [(n, relax(bd)) for n, bd in self.comps]
        fields = [f35] + self.fields
        self.rng.shuffle(fields)
        return dict(kind='FIX', major=self.major, minor=self.minor, revision=0, fields=fields, comps=list(self.comps),
                    header=[('f', n, 'Y') for n, _, _ in HDR], trailer=[('f', n, 'Y') for n, _, _ in TRL], msgs=self.msgs, fam=self.fam, note=note)


def realm_values(rng, ty, kind):
    facts_cls = {'CHAR': 'char', 'BOOLEAN': 'char'}
    ints = ('INT', 'LENGTH', 'TAGNUM', 'SEQNUM', 'NUMINGROUP', 'DAYOFMONTH')
    floats = ('FLOAT', 'QTY', 'QUANTITY', 'PRICE', 'PRICEOFFSET', 'AMT', 'PERCENTAGE')
    n = 2 if kind == 'range' else rng.randrange(1, 7)
    seen, vals = set(), []
    for i in range(n * 3):
        if len(vals) >= n:
            break
        if ty in ints:
            v = str(rng.choice([rng.randrange(0, 20), rng.randrange(0, 100000), -rng.randrange(1, 50)]))
            k = int(v)
        elif ty in floats:
            v = rng.choice(['%d' % rng.randrange(0, 300), '%d.%d' % (rng.randrange(0, 50), rng.randrange(0, 10)), '%d.%02d' % (rng.randrange(0, 9), rng.randrange(0, 100)), '-%d.5' % rng.randrange(1, 9)])
            k = round(float(v) * 10000)
        elif ty in facts_cls:
            v = rng.choice('ABCDEFGHJKYNabcxyz0123456789')
            k = v
        else:
            v = ''.join(rng.choice('ABCDEFGHIJKLMNOPQRSTUVWXYZabcdef0123456789') for _ in range(rng.randrange(1, 5)))
            k = v
        if k in seen:
            continue
        seen.add(k)
        vals.append([v, k])
    vals = vals[:n]
    if kind == 'range':
        if len(vals) < 2:
            return []
        lo, hi = sorted(vals, key=lambda x: x[1])
        out = [(hi[0], 'UP', 'upper'), (lo[0], 'LO', 'lower')]
        rng.shuffle(out)
        return out
    out = []
    for i, (v, k) in enumerate(vals):
        d = rng.choice(['', 'D%d' % i, 'VAL %d' % i, 'v-%d/x' % i])
        out.append((v, d, ''))
    # descriptions become C++ identifiers (other characters -> '_'): keep them distinct per field
    ids = set()
    for j, (v, d, r) in enumerate(out):
        ident = re.sub(r'[^A-Za-z0-9_]', '_', d or v)
        if ident in ids or not ident:
            out[j] = (v, 'U%d' % j, r)
            ident = 'U%d' % j
        ids.add(ident)
    return out


def req(rng):
    return rng.choice(['Y', 'N'])


def fam_types(rng, with_bad=False, lite=False):
    """every supported field type x {no domain, set, range}; lite: every type once, with a rotating kind of domain"""
    b = Builder(rng, 'types', hi_tags=False)
    body = []
    for k, ty in enumerate(ALL_TYPES + (list(UNCOMPILABLE) if with_bad else [])):
        for realm in (('', 'set', 'range') if not lite else (('', 'set', 'range')[(k + rng.randrange(3)) % 3],)):
            if realm and ty in ('BOOLEAN',) and realm == 'range':
                continue
            body.append(('f', b.field(ty, realm), 'N'))
    rng.shuffle(body)
    half = len(body) // 2
    b.msg(body[:half], 'app')
    b.msg(body[half:], 'admin')
    # enumerated fields that NO message, component, header or trailer uses (the shipped FIX44 keeps ExecTransType(20), Rule80A(47) like that),
    # with numbers below and between those of used enumerated fields: the used ones must still get their own domains (missed seed C13-4)
    used_enum = sorted(b.by[e[1]]['num'] for e in body if b.by[e[1]]['values'])
    if used_enum:
        lows = [t for t in range(11, used_enum[-1]) if t not in b.taken]
        for t in rng.sample(lows, min(3, len(lows))):
            b.field(rng.choice(['INT', 'CHAR', 'STRING']), 'set', tag=t, name='Unused%d' % t)
    return b.schema(('every field type, one domain kind each' if lite else 'all field types x domains') + (' incl. PATTERN/TENOR' if with_bad else ''))


def gen_group(b, rng, depth, maxdepth, pool_types=PLAIN_TYPES, nfields=None):
    """a group element definition with fresh fields; nested to `maxdepth`"""
    body = [('f', b.field(rng.choice(pool_types), ''), req(rng))]
    for _ in range(nfields if nfields is not None else rng.randrange(0, 4)):
        body.append(('f', b.field(rng.choice(pool_types)), req(rng)))
    if depth < maxdepth:
        for _ in range(1 if depth + 1 < maxdepth or rng.random() < 0.7 else 2):
            body.insert(rng.randrange(1, len(body) + 1), ('g', b.count(), req(rng), gen_group(b, rng, depth + 1, maxdepth, pool_types)))
    return body


def fam_groups(rng, maxdepth=None, b=None):
    """groups nested 0..4, several groups per message, the same group definition reused by a second message"""
    multi = b is not None
    b = b or Builder(rng, 'groups')
    maxdepth = maxdepth if maxdepth is not None else rng.randrange(1, 5)
    shared = ('g', b.count(), req(rng), gen_group(b, rng, 1, maxdepth)) if maxdepth else ('g', '-', 'N', [])
    for i in range(rng.randrange(2, 4)):
        body = [('f', b.field(), req(rng)) for _ in range(rng.randrange(1, 4))]
        if i < 2 and maxdepth:
            body.insert(rng.randrange(0, len(body) + 1), (shared[0], shared[1], req(rng), shared[3]))
        for _ in range(rng.randrange(0, 2) if maxdepth else 0):
            body.insert(rng.randrange(0, len(body) + 1), ('g', b.count(), req(rng), gen_group(b, rng, 1, rng.randrange(1, 3))))
        b.msg(body)
    b.notes = getattr(b, 'notes', []) + ['group nesting depth %d, shared group %s' % (maxdepth, shared[1])]
    return None if multi else b.schema(b.notes[-1])


def fam_components(rng, nest=None, b=None):
    """components nested 0..3 (inside messages and inside groups), required / optional at every level, shared by messages"""
    multi = b is not None
    b = b or Builder(rng, 'components')
    nest = nest if nest is not None else rng.randrange(0, 4)

    def comp(level):
        name = 'C%d' % len(b.comps)
        b.comps.append((name, None))
        idx = len(b.comps) - 1
        body = [('f', b.field(), req(rng)) for _ in range(rng.randrange(1, 4))]
        if rng.random() < 0.5:
            body.insert(rng.randrange(0, len(body) + 1), ('g', b.count(), req(rng), gen_group(b, rng, 1, 1)))
        if level < nest:
            body.insert(rng.randrange(0, len(body) + 1), ('c', comp(level + 1), rng.choice(['Y', 'Y', 'N'])))
        b.comps[idx] = (name, body)
        return name
    top = [comp(1) for _ in range(rng.randrange(1, 3))] if nest > 0 else []
    for i in range(rng.randrange(2, 4)):
        body = [('f', b.field(), req(rng)) for _ in range(rng.randrange(1, 4))]
        for c in top:
            if rng.random() < 0.8:
                # an optional reference with a required inner reference at message level is the known depth-3 class: kept for the corpus
                body.insert(rng.randrange(0, len(body) + 1), ('c', c, 'Y'))
        if top and rng.random() < 0.6:
            c2 = comp(nest)   # a leaf component inside a group
            g = gen_group(b, rng, 1, 1)
            g.append(('c', c2, rng.choice(['Y', 'N', 'y'])))
            body.append(('g', b.count(), req(rng), g))
        b.msg(body)
    rng.shuffle(b.comps)
    b.notes = getattr(b, 'notes', []) + ['component nesting %d' % nest]
    return None if multi else b.schema(b.notes[-1])


def fam_component_twice(rng):
    """one message references the same component more than once: in two sibling groups (the Parties pattern of the FIX schemas), and through
    two different enclosing components; the expansions are independent, every group gets the component's fields (missed seed C13-2)"""
    b = Builder(rng, 'component-twice')
    leaf = 'Party%d' % rng.randrange(10)
    b.comps.append((leaf, [('f', b.field(), 'Y')] + [('f', b.field(), req(rng)) for _ in range(rng.randrange(0, 3))]))
    g1 = [('f', b.field(), 'Y'), ('c', leaf, rng.choice(['Y', 'N']))]
    g2 = [('f', b.field(), 'Y'), ('c', leaf, rng.choice(['Y', 'N']))]
    b.msg([('f', b.field(), 'Y'), ('g', b.count(), req(rng), g1), ('f', b.field(), req(rng)), ('g', b.count(), req(rng), g2)])
    # the same leaf below two different wrappers, each wrapper holding it inside its own group
    w = []
    for i in range(2):
        name = 'Wrap%d' % i
        b.comps.append((name, [('f', b.field(), req(rng)), ('g', b.count(), 'N', [('f', b.field(), 'Y'), ('c', leaf, 'Y')])]))
        w.append(name)
    b.msg([('f', b.field(), 'Y'), ('c', w[0], 'Y'), ('c', w[1], rng.choice(['Y', 'N']))])
    # and an ordinary single use
    b.msg([('f', b.field(), 'Y'), ('g', b.count(), 'N', [('f', b.field(), 'Y'), ('c', leaf, 'N')])])
    rng.shuffle(b.comps)
    return b.schema('component %s used twice in one message' % leaf)


def fam_structured(rng):
    """one schema with the deepest structures: groups nested to 4, components nested to 3, shared definitions"""
    b = Builder(rng, 'structured')
    fam_groups(rng, 4, b)
    fam_components(rng, 3, b)
    fam_groups(rng, rng.randrange(1, 4), b)
    return b.schema(' + '.join(b.notes))


def fam_random(rng):
    b = Builder(rng, 'random')
    ncomp = rng.randrange(0, 3)
    cnames = []
    for i in range(ncomp):
        name = rng.choice(['Instr', 'Parties', 'Z', 'a']) + str(i)
        body = [('f', b.field(), req(rng)) for _ in range(rng.randrange(1, 3))]
        if rng.random() < 0.4:
            body.append(('g', b.count(), req(rng), gen_group(b, rng, 1, rng.randrange(1, 3))))
        b.comps.append((name, body))
        cnames.append(name)
    shared = [('g', b.count(), 'N', gen_group(b, rng, 1, rng.randrange(1, 3))) for _ in range(rng.randrange(0, 3))]
    for i in range(rng.randrange(1, 5)):
        body = [('f', b.field(rng.choice(ALL_TYPES if rng.random() < 0.3 else PLAIN_TYPES)), req(rng)) for _ in range(rng.randrange(0, 6))]
        for c in cnames:
            if rng.random() < 0.5:
                body.insert(rng.randrange(0, len(body) + 1), ('c', c, rng.choice(['Y', 'N'])))
        for s in shared:
            if rng.random() < 0.6:
                body.insert(rng.randrange(0, len(body) + 1), (s[0], s[1], req(rng), s[3]))
        if rng.random() < 0.5:
            body.insert(rng.randrange(0, len(body) + 1), ('g', b.count(), req(rng), gen_group(b, rng, 1, rng.randrange(1, 4))))
        if not body:
            body = [('f', b.field(), 'Y')]
        b.msg(body)
    return b.schema('random')


def schema_stats(S):
    st = dict(fam=S.get('fam'), msgs=len(S['msgs']), fields=len(S['fields']), comps=len(S['comps']), maxtag=max(f['num'] for f in S['fields']), depth=0, groups=0,
              types=sorted({f['type'] for f in S['fields']}), domains=sum(1 for f in S['fields'] if f['values']))

    def walk(body, d):
        for e in body:
            if e[0] == 'g':
                st['groups'] += 1
                st['depth'] = max(st['depth'], d + 1)
                walk(e[3], d + 1)
    for m in S['msgs']:
        walk(m['body'], 0)
    for _, b in S['comps']:
        walk(b or [], 0)
    return st


# ------------------------------------------------------------------------------------------------
# C14 families: one count field, two (or more) messages, definitions that are identical / different / colliding

def partner(xs, ys, x):
    """the colliding last tag computed by the Lean driver from the proved formula (Props.C14.C14_key_collision_any)"""
    fmt = lambda l: ','.join(map(str, l)) or '-'
    return int(vlib.run_driver('f8c', ['partner %d %s %s' % (x, fmt(xs), fmt(ys))])[0])


def _reuse(rng, fam, defs, note, extra_fields=(), cats=None):  # noqa
    """defs: list of group bodies over already declared field names; one message per definition, same count field"""
    b = defs['b']
    cnt = defs['count']
    for i, body in enumerate(defs['bodies']):
        mb = [('f', b.field('STRING', ''), 'N')]
        mb.insert(rng.randrange(0, 2), ('g', cnt, defs.get('greq', ['N'] * 9)[i], body))
        b.msg(mb, 'app')
    b.notes = getattr(b, 'notes', []) + [fam + ': ' + note]
    if getattr(b, 'multi', False):
        return None
    S = b.schema(note)
    S['fam'] = fam
    return S


def fam_reuse_multi(rng, fams=None):
    """several valid reuse families in ONE schema (separate count fields): the compile cost of a schema is dominated by the library headers"""
    b = Builder(rng, 'reuse-multi')
    b.multi = True
    for fam in (fams or VALID_REUSE):
        fam(rng, b)
    S = b.schema(' + '.join(b.notes))
    return S


def fam_reuse_identical(rng, b=None):
    b = b or Builder(rng, 'reuse-identical')
    body = gen_group(b, rng, 1, rng.randrange(1, 3))
    return _reuse(rng, 'reuse-identical', dict(b=b, count=b.count(), bodies=[body, list(body), list(body)]), 'same definition in three messages')


def fam_reuse_distinct(rng, b=None):
    b = b or Builder(rng, 'reuse-distinct')
    n = rng.randrange(2, 4)
    return _reuse(rng, 'reuse-distinct', dict(b=b, count=b.count(), bodies=[gen_group(b, rng, 1, rng.randrange(1, 3)) for _ in range(n)]),
                  '%d unrelated definitions of one count field' % n)


def fam_reuse_overlap(rng, b=None):
    """definitions that share most members (differ by one member / one extra member / one nested group)"""
    b = b or Builder(rng, 'reuse-overlap')
    base = gen_group(b, rng, 1, 1, nfields=rng.randrange(1, 4))
    v1 = list(base) + [('f', b.field(), req(rng))]
    v2 = list(base[:-1]) + [('f', b.field(), base[-1][2])] if len(base) > 1 else list(base) + [('f', b.field(), 'N')]
    v3 = list(base) + [('g', b.count(), 'N', gen_group(b, rng, 2, 2))]
    bodies = [base, v1, v2, v3]
    rng.shuffle(bodies)
    return _reuse(rng, 'reuse-overlap', dict(b=b, count=b.count(), bodies=bodies), 'definitions differing in one member')


def fam_reuse_nested_only(rng, b=None):
    """same direct members (including the nested count field), different definitions of the nested group"""
    b = b or Builder(rng, 'reuse-nested-only')
    f1, f2 = b.field('INT', ''), b.field('STRING', '')
    inner = b.count()
    n1 = gen_group(b, rng, 2, 2, nfields=1)
    n2 = gen_group(b, rng, 2, 2, nfields=2)
    r1, r2 = req(rng), req(rng)
    bodies = [[('f', f1, 'Y'), ('f', f2, r1), ('g', inner, r2, n1)], [('f', f1, 'Y'), ('f', f2, r1), ('g', inner, r2, n2)]]
    return _reuse(rng, 'reuse-nested-only', dict(b=b, count=b.count(), bodies=bodies), 'only the nested group differs')


def fam_reuse_boundary(rng, b=None):
    """same tags overall, a member moved from one nested group to its sibling"""
    b = b or Builder(rng, 'reuse-boundary')
    f0 = b.field('INT', '')
    tags = sorted(b.tag(lo=100, hi=9000) for _ in range(5))
    n, p = b.count(tags[0]), b.count(tags[1])
    x, y, z = [b.field('STRING', '', tag=t) for t in tags[2:]]
    d1 = [('f', f0, 'Y'), ('g', n, 'N', [('f', x, 'Y')]), ('g', p, 'N', [('f', y, 'Y'), ('f', z, 'N')])]
    d2 = [('f', f0, 'Y'), ('g', n, 'N', [('f', x, 'Y'), ('f', y, 'N')]), ('g', p, 'N', [('f', z, 'Y')])]
    return _reuse(rng, 'reuse-boundary', dict(b=b, count=b.count(), bodies=[d1, d2]), 'member %s moves between sibling nested groups' % y)


def fam_reuse_order(rng, b=None):
    """same members, different order (equal structural hash: formerly the known class group-hash-collision)"""
    b = b or Builder(rng, 'reuse-order')
    fs = [b.field(rng.choice(['INT', 'STRING', 'CHAR']), '') for _ in range(rng.randrange(2, 5))]
    d1 = [('f', f, 'Y' if i == 0 else req(rng)) for i, f in enumerate(fs)]
    d2 = list(d1)
    while d2 == d1:
        rng.shuffle(d2)
    return _reuse(rng, 'reuse-order', dict(b=b, count=b.count(), bodies=[d1, d2]), 'order-only difference')


def fam_reuse_flag(rng, b=None):
    """same members and order, one mandatory flag differs (equal structural hash)"""
    b = b or Builder(rng, 'reuse-flag')
    fs = [b.field(rng.choice(['INT', 'STRING', 'CHAR']), '') for _ in range(rng.randrange(2, 5))]
    d1 = [('f', f, 'Y') for f in fs]
    k = rng.randrange(1, len(fs))
    d2 = [(e[0], e[1], 'N') if i == k else e for i, e in enumerate(d1)]
    bodies = [d1, d2] if rng.random() < 0.5 else [d2, d1]
    return _reuse(rng, 'reuse-flag', dict(b=b, count=b.count(), bodies=bodies), 'mandatory flag of %s differs' % fs[k])


def fam_reuse_component(rng, b=None):
    """same members, in one message they come from a component (component index differs; equal structural hash)"""
    b = b or Builder(rng, 'reuse-component')
    fs = [b.field(rng.choice(['INT', 'STRING']), '') for _ in range(2)]
    b.comps.append(('Blk', [('f', fs[1], 'N')]))
    d1 = [('f', fs[0], 'Y'), ('f', fs[1], 'N')]
    d2 = [('f', fs[0], 'Y'), ('c', 'Blk', 'Y')]
    return _reuse(rng, 'reuse-component', dict(b=b, count=b.count(), bodies=[d1, d2]), 'member %s from a component in the second message' % fs[1])


def fam_reuse_collision(rng, fixed=None):
    """different member sets with the same structural hash, manufactured with the proved partner formula"""
    for _ in range(200):
        if fixed:
            xs, ys, x = fixed
        else:
            k = rng.randrange(1, 3)
            xs = sorted(rng.sample(range(11, 400), k))
            ys = sorted({t ^ rng.randrange(1, 8) for t in xs})
            x = rng.randrange(max(xs) + 1, 3000)
        y = partner(xs, ys, x)
        tags = xs + [x] + ys + [y]
        if len(ys) == len(xs) and len(set(tags)) == len(tags) and max(ys) < y < 65536 and not (set(tags) & RESERVED) and min(tags) > 0:
            break
        if fixed:
            raise RuntimeError('fixed collision not usable')
    else:
        raise RuntimeError('no collision found')
    b = Builder(rng, 'reuse-collision')
    n1 = [b.field(rng.choice(['INT', 'STRING', 'CHAR', 'PRICE']), '', tag=t) for t in xs + [x]]
    n2 = [b.field(rng.choice(['INT', 'STRING', 'CHAR', 'PRICE']), '', tag=t) for t in ys + [y]]
    d1 = [('f', f, 'Y' if i == 0 else req(rng)) for i, f in enumerate(n1)]
    d2 = [('f', f, 'Y' if i == 0 else req(rng)) for i, f in enumerate(n2)]
    bodies = [d1, d2] if fixed or rng.random() < 0.5 else [d2, d1]
    return _reuse(rng, 'reuse-collision', dict(b=b, count=b.count(300 if fixed else None), bodies=bodies), 'members %s and %s collide' % (xs + [x], ys + [y]))


def fam_reuse_prefix_collision(rng, fixed=None):
    """one definition is a proper prefix (in tag order) of the other AND both have the same structural hash: the two extra tags are
    manufactured with the proved partner formula (hash(P) = hash(P ++ [a, y])); the short definition comes first in half of the schemas"""
    def _rot(h, v):      # search heuristic only (rothash as in include/fix8/f8utils.hpp); the candidate is confirmed by the proved formula below
        return (h ^ (h >> 2) ^ (h << 5) ^ (h << 13) ^ v ^ 0x80001801) & 0xffffffff
    cand = None
    if fixed:
        cand = fixed
    else:
        for _ in range(3000000):
            P = sorted(rng.sample(range(11, 400), rng.randrange(1, 4)))
            a = rng.randrange(max(P) + 1, 3000)
            h = 0
            for t in P:
                h = _rot(h, t)
            # hash(P ++ [a, y]) = hash(P)  <=>  y = rot(rot(h, a), 0) ^ h
            y = _rot(_rot(h, a), 0) ^ h
            if a < y < 65536 and not ({a, y} & set(P)) and not (set(P + [a, y]) & RESERVED):
                cand = (P, a)
                break
    if cand is None:
        raise RuntimeError('no prefix collision found')
    P, a = cand
    y = partner(P[:-1], P + [a], P[-1])
    tags = P + [a, y]
    if not (a < y < 65536 and len(set(tags)) == len(tags) and not (set(tags) & RESERVED)):
        raise RuntimeError('prefix collision candidate %r not confirmed by the partner formula (y = %d)' % (cand, y))
    b = Builder(rng, 'reuse-prefix-collision')
    short = [b.field(rng.choice(['INT', 'STRING', 'CHAR', 'PRICE']), '', tag=t) for t in P]
    extra = [b.field(rng.choice(['INT', 'STRING', 'CHAR', 'PRICE']), '', tag=t) for t in (a, y)]
    d1 = [('f', f, 'Y' if i == 0 else req(rng)) for i, f in enumerate(short)]
    d2 = d1 + [('f', f, 'N') for f in extra]
    bodies = [d1, d2] if fixed or rng.random() < 0.5 else [d2, d1]
    return _reuse(rng, 'reuse-prefix-collision', dict(b=b, count=b.count(300 if fixed else None), bodies=bodies), 'members %s are a prefix of %s with the same key' % (P, tags))


def fam_reuse_nested_samekey(rng, b=None, depth=None, kind=None):
    """the outer definitions (and, at depth 3, the middle ones) are identical; only the INNERMOST nested groups differ, and only in what the
    structural key ignores (member order, a mandatory flag) or by a manufactured key collision - the comparison on a key hit has to
    descend to every level (missed seeds C13-3: nested groups compared by key only; C14-3: members compared two levels deep only)"""
    b = b or Builder(rng, 'reuse-nested-samekey')
    depth = depth or rng.choice((2, 3))
    kind = kind or rng.choice(('order', 'flag', 'collision'))
    if kind == 'collision':
        for _ in range(400):
            xs = sorted(rng.sample(range(5000, 5400), 1))
            ys = sorted({t ^ rng.randrange(1, 8) for t in xs})
            x = rng.randrange(max(xs) + 1, 9000)
            y = partner(xs, ys, x)
            tags = xs + [x] + ys + [y]
            if len(ys) == len(xs) and len(set(tags)) == len(tags) and max(ys) < y < 65536 and not (set(tags) & RESERVED):
                break
        else:
            kind = 'order'
    if kind == 'collision':
        n1 = [b.field(rng.choice(['INT', 'STRING', 'CHAR']), '', tag=t) for t in xs + [x]]
        n2 = [b.field(rng.choice(['INT', 'STRING', 'CHAR']), '', tag=t) for t in ys + [y]]
        i1 = [('f', f, 'Y' if i == 0 else 'N') for i, f in enumerate(n1)]
        i2 = [('f', f, 'Y' if i == 0 else 'N') for i, f in enumerate(n2)]
    else:
        fs = [b.field(rng.choice(['INT', 'STRING', 'CHAR']), '') for _ in range(rng.randrange(2, 4))]
        i1 = [('f', f, 'Y') for f in fs]
        if kind == 'order':
            i2 = list(reversed(i1))
        else:
            i2 = [i1[0]] + [(e[0], e[1], 'N') for e in i1[1:]]
    if rng.random() < 0.5:
        i1, i2 = i2, i1
    bodies = [i1, i2]
    for level in range(depth - 1):
        lead = b.field('INT', '')
        other = b.field('STRING', '')
        cnt = b.count()
        r = req(rng)
        bodies = [[('f', lead, 'Y'), ('f', other, r), ('g', cnt, 'N', body)] for body in bodies]
    return _reuse(rng, 'reuse-nested-samekey', dict(b=b, count=b.count(), bodies=bodies), 'depth %d, innermost groups differ by %s only' % (depth, kind))


VALID_REUSE = [fam_reuse_identical, fam_reuse_distinct, fam_reuse_overlap, fam_reuse_nested_only, fam_reuse_boundary]
# equal-key families: the fixed f8c must generate every definition separately (before the fix: known finding group-hash-collision)
KNOWN_REUSE = [fam_reuse_order, fam_reuse_flag, fam_reuse_component, fam_reuse_collision, fam_reuse_prefix_collision, fam_reuse_nested_samekey]
SAMEKEY_REUSE = KNOWN_REUSE


def _nested_d3_collision(rng, b=None):
    return fam_reuse_nested_samekey(rng, b, depth=3, kind='collision')


def _nested_d2_order(rng, b=None):
    return fam_reuse_nested_samekey(rng, b, depth=2, kind='order')


def _nested_d3_flag(rng, b=None):
    return fam_reuse_nested_samekey(rng, b, depth=3, kind='flag')


# every family that can share one schema (separate count fields): the valid ones, the equal-key ones and the nested equal-key ones
MULTI_ALL = VALID_REUSE + [fam_reuse_order, fam_reuse_flag, fam_reuse_component, _nested_d3_collision, _nested_d2_order, _nested_d3_flag]


# ------------------------------------------------------------------------------------------------
# malformed / borderline schemas (C13): the model must predict rejection or the exact tables

def fam_malformed(rng):
    b = Builder(rng, 'malformed')
    kind = rng.choice(['unknown-field', 'unknown-group', 'msgtype-not-in-domain', 'missing-component', 'dup-msgtype', 'dup-field-in-message',
                       'dup-field-in-group', 'unknown-type', 'version-low', 'field-and-group-same-tag', 'lowercase-required', 'component-twice'])
    f = [b.field() for _ in range(4)]
    body = [('f', f[0], 'Y'), ('f', f[1], 'N'), ('g', b.count(), 'Y', [('f', f[2], 'Y'), ('f', f[3], 'N')])]
    b.msg(list(body), 'app')
    b.msg([('f', f[1], 'Y')], 'admin')
    S = None
    if kind == 'unknown-field':
        b.msgs[1]['body'].append(('f', 'Nowhere', 'N'))
    elif kind == 'unknown-group':
        b.msgs[1]['body'].append(('g', 'NoNowhere', 'N', [('f', f[0], 'Y')]))
    elif kind == 'missing-component':
        b.msgs[0]['body'].insert(1, ('c', 'Absent', 'Y'))
    elif kind == 'dup-msgtype':
        b.msgs[1]['msgtype'] = b.msgs[0]['msgtype']
    elif kind == 'dup-field-in-message':
        b.msgs[0]['body'].insert(rng.randrange(1, 4), ('f', f[0], 'N'))
    elif kind == 'dup-field-in-group':
        g = b.msgs[0]['body'][2]
        b.msgs[0]['body'][2] = (g[0], g[1], g[2], [g[3][0], ('f', f[2], 'N'), g[3][1], ('f', f[3], 'Y')])
    elif kind == 'unknown-type':
        b.field('WIBBLE', '', name='Strange')       # warning only: the field does not exist for the messages
        if rng.random() < 0.5:
            b.msgs[1]['body'].append(('f', 'Strange', 'N'))
    elif kind == 'version-low':
        b.major, b.minor = 3, 9
    elif kind == 'field-and-group-same-tag':
        g = b.msgs[0]['body'][2]
        b.msgs[0]['body'].insert(rng.choice([0, 3]), ('f', g[1], 'N'))
    elif kind == 'lowercase-required':
        b.msgs[0]['body'][0] = ('f', f[0], 'y')
        b.comps.append(('Lc', [('f', b.field(), 'Y')]))
        b.msgs[1]['body'].append(('c', 'Lc', rng.choice(['y', 'yes', 'TRUE', '1', 'n', 'no', '0', 'maybe'])))
    elif kind == 'component-twice':
        b.comps.append(('Tw', [('f', b.field(), 'Y'), ('f', b.field(), 'N')]))
        b.msgs[0]['body'].insert(0, ('c', 'Tw', 'Y'))
        b.msgs[0]['body'].append(('c', 'Tw', 'N'))
    S = b.schema(kind)
    if kind == 'msgtype-not-in-domain':
        for fl in S['fields']:
            if fl['num'] == 35:
                fl['values'] = fl['values'][:1]
    return S


def fam_depth3(rng):
    """KNOWN class (C13): an optional component reference at message level whose definition references a required component"""
    b = Builder(rng, 'depth3-component')
    inner_f = b.field('STRING', '')
    outer_f = b.field('INT', '')
    b.comps.append(('Inner', [('f', inner_f, 'Y')]))
    b.comps.append(('Outer', [('f', outer_f, 'Y'), ('c', 'Inner', 'Y')]))
    b.msg([('f', b.field('STRING', ''), 'Y'), ('c', 'Outer', 'N')], 'app')
    # the same structure inside a group: there the rule "required only if every enclosing reference is required" is applied
    b.msg([('f', b.field('STRING', ''), 'Y'), ('g', b.count(), 'N', [('f', b.field('INT', ''), 'Y'), ('c', 'Outer', 'N')])], 'app')
    return b.schema('optional Outer -> required Inner -> required field')


# ------------------------------------------------------------------------------------------------
# replay files: the schema line is the concrete input

def body_from(ts, p):
    n = int(ts[p]); p += 1
    out = []
    for _ in range(n):
        k, name, r = ts[p], ts[p + 1], ts[p + 2]
        name = '' if name == '-' else name
        r = '' if r == '-' else r
        p += 3
        if k == 'g':
            b, p = body_from(ts, p)
            out.append(('g', name, r, b))
        else:
            out.append((k, name, r))
    return out, p


def from_line(line):
    ts = line.split()
    assert ts[0] == 'S'
    S = dict(kind=ts[1], major=int(ts[2]), minor=int(ts[3]), revision=int(ts[4]), fields=[], comps=[], msgs=[], fam='replay', note='')
    p = 5
    nf = int(ts[p]); p += 1
    for _ in range(nf):
        f = dict(num=int(ts[p]), name=ts[p + 1] if ts[p + 1] != '-' else '', type=ts[p + 2] if ts[p + 2] != '-' else '', values=[])
        nv = int(ts[p + 3]); p += 4
        for _ in range(nv):
            f['values'].append((unhx(ts[p]), unhx(ts[p + 1]), '' if ts[p + 2] == '-' else ts[p + 2]))
            p += 3
        S['fields'].append(f)
    nc = int(ts[p]); p += 1
    for _ in range(nc):
        name = ts[p]; p += 1
        b, p = body_from(ts, p)
        S['comps'].append((name, b))
    S['header'], p = body_from(ts, p)
    S['trailer'], p = body_from(ts, p)
    nm = int(ts[p]); p += 1
    for _ in range(nm):
        m = dict(name=ts[p], msgtype=unhx(ts[p + 1]), msgcat=ts[p + 2] if ts[p + 2] != '-' else '')
        p += 3
        m['body'], p = body_from(ts, p)
        S['msgs'].append(m)
    assert p == len(ts)
    return S


# ------------------------------------------------------------------------------------------------
# stock schemas of /repo/schema (no FIXT transport): XML -> abstract schema

def load_stock(path):
    import xml.etree.ElementTree as ET
    root = ET.parse(path).getroot()

    def body(el):
        out = []
        for c in el:
            if c.tag == 'field':
                out.append(('f', c.get('name', ''), c.get('required', '')))
            elif c.tag == 'component':
                out.append(('c', c.get('name', ''), c.get('required', '')))
            elif c.tag == 'group':
                out.append(('g', c.get('name', ''), c.get('required', ''), body(c)))
        return out
    S = dict(kind=root.get('type', 'FIX'), major=int(root.get('major')), minor=int(root.get('minor')),
             revision=int(root.get('revision', root.get('servicepack', '0'))), fields=[], comps=[], msgs=[], fam='stock', note=os.path.basename(path))
    S['header'] = body(root.find('header'))
    S['trailer'] = body(root.find('trailer'))
    for m in root.find('messages'):
        if m.tag == 'message':
            S['msgs'].append(dict(name=m.get('name'), msgtype=m.get('msgtype'), msgcat=m.get('msgcat'), body=body(m)))
    cs = root.find('components')
    for c in (cs if cs is not None else []):
        if c.tag == 'component':
            S['comps'].append((c.get('name'), body(c)))
    for f in root.find('fields'):
        if f.tag == 'field':
            # load_fields trims number, name and type (f8c.cpp:469-471; FIX43.xml has type='INT '): done here, the model gets the trimmed text
            S['fields'].append(dict(num=int(f.get('number').strip()), name=f.get('name').strip(), type=f.get('type').strip(),
                                    values=[(v.get('enum'), v.get('description', ''), v.get('range', '')) for v in f if v.tag == 'value']))
    return S


# ------------------------------------------------------------------------------------------------
# the decision procedure shared by C13 and C14

def tree_types(tree, bynum, acc):
    for tag, v in tree:
        if tag in bynum:
            acc.add(bynum[tag]['type'].upper())
        if isinstance(v, list):
            for el in v:
                tree_types(el, bynum, acc)


def parse_replay(path):
    """lines: `S ...` (a schema; `@invalid S ...` = outside the valid family) followed by optional `rt ...` lines for it"""
    cases = []
    for l in open(path):
        l = l.strip()
        if not l or l.startswith('#'):
            continue
        if l.startswith('rt ') or l.startswith('miss '):
            if cases:
                cases[-1]['rt'].append(l)
            continue
        valid = True
        label = ''
        while l.startswith('@'):
            t, l = l.split(' ', 1)
            if t == '@invalid':
                valid = False
            else:
                label = t[1:]
        S = from_line(l)
        S['fam'] = label or 'replay'
        cases.append(dict(S=S, valid=valid, rt=[], label=label))
    return cases


def case_line(c):
    return ('' if c.get('valid', True) else '@invalid ') + ('@%s ' % c['S']['fam'] if c['S'].get('fam') else '') + to_line(c['S'])


def run_tv(res, *, module, theorems, cases, per_msg=2, san='asan', what=''):
    """cases: dict(S, valid, rt=[extra rt lines])"""
    import time
    pid = res.pid
    facts = f8cfacts.facts()
    lean = vlib.lean_obligations(pid, module, theorems)
    problems = list(lean['problems'])
    if res.tier == 'thorough' and lean['ok']:
        ok, o = vlib.leanchecker(module)
        if not ok:
            problems.append('leanchecker rejected %s: %s' % (module, o[-300:]))
    res.cov.update(obligations=lean['obligations'], discharged=lean['discharged'] if not problems else min(lean['discharged'], max(0, lean['obligations'] - 1)),
                   checker_cmd='cd lean && lake build %s driver && lake env lean <#print axioms of %s>' % (module, ', '.join(theorems)) + ('; lake env leanchecker ' + module if res.tier == 'thorough' else ''),
                   trusted_base=['Lean 4.33.0 kernel', 'axioms: ' + ', '.join(sorted({a for v in lean['axioms'].values() if v for a in v}) or ['none']),
                                 'hand-written model Fix8Model.Compiler.* tied to /repo per generated schema by the f8c stream (freshly built f8c, g++, generic dumper)',
                                 'harness/f8cdump.cpp, tools/f8ctv.py (generator, XML writer, specification oracle), g++ 12 as the compiler of the generated code'],
                   theorems=theorems)
    known = {k['class']: k for k in vlib.known_findings(pid)}
    t1 = time.time()
    lines = [to_line(c['S']) for c in cases]
    model, model_err = None, None
    if os.path.exists(vlib.driver_path()):
        try:
            model = vlib.run_driver('f8c', lines)
        except vlib.BuildError as e:
            model_err = str(e)
    else:
        model_err = 'driver not built'
    results = compile_many([(c.get('xml') or to_xml(c['S']), {}) for c in cases], san=san)
    concrete, mism, compared, items, nmsgs, classes_hit = 0, [], 0, 0, 0, {}
    stats = dict(families={}, status={}, max_depth=0, max_tag=0, types=set(), groups=0, components=0, messages=0, domains=0)
    samples = []

    def fail(c, text, whatmsg, klass=None):
        nonlocal concrete
        if klass and klass in known:
            classes_hit[klass] = classes_hit.get(klass, 0) + 1
            return
        concrete += 1
        if concrete <= 5:
            res.violation(text, whatmsg)

    for i, c in enumerate(cases):
        S, r = c['S'], results[i]
        st = schema_stats(S)
        stats['families'][S.get('fam')] = stats['families'].get(S.get('fam'), 0) + 1
        stats['status'][r['status']] = stats['status'].get(r['status'], 0) + 1
        stats['max_depth'] = max(stats['max_depth'], st['depth']); stats['max_tag'] = max(stats['max_tag'], st['maxtag'])
        stats['types'] |= set(t.upper() for t in st['types']); stats['groups'] += st['groups']; stats['components'] += st['comps']
        stats['messages'] += st['msgs']; stats['domains'] += st['domains']
        mo = model[i] if model else None
        md, mclasses = (mo.split(' || ') + [''])[:2] if mo else (None, '')
        mclasses = mclasses.split()[1:]
        cl = case_line(c)
        valid = c.get('valid', True)
        bad_types = sorted({f['type'].upper() for f in S['fields'] if f['type'].upper() in UNCOMPILABLE})
        # text that f8c copies unescaped into the intermediate XML ('...') and into C++ literals ("...")
        raw_text = any(ch in (e + d) for f in S['fields'] for e, d, _ in f['values'] for ch in '\'"\\')
        impl = None
        this_failed = False
        if r['status'] in ('no-output', 'f8c-error'):
            impl = 'fail'
            if valid:
                this_failed = True
                fail(c, cl, 'f8c produces no output for a valid schema: %s [%s: %s]' % (r['log'][-300:].replace('\n', ' | '), S.get('fam'), S.get('note', '')[:120]),
                     'unescaped-attribute-text' if raw_text else None)
        elif r['status'] in ('cxx-error', 'link-error'):
            if valid or bad_types:
                this_failed = True
                fail(c, cl, 'the code generated for a valid schema does not compile: %s [%s: %s]' % (r['log'][:400].replace('\n', ' | '), S.get('fam'), S.get('note', '')[:120]),
                     'uncompilable-field-type' if bad_types else 'unescaped-attribute-text' if raw_text else None)
        else:
            dl, err = run_dump(r)
            if err:
                this_failed = True
                fail(c, cl, 'the generated metadata cannot be read back: %s [%s: %s]' % (err[:300], S.get('fam'), S.get('note', '')[:120]))
            else:
                impl = ' | '.join(dl)
                items += len(dl)
                if valid:
                    try:
                        probs = spec_oracle(S, facts, parse_dump(dl))
                    except Exception as e:       # an unreadable dump is a failure of the implementation side
                        probs = ['dump not understood: %r' % e]
                    if probs:
                        this_failed = True
                        klass = None
                        if 'depth3' in mclasses and impl == md and all('mandatory=' in p for p in probs):
                            klass = 'optional-outer-component-ignored'
                        fail(c, cl, 'generated metadata does not match the schema: %s [%s: %s]' % ('; '.join(probs[:3])[:600], S.get('fam'), S.get('note', '')[:120]), klass)
                # messages through the generated codec
                bynum = {f['num']: f for f in S['fields']}
                rng = vlib.rng_for(pid + '/msgs', res.seed * 100003 + i)
                msgs = messages_for(rng, S, facts, per_msg) if valid else []
                extra = [(None, None, l) for l in c.get('rt', [])]
                if msgs or extra:
                    outs, aborts = run_stream(r, [m[2] for m in msgs + extra])
                    nmsgs += len(outs)
                    for (m, tree, line), o in zip(msgs + extra, outs):
                        if tree is None:
                            # replayed line: rebuild the tree from its text, members in the order of the schema
                            tree = parse_tree_text(line.split()[2])
                            mm = [x for x in S['msgs'] if hx(x['msgtype']) == line.split()[1]]
                            if mm:
                                try:
                                    tree = canon_tree(expand(S, mm[0]['body']), {f['name']: f for f in S['fields']}, tree)
                                except KeyError:
                                    pass
                        if line.startswith('miss '):
                            continue
                        e = rt_oracle(tree, o)
                        if e:
                            this_failed = True
                            tys = set()
                            tree_types(tree, bynum, tys)
                            klass = None
                            if tys & {'TZTIMEONLY', 'TZTIMESTAMP'}:
                                klass = 'tz-field-types-lose-value'
                            elif 'depth3' in mclasses and 'MissingMandato' in e:
                                klass = 'optional-outer-component-ignored'
                            fail(c, cl + '\n' + line, 'a message of the schema does not round-trip through the generated code: %s -> %s [%s: %s]' % (line[:160], e[:400], S.get('fam'), S.get('note', '')[:120]), klass)
        if model is not None and impl is not None:
            compared += 1
            if impl != md and not this_failed:
                mism.append((i, impl, md))
        elif model is not None and impl is None and not this_failed and md != 'fail':
            # the model predicts tables but the generated code of an invalid schema cannot be built: nothing to compare
            stats['status']['uncompared'] = stats['status'].get('uncompared', 0) + 1
        if len(samples) < 3 and i in (0, len(cases) // 2, len(cases) - 1):
            samples.append(dict(family=S.get('fam'), note=S.get('note'), stats={k: v for k, v in st.items() if k != 'types'}, input=cl[:300],
                                impl=(impl or r['status'])[:300], model=(md or '')[:300], classes=mclasses))
    for klass, n in classes_hit.items():
        res.known('%s: %s [%d cases this run, site %s]' % (klass, known[klass]['what'], n, known[klass].get('site', '?')))
    if mism and not concrete:
        i, impl, md = mism[0]
        a, b = impl.split(' | '), (md or '').split(' | ')
        d = next(((x, y) for x, y in zip(a, b) if x != y), (a[-1] if len(a) > len(b) else '', b[-1] if len(b) > len(a) else ''))
        res.violation('\n'.join(case_line(cases[j]) for j, _, _ in mism[:5]),
                      'correspondence stream f8c: model and implementation differ on %d of %d schemas although the specification oracle holds; first (%s %s): impl %s / model %s'
                      % (len(mism), len(cases), cases[i]['S'].get('fam'), cases[i]['S'].get('note'), d[0][:250], d[1][:250]), no_input=True)
    if model_err and not concrete:
        res.violation('driver stream f8c failed: %s' % model_err[-1500:], 'model driver for f8c unavailable: correspondence not established', no_input=True)
    if problems and not concrete:
        res.violation('\n'.join(problems), 'proof obligation of %s no longer checks: %s' % (pid, problems[0][:300]), no_input=True)
    stats['types'] = sorted(stats['types'])
    res.cov.update(programs=len(cases), disagreements_checked=compared, evaluations=len(cases) + nmsgs,
                   distinct_nontrivial=len({to_line(c['S']) for c in cases if c['S']['msgs']}), metadata_items_compared=items, messages_round_tripped=nmsgs,
                   mismatches=len(mism), oracle_failures=concrete, known_class_hits=classes_hit, distribution=stats, samples=samples,
                   run_s=round(time.time() - t1, 2))


def canon_tree(exp, byname, tree):
    order, sub = {}, {}
    for i, e in enumerate(exp):
        f = byname.get(e['name'])
        if f:
            order.setdefault(f['num'], i)
            if e['kind'] == 'g':
                sub.setdefault(f['num'], e['body'])
    out = []
    for tag, v in sorted(tree, key=lambda it: order.get(it[0], 10 ** 6)):
        if isinstance(v, list) and tag in sub:
            v = [canon_tree(sub[tag], byname, el) for el in v]
        out.append((tag, v))
    return out


def parse_tree_text(s):
    pos = 0

    def tree():
        nonlocal pos
        out = []
        if s.startswith('-', pos):
            pos += 1
            return out
        while True:
            m = re.compile(r'(\d+)').match(s, pos)
            tag = int(m.group(1)); pos = m.end()
            if s[pos] == '=':
                m = re.compile(r'[0-9a-fA-F]*|-').match(s, pos + 1)
                v = m.group(0); pos = m.end()
                if s.startswith('-', pos) and not v:
                    pos += 1
                out.append((tag, unhx(v) if v else ''))
            else:
                pos += 1
                els = []
                if s[pos] == ']':
                    pos += 1
                else:
                    while True:
                        els.append(tree())
                        if s[pos] == '/':
                            pos += 1; continue
                        pos += 1
                        break
                out.append((tag, els))
            if pos < len(s) and s[pos] == ',':
                pos += 1; continue
            return out
    return tree()
