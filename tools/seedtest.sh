#!/bin/bash
# usage: tools/seedtest.sh <seed dir name> <property id> [tier]  -- apply the seeded patch to /repo, run the check, undo
d=$1; p=$2; t=${3:-quick}
cd /verif
pf=/verif/seeded/$d/patch.diff; [ -f /verif/seeded/$d/patch_on_head.diff ] && pf=/verif/seeded/$d/patch_on_head.diff   # hand port to the repaired tree
git -C /repo apply $pf || { echo "APPLY FAILED"; exit 2; }
cp evidence/$p.json .cache/evidence_$p.keep 2>/dev/null    # the evidence file of the clean tree must not be replaced by that of the mutated one
python3 tools/check.py $p --tier $t 2>&1 | tail -6
rc=$?
cp evidence/$p.json .cache/evidence_$p.seeded 2>/dev/null; [ -f .cache/evidence_$p.keep ] && mv .cache/evidence_$p.keep evidence/$p.json
git -C /repo checkout -- .
echo "seed=$d prop=$p"
# the run above regenerated lean/Fix8Model/Gen/* from the mutated tree: regenerate from the restored tree so that nothing mutated is left behind
python3 tools/gen_facts.py > /dev/null 2>&1
