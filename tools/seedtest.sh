#!/bin/bash
# usage: tools/seedtest.sh <seed dir name> <property id> [tier]  -- apply the seeded patch to /repo, run the check, undo
d=$1; p=$2; t=${3:-quick}
cd /verif
git -C /repo apply /verif/seeded/$d/patch.diff || { echo "APPLY FAILED"; exit 2; }
python3 tools/check.py $p --tier $t 2>&1 | tail -6
rc=$?
git -C /repo checkout -- .
echo "seed=$d prop=$p"
# the run above regenerated lean/Fix8Model/Gen/* from the mutated tree: regenerate from the restored tree so that nothing mutated is left behind
python3 tools/gen_facts.py > /dev/null 2>&1
