#!/usr/bin/env python3
"""setup_cmd: build the Lean library + driver and warm the out-of-tree C++ cache (offline)"""
import os, sys, concurrent.futures as cf
sys.path.insert(0, os.path.dirname(os.path.abspath(__file__)))
import vlib
ok, log = vlib.lake_build([])
print(log[-1500:])
if not ok:
    sys.exit(1)
jobs = [lambda: vlib.ensure_lib('asan'), lambda: vlib.ensure_f8c()]
with cf.ThreadPoolExecutor(4) as ex:
    for f in [ex.submit(j) for j in jobs]:
        print(f.result())
print(vlib.ensure_schema())
import harness_list
with cf.ThreadPoolExecutor(8) as ex:
    for f in [ex.submit(lambda kw=kw: vlib.build_harness(**kw)) for kw in harness_list.HARNESSES]:
        print(f.result())
import f8ctv
print(f8ctv.dumper_obj('asan'), f8ctv.pch_dir('asan'))
print(vlib.build_harness('codec', need_schema=True, schema=vlib.FIX44, extra_flags=vlib.FIX44_FLAGS))
