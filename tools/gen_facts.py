"""Generated facts: constants and tables taken from /repo's current source, written to
lean/Fix8Model/Gen/*.lean on every run (only when the content changed, so lake stays incremental).
An extraction failure raises FactError: reported as no-failing-input-found naming the fact."""
import os, re, sys
sys.path.insert(0, os.path.dirname(os.path.abspath(__file__)))
import vlib


class FactError(Exception):
    pass


def _src(rel):
    return open(os.path.join(vlib.REPO, rel), errors='replace').read()


def _emit(name, body):
    txt = '/- GENERATED from /repo by tools/gen_facts.py on every run. Do not edit. -/\nnamespace Fix8Model.Gen\n\n' + body + '\nend Fix8Model.Gen\n'
    with vlib.Lock('gen'):
        vlib.write_if_changed(os.path.join(vlib.LEAN, 'Fix8Model', 'Gen', name + '.lean'), txt)


def itoa_table():
    s = _src('include/fix8/f8utils.hpp')
    m = re.search(r'inline size_t itoa\(T value.*?\*ptr\+\+ = "([^"]+)"\s*\[\s*(\d+)\s*\+', s, re.S)
    if not m:
        raise FactError('itoa digit table not found in include/fix8/f8utils.hpp')
    tab, mid = m.group(1), int(m.group(2))
    _emit('ItoaTable', '/-- the digit string indexed by `%d + (tmp_value - value * base)` in `itoa<T>` -/\n'
          'def itoaTable : List Nat := [%s]\n\ndef itoaMid : Nat := %d\n' % (mid, ', '.join(str(ord(c)) for c in tab), mid))


def mon_days():
    s = _src('include/fix8/field.hpp')
    m = re.search(r'static const int mon_days\[\]\s*\{([^}]*)\}', s)
    if not m:
        raise FactError('mon_days table not found in include/fix8/field.hpp')
    vals = []
    for e in m.group(1).split(','):
        e = e.strip()
        if not re.fullmatch(r'[\d\s+]+', e):
            raise FactError('unexpected mon_days entry %r' % e)
        vals.append(sum(int(x) for x in e.split('+')))
    m2 = re.search(r'return static_cast<time_t>\(tdays\) \* (\d+) \+ \(ltm\.tm_hour \+ utcdiff\) \* (\d+) \+ ltm\.tm_min \* (\d+) \+ ltm\.tm_sec;', s)
    if not m2:
        raise FactError('time_to_epoch return expression not recognised')
    _emit('MonDays', '/-- `mon_days[]` of `time_to_epoch` -/\ndef monDays : List Nat := [%s]\n\ndef secsPerDay : Nat := %s\ndef secsPerHour : Nat := %s\ndef secsPerMin : Nat := %s\n'
          % (', '.join(map(str, vals)), m2.group(1), m2.group(2), m2.group(3)))


STRW = 32


def enc_str(b):
    """order-preserving integer code of a NUL-free byte string of at most STRW bytes"""
    if len(b) > STRW or 0 in b:
        raise FactError('string key %r outside the encodable domain' % b)
    return int.from_bytes(b.ljust(STRW, b'\0'), 'big')


def utest_dump():
    exe = vlib.build_harness('tables', need_schema=True)
    rc, o = vlib.sh([exe, 'dump'], env=vlib.ENV_RUN, timeout=120)
    if rc:
        raise FactError('tables dump failed: ' + o[-500:])
    realms, fields, msgs, traits = [], [], [], []
    for l in o.split('\n'):
        w = l.split()
        if not w:
            continue
        if w[0] == 'realm':
            vals = []
            for e in w[5:]:
                v, d = e.split(':')
                vals.append((v, bytes.fromhex(d).decode('latin1') if d != '-' else ''))
            realms.append(dict(fnum=int(w[1]), kind=w[2], ty=w[3], vals=vals))
        elif w[0] == 'fields':
            fields = [int(x) for x in w[1:]]
        elif w[0] == 'msgs':
            msgs = [bytes.fromhex(x) for x in w[1:]]
        elif w[0] == 'traits':
            traits.append((bytes.fromhex(w[1]), [tuple(int(y) for y in x.split(':')) for x in w[2:]]))
    return dict(realms=realms, fields=fields, msgs=msgs, traits=traits)


def tables_utest():
    d = utest_dump()
    rl = []
    for r in d['realms']:
        if r['ty'] in ('int', 'char', 'bool'):
            vals = [int(v) for v, _ in r['vals']]
        elif r['ty'] == 'string':
            vals = [enc_str(bytes.fromhex(v)) for v, _ in r['vals']]
        else:
            continue
        rl.append('  (%d, %s, %s, [%s])' % (r['fnum'], 'true' if r['kind'] == 'set' else 'false',
                                          {'int': '0', 'char': '1', 'string': '2', 'bool': '1'}[r['ty']], ', '.join(map(str, vals))))
    body = ('/-- enumerated domains of FIX42UTEST as dumped from the freshly generated tables:\n(field number, isSet, type 0=int 1=char 2=string (order-preserving integer code), values) -/\n'
            'def realmTables : List (Nat × Bool × Nat × List Int) := [\n%s]\n\n' % ',\n'.join(rl))
    body += '/-- keys of the generated field table, in table order -/\ndef fieldKeys : List Int := [%s]\n\n' % ', '.join(map(str, d['fields']))
    body += '/-- keys of the generated message table (integer code of the msgtype string), in table order -/\ndef msgKeys : List Int := [%s]\n\n' % ', '.join(str(enc_str(m)) for m in d['msgs'])
    body += ('/-- per message: (msgtype code, field tags of its trait set in table order) -/\ndef traitTags : List (Int × List Int) := [\n%s]\n'
             % ',\n'.join('  (%d, [%s])' % (enc_str(k), ', '.join(str(t) for t, _ in tr)) for k, tr in d['traits']))
    _emit('TablesUTEST', body)
    return d


def consts():
    lg = _src('include/fix8/logger.hpp')
    m = re.search(r'max_rotation\s*=\s*(\d+)', lg)
    if not m:
        raise FactError('Logger::max_rotation not found in include/fix8/logger.hpp')
    cfg = _src('include/fix8/f8config.h')
    vals = {}
    for k in ('FIX8_MAX_FLD_LENGTH', 'FIX8_MAX_MSG_LENGTH', 'FIX8_DEFAULT_PRECISION'):
        mm = re.search(r'#define\s+%s\s+(\d+)' % k, cfg)
        if not mm:
            raise FactError('%s not found in include/fix8/f8config.h' % k)
        vals[k] = int(mm.group(1))
    fld = _src('include/fix8/field.hpp')
    mm = re.search(r'MAX_MSGTYPE_FIELD_LEN\((\d+)\)', fld)
    hc = re.search(r'HEADER_CALC_OFFSET\((\d+)\)', fld)
    if not mm or not hc:
        raise FactError('MAX_MSGTYPE_FIELD_LEN / HEADER_CALC_OFFSET not found in include/fix8/field.hpp')
    _emit('Consts', '/-- `Logger::max_rotation` -/\ndef maxRotation : Nat := %s\n\ndef maxFldLength : Nat := %d\ndef maxMsgLength : Nat := %d\ndef defaultPrecision : Nat := %d\n'
          'def maxMsgTypeFieldLen : Nat := %s\ndef headerCalcOffset : Nat := %s\n'
          % (m.group(1), vals['FIX8_MAX_FLD_LENGTH'], vals['FIX8_MAX_MSG_LENGTH'], vals['FIX8_DEFAULT_PRECISION'], mm.group(1), hc.group(1)))


FT_KIND = {  # FieldTrait::FieldType name -> model kind
    'ft_int': 'int', 'ft_Length': 'length', 'ft_TagNum': 'int', 'ft_SeqNum': 'int', 'ft_NumInGroup': 'int', 'ft_DayOfMonth': 'int',
    'ft_char': 'char', 'ft_Boolean': 'bool',
    'ft_float': 'float', 'ft_Qty': 'float', 'ft_Price': 'float', 'ft_PriceOffset': 'float', 'ft_Amt': 'float', 'ft_Percentage': 'float',
    'ft_string': 'string', 'ft_MultipleCharValue': 'string', 'ft_MultipleStringValue': 'string', 'ft_Country': 'string', 'ft_Currency': 'string',
    'ft_Exchange': 'string', 'ft_MonthYear': 'monthYear', 'ft_UTCTimestamp': 'timestamp', 'ft_UTCTimeOnly': 'timeOnly', 'ft_UTCDateOnly': 'dateOnly',
    'ft_LocalMktDate': 'dateOnly', 'ft_TZTimeOnly': 'other', 'ft_TZTimestamp': 'other', 'ft_data': 'data', 'ft_XMLData': 'data',
    'ft_pattern': 'string', 'ft_Tenor': 'string', 'ft_Reserved100Plus': 'string', 'ft_Reserved1000Plus': 'string', 'ft_Reserved4000Plus': 'string',
    'ft_Language': 'string', 'ft_untyped': 'other'}


def field_type_enum():
    s = _src('include/fix8/traits.hpp')
    m = re.search(r'enum FieldType\s*\{(.*?)\};', s, re.S)
    if not m:
        raise FactError('enum FieldType not found in include/fix8/traits.hpp')
    names, code = {}, 0
    for e in m.group(1).split(','):
        e = re.sub(r'//.*', '', e).strip()
        if not e:
            continue
        if '=' in e:
            n, v = [x.strip() for x in e.split('=')]
            names[n] = names[v]
            code = names[v] + 1
        else:
            names[e] = code
            code += 1
    return names


def schema_dump(harness='codec', which=None):
    if which is None:
        exe = vlib.build_harness(harness, need_schema=True)
    else:
        exe = vlib.build_harness(harness, need_schema=True, schema=which, extra_flags=vlib.FIX44_FLAGS)
    rc, o = vlib.sh([exe, 'dump'], env=vlib.ENV_RUN, timeout=300)
    if rc:
        raise FactError('codec dump failed: ' + o[-500:])
    return o


def _schema_tables(pfx, o, with_types):
    """the metadata of one compiled schema as data: field table, header/trailer/message/group trait lists"""
    names = field_type_enum()
    code_kind = {}
    for n, c in names.items():
        if n.startswith('ft_end'):
            continue
        if n not in FT_KIND:
            raise FactError('unknown FieldType %s' % n)
        code_kind[c] = FT_KIND[n]
    groups = []        # list of trait lists

    def parse_traits(words):
        return [tuple(int(x) for x in w.split(':')) for w in words]

    lines = [l for l in o.split('\n') if l.strip()]
    pos = [0]
    fields, beginstr, header, trailer, msgs = [], '', None, None, []

    def block(first_traits):
        """after a trait line: nested `group d tag ...` blocks until `end d`; returns traits with sub indices"""
        subs = {}
        while True:
            w = lines[pos[0]].split()
            pos[0] += 1
            if w[0] == 'end':
                break
            if w[0] == 'nogroup':
                continue
            if w[0] != 'group':
                raise FactError('unexpected dump line ' + ' '.join(w)[:80])
            tag = int(w[2])
            tr = block(parse_traits(w[3:]))
            groups.append(tr)
            subs[tag] = len(groups) - 1
        return [(t, ft, p, fl, subs.get(t, 0)) for (t, ft, p, fl) in first_traits]

    preamble = 0
    while pos[0] < len(lines):
        w = lines[pos[0]].split()
        pos[0] += 1
        if w[0] == 'fields':
            fields = [int(x) for x in w[1:]]
        elif w[0] == 'beginstr':
            beginstr = w[1]
        elif w[0] == 'preamble_sz':
            preamble = int(w[1])
        elif w[0] == 'header':
            header = block(parse_traits(w[1:]))
        elif w[0] == 'trailer':
            trailer = block(parse_traits(w[1:]))
        elif w[0] == 'msg':
            msgs.append((bytes.fromhex(w[1]), block(parse_traits(w[2:]))))
        else:
            raise FactError('unexpected dump line ' + ' '.join(w)[:80])
    if header is None or trailer is None or not msgs:
        raise FactError('schema dump incomplete')

    def tl(tr):
        return '[' + ', '.join('⟨%d, %d, %d, %d, %d⟩' % t for t in tr) + ']'
    body = ''
    if with_types:
        body = 'structure RawTrait where\n  tag : Nat\n  ftype : Nat\n  pos : Nat\n  flags : Nat\n  sub : Nat\n  deriving Repr, DecidableEq\n\n'
        body += '/-- FieldTrait::FieldType code -> value kind (0 int, 1 length, 2 char, 3 bool, 4 float, 5 string, 6 monthYear, 7 timestamp, 8 timeOnly, 9 dateOnly, 10 data, 11 other) -/\n'
        kinds = ['int', 'length', 'char', 'bool', 'float', 'string', 'monthYear', 'timestamp', 'timeOnly', 'dateOnly', 'data', 'other']
        body += 'def ftypeKind : List (Nat × Nat) := [%s]\n\n' % ', '.join('(%d, %d)' % (c, kinds.index(k)) for c, k in sorted(code_kind.items()))
    body += 'def %sFieldTable : List Nat := [%s]\n\n' % (pfx, ', '.join(map(str, fields)))
    body += 'def %sBeginStr : List Nat := [%s]\n\n' % (pfx, ', '.join(str(b) for b in bytes.fromhex(beginstr)))
    body += 'def %sPreambleSz : Nat := %d\n\n' % (pfx, preamble)
    body += 'def %sHeader : List RawTrait := %s\n\ndef %sTrailer : List RawTrait := %s\n\n' % (pfx, tl(header), pfx, tl(trailer))
    body += 'def %sGroups : List (List RawTrait) := [\n%s]\n\n' % (pfx, ',\n'.join('  ' + tl(g) for g in groups))
    body += 'def %sMsgs : List (List Nat × List RawTrait) := [\n%s]\n' % (pfx, ',\n'.join('  ([%s], %s)' % (', '.join(str(b) for b in k), tl(tr)) for k, tr in msgs))
    return body, dict(fields=fields, header=header, trailer=trailer, msgs=msgs, groups=groups, code_kind=code_kind, beginstr=bytes.fromhex(beginstr))


def schema_utest():
    """the FIX42UTEST metadata as data (Gen/SchemaUTEST.lean)"""
    body, d = _schema_tables('utest', schema_dump(), True)
    _emit('SchemaUTEST', body)
    return d


def schema_fix44():
    """the FIX44 metadata as data (Gen/SchemaFIX44.lean; two-pass f8c run on schema/FIX44.xml)"""
    body, d = _schema_tables('fix44', schema_dump(which=vlib.FIX44), False)
    txt = ('/- GENERATED from /repo by tools/gen_facts.py on every run. Do not edit. -/\nimport Fix8Model.Gen.SchemaUTEST\nset_option maxRecDepth 1000000\nnamespace Fix8Model.Gen\n\n' + body + '\nend Fix8Model.Gen\n')
    with vlib.Lock('gen'):
        vlib.write_if_changed(os.path.join(vlib.LEAN, 'Fix8Model', 'Gen', 'SchemaFIX44.lean'), txt)
    return d


def timer_consts():
    tv = _src('include/fix8/tickval.hpp')
    vals = {}
    for name in ('thousand', 'million'):
        m = re.search(r'static const ticks %s\s*=\s*([^;]+);' % name, tv)
        if not m:
            raise FactError('Tickval::%s not found in include/fix8/tickval.hpp' % name)
        expr = m.group(1).strip()
        if not re.fullmatch(r'[\w\s*]+', expr):
            raise FactError('unexpected initialiser of Tickval::%s: %r' % (name, expr))
        v = 1
        for f in expr.split('*'):
            f = f.strip()
            if f.isdigit():
                v *= int(f)
            elif f in vals:
                v *= vals[f]
            else:
                raise FactError('unexpected factor %r in Tickval::%s' % (f, name))
        vals[name] = v
    _emit('TimerConsts', '/-- `Tickval::million` (= thousand * thousand): nanoseconds per millisecond, the factor in `Timer::schedule` and in the re-arm -/\n'
          'def tickMillion : Nat := %d\n' % vals['million'])


XML_PATTERNS = {'rCE_': r'&#(x[A-Fa-f0-9]+|[0-9]+);', 'rCX_': r'&([a-z]{2,}[1-4]{0,});', 'rIn_': r'href=\"([^\"]+)\"'}


def xml_facts():
    """entity table `stringtochar_`, `MaxDepth`; the three regular expressions that the model re-implements as
    scanners must still be the ones the scanners were written for"""
    s = _src('runtime/xml.cpp')
    m = re.search(r'const Str2Chr XmlElement::stringtochar_\s*\{(.*?)\n\};', s, re.S)
    if not m:
        raise FactError('stringtochar_ table not found in runtime/xml.cpp')
    ents = []
    for nm, v in re.findall(r'\{\s*"([^"]*)"\s*,\s*([^}]*?)\s*\}', m.group(1)):
        v = v.strip()
        if re.fullmatch(r"'\\?.'", v):
            ch = v[1:-1]
            val = ord(ch[-1]) if len(ch) == 2 and ch[1] in '\'"\\' else (ord(ch) if len(ch) == 1 else None)
            if val is None:
                raise FactError('unexpected entity character literal %s' % v)
        elif re.fullmatch(r'\d+', v):
            val = int(v)
        else:
            raise FactError('unexpected entity value %r' % v)
        if not (0 <= val <= 255):
            raise FactError('entity value out of unsigned char range: %s' % v)
        ents.append((nm, val))
    if len(ents) < 5 or len(set(n for n, _ in ents)) != len(ents):
        raise FactError('entity table has %d entries / duplicate names' % len(ents))
    for name, pat in XML_PATTERNS.items():
        mm = re.search(re.escape(name) + r'\("((?:[^"\\]|\\.)*)"\)', s)
        if not mm:
            raise FactError('regular expression %s not found in runtime/xml.cpp' % name)
        got = mm.group(1).replace('\\\\', '\\')
        if got != pat:
            raise FactError('regular expression %s is now %r; the scanner in Fix8Model/Xml/Xlate.lean models %r' % (name, got, pat))
    h = _src('include/fix8/xml.hpp')
    md = re.search(r'enum\s*\{\s*MaxDepth\s*=\s*(\d+)\s*\}', h)
    if not md:
        raise FactError('XmlElement::MaxDepth not found in include/fix8/xml.hpp')
    body = ('/-- `XmlElement::stringtochar_` (runtime/xml.cpp): entity name bytes, replacement byte -/\n'
            'def xmlEntities : List (List Nat × Nat) := [\n%s]\n\n/-- `XmlElement::MaxDepth` -/\ndef xmlMaxDepth : Nat := %s\n'
            % (',\n'.join('  ([%s], %d)' % (', '.join(str(ord(c)) for c in nm), v) for nm, v in ents), md.group(1)))
    _emit('XmlFacts', body)


def logger_facts():
    """what the C28 model takes from the logger sources: level names, width of the sequence column, direction texts,
    the statements of Logger::stop(), the exit test of the writer loop"""
    cpp = _src('runtime/logger.cpp')
    hpp = _src('include/fix8/logger.hpp')
    m = re.search(r'Logger::_level_names\s*\{([^}]*)\}', cpp)
    if not m:
        raise FactError('Logger::_level_names not found in runtime/logger.cpp')
    names = re.findall(r'"([^"]*)"', m.group(1))
    me = re.search(r'enum\s+Level\s*\{([^}]*)\}', hpp)
    if not me or len(names) != len([x for x in me.group(1).split(',') if x.strip()]) or any('"' in n or '\\' in n for n in names):
        raise FactError('Logger::_level_names does not match enum Level')
    m = re.search(r'case sequence:\s*fostr << setw\((\d+)\) << right << setfill\(\'0\'\)', cpp)
    if not m:
        raise FactError('width of the sequence column not recognised in Logger::process_logline')
    width = int(m.group(1))
    m = re.search(r'case direction:\s*fostr << \(msg_ptr->_val \? "([^"]*)" : "([^"]*)"\);', cpp)
    if not m:
        raise FactError('direction texts not recognised in Logger::process_logline')
    din, dout = m.group(1), m.group(2)
    m = re.search(r'void stop\(\)\s*\{([^}]*)\}', hpp)
    if not m:
        raise FactError('Logger::stop() not found in include/fix8/logger.hpp')
    body = [re.sub(r'\s+', '', x) for x in m.group(1).split(';') if x.strip()]
    if any('"' in b for b in body):
        raise FactError('Logger::stop() body not recognised')
    m = re.search(r'if\s*\(\s*msg_ptr->_str\.empty\(\)\s*\)', cpp)
    if not m:
        raise FactError('exit test of the writer loop (empty string) not recognised in Logger::operator()')
    _emit('LoggerFacts', '/-- `Logger::_level_names` -/\ndef levelNames : List String := [%s]\n\n/-- `setw(..)` of the sequence column -/\ndef seqWidth : Nat := %d\n\n'
          '/-- texts of the direction column: (value non-zero, value zero) -/\ndef dirIn : String := "%s"\ndef dirOut : String := "%s"\n\n'
          '/-- the statements of `Logger::stop()` in order, blanks removed -/\ndef stopBody : List String := [%s]\n'
          % (', '.join('"%s"' % n for n in names), width, din, dout, ', '.join('"%s"' % b for b in body)))


def sched():
    """C24: Tickval tick constants (include/fix8/tickval.hpp) and the weekday tables of decode_dow (runtime/f8utils.cpp)"""
    tv = _src('include/fix8/tickval.hpp')
    env = {}
    for name in ('thousand', 'million', 'billion', 'second', 'minute', 'hour', 'day', 'week'):
        m = re.search(r'static const ticks %s\s*=\s*([^;]+);' % name, tv)
        if not m:
            raise FactError('Tickval::%s not found in include/fix8/tickval.hpp' % name)
        expr = m.group(1).strip()
        if not re.fullmatch(r'[\w\s*]+', expr):
            raise FactError('Tickval::%s has an unexpected initialiser %r' % (name, expr))
        v = 1
        for f in expr.split('*'):
            f = f.strip()
            if f.isdigit():
                v *= int(f)
            elif f in env:
                v *= env[f]
            else:
                raise FactError('Tickval::%s refers to unknown %r' % (name, f))
        env[name] = v
    u = _src('runtime/f8utils.cpp')
    m = re.search(r'static const string day_names\[\]\s*\{([^}]*)\}', u)
    if not m:
        raise FactError('day_names table not found in runtime/f8utils.cpp')
    names = re.findall(r'"([^"\\]*)"', m.group(1))
    m2 = re.search(r'static const Day days\[\]\s*\{(.*?)\};', u, re.S)
    if not m2:
        raise FactError('days table not found in runtime/f8utils.cpp')
    pairs = re.findall(r"\{\s*'(.)'\s*,\s*(\d+)\s*\}", m2.group(1))
    if not names or not pairs or len(re.findall(r'\{', m2.group(1))) != len(pairs):
        raise FactError('weekday tables of decode_dow not recognised')
    body = ''.join('/-- `Tickval::%s` -/\ndef tick%s : Int := %d\n' % (n, n.capitalize(), env[n]) for n in ('second', 'minute', 'hour', 'day', 'week'))
    body += '\n/-- `day_names[]` of `decode_dow` (character codes) -/\ndef dowNames : List (List Nat) := [%s]\n' % ', '.join('[%s]' % ', '.join(str(ord(c)) for c in n) for n in names)
    body += '\n/-- `days[]`: the (first letter, weekday) pairs the `Daymap` multimap is built from, in source order -/\ndef dowPairs : List (Nat × Nat) := [%s]\n' % ', '.join('(%d, %s)' % (ord(c), d) for c, d in pairs)
    _emit('Sched', body)


def mpmc():
    """geometry constants of ff::uMPMC_Ptr_Queue (class-local enum and the lower bound applied by init)"""
    s = _src('include/fix8/ff/mpmc/MPMCqueues.hpp')
    m = re.search(r'class uMPMC_Ptr_Queue\s*\{(.*?)\n\};', s, re.S)
    if not m:
        raise FactError('class uMPMC_Ptr_Queue not found in include/fix8/ff/mpmc/MPMCqueues.hpp')
    body = m.group(1)
    e = re.search(r'enum\s*\{\s*DEFAULT_NUM_QUEUES\s*=\s*(\d+)\s*,\s*DEFAULT_uSPSC_SIZE\s*=\s*(\d+)\s*\}', body)
    lo = re.search(r'if\s*\(\s*nqueues\s*<\s*(\d+)\s*\)\s*nqueues\s*=\s*(\d+)\s*;', body)
    if not e or not lo or lo.group(1) != lo.group(2):
        raise FactError('uMPMC_Ptr_Queue default geometry / lower bound of init not recognised')
    if not re.search(r'if\s*\(\s*!isPowerOf2\(nqueues\)\s*\)\s*nqueues\s*=\s*nextPowerOf2\(nqueues\)\s*;\s*mask\s*=\s*nqueues\s*-\s*1\s*;', body):
        raise FactError('uMPMC_Ptr_Queue::init no longer rounds the slot count to a power of two with mask = nqueues-1')
    _emit('MpmcConsts', '/-- `uMPMC_Ptr_Queue::DEFAULT_NUM_QUEUES`, `DEFAULT_uSPSC_SIZE`, and the lower bound `init` applies to `nqueues` -/\n'
          'def mpmcDefaultQueues : Nat := %s\ndef mpmcDefaultInner : Nat := %s\ndef mpmcMinQueues : Nat := %s\n' % (e.group(1), e.group(2), lo.group(1)))


def sess_consts():
    """constants of the heartbeat supervision: the divisor of the 20% allowance (both sites in connection.hpp must agree)
    and the TestReqID literal of heartbeat_service"""
    c = _src('include/fix8/connection.hpp')
    # `_hb_interval20pc = hb_interval + hb_interval / N` in the Connection constructor and in set_hb_interval (parentheses and spacing free);
    # the sites found must agree (the value itself is also under the correspondence: every harness line prints hb and hb20)
    ds = re.findall(r'_hb_interval20pc\s*[=({]\s*hb_interval\s*\+\s*\(?\s*hb_interval\s*/\s*(\d+)\s*\)?', c)
    if not ds or len(set(ds)) != 1:
        raise FactError('expected agreeing `hb_interval + hb_interval / N` sites in include/fix8/connection.hpp, found %r' % ds)
    s = _src('runtime/session.cpp')
    mf = re.search(r'bool Session::heartbeat_service\(\)(.*?)\n\}\n', s, re.S)
    lit = None
    if mf:
        body = mf.group(1)
        mv = re.search(r'generate_test_request\(\s*(?:f8String\s*\(\s*)?"([^"\\]*)"', body)
        if mv:
            lit = mv.group(1)
        else:
            mv = re.search(r'generate_test_request\(\s*(\w+)\s*\)', body)
            if mv:
                md = re.search(r'\b%s\s*(?:\(|=|\{)\s*"([^"\\]*)"' % re.escape(mv.group(1)), body) or \
                    re.search(r'\b%s\s*(?:\(|=|\{)\s*"([^"\\]*)"' % re.escape(mv.group(1)), s)
                if md:
                    lit = md.group(1)
    if lit is None:
        raise FactError('TestReqID literal of Session::heartbeat_service not found in runtime/session.cpp')

    class _M:      # (keeps the emitting code below unchanged)
        def __init__(self, v): self.v = v
        def group(self, i): return self.v
    m = _M(lit)
    _emit('SessConsts', '/-- `_hb_interval20pc = hb_interval + hb_interval / hb20Divisor` (Connection ctor and set_hb_interval) -/\n'
          'def hb20Divisor : Nat := %s\n\n/-- the TestReqID that `heartbeat_service` puts on its TestRequest -/\ndef testReqIdLiteral : String := "%s"\n'
          % (ds[0], m.group(1)))


def encode_ladder():
    """the digit-count ladder and the preamble size of Message::encode(char**), and the shape of the stack buffer of
    Message::encode(f8String&) (C03: index model of the encoder)"""
    s = _src('runtime/message.cpp')
    m = re.search(r'const\s+size_t\s+hlen\s*\(\s*_ctx\._preamble_sz\s*\+\s*\((.*?)\)\s*\)\s*;', s, re.S)
    if not m:
        raise FactError('hlen ladder of Message::encode(char**) not found in runtime/message.cpp')
    expr = re.sub(r'\s+', ' ', m.group(1)).strip()
    steps = re.findall(r'msgLen < (\d+) \? (\d+) :', expr)
    tail = re.fullmatch(r'(?:msgLen < \d+ \? \d+ : )+(\d+)', expr)
    if not steps or not tail:
        raise FactError('hlen ladder of Message::encode(char**) has an unexpected shape: %s' % expr)
    if not re.search(r'char\s*\*moffs\s*\(\s*\*hmsg_store\s*\+\s*HEADER_CALC_OFFSET\s*\)', s) or not re.search(r'char\s*\*hmsg\s*\(\s*moffs\s*-\s*hlen\s*\)', s):
        raise FactError('Message::encode(char**) no longer writes the body at HEADER_CALC_OFFSET and the preamble at moffs - hlen')
    if not re.search(r'char\s+output\s*\[\s*FIX8_MAX_MSG_LENGTH\s*\+\s*HEADER_CALC_OFFSET\s*\]', s):
        raise FactError('Message::encode(f8String&) no longer uses char output[FIX8_MAX_MSG_LENGTH + HEADER_CALC_OFFSET]')
    h = _src('include/fix8/message.hpp')
    pm = re.search(r'_preamble_sz\s*\(\s*(\d+)\s*\+\s*_beginStr\.size\(\)\s*\+\s*(\d+)\s*\+\s*(\d+)\s*\)', h)
    if not pm:
        raise FactError('_preamble_sz initialiser not found in include/fix8/message.hpp')
    extra = sum(int(x) for x in pm.groups())
    _emit('EncodeLadder', '/-- `msgLen < a ? k : …` steps of the `hlen` computation in `Message::encode(char**)` (runtime/message.cpp), in source order -/\n'
          'def encodeLadder : List (Nat × Nat) := [%s]\n\n/-- the final alternative of the ladder -/\ndef encodeLadderDefault : Nat := %s\n\n'
          '/-- `_preamble_sz - _beginStr.size()` (include/fix8/message.hpp: `%s + _beginStr.size() + %s + %s`) -/\ndef preambleExtra : Nat := %d\n'
          % (', '.join('(%s, %s)' % st for st in steps), tail.group(1), pm.group(1), pm.group(2), pm.group(3), extra))


# add to tools/gen_facts.py (before `ALL = ...`), and add `reader=reader` to the ALL dict

def reader():
    """constants and the shape of the two guards of FIXReader::read that the C15 model is parametric in"""
    hpp = _src('include/fix8/connection.hpp')
    m = re.search(r'enum\s*\{\s*_max_msg_len\s*=\s*(\w+)\s*,\s*_chksum_sz\s*=\s*(\d+)\s*\}', hpp)
    if not m:
        raise FactError('enum { _max_msg_len, _chksum_sz } not found in include/fix8/connection.hpp')
    cfg = _src('include/fix8/f8config.h')
    fld = _src('include/fix8/field.hpp')

    def resolve(name):
        if name.isdigit():
            return int(name)
        for text, pat in ((cfg, r'#define\s+%s\s+(\d+)'), (fld, r'const\s+size_t\s+%s\s*\(\s*(\d+)\s*\)')):
            mm = re.search(pat % re.escape(name), text)
            if mm:
                return int(mm.group(1))
        raise FactError('cannot resolve the constant %s used by FIXReader::read' % name)
    maxlen, chk = resolve(m.group(1)), int(m.group(2))
    cpp = _src('runtime/connection.cpp')
    mf = re.search(r'bool FIXReader::read\(f8String& to\).*?\n\}\n', cpp, re.S)
    if not mf:
        raise FactError('FIXReader::read not found in runtime/connection.cpp')
    body = mf.group(0)
    mb = re.search(r'char\s+msg_buf\[(\w+)\]', body)
    mt = re.search(r'char\s+tag\[(\w+)\]\s*,\s*val\[(\w+)\]\s*;', body)
    if not mb or not mt:
        raise FactError('buffer declarations of FIXReader::read not recognised')
    if mb.group(1) != '_max_msg_len':
        raise FactError('msg_buf is no longer _max_msg_len bytes: %s' % mb.group(1))
    tagsz, valsz = resolve(mt.group(1)), resolve(mt.group(2))
    ml = re.search(r'while\s*\(\s*bt\s*!=\s*default_field_separator\s*&&\s*offs\s*<\s*([^;]+?)\s*\)\s*;', body)
    if not ml:
        raise FactError('termination condition of the BodyLength digit loop not recognised')
    lim = ml.group(1).strip()
    if lim == '_max_msg_len':
        extra = 'none'
    else:
        mm = re.fullmatch(r'_bg_sz\s*\+\s*(\w+)', lim)
        if not mm:
            raise FactError('unexpected bound of the BodyLength digit loop: %s' % lim)
        k = mm.group(1)
        if not k.isdigit():
            md = re.search(r'\b%s\s*[({=]\s*(\d+)' % re.escape(k), body) or re.search(r'\b%s\s*=\s*(\d+)' % re.escape(k), hpp)
            if not md:
                raise FactError('cannot resolve %s in the bound of the BodyLength digit loop' % k)
            k = md.group(1)
        extra = 'some %s' % k
    # extract_element: as found (no bounds) or with the bounds tests `tag == tag_last` / `val == val_last` whose default sizes are read's buffers
    msg = _src('include/fix8/message.hpp')
    mx = re.search(r'static unsigned extract_element\(const char \*from, const unsigned sz, char \*tag, char \*val([^)]*)\)\s*\{(.*?)\n\t\}\n', msg, re.S)
    if not mx:
        raise FactError('MessageBase::extract_element(char*, char*) not found in include/fix8/message.hpp')
    xargs, xbody = mx.group(1), mx.group(2)
    has_t, has_v = 'tag == tag_last' in xbody, 'val == val_last' in xbody
    if has_t != has_v:
        raise FactError('extract_element bounds only one of its two buffers: not a form the model knows')
    bounded = has_t
    if bounded:
        ma = re.search(r'const unsigned tag_sz\s*=\s*(\w+)\s*,\s*const unsigned val_sz\s*=\s*(\w+)', xargs)
        ml2 = re.search(r'tag_last\(tag \+ tag_sz - 1\)\s*,\s*\*const val_last\(val \+ val_sz - 1\)', xbody)
        if not ma or not ml2:
            raise FactError('bounded extract_element: default sizes / last-element pointers not recognised')
        if (resolve(ma.group(1)), resolve(ma.group(2))) != (tagsz, valsz):
            raise FactError('extract_element default bounds %s,%s differ from the buffers of FIXReader::read' % (ma.group(1), ma.group(2)))
        if len(re.findall(r'MessageBase::extract_element\([^;]*?, tag, val\)', body)) != 2:
            raise FactError('FIXReader::read no longer calls extract_element(.., tag, val) with the default bounds')
    elif xargs.strip():
        raise FactError('unexpected extra parameters of extract_element: %s' % xargs)
    first = bool(re.search(r'if\s*\(\s*!\s*isdigit\s*\(\s*(static_cast<unsigned char>\()?msg_buf\[_bg_sz\s*-\s*1\]\)?\s*\)\s*\)\s*(//[^\n]*)?\s*throw\s+IllegalMessage', body))
    exe = vlib.build_harness('framer', need_schema=True, extra_flags=['-ldl'])
    rc, o = vlib.sh([exe], env=vlib.ENV_RUN, timeout=120, input='dump\n')
    md = re.search(r'beginstr=([0-9a-f]+) bg=(\d+) max=(\d+) chk=(\d+) tagmax=(\d+) fldmax=(\d+)', o)
    if rc or not md:
        raise FactError('framer dump failed: ' + o[-300:])
    if (int(md.group(3)), int(md.group(4))) != (maxlen, chk):
        raise FactError('compiled reader constants %s differ from the extracted ones (%d, %d)' % (md.groups()[2:4], maxlen, chk))
    bs = bytes.fromhex(md.group(1))
    _emit('Reader', '/-- `FIXReader::_max_msg_len`, `_chksum_sz`; `char tag[%s], val[%s]` in `FIXReader::read` -/\n'
          'def readerMaxMsgLen : Nat := %d\ndef readerChksumSz : Nat := %d\ndef readerTagBuf : Nat := %d\ndef readerValBuf : Nat := %d\n\n'
          '/-- bound of the BodyLength digit loop: `none` = `offs < _max_msg_len`, `some k` = `offs < _bg_sz + k` (source: `%s`) -/\n'
          'def readerLoopExtra : Option Nat := %s\n\n/-- is `msg_buf[_bg_sz - 1]` (first BodyLength character) tested with isdigit before the loop -/\n'
          'def readerFirstCheck : Bool := %s\n\n/-- does `MessageBase::extract_element` test `tag == tag_last` / `val == val_last` before each store -/\ndef extractBounded : Bool := %s\n\n/-- `_beginStr` of the metadata context the harness session runs on (FIX42UTEST) -/\ndef readerBeginStr : List Nat := [%s]\n'
          % (mt.group(1), mt.group(2), maxlen, chk, tagsz, valsz, lim, extra, 'true' if first else 'false', 'true' if bounded else 'false', ', '.join(str(b) for b in bs)))
    return dict(beginstr=bs, maxlen=maxlen, chk=chk, tagsz=tagsz, valsz=valsz, extra=None if extra == 'none' else int(extra.split()[1]), first=first, bounded=bounded,
                bg_compiled=int(md.group(2)))


def dtoa_consts():
    """constants of modp_dtoa (runtime/modp_numtoa.c) and fast_atof (f8utils.hpp); FIX8_DEFAULT_PRECISION is in Gen/Consts"""
    s = _src('runtime/modp_numtoa.c')
    m = re.search(r'static const double pow10_\[\]\s*=\s*\{([^}]*)\}', s)
    if not m:
        raise FactError('pow10_[] table not found in runtime/modp_numtoa.c')
    tab = [e.strip() for e in m.group(1).split(',')]
    if not all(re.fullmatch(r'\d+', e) for e in tab):
        raise FactError('unexpected pow10_[] entry in %r' % tab)
    t = re.search(r'const double thres_max\s*=\s*\(double\)\((0x[0-9A-Fa-f]+|\d+)\)', s)
    if not t:
        raise FactError('thres_max not found in modp_dtoa')
    c = re.search(r'if \(prec < 0\) \{\s*prec = 0;\s*\} else if \(prec > (\d+)\) \{.*?prec = (\d+);', s, re.S)
    if not c or c.group(1) != c.group(2):
        raise FactError('precision clamp of modp_dtoa not recognised')
    if not re.search(r'if \(value > thres_max\)\s*return sprintf', s):
        raise FactError('modp_dtoa no longer falls back to sprintf above thres_max')
    u = _src('include/fix8/f8utils.hpp')
    a = re.search(r'inline fp_type fast_atof.*?#else\s*if \(expon > (\d+)\)\s*expon = (\d+);', u, re.S)
    if not a or a.group(1) != a.group(2):
        raise FactError('exponent clamp of fast_atof not recognised')
    cfg = _src('include/fix8/f8config.h')
    if re.search(r'^\s*#define FIX8_USE_SINGLE_PRECISION', cfg, re.M):
        raise FactError('FIX8_USE_SINGLE_PRECISION is set: fp_type is float, the C08 model is about double')
    _emit('DtoaConsts', '/-- `pow10_[]` of runtime/modp_numtoa.c -/\ndef dtoaPow10 : List Nat := [%s]\n\n'
          '/-- `thres_max`: above it modp_dtoa reverts to `sprintf("%%e")` -/\ndef dtoaThresMax : Nat := %d\n\n'
          '/-- upper clamp of `prec` in modp_dtoa -/\ndef dtoaMaxPrec : Nat := %s\n\n'
          '/-- clamp of the decimal exponent in fast_atof (double build) -/\ndef atofMaxExp : Nat := %s\n'
          % (', '.join(tab), int(t.group(1), 0), c.group(1), a.group(1)))


ALL = dict(schema_fix44=schema_fix44, dtoa_consts=dtoa_consts, reader=reader, encode_ladder=encode_ladder, sess_consts=sess_consts, mpmc=mpmc, sched=sched, logger_facts=logger_facts, xml_facts=xml_facts, timer_consts=timer_consts, schema_utest=schema_utest, consts=consts, itoa_table=itoa_table, mon_days=mon_days, tables_utest=tables_utest)


def generate(names):
    errs = []
    for n in names:
        try:
            ALL[n]()
        except FactError as e:
            errs.append('generated fact %s: %s' % (n, e))
    return errs


if __name__ == '__main__':
    print(generate(sys.argv[1:] or list(ALL)))
