"""Generated facts: constants and tables taken from /repo's current source, written to
lean/Fix8Model/Gen/*.lean on every run (only when the content changed, so lake stays incremental).
An extraction failure raises FactError: reported as no-failing-input-found naming the fact."""
import os, re, sys
sys.path.insert(0, os.path.dirname(os.path.abspath(__file__)))
import vlib


class FactError(Exception):
    pass


def _src(rel):
    return open(os.path.join(vlib.REPO, rel), errors='replace').read()


def _emit(name, body):
    txt = '/- GENERATED from /repo by tools/gen_facts.py on every run. Do not edit. -/\nnamespace Fix8Model.Gen\n\n' + body + '\nend Fix8Model.Gen\n'
    with vlib.Lock('gen'):
        vlib.write_if_changed(os.path.join(vlib.LEAN, 'Fix8Model', 'Gen', name + '.lean'), txt)


def itoa_table():
    s = _src('include/fix8/f8utils.hpp')
    m = re.search(r'inline size_t itoa\(T value.*?\*ptr\+\+ = "([^"]+)"\s*\[\s*(\d+)\s*\+', s, re.S)
    if not m:
        raise FactError('itoa digit table not found in include/fix8/f8utils.hpp')
    tab, mid = m.group(1), int(m.group(2))
    _emit('ItoaTable', '/-- the digit string indexed by `%d + (tmp_value - value * base)` in `itoa<T>` -/\n'
          'def itoaTable : List Nat := [%s]\n\ndef itoaMid : Nat := %d\n' % (mid, ', '.join(str(ord(c)) for c in tab), mid))


def mon_days():
    s = _src('include/fix8/field.hpp')
    m = re.search(r'static const int mon_days\[\]\s*\{([^}]*)\}', s)
    if not m:
        raise FactError('mon_days table not found in include/fix8/field.hpp')
    vals = []
    for e in m.group(1).split(','):
        e = e.strip()
        if not re.fullmatch(r'[\d\s+]+', e):
            raise FactError('unexpected mon_days entry %r' % e)
        vals.append(sum(int(x) for x in e.split('+')))
    m2 = re.search(r'return static_cast<time_t>\(tdays\) \* (\d+) \+ \(ltm\.tm_hour \+ utcdiff\) \* (\d+) \+ ltm\.tm_min \* (\d+) \+ ltm\.tm_sec;', s)
    if not m2:
        raise FactError('time_to_epoch return expression not recognised')
    _emit('MonDays', '/-- `mon_days[]` of `time_to_epoch` -/\ndef monDays : List Nat := [%s]\n\ndef secsPerDay : Nat := %s\ndef secsPerHour : Nat := %s\ndef secsPerMin : Nat := %s\n'
          % (', '.join(map(str, vals)), m2.group(1), m2.group(2), m2.group(3)))


ALL = dict(itoa_table=itoa_table, mon_days=mon_days)


def generate(names):
    errs = []
    for n in names:
        try:
            ALL[n]()
        except FactError as e:
            errs.append('generated fact %s: %s' % (n, e))
    return errs


if __name__ == '__main__':
    print(generate(sys.argv[1:] or list(ALL)))
