"""Generated facts: constants and tables taken from /repo's current source, written to
lean/Fix8Model/Gen/*.lean on every run (only when the content changed, so lake stays incremental).
An extraction failure raises FactError: reported as no-failing-input-found naming the fact."""
import os, re, sys
sys.path.insert(0, os.path.dirname(os.path.abspath(__file__)))
import vlib


class FactError(Exception):
    pass


def _src(rel):
    return open(os.path.join(vlib.REPO, rel), errors='replace').read()


def _emit(name, body):
    txt = '/- GENERATED from /repo by tools/gen_facts.py on every run. Do not edit. -/\nnamespace Fix8Model.Gen\n\n' + body + '\nend Fix8Model.Gen\n'
    with vlib.Lock('gen'):
        vlib.write_if_changed(os.path.join(vlib.LEAN, 'Fix8Model', 'Gen', name + '.lean'), txt)


def itoa_table():
    s = _src('include/fix8/f8utils.hpp')
    m = re.search(r'inline size_t itoa\(T value.*?\*ptr\+\+ = "([^"]+)"\s*\[\s*(\d+)\s*\+', s, re.S)
    if not m:
        raise FactError('itoa digit table not found in include/fix8/f8utils.hpp')
    tab, mid = m.group(1), int(m.group(2))
    _emit('ItoaTable', '/-- the digit string indexed by `%d + (tmp_value - value * base)` in `itoa<T>` -/\n'
          'def itoaTable : List Nat := [%s]\n\ndef itoaMid : Nat := %d\n' % (mid, ', '.join(str(ord(c)) for c in tab), mid))


def mon_days():
    s = _src('include/fix8/field.hpp')
    m = re.search(r'static const int mon_days\[\]\s*\{([^}]*)\}', s)
    if not m:
        raise FactError('mon_days table not found in include/fix8/field.hpp')
    vals = []
    for e in m.group(1).split(','):
        e = e.strip()
        if not re.fullmatch(r'[\d\s+]+', e):
            raise FactError('unexpected mon_days entry %r' % e)
        vals.append(sum(int(x) for x in e.split('+')))
    m2 = re.search(r'return static_cast<time_t>\(tdays\) \* (\d+) \+ \(ltm\.tm_hour \+ utcdiff\) \* (\d+) \+ ltm\.tm_min \* (\d+) \+ ltm\.tm_sec;', s)
    if not m2:
        raise FactError('time_to_epoch return expression not recognised')
    _emit('MonDays', '/-- `mon_days[]` of `time_to_epoch` -/\ndef monDays : List Nat := [%s]\n\ndef secsPerDay : Nat := %s\ndef secsPerHour : Nat := %s\ndef secsPerMin : Nat := %s\n'
          % (', '.join(map(str, vals)), m2.group(1), m2.group(2), m2.group(3)))


STRW = 32


def enc_str(b):
    """order-preserving integer code of a NUL-free byte string of at most STRW bytes"""
    if len(b) > STRW or 0 in b:
        raise FactError('string key %r outside the encodable domain' % b)
    return int.from_bytes(b.ljust(STRW, b'\0'), 'big')


def utest_dump():
    exe = vlib.build_harness('tables', need_schema=True)
    rc, o = vlib.sh([exe, 'dump'], env=vlib.ENV_RUN, timeout=120)
    if rc:
        raise FactError('tables dump failed: ' + o[-500:])
    realms, fields, msgs, traits = [], [], [], []
    for l in o.split('\n'):
        w = l.split()
        if not w:
            continue
        if w[0] == 'realm':
            vals = []
            for e in w[5:]:
                v, d = e.split(':')
                vals.append((v, bytes.fromhex(d).decode('latin1') if d != '-' else ''))
            realms.append(dict(fnum=int(w[1]), kind=w[2], ty=w[3], vals=vals))
        elif w[0] == 'fields':
            fields = [int(x) for x in w[1:]]
        elif w[0] == 'msgs':
            msgs = [bytes.fromhex(x) for x in w[1:]]
        elif w[0] == 'traits':
            traits.append((bytes.fromhex(w[1]), [tuple(int(y) for y in x.split(':')) for x in w[2:]]))
    return dict(realms=realms, fields=fields, msgs=msgs, traits=traits)


def tables_utest():
    d = utest_dump()
    rl = []
    for r in d['realms']:
        if r['ty'] in ('int', 'char', 'bool'):
            vals = [int(v) for v, _ in r['vals']]
        elif r['ty'] == 'string':
            vals = [enc_str(bytes.fromhex(v)) for v, _ in r['vals']]
        else:
            continue
        rl.append('  (%d, %s, %s, [%s])' % (r['fnum'], 'true' if r['kind'] == 'set' else 'false',
                                          {'int': '0', 'char': '1', 'string': '2', 'bool': '1'}[r['ty']], ', '.join(map(str, vals))))
    body = ('/-- enumerated domains of FIX42UTEST as dumped from the freshly generated tables:\n(field number, isSet, type 0=int 1=char 2=string (order-preserving integer code), values) -/\n'
            'def realmTables : List (Nat × Bool × Nat × List Int) := [\n%s]\n\n' % ',\n'.join(rl))
    body += '/-- keys of the generated field table, in table order -/\ndef fieldKeys : List Int := [%s]\n\n' % ', '.join(map(str, d['fields']))
    body += '/-- keys of the generated message table (integer code of the msgtype string), in table order -/\ndef msgKeys : List Int := [%s]\n\n' % ', '.join(str(enc_str(m)) for m in d['msgs'])
    body += ('/-- per message: (msgtype code, field tags of its trait set in table order) -/\ndef traitTags : List (Int × List Int) := [\n%s]\n'
             % ',\n'.join('  (%d, [%s])' % (enc_str(k), ', '.join(str(t) for t, _ in tr)) for k, tr in d['traits']))
    _emit('TablesUTEST', body)
    return d


def consts():
    lg = _src('include/fix8/logger.hpp')
    m = re.search(r'max_rotation\s*=\s*(\d+)', lg)
    if not m:
        raise FactError('Logger::max_rotation not found in include/fix8/logger.hpp')
    cfg = _src('include/fix8/f8config.h')
    vals = {}
    for k in ('FIX8_MAX_FLD_LENGTH', 'FIX8_MAX_MSG_LENGTH', 'FIX8_DEFAULT_PRECISION'):
        mm = re.search(r'#define\s+%s\s+(\d+)' % k, cfg)
        if not mm:
            raise FactError('%s not found in include/fix8/f8config.h' % k)
        vals[k] = int(mm.group(1))
    _emit('Consts', '/-- `Logger::max_rotation` -/\ndef maxRotation : Nat := %s\n\ndef maxFldLength : Nat := %d\ndef maxMsgLength : Nat := %d\ndef defaultPrecision : Nat := %d\n'
          % (m.group(1), vals['FIX8_MAX_FLD_LENGTH'], vals['FIX8_MAX_MSG_LENGTH'], vals['FIX8_DEFAULT_PRECISION']))


ALL = dict(consts=consts, itoa_table=itoa_table, mon_days=mon_days, tables_utest=tables_utest)


def generate(names):
    errs = []
    for n in names:
        try:
            ALL[n]()
        except FactError as e:
            errs.append('generated fact %s: %s' % (n, e))
    return errs


if __name__ == '__main__':
    print(generate(sys.argv[1:] or list(ALL)))
