#!/usr/bin/env python3
"""run every claimed check (quick by default) in parallel and summarise: tools/runall.py [tier] [ids...]"""
import json, os, subprocess, sys, concurrent.futures as cf, time
ROOT = os.path.dirname(os.path.dirname(os.path.abspath(__file__)))
tier = sys.argv[1] if len(sys.argv) > 1 else 'quick'
m = json.load(open(os.path.join(ROOT, 'MANIFEST.json')))
ids = sys.argv[2:] or [c['property_id'] for c in m['checks']]
def run(pid):
    t = time.time()
    p = subprocess.run(['python3', 'tools/check.py', pid, '--tier', tier], cwd=ROOT, stdout=subprocess.PIPE, stderr=subprocess.STDOUT, text=True)
    return pid, p.returncode, time.time() - t, p.stdout
bad = 0
with cf.ThreadPoolExecutor(int(os.environ.get('J', '6'))) as ex:
    for pid, rc, dt, out in ex.map(run, ids):
        kf = sum(1 for l in out.split('\n') if l.startswith('KNOWN-FINDING'))
        print('%s rc=%d %.0fs known=%d' % (pid, rc, dt, kf))
        if rc:
            bad += 1
            print('\n'.join('    ' + l[:300] for l in out.split('\n')[-12:]))
sys.exit(1 if bad else 0)
