#!/usr/bin/env python3
"""print the per-property summary table of DESIGN.md section 18 from MANIFEST.json, known_findings.json, the evidence files and seeded/*/meta.json"""
import json, os, glob
ROOT = os.path.dirname(os.path.dirname(os.path.abspath(__file__)))
m = json.load(open(os.path.join(ROOT, 'MANIFEST.json')))
kf = json.load(open(os.path.join(ROOT, 'known_findings.json')))
seeds = {}
for p in sorted(glob.glob(os.path.join(ROOT, 'seeded', '*', 'meta.json'))):
    d = os.path.basename(os.path.dirname(p))
    try:
        seeds[d] = json.load(open(p))
    except Exception:
        seeds[d] = {}
print('| id | level | theorems audited | correspondence (quick run) | known / fixed | seeds (reported by) |')
print('|---|---|---|---|---|---|')
for c in m['checks']:
    pid = c['property_id']
    try:
        e = json.load(open(os.path.join(ROOT, 'evidence', pid + '.json')))
    except Exception:
        e = {}
    cov = e.get('coverage', {})
    known = [k['class'] for k in kf if k['property'] == pid and k['status'] == 'known']
    fixed = [k for k in kf if k['property'] == pid and k['status'] == 'fixed']
    ss = []
    for d, meta in seeds.items():
        if d == pid or d.startswith(pid + '-'):
            ss.append('%s→%s' % (d, meta.get('caught_by') or '?'))
    print('| %s | %s | %s/%s | %s evaluations, %s distinct non-trivial, %s mismatches | %d known, %d fixed | %s |' % (
        pid, c['level_claimed']['category'], cov.get('discharged', '-'), cov.get('obligations', '-'), cov.get('evaluations', '-'),
        cov.get('distinct_nontrivial', '-'), cov.get('mismatches', '-'), len(known), len(fixed), '; '.join(ss)))
