"""what is claimed; MANIFEST.json is generated from this by tools/mkmanifest.py"""
CLAIMED = {
    'C07': dict(
        category='proof', design_ref='DESIGN.md section 7 C07',
        technique='Lean 4 theorem (induction over the word loop with a carry-lane invariant) about a hand-written model + differential correspondence run against Message::calc_chksum under ASan with manual poisoning',
        text=('Kernel-checked theorems C07_value / C07_reads / C07_remainder / C07_in_buffer: for every buffer, offset and length the model of '
              'calc_chksum returns the byte sum of exactly [off, off+len) mod 256 and reads only indices inside that range. The model is tied to the '
              'current source by running both on the same generated buffers (all sizes classes 0..9000, carry-heavy contents, all offset/len shapes) '
              'with every byte outside the range poisoned.'),
        note=('Trusted: Lean kernel; axioms propext, Quot.sound, Classical.choice; the hand-written model (tied by correspondence only); harness/chk.cpp; '
              'tools/*.py. The unaligned 32-bit load is modelled as four byte reads.')),
}

PENDING_REASON = 'not yet covered: the Lean model and correspondence harness for this property have not been built in this framework yet (see DESIGN.md section 7 for the plan); no other technique is substituted'
