"""what is claimed; MANIFEST.json is generated from this by tools/mkmanifest.py"""
CLAIMED = {
    'C07': dict(
        category='proof', design_ref='DESIGN.md section 7 C07',
        technique='Lean 4 theorem (induction over the word loop with a carry-lane invariant) about a hand-written model + differential correspondence run against Message::calc_chksum under ASan with manual poisoning',
        text=('Kernel-checked theorems C07_value / C07_reads / C07_remainder / C07_in_buffer: for every buffer, offset and length the model of '
              'calc_chksum returns the byte sum of exactly [off, off+len) mod 256 and reads only indices inside that range. The model is tied to the '
              'current source by running both on the same generated buffers (all sizes classes 0..9000, carry-heavy contents, all offset/len shapes) '
              'with every byte outside the range poisoned.'),
        note=('Trusted: Lean kernel; axioms propext, Quot.sound, Classical.choice; the hand-written model (tied by correspondence only); harness/chk.cpp; '
              'tools/*.py. The unaligned 32-bit load is modelled as four byte reads.')),
    'C08': dict(
        category='proof', design_ref='DESIGN.md section 7 C08',
        technique='Lean 4 theorems (strong induction on the value) about a hand-written model of itoa<int>/fast_atoi<int> whose digit table is regenerated from the source + differential correspondence run under UBSan; floating half not yet proved',
        text=('Integer half: kernel-checked theorems C08_itoa (itoa renders every Int as its canonical decimal text), C08_atoi_itoa (the text parses back to the value) and '
              'C08_atoi_no_overflow (every int sub-expression evaluated while parsing the text of a 32-bit value stays inside the 32-bit range). The 71-character digit table '
              'is extracted from f8utils.hpp on every run and the table lemma re-proved by decide. Correspondence: itoa<int>, Field<int>::print, fast_atoi<int>, Field<int>(string) '
              'against the model on boundary/stratified/random int32 values under UBSan. PARTIAL: the floating half of the property (modp_dtoa, fast_atof) has no theorem yet and is not decided by this check.'),
        note=('Trusted: Lean kernel; axioms propext, Quot.sound, Classical.choice; hand-written model tied by correspondence; regexp extraction of the digit table; harness/num.cpp; '
              'int arithmetic modelled on unbounded Int with a proved range statement. binary64 arithmetic is not formalised.')),
    'C09': dict(
        category='proof', design_ref='DESIGN.md section 7 C09',
        technique='Lean 4 theorems over a hand-written model of the date/time codecs (kernel-evaluated table of all 47482 days + omega for seconds/ms + list lemmas for the fixed-width text), constants regenerated from field.hpp, differential correspondence against the real field classes and libc gmtime_r',
        text=('Kernel-checked: C09_timestamp (every instant 1970-01-01..2100-01-01 at ms precision renders to text that parses back to the same instant), C09_timeonly, C09_dateonly '
              '(UTCDateOnly/LocalMktDate), C09_monthyear (6-character form), C09_logstamp_secs (seconds field of the log stamp is t%60, always 00..59), day_facts (for every day of the range the '
              'code\'s day arithmetic inverts the proleptic Gregorian calendar; 24 chunks evaluated by the kernel). mon_days[] and the 86400/3600/60 constants are extracted from the source on every run. '
              'Correspondence: Field<UTCTimestamp/UTCTimeOnly/UTCDateOnly/LocalMktDate/MonthYear> print+parse, gmtime_r and GetTimeAsStringMS against the model (thorough: all days).'),
        note=('Trusted: Lean kernel; propext, Quot.sound, Classical.choice; the model of gmtime_r (civilFromDays) is validated against libc, not proved about libc; local time zones are out of scope; '
              'harness/timeh.cpp; tools/*.py. The 8-character MonthYear form shares the UTCDateOnly code path (C09_dateonly).')),
    'C10': dict(
        category='proof', design_ref='DESIGN.md section 7 C10',
        technique='Lean 4 theorems (bisection invariant of std::lower_bound on strictly sorted tables) + realm tables regenerated from the freshly compiled schema and proved sorted by decide + differential correspondence through the generated field factory',
        text=('Kernel-checked: for every strictly sorted domain table C10_set_index (an index is reported exactly for members and is the member\'s own index), C10_set_none, C10_set_valid '
              '(validity = set membership), C10_range_valid / C10_range_index (range inclusion; only the bounds carry an index), and the generated fact C10_utest_sorted: all 105 enumerated domains '
              'dumped from the schema compiled by the freshly built f8c are strictly sorted. Correspondence: every enumerated field x candidate values through BaseEntry::_create, get_rlm_idx, '
              'is_valid and the description table.'),
        note=('Trusted: Lean kernel; propext, Quot.sound, Classical.choice; model of std::lower_bound as libstdc++ bisection; string keys handled through an order-preserving integer code '
              '(checked against native comparison by the Python oracle); harness/tables.cpp; only FIX42UTEST is dumped; Boolean fields are exercised on Y/N only (other text is not a value of the type).')),
    'C12': dict(
        category='proof', design_ref='DESIGN.md section 7 C12',
        technique='Lean 4 refinement theorem (induction over operation histories; bisection invariants for lower/upper_bound; splice lemma) + generated tables proved sorted by decide + differential correspondence on the real tables and on presorted_set histories',
        text=('Kernel-checked: C12_table_find (GeneratedTable::_find hits exactly present keys and returns that key\'s entry on a strictly sorted table), C12_utest_tables_sorted (field table, message table and all '
              '46 per-message trait tables dumped from the freshly compiled schema are strictly sorted), C12_presorted_history (for every history of insert/find/clear the presorted_set model answers exactly '
              'like a set of unique keys and its array stays strictly sorted; includes the reallocation branch). Correspondence: find_be / table lookups / reverse name lookup over tags, every msgtype and '
              'near misses, every per-message trait set, and random histories on presorted_set<long,Item> and on the FieldTrait specialisation (Presence).'),
        note=('Trusted: Lean kernel; propext, Quot.sound, Classical.choice; bisection model of std::lower_bound/upper_bound; memmove/memcpy as list splice; the hash-array fast path of the generated trait sets is '
              'validated by correspondence only; harness/tables.cpp. Known finding (documented, outside the map contract): insert returns a dangling iterator after reallocation.')),
    'C26': dict(
        category='proof', design_ref='DESIGN.md section 7 C26',
        technique='Lean 4 refinement theorems (induction over operation histories: MemoryPersister and FilePersister models against a map-plus-control-record specification) + differential correspondence on the real persisters under ASan',
        text=('Kernel-checked: C26_mem and C26_file (for EVERY history of put / control put / get / control get / last / nearest-highest / range / reopen the model of MemoryPersister and of FilePersister '
              '(index map + append-only data file with offsets) returns exactly the outputs of the specification: a map from non-zero numbers to the bytes first stored plus the latest control record), '
              'C26_nearest / C26_nearest_zero (the nearest-highest search returns the smallest stored number in [requested,last], 0 iff there is none). Correspondence: random histories (1..200 ops, duplicates, '
              '0, gaps, out-of-order stores, sizes 0..8192) on the real MemoryPersister and FilePersister, outputs compared with the model and with an independent Python dictionary oracle.'),
        note=('Trusted: Lean kernel; propext, Quot.sound, Classical.choice; std::map as association list with unique keys; POSIX lseek/read/write as atomic steps; harness/store.cpp; '
              'nearest-highest and range are exercised with requested >= 1 (0 is the control key; handle_resend_request never asks for 0); BDB/memcache/hiredis persisters are not compiled in this build and are out of scope.')),
    'C27': dict(
        category='proof', design_ref='DESIGN.md section 7 C27',
        technique='Lean 4 invariant proof over all histories x all crash points (write budget) of a syscall-level model of FilePersister (two files as byte lists, reopen = index replay) + differential correspondence with interposed write() failing after k completed calls, every crash point of every generated history',
        text=('Kernel-checked: C27_crash_safe (for every history that starts with a control store and every crash point k = number of completed write() calls: after reopen every message whose store completed is returned '
              'byte-identical, no number returns bytes never stored for it, and the control record is the last completed one), C27_further_stores (the reopened store satisfies the same invariant for every further history, so the '
              'statement holds again after any later crash), reopen_safe, and the witness theorem of the known finding C27_finding_message_before_control. Correspondence: histories of 1..6 (quick) / 1..9 (thorough) stores, EVERY crash '
              'point, on the real FilePersister with write() interposed; read-back compared with the model and with an independent oracle of the property.'),
        note=('Trusted: Lean kernel; propext, Quot.sound, Classical.choice; crash model = death between completed write() calls as stated by the property (no torn writes / fsync / page cache); a crash is realised by failing all later '
              'writes, destroying the object and reopening; harness/store.cpp. KNOWN FINDING (known_findings.json): a message stored before any control record loses its index slot (record 0) to the first control store.')),
    'C29': dict(
        category='proof', design_ref='DESIGN.md section 7 C29',
        technique='Lean 4 theorems (induction over the rename loop with a per-chain shift invariant; explicit name-list indices) about a hand-written model of FileLogger::rotate and the FilePersister purge rotation, Logger::max_rotation regenerated from the source + differential correspondence on real directories under ASan with libstdc++ assertions',
        text=('Kernel-checked for EVERY rotation count and EVERY pre-existing directory: C29_log_inbounds / C29_purge_inbounds (no access outside the generation-name lists), C29_log_shift / C29_purge_shift (name.k holds what name.(k-1) held, 1<=k<=min(count,max_rotation), '
              'for the log chain and for both chains of the file store), C29_log_holes (a missing predecessor leaves the generation empty: nothing is duplicated), C29_log_untouched / C29_purge_untouched (names above the managed range, the other chain and all other files keep their content), '
              'C29_log_no_rotation (append-mode logs are not rotated unless forced; count 0 never rotates), C29_log_live (the live file of a non-append logger is new and empty). Correspondence: FileLogger (constructor rotation, rotate(true)) and FilePersister::initialise(purge) on real '
              'temporary directories for counts {0,1,2,3,5,1023,1024,1025,1100,random} (thorough: every count 0..1100) x generation sets with holes / without live file / around and beyond the cap x other files; directory listing compared with the model and with an independent oracle of the property.'),
        note=('Trusted: Lean kernel; propext, Quot.sound, Classical.choice; directory as a finite map, rename()/open() as atomic steps, failed rename ignored as in the code; harness/rot.cpp; regexp extraction of max_rotation. '
              'Out-of-range indexing in the real code is seen through -D_GLIBCXX_ASSERTIONS/ASan in the harness build. Compressed (.gz) logs not exercised. Defect fixed in /repo (9a2911a): both loops ran from the configured count instead of the list length.')),
    'C01': dict(
        category='proof', design_ref='DESIGN.md section 7 C01',
        technique='Lean 4 theorems about a hand-written executable model of the whole codec (tokeniser, typed values as text, encode with groups, decode/decode_group/factory) whose schema is regenerated from the freshly compiled FIX42UTEST tables + differential correspondence (build through the API, encode, Message::factory, dump, re-encode) under ASan/UBSan',
        text=('Kernel-checked so far: C01_token_roundtrip (every rendered field tag=value<SOH> is tokenised back into exactly its tag text and value for every tag below 10^31 and every SOH-free value shorter than the value buffer, whatever follows), '
              'C01_tag_roundtrip (every 16-bit tag number is read back unchanged), C01_int_value_roundtrip (every 32-bit integer value, negative values and INT_MIN/INT_MAX included, prints to a text that parses back and prints identically). '
              'PARTIAL: the message-level statement (factory (encode m) = m for every conforming message with groups nested to any depth) is carried by the correspondence stream only until its proof lands: the complete executable model '
              '(sections, groups, Length/data pairs, header/body/trailer hand-over, checksum) and the real codec are run on schema-driven messages of all 46 message types (optional subsets, type-domain values, group counts 0..4 nested, '
              'data pairs, shuffled insertion order, BodyLength at the digit-count boundaries) and must agree byte for byte and field for field; an independent oracle checks decoded fields = built fields and re-encoded bytes = encoded bytes.'),
        note=('Trusted: Lean kernel; propext, Quot.sound, Classical.choice; the hand-written codec model (tied by correspondence); the schema dumper in harness/codec.cpp; values restricted to canonical texts of their type; binary64 rendering not modelled '
              '(float values are 2-digit dyadic decimals); only FIX42UTEST (FIX44 not compiled in the checks). Defects fixed in /repo on the way: 10fbd2e (endless loop in decode_group), b242f8e, acdbc65, 49332d7, 1d3fced, fc14f82, f9866b4 (see C03).')),
    'C02': dict(
        category='proof', design_ref='DESIGN.md section 7 C02',
        technique='Lean 4 theorems about the encoder model (frame, BodyLength, CheckSum digits, field rendering, group rendering, position order as an invariant of add_field, insertion-order independence by uniqueness of sorted permutations) + differential correspondence with a stand-alone wire-format recogniser as oracle',
        text=('Kernel-checked for every schema and message of the encoder model: C02_frame (8=BeginString|9=n| + header fields + body fields + trailer fields + 10=ccc|), C02_body_length (n is the canonical decimal of exactly the payload byte count), '
              'C02_checksum (ccc = three decimal digits of the byte sum of everything before, mod 256), C02_fields_rendered / C02_group_rendered (decimal tag, =, value, SOH; a group is its count field followed by its elements in order), '
              'C02_msgtype_third, C02_sorted_by_position (whatever the insertion order a section built through add_field is held in non-decreasing schema position) and C02_insertion_order_irrelevant (two insertion orders of the same fields give the same section). '
              'Correspondence: every generated message is encoded by the real encoder from 1..3 shuffled insertion orders; the bytes must equal the model and satisfy an independent recogniser of the property clauses.'),
        note=('Trusted: Lean kernel; propext, Quot.sound, Classical.choice; encoder model tied by correspondence; the std::multimap _pos is modelled as stable insertion by key; hypothesis: group count field = number of elements added; '
              'fields without a schema position (f8c -F user fields, getPos = 0) keep insertion order - excluded from the order clause; encoding the same Message object twice without setup_reuse() is outside the quantifier (DESIGN.md).')),
    'C31': dict(
        category='proof', design_ref='DESIGN.md section 7 C31',
        technique='Lean 4 theorems (induction over arbitrary interleavings of atomic steps with an invariant linking the pending queue to the trace; priority-queue tie-breaking left arbitrary) about a hand-written model of Timer<T>::operator()/schedule/clear, Tickval::million regenerated from the source + differential correspondence on the real Timer thread under a virtual clock (interposed clock_nanosleep as idle point) + threaded scenarios on the real clock with clear() forced into a running callback',
        text=('Kernel-checked for EVERY execution (any list of clock advances, schedule calls with any delay/repeat flag, clears and loop iterations with any callback results, from a fresh timer) and EVERY tie-breaking of the priority queue: '
              'C31_not_before_due (each callback run belongs to an earlier schedule call with a non-zero delay and is sampled at or after that call\'s clock value + delay), C31_schedule_due, C31_runs_minimum (the event run has the minimal due time among the pending ones, every state) and '
              'C31_due_order (at each run of an execution the event run is minimal among the events pending at that moment) / C31_due_order_trace (a later run has a smaller due time only if its schedule push came after the earlier run - schedule reads the clock before it takes the lock, witness C31_order_lag_witness), C31_repeat / C31_stops_after_false / C31_rearm_exact (two runs of one scheduled event are at least one interval apart, the earlier returned true and the event repeats; the re-queued copy is due at sampled time + interval, everything else is untouched), '
              'C31_clear / C31_sid_unique / C31_clear_empties (a run after a clear belongs to a schedule call made after that clear), C31_zero_time_discarded, C31_tick_refines / C31_tick_quiescent (a wake-up is a run of loop iterations, ends asleep, and leaves nothing due). '
              'Correspondence: the real Timer thread with a virtual clock, wake-up by wake-up against the model (delays 1-200 ms, boundaries due-1ns/due/due+1ns, ties, result switches, clears, clear() from a second thread during a callback, malformed stream); '
              'threaded scenarios on the real clock judged by an independent oracle of the four clauses.'),
        note=('Trusted: Lean kernel; propext, Quot.sound, Classical.choice; MODELLED ASSUMPTION: schedule(), clear() and one loop iteration including the callback are atomic with respect to each other (all hold _spin_lock) - exercised for real by the cclear operation and the threaded mode, not proved about pthread spin locks; '
              'the clock never goes backwards; no tick overflow; std::priority_queue::top() = some element of minimal _t (ties arbitrary); the time of a run is the `now` sampled by the loop; harness/timer.cpp (reads _event_queue.size() through an explicit-instantiation accessor), harness/vclock.hpp; '
              'the threaded mode runs under ASan, not TSan. Zero-delay events (outside the 1-200 ms quantifier) are discarded without running (theorem + correspondence; the oracle does not judge them). A callback that calls schedule()/clear() on its own timer would self-deadlock on the spin lock (not exercised).')),
    'C32': dict(
        category='proof', design_ref='DESIGN.md section 7 C32',
        technique='Lean 4 theorems (mutual structural induction over element trees for parse-after-print; potential-function argument for totality; scanner lemmas for the two reference patterns; induction over the lookup string for find) about a hand-written byte-level model of the XmlElement state machine, ParseAttrs, InplaceXlate and find, entity table / MaxDepth / regular expressions re-read from the source on every run + differential correspondence on XmlElement::Factory(std::istream&) under ASan/UBSan with extensions switched off',
        text=('Kernel-checked: C32_parse_total (on EVERY byte string the model of the parser ends with a tree or one of the parse errors of the code; the fuel 2*length+8 of the structural recursion is never exhausted) and C32_inbounds (the read position never leaves the document); '
              'C32_xlate_roundtrip (decoding undoes the escaping of & < > \" \' for every NUL-free string outside the double-decoding class) with C32_xlate_fixpoint (both replacement loops end because nothing is left to replace), C32_class_exact (the excluded class is exactly: contains &name;) and the witness theorem C32_finding_double_decoding; '
              'C32_attrs_roundtrip (ParseAttrs reads back every printed attribute map ordered by key; names without white space and = \" \' \\, not starting with /, not the reserved docpath: C32_finding_docpath); '
              'C32_parse_roundtrip (parse(print t) = t for EVERY well-formed element tree of any width and nesting up to MaxDepth = 128: same tags, attribute maps, text, child order) and C32_depth_limit; '
              'C32_find_all (find-all = the elements matched by the path components, document order, attribute filter on the last component), C32_find_first (find-first = first element of find-all, no hypothesis), C32_find_root_based. '
              'Correspondence: generated trees (depth 0..6, width 0..6, same-tag siblings, references in all written forms, comments, prolog, both quotes) with absolute / root-based / relative / degenerate lookups and GetAttr, chains around depth 128, InplaceXlate and ParseAttrs directly, '
              'and a malformed stream (random bytes up to 4 KB, truncations, damaged and unclosed documents, depth 1300); the parsed tree must be the generator\'s tree and lookups are re-evaluated on the implementation\'s own tree by an independent recursive descent.'),
        note=('Trusted: Lean kernel; propext, Quot.sound, Classical.choice; the hand-written model (tied by correspondence only); POSIX regexec modelled by scanners for the two reference patterns (pattern strings checked against the source on every run); std::map / std::multimap / std::set<.., by sequence> as sorted list / stable filter / document order; '
              'std::istringstream get/peek/putback with eofbit/failbit as modelled; libstdc++ integer extraction saturating at INT_MAX; after a failed extraction the loop body sees the previous byte (formally indeterminate, observed); harness/xmlh.cpp; tools/*.py. '
              'Hypotheses of the correspondence: flags = {noextensions} (no ${ENV}, !{cmd}, /* */), nocase off, default delimiter, no xi:include file readable. Memory safety of the real code on arbitrary bytes is observed under ASan/UBSan (330 quick / 16000 thorough malformed documents per run), not proved. '
              'KNOWN FINDINGS (known_findings.json): double-decoding (&amp;lt; -> <); reserved-docpath (attribute docpath dropped). Observed, outside the printed form: a line end directly between tag name and attribute name joins them (<a\\nb="1"> has tag ab); CDATA sections are not recognised (the test is commented out in the source).')),
}

PENDING_REASON = 'not yet covered: the Lean model and correspondence harness for this property have not been built in this framework yet (see DESIGN.md section 7 for the plan); no other technique is substituted'
