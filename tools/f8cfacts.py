"""Generated facts for the schema-compiler model (C13/C14): the FieldType enumeration and its class bounds, the f8c
type-name map, the trait bit numbers, the special tags and the rothash constants, all re-extracted from /repo on every
run into lean/Fix8Model/Gen/F8cFacts.lean.  Registers itself as gen_facts.ALL['f8c']."""
import re
import gen_facts
from gen_facts import FactError, _src, _emit


def field_types():
    s = _src('include/fix8/traits.hpp')
    m = re.search(r'enum FieldType\s*\{(.*?)\};', s, re.S)
    if not m:
        raise FactError('enum FieldType not found in include/fix8/traits.hpp')
    body = re.sub(r'//[^\n]*', '', m.group(1))
    names, alias, n = {}, {}, 0
    for e in body.split(','):
        e = e.strip()
        if not e:
            continue
        if '=' in e:
            k, v = [x.strip() for x in e.split('=')]
            if v in names:
                alias[k] = names[v]
            elif re.fullmatch(r'\d+', v):
                names[k] = int(v); n = int(v) + 1
            else:
                raise FactError('FieldType enumerator %r not understood' % e)
        else:
            if not re.fullmatch(r'\w+', e):
                raise FactError('FieldType enumerator %r not understood' % e)
            names[e] = n; n += 1
    for k in ('ft_int', 'ft_char', 'ft_float', 'ft_string', 'ft_untyped'):
        if k not in names:
            raise FactError('FieldType %s missing' % k)
    for k in ('ft_end_int', 'ft_end_char', 'ft_end_float', 'ft_end_string'):
        if k not in alias:
            raise FactError('FieldType bound %s missing' % k)
    # the class predicates must still be the closed intervals the model assumes
    for cls in ('int', 'char', 'float', 'string'):
        if not re.search(r'static bool is_%s\(FieldType ftype\)\s*\{\s*return ft_%s <= ftype && ftype <= ft_end_%s;\s*\}' % (cls, cls, cls), s):
            raise FactError('FieldTrait::is_%s is no longer the interval test ft_%s..ft_end_%s' % (cls, cls, cls))
    return names, alias


def trait_bits():
    s = _src('include/fix8/traits.hpp')
    m = re.search(r'enum TraitTypes\s*\{([^}]*)\}', s)
    if not m:
        raise FactError('enum TraitTypes not found')
    ns = [x.strip() for x in m.group(1).split(',') if x.strip()]
    want = ['mandatory', 'present', 'position', 'group', 'component', 'suppress', 'automatic']
    for w in want:
        if w not in ns:
            raise FactError('trait bit %s missing' % w)
    return {w: ns.index(w) for w in want}


def base_type_map(names):
    s = _src('compiler/f8cstatic.hpp')
    m = re.search(r'const BaseTypeMap FieldSpec::_baseTypeMap\s*\{(.*?)\};', s, re.S)
    if not m:
        raise FactError('_baseTypeMap not found in compiler/f8cstatic.hpp')
    out = []
    for k, v in re.findall(r'\{\s*"([A-Z0-9]+)"\s*,\s*FieldTrait::(\w+)\s*\}', m.group(1)):
        if v not in names:
            raise FactError('type %s maps to unknown %s' % (k, v))
        out.append((k, names[v]))
    if len(out) < 10:
        raise FactError('_baseTypeMap too small')
    return out


def rothash_consts():
    """shifts and constant of `rothash` (include/fix8/f8utils.hpp).  Read from the source text when it has the usual shape; otherwise (the
    body was rewritten) recovered from the COMPILED function: rothash is affine over GF(2), so its value at 0 and at one basis vector give
    the constant and the three shifts, and the recovered formula is then compared with the compiled function on 20000 random arguments."""
    s = _src('include/fix8/f8utils.hpp')
    m = re.search(r'inline unsigned rothash\(unsigned result, unsigned value\)\s*\{[^}]*?result \^= \(result >> (\d+)\) \^ \(result << (\d+)\) \^ \(result << (\d+)\) \^ value \^ (0x[0-9a-fA-F]+);', s, re.S)
    if m:
        return int(m.group(1)), int(m.group(2)), int(m.group(3)), int(m.group(4), 16)
    import vlib, os, random, subprocess, tempfile
    d = tempfile.mkdtemp(prefix='rothash', dir=vlib.CACHE)
    try:
        src = os.path.join(d, 'p.cpp')
        open(src, 'w').write('#include <cstdio>\n#include <cstdlib>\n#include <fix8/f8includes.hpp>\nint main(int c, char **v) { for (int i = 1; i + 1 < c; i += 2) '
                             'std::printf("%u\\n", FIX8::rothash(unsigned(std::strtoul(v[i], 0, 10)), unsigned(std::strtoul(v[i + 1], 0, 10)))); return 0; }\n')
        exe = os.path.join(d, 'p')
        rc = subprocess.run(['g++', '-std=c++11', '-w', '-DHAVE_CONFIG_H', '-I' + os.path.join(vlib.REPO, 'include'), '-I' + vlib.REPO, src, '-o', exe, '-lPocoNet', '-lPocoFoundation', '-lpthread'],
                            capture_output=True, text=True)
        if rc.returncode != 0:
            raise FactError('rothash body not recognised in include/fix8/f8utils.hpp and the probe does not compile: ' + rc.stderr[-300:])

        def call(pairs):
            o = subprocess.run([exe] + [str(x) for p in pairs for x in p], capture_output=True, text=True).stdout.split()
            return [int(x) for x in o]
        c, b16 = call([(0, 0), (1 << 16, 0)])
        bits = [k for k in range(32) if ((b16 ^ c ^ (1 << 16)) >> k) & 1]
        lo = [16 - k for k in bits if k < 16]
        hi = sorted(k - 16 for k in bits if k > 16)
        if len(lo) != 1 or len(hi) != 2:
            raise FactError('rothash is no longer of the form r ^ (r >> a) ^ (r << b) ^ (r << c) ^ v ^ K (probe: K=%#x, basis image %#x)' % (c, b16))
        a, b1, b2 = lo[0], hi[0], hi[1]
        rng = random.Random(7)
        pairs = [(rng.getrandbits(32), rng.getrandbits(32)) for _ in range(20000)]
        got = []
        for i in range(0, len(pairs), 2000):
            got += call(pairs[i:i + 2000])
        for (r, v), g in zip(pairs, got):
            if (r ^ (r >> a) ^ ((r << b1) & 0xffffffff) ^ ((r << b2) & 0xffffffff) ^ v ^ c) != g:
                raise FactError('rothash is no longer of the form r ^ (r >> %d) ^ (r << %d) ^ (r << %d) ^ v ^ %#x: differs at (%d, %d)' % (a, b1, b2, c, r, v))
        return a, b1, b2, c
    finally:
        import shutil
        shutil.rmtree(d, ignore_errors=True)


def common_tags():
    s = _src('include/fix8/field.hpp')
    out = {}
    for k in ('BeginString', 'BodyLength', 'CheckSum', 'MsgType'):
        m = re.search(r'const unsigned short Common_%s\((\d+)\);' % k, s)
        if not m:
            raise FactError('Common_%s not found' % k)
        out[k] = int(m.group(1))
    return out


def facts():
    names, alias = field_types()
    return dict(names=names, alias=alias, bits=trait_bits(), types=base_type_map(names), rh=rothash_consts(), tags=common_tags())


def f8c_facts():
    f = facts()
    n, a, b, t = f['names'], f['alias'], f['bits'], f['tags']
    s1, s2, s3, c = f['rh']
    body = ('/-- `FieldTrait::FieldType` enumerators in order -/\ndef ftNames : List (String × Nat) := [%s]\n\n'
            % ', '.join('("%s", %d)' % (k, v) for k, v in sorted(n.items(), key=lambda x: x[1])))
    body += 'def ftInt : Nat := %d\ndef ftEndInt : Nat := %d\ndef ftChar : Nat := %d\ndef ftEndChar : Nat := %d\n' % (n['ft_int'], a['ft_end_int'], n['ft_char'], a['ft_end_char'])
    body += 'def ftFloat : Nat := %d\ndef ftEndFloat : Nat := %d\ndef ftString : Nat := %d\ndef ftEndString : Nat := %d\n\n' % (n['ft_float'], a['ft_end_float'], n['ft_string'], a['ft_end_string'])
    body += '/-- `FieldSpec::_baseTypeMap` of f8c: upper-cased type attribute -> FieldType -/\ndef baseTypeMap : List (String × Nat) := [\n%s]\n\n' % ',\n'.join('  ("%s", %d)' % kv for kv in f['types'])
    body += ''.join('def bit%s : Nat := %d\n' % (k.capitalize(), v) for k, v in b.items())
    body += '\ndef tagBeginString : Nat := %d\ndef tagBodyLength : Nat := %d\ndef tagCheckSum : Nat := %d\ndef tagMsgType : Nat := %d\n\n' % (t['BeginString'], t['BodyLength'], t['CheckSum'], t['MsgType'])
    body += '/-- `rothash`: result ^= (result >> %d) ^ (result << %d) ^ (result << %d) ^ value ^ 0x%x -/\ndef rhShr : Nat := %d\ndef rhShl1 : Nat := %d\ndef rhShl2 : Nat := %d\ndef rhConst : Nat := %d\n' % (s1, s2, s3, c, s1, s2, s3, c)
    _emit('F8cFacts', body)
    return f


gen_facts.ALL['f8c'] = f8c_facts
