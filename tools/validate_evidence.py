#!/usr/bin/env python3
"""validate every evidence/<id>.json against /root/.vp/EVIDENCE.schema.json (a copy of the schema is not kept here: the file
under /root/.vp is authoritative) plus the rules a clean-tree proof-level record must meet: violations = 0, discharged = obligations >= 1.
Run before committing: an evidence file written while a seeded change was applied must never be committed."""
import json, os, sys, glob
ROOT = os.path.dirname(os.path.dirname(os.path.abspath(__file__)))
bad = 0
try:
    import jsonschema
    schema = json.load(open('/root/.vp/EVIDENCE.schema.json'))
except Exception as e:     # noqa
    jsonschema = None
    print('schema validation skipped:', e)
m = json.load(open(os.path.join(ROOT, 'MANIFEST.json')))
for c in m['checks']:
    pid = c['property_id']
    p = os.path.join(ROOT, 'evidence', pid + '.json')
    if not os.path.exists(p):
        print(pid, 'MISSING'); bad += 1; continue
    e = json.load(open(p))
    probs = []
    if jsonschema:
        for err in jsonschema.Draft202012Validator(schema).iter_errors(e):
            probs.append('schema: ' + err.message[:120])
    cov = e.get('coverage', {})
    if e.get('violations', 0):
        probs.append('violations = %s' % e.get('violations'))
    if 'obligations' in cov and (cov.get('discharged') != cov.get('obligations') or not cov.get('obligations')):
        probs.append('discharged %s != obligations %s' % (cov.get('discharged'), cov.get('obligations')))
    if cov.get('oracle_failures'):
        probs.append('oracle_failures = %s' % cov.get('oracle_failures'))
    if e.get('level') != c['level_claimed']['category']:
        probs.append('level %s != claimed %s' % (e.get('level'), c['level_claimed']['category']))
    if not cov.get('samples'):
        probs.append('no samples')
    if probs:
        bad += 1
        print(pid, '; '.join(probs))
print('evidence files with problems:', bad)
sys.exit(1 if bad else 0)
