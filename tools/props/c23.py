"""C23 logon acceptance / SessionID identity: theorems Props.C23 + stream `sesshb` (`lg` and `sid` lines: a real
FIX8::Session of either role over loopback TCP fed with Logon frames; SessionID comparisons on the real class)"""
import itertools
import contextlib
import vlib, gen_facts

THEOREMS = ['C23_acceptor_completes_iff', 'C23_acceptor_only_when', 'C23_response_echoes_hbi', 'C23_completes_answers',
            'C23_reset_both_one', 'C23_initiator_mismatch_iff', 'C23_initiator_mirrored_completes', 'C23_initiator_no_enforcement',
            'C23_sessionid_ne_iff', 'C23_sessionid_eq_iff', 'C23_finding_ne_as_was', 'C23_ne_as_was_class']

IDS = [b'SRV', b'CLI', b'A', b'TEX1', b'DLD_TEX', b'X Y', b'a=b', b'\xc4\xd6', b'Z' * 40]


@contextlib.contextmanager
def chunked_harness_runs(n=150):
    """every scenario line builds a whole session + connection under ASan/UBSan (20..100 ms depending on machine load);
    vlib.run_harness allows ~60 s per harness process, so the (stateless) script is fed in pieces of n lines"""
    orig = vlib.run_harness

    def run(exe, lines, **kw):
        outs, aborts = [], []
        for i in range(0, len(lines), n):
            o, a = orig(exe, lines[i:i + n], **kw)
            outs += o
            aborts += [(p + i, e) for p, e in a]
        return outs, aborts
    vlib.run_harness = run
    try:
        yield
    finally:
        vlib.run_harness = orig


def hx(b):
    return b.hex() if b else '-'


def variants(rng, own):
    """CompID values in the classes of the property relative to an own id: equal, case difference, prefix, extension, empty, other"""
    return [own, own.swapcase() if own.swapcase() != own else own + b'x', own[:-1], own + b'1', b'', rng.choice([i for i in IDS if i != own])]


def gen_logon_line(rng, malformed=False):
    role = rng.choice('AAI')
    enf = rng.random() < 0.7
    ownS = rng.choice(IDS)
    ownT = rng.choice([i for i in IDS if i != ownS])
    peer = ownT
    # what the Logon carries: classes matching / swapped / one side differing / both differing / empty / case / prefix
    c = rng.random()
    if c < 0.4:
        snd, tgt = peer, ownS                       # mirrors the identity
    elif c < 0.5:
        snd, tgt = ownS, peer                       # swapped
    elif c < 0.65:
        snd, tgt = peer, rng.choice(variants(rng, ownS)[1:])      # target differs
    elif c < 0.8:
        snd, tgt = rng.choice(variants(rng, peer)[1:]), ownS      # sender differs
    else:
        snd, tgt = rng.choice(variants(rng, peer)), rng.choice(variants(rng, ownS))
    clients = '-'
    if role == 'A' and rng.random() < 0.5:
        ents = []
        for _ in range(rng.randrange(1, 4)):
            who = rng.choice([snd, snd, rng.choice(IDS), snd[:-1], snd + b'1'])
            if who:
                ents.append('%s:%d' % (who.hex(), rng.choice([0, 0, 1, 2])))
        clients = ','.join(ents) or '-'
    reqS = rng.choice([0, 0, 0, rng.randrange(1, 200)])
    reqR = rng.choice([0, 0, 0, rng.randrange(1, 200)])
    rec = rng.choice(['-', '-', 'e', '%d,%d' % (rng.randrange(1, 300), rng.randrange(1, 300))])
    reset = rng.choice(['-', '-', 'Y', 'Y', 'N'])
    rsn = 1 if (role == 'I' and rng.random() < 0.2) or (role == 'A' and rng.random() < 0.05) else 0
    sched = rng.choice([0, 0, 0, 0, 1, 2]) if role == 'A' else 0
    auth = 0 if role == 'A' and rng.random() < 0.07 else 1
    silent = 1 if rng.random() < 0.15 else 0
    hb0 = rng.choice([0, 1, 10, 30, 120])
    hbi = rng.choice([0, 1, 5, 20, 30, 37, 120, 86400]) if rng.random() < 0.93 else rng.choice([-1, -7, 2147483647])
    exp = expected_numbers(role, rsn, reqS, reqR, rec, reset)[1]
    c = rng.random()
    pd = 0
    if c < 0.72:
        seq = exp
    elif c < 0.8:
        seq = exp + rng.randrange(1, 5)
    elif c < 0.88:
        seq = max(0, exp - rng.randrange(1, 4))
    else:
        seq = max(0, exp - rng.randrange(0, 3)); pd = rng.choice([1, 1, 2, 3])
    f1 = [str(seq), hx(snd), hx(tgt), str(hbi), reset, str(pd)]
    if malformed:
        k = rng.choice([1, 2, 3])
        f1[k] = '~'
    frames = [','.join(f1)]
    if not malformed and rng.random() < 0.15:
        # an undecodable Logon first (it is rejected and consumes a number), then this one
        bad = list(f1)
        bad[rng.choice([1, 2, 3])] = '~'
        bad[0] = str(rng.choice([1, seq, exp]))
        if rng.random() < 0.6:
            f1[0] = str(rng.choice([1, 2, exp, exp + 1, seq]))
        frames = [','.join(bad), ','.join(f1)]
    if rng.random() < 0.12:
        frames.append(','.join([str(seq + 1), hx(snd), hx(tgt), str(rng.choice([hbi, 25])), rng.choice(['-', 'Y']), '0']))
    return 'lg %s %d %s %s %s %d %d %s %d %d %d %d %d %s' % (role, enf, hx(ownS), hx(ownT if role == 'I' else b''), clients, reqS, reqR, rec,
                                                         sched, auth, hb0, rsn, silent, ';'.join(frames))


def expected_numbers(role, rsn, reqS, reqR, rec, reset):
    """(next send, next receive) against which the Logon is checked, from the property's reading of reset / recovery / request"""
    rs = rr = 1
    if ',' in rec:
        a, b = rec.split(',')
        rs, rr = int(a), int(b)
    if role == 'I':
        if rsn:
            return 1, 1
        return (reqS or rs), (reqR or rr)
    if reset == 'Y':
        return 1, 1
    return (reqS or rs), (reqR or rr)


def gen_sid(rng, thorough):
    lines = []
    if thorough:
        alpha = [b'', b'A', b'B', b'a']
        tri = list(itertools.product([b'FIX.4.2', b'FIX.4.4'], alpha, alpha))
        for x in tri:
            for y in tri:
                lines.append('sid ' + ' '.join(hx(v) for v in x + y))
    pool = IDS + [b'', b'srv', b'SRV1', b'SR']
    for _ in range(400 if thorough else 90):
        b1 = rng.choice([b'FIX.4.2', b'FIX.4.2', b'FIX.4.4', b''])
        s1, t1 = rng.choice(pool), rng.choice(pool)
        c = rng.random()
        if c < 0.25:
            x = (b1, s1, t1)
        elif c < 0.45:
            x = (b1, s1, rng.choice(pool))
        elif c < 0.65:
            x = (b1, rng.choice(pool), t1)
        elif c < 0.75:
            x = (b1, t1, s1)
        elif c < 0.85:
            x = (rng.choice([b'FIX.4.4', b'FIXT.1.1']), s1, t1)
        else:
            x = (rng.choice([b'FIX.4.2', b'']), rng.choice(pool), rng.choice(pool))
        lines.append('sid ' + ' '.join(hx(v) for v in (b1, s1, t1) + x))
    return lines


def gen(rng, thorough):
    lines = gen_sid(rng, thorough)
    for _ in range(2600 if thorough else 200):
        lines.append(gen_logon_line(rng))
    for _ in range(300 if thorough else 30):
        lines.append(gen_logon_line(rng, malformed=True))
    return lines


# ------------------------------------------------------------------------------------------------
def parse_seg(seg):
    w = seg.split()
    if len(w) < 6:
        return None
    frames = []
    if w[0] != '-':
        for f in w[0].split('|'):
            p = f.split(':')
            d = {'35': p[0]}
            for kv in p[1:]:
                k, v = kv.split('=', 1)
                d[k] = v
            frames.append(d)
    d = dict(kv.split('=', 1) for kv in w[1:] if '=' in kv)
    return dict(frames=frames, st=d.get('st'), ns=int(d.get('ns', -1)), nr=int(d.get('nr', -1)), sd=d.get('sd') == '1',
                hb=d.get('hb'), pc=d.get('pc'))


def unhx(h):
    return b'' if h == '-' else bytes.fromhex(h)


def oracle(line, out):
    w = line.split()
    if out.startswith(('abort', 'bad-op', 'skipped', 'throw', 'start-failed')) or ' threw' in out:
        return (False, None)
    if w[0] == 'sid':
        try:
            d = dict(kv.split('=') for kv in out.split())
            b1, s1, t1, b2, s2, t2 = [unhx(x) for x in w[1:7]]
            equal = s1 == s2 and t1 == t2          # what operator== compares
            ok = (d['eq'] == '1') == equal and (d['ne'] == '1') == (not equal) and d['req'] == d['eq'] and d['rne'] == d['ne'] \
                and d['seq'] == '1' and d['sne'] == '0'
            return (ok, None)
        except Exception:
            return (False, None)
    if w[0] != 'lg':
        return (None, None)
    role, enf, ownS, ownT, cl = w[1], w[2] == '1', unhx(w[3]), unhx(w[4]), w[5]
    reqS, reqR, rec, sched, auth, hb0, rsn, silent = int(w[6]), int(w[7]), w[8], int(w[9]), w[10] == '1', int(w[11]), w[12] == '1', w[13] == '1'
    frames = w[14].split(';')
    segs = [parse_seg(s) for s in out.split(' / ')]
    if any(s is None for s in segs) or len(segs) < 2:
        return (False, None)
    s0 = segs[0]
    problems = []
    # before the first Logon
    if role == 'A' and (s0['st'] != 'wait_for_logon' or s0['frames']):
        problems.append('acceptor not waiting for logon after start')
    if role == 'I' and (s0['st'] != 'logon_sent' or [x['35'] for x in s0['frames']] != ['A']):
        problems.append('initiator did not send its Logon')
    entries = []
    if cl != '-':
        for it in cl.split(','):
            h, ip = it.split(':')
            entries.append((unhx(h), int(ip)))
    for i, fr in enumerate(frames):
        if i + 1 >= len(segs):
            break                               # the session was shut down before this frame
        prev, cur = segs[i], segs[i + 1]
        if prev['st'] == 'continuous':
            continue                            # already logged on: not the subject of the property
        f = fr.split(',')
        seq = int(f[0])
        completed = cur['st'] == 'continuous' and not cur['sd']
        if '~' in f[1:4]:
            if completed:
                problems.append('an undecodable Logon completed the logon')
            continue
        snd, tgt, hbi, reset, pd = unhx(f[1]), unhx(f[2]), int(f[3]), f[4], int(f[5])
        if i == 0:
            exp_ns, exp_nr = expected_numbers(role, rsn, reqS, reqR, rec, reset)
        elif role == 'I':
            exp_ns, exp_nr = prev['ns'], prev['nr']
        elif reset == 'Y':
            exp_ns, exp_nr = 1, 1
        else:                                   # recovery reads the control record as it is now, else the numbers stand
            base = tuple(int(x) for x in prev['pc'].split(',')) if prev['pc'] and ',' in prev['pc'] else (prev['ns'], prev['nr'])
            exp_ns, exp_nr = (reqS or base[0]), (reqR or base[1])
        seq_ok = seq == exp_nr or (seq < exp_nr and pd == 1)
        logons = [x for x in cur['frames'] if x['35'] == 'A']
        if role == 'A':
            comp_ok = (not enf) or tgt == ownS
            listed = (not entries) or any(k == snd for k, _ in entries)
            # the property: completes ONLY WHEN ...
            if completed and not (comp_ok and listed):
                problems.append('acceptor completed logon although %s' % ('TargetCompID is not its SenderCompID' if not comp_ok else 'the sender is not in the client list'))
            if not (comp_ok and listed) and (cur['frames'] or cur['st'] != 'session_terminated' or not cur['sd']):
                problems.append('a Logon failing the CompID / client test was not simply dropped with termination')
            ip_ok = (not entries) or next((ip in (0, 1) for k, ip in entries if k == snd), False)
            should = comp_ok and listed and ip_ok and auth and sched != 2 and seq_ok
            if completed != should:
                problems.append('acceptor %s logon, expected %s' % ('completed' if completed else 'did not complete', 'completion' if should else 'refusal'))
            for x in logons:
                if x.get('108') != str(hbi):
                    problems.append('Logon response does not echo HeartBtInt %d (108=%s)' % (hbi, x.get('108')))
                if unhx(x['49']) != tgt or unhx(x['56']) != snd:
                    problems.append('Logon response is not addressed back')
                if reset == 'Y' and x['34'] != '1':
                    problems.append('ResetSeqNumFlag=Y but the Logon response has MsgSeqNum %s' % x['34'])
                if reset != 'Y' and x['34'] != str(exp_ns):
                    problems.append('Logon response MsgSeqNum %s, expected %d' % (x['34'], exp_ns))
            if completed:
                if len(logons) != 1 or len(cur['frames']) != 1:
                    problems.append('completed logon without exactly one Logon response')
                if reset == 'Y' and (cur['ns'], cur['nr']) != (2, 2):
                    problems.append('ResetSeqNumFlag=Y but the numbers after logon are %d/%d, not 2/2' % (cur['ns'], cur['nr']))
                if reset != 'Y' and (cur['ns'], cur['nr']) != (exp_ns + 1, exp_nr + 1):
                    problems.append('numbers after logon %d/%d, expected %d/%d' % (cur['ns'], cur['nr'], exp_ns + 1, exp_nr + 1))
                if cur['hb'] is None or int(cur['hb'].split(',')[0]) != hbi % 4294967296:
                    problems.append('heartbeat interval of the connection is not the Logon\'s')
            elif logons and sched != 2:
                problems.append('Logon response written although the logon was not completed')
        else:
            mirrored = snd == ownT and tgt == ownS
            terminated = cur['st'] == 'session_terminated'
            if enf and terminated != (not mirrored):
                problems.append('initiator with CompID enforcement: response %s its identity but the session is %s'
                                % ('mirrors' if mirrored else 'does not mirror', cur['st']))
            if enf and not mirrored and (cur['frames'] or not cur['sd']):
                problems.append('mismatching Logon response not followed by a silent stop')
            should = (mirrored or not enf) and seq_ok
            if completed != should:
                problems.append('initiator %s logon, expected %s' % ('completed' if completed else 'did not complete', 'completion' if should else 'refusal'))
            if logons:
                problems.append('initiator answered a Logon with a Logon')
    return (not problems, None)


def nontrivial(line):
    w = line.split()
    if w[0] == 'sid':
        return line
    if w[0] == 'lg' and any('~' not in f for f in w[14].split(';')[:2]):
        return line
    return None


def run(res, replay=None):
    rng = vlib.rng_for('C23', res.seed)
    errs = gen_facts.generate(['sess_consts'])
    if replay:
        lines = [l.strip() for l in open(replay) if l.strip() and not l.startswith('#')]
    else:
        lines = vlib.corpus_lines('C23') + gen(rng, res.tier == 'thorough')
    res.assumptions += ['setting of the model and harness: no SessionConfig object (_sf == 0), _reliable off, process model pm_thread (synchronous writes), default handle_admin; authenticate() and the login schedule are inputs',
                        '_last_received is set by FIXReader::read before process(); the harness calls update_received() then process() with frames it builds itself (BodyLength/CheckSum correct)',
                        'sequence numbers are modelled as naturals (no 2^32 wrap); HeartBtInt within int32',
                        'the client list is an unordered_map filled by insert(): the first entry of a key wins, as List.find? in the model',
                        'SessionID comparisons: the value does not depend on object identity (this == &that implies equal fields)']
    res.cov['rule'] = ('lg: both roles x CompID classes (mirrored, swapped, sender / target / both differing: case difference, prefix, extension, empty, other id) x enforce flag x client lists '
                       '(absent, listing the sender with any/peer/other address, not listing it, duplicates) x ResetSeqNumFlag (absent/Y/N) x requested numbers x recovered control record x MsgSeqNum '
                       '(expected, high, low, low with PossDup and earlier/later OrigSendingTime) x schedule / authenticate / silent flags x HeartBtInt values, sometimes a second Logon, sometimes an undecodable Logon first (every frame that meets a session not yet logged on is judged); malformed: a mandatory '
                       'field absent.  sid: generated triples (thorough: all pairs over {FIX.4.2,FIX.4.4} x {"",A,B,a}^2 plus random).  distinct by line; non-trivial = decodable first Logon or a comparison')
    with chunked_harness_runs():
        vlib.decide_stream(res, module='Fix8Model.Props.C23', theorems=THEOREMS, stream='sesshb', harness_name='sesshb',
                           lines=lines, oracle=oracle, nontrivial=nontrivial,
                           harness_kw=dict(need_schema=True, extra_flags=['-ldl']),
                           extra_obligation_problems=errs)
