"""C28 loggers: theorems Props.C28 + stream `log` (real Logger/FileLogger/PipeLogger: scripted single-stepped writer thread compared
line by line with the model; free-running 1..8 producer threads + stop() at scripted moments judged by the property oracle)"""
import re
import vlib, gen_facts

THEOREMS = ['C28_file_is_ticket_prefix', 'C28_exactly_once', 'C28_producer_order', 'C28_sequence_consecutive', 'C28_sequence_consecutive_plain',
            'C28_filtered_never_written', 'C28_return_value', 'C28_return_value_disabled', 'C28_stop_writes_all',
            'C28_accepted_before_stop_written', 'C28_stop_returns', 'C28_finding_lost_on_stop', 'C28_finding_inverted_return',
            'C28_finding_empty_line']
LEVEL_NAMES = ['Debug', 'Info ', 'Warn ', 'Error', 'Fatal']     # checked against the source by gen_facts.logger_facts (Gen/LoggerFacts.lean)
FLAGSETS = ['s', 's', 's', 'sd', 'sd', 'sdl', 'sl', 'd', 'l', 'dl', '-']
LEVELSETS = [31, 31, 31, 30, 30, 28, 22, 21, 1, 0]


# ------------------------------------------------------------------------------------------------ generator
def gen_segment(rng, allow_empty):
    kind = 'pipe' if rng.random() < 0.2 else 'file'
    levels = rng.choice(LEVELSETS) if rng.random() < 0.8 else rng.randrange(32)
    flags = rng.choice(FLAGSETS)
    out = ['new %s %d %s' % (kind, levels, flags)]
    cnt = {}
    npid = rng.randrange(1, 5)
    plan = rng.choice(['close', 'stop', 'stop', 'split', 'split', 'split'])
    phase = 0           # 0 running, 1 flag set, 2 empty element enqueued, 3 stop()/join done
    empty_at = rng.randrange(0, 12) if allow_empty and rng.random() < 0.5 else -1
    nops = rng.randrange(1, 30)
    blank_used = False
    for i in range(nops):
        c = rng.random()
        if i == empty_at:
            en = [l for l in range(5) if levels >> l & 1]
            if en:
                out.append('send %d %d 0 -' % (rng.randrange(1, npid + 1), rng.choice(en)))
            else:
                out.append('enq %d %d 0 -' % (rng.randrange(1, npid + 1), rng.randrange(5)))
        elif c < 0.62:
            p = rng.randrange(1, npid + 1)
            n = cnt.get(p, 0)
            cnt[p] = n + 1
            # 6%: the text ends with a line feed; once in a while the text is a line feed only (a blank separator line) - `^` = LF
            lf = flags != '-' and rng.random() < 0.06
            text = 'p%d-%d%s' % (p, n, '^' if lf else '')
            if 's' in flags and not blank_used and rng.random() < 0.02:
                text = '^'; blank_used = True
            out.append('%s %d %d %d %s' % ('enq' if rng.random() < 0.12 else 'send', p, rng.randrange(5), rng.choice((0, 0, 1, 7)), text))
        elif c < 0.80:
            out.append('run')
        elif c < 0.86:
            out.append('dump')
        elif plan == 'stop' and phase == 0:
            out.append('stop'); phase = 3
        elif plan == 'split' and phase < 3:
            out.append(('flag', 'sentinel', 'join')[phase]); phase += 1
        else:
            out.append('run')
    if plan == 'split' and phase in (1, 2) and rng.random() < 0.7:
        while phase < 3:
            out.append(('flag', 'sentinel', 'join')[phase]); phase += 1
    elif plan == 'stop' and phase == 0 and rng.random() < 0.7:
        out.append('stop')
    out.append('close')
    return out


MALFORMED = ['send 1 1 0 x', 'run', 'close', 'flag', 'new file 32 s', 'new tape 31 s', 'new file 31 sx', 'new file 31', 'thr file 31 s 0 10 after 0',
             'thr file 31 s 9 10 after 0', 'thr file 31 s 2 10 never 0', 'new file 3 s', 'send 1 5 0 x', 'send 1 -1 0 x', 'send 1 1', 'enq 1 9 0 x', 'bogus',
             'dump', 'close', 'close', 'stop', 'join']


def gen_thr(rng, thorough):
    out = []
    heavy = 4 if thorough else 2
    for i in range(heavy):       # contention: many producers, long bursts, plain sequence column
        out.append('thr file 31 %s 8 %d after 0' % (rng.choice(['s', 's', 'sd']), 5000 if thorough else 4000))
    n = 48 if thorough else 12
    for i in range(n):
        kind = 'pipe' if rng.random() < 0.2 else 'file'
        levels = rng.choice([31, 31, 30, 28, 22, 21])
        flags = rng.choice(['s', 's', 'sd', 'sdl', 'sl', 'sd'])
        nprod = rng.randrange(1, 9)
        nlines = rng.choice([1, 5, 50, 200, 200, 1000, 1000, 3000 if thorough else 2000])
        mode = rng.choice(['after', 'after', 'mid', 'mid', 'mid', 'start'])
        out.append('thr %s %d %s %d %d %s %d' % (kind, levels, flags, nprod, nlines, mode, rng.randrange(0, 101)))
    return out


def gen_stalled(rng):
    """a producer descheduled between its ticket and the publication of its element while other producers complete their sends
    and stop() begins (at most two complete sends behind one stalled ticket: a third one of the default four slots would spin)"""
    out = ['new file %d %s' % (rng.choice((31, 31, 30)), rng.choice(['s', 'sd', 'sl']))]
    cnt = {}
    def call(op, p):
        n = cnt.get(p, 0); cnt[p] = n + 1
        out.append('%s %d %d %d p%d-%d' % (op, p, rng.randrange(1, 5), rng.choice((0, 1)), p, n))
    for _ in range(rng.randrange(0, 3)):
        call('send', rng.randrange(1, 3))
    if rng.random() < 0.5:
        out.append('run')
    call('take', 3)
    for _ in range(rng.randrange(1, 3)):
        call('send', rng.randrange(1, 3))
    order = rng.choice(('stop-first', 'publish-first', 'run-between'))
    if order == 'publish-first':
        out += ['publish 3', 'flag', 'sentinel', 'join']
    elif order == 'stop-first':
        out += ['flag', 'sentinel', 'run', 'publish 3', 'join']
    else:
        out += ['run', 'flag', 'run', 'sentinel', 'run', 'publish 3', 'run', 'join']
    out.append('close')
    return out


def gen(rng, thorough):
    lines = []
    for i in range(40 if thorough else 6):
        lines += gen_stalled(rng)
    # stop() immediately after creation, before the writer thread may have started (missed seed C28-4)
    lines += ['quick %d %d' % (60 if thorough else 25, n) for n in (1, 3, 10)]
    nseg = 500 if thorough else 120
    for i in range(nseg):
        lines += gen_segment(rng, allow_empty=(i % 25 == 7))
        if i % 40 == 3:
            lines += [rng.choice(MALFORMED) for _ in range(3)] if i % 80 else list(MALFORMED)
    thr = gen_thr(rng, thorough)
    # interleave the threaded runs with scripted segments (a logger object after many thread generations)
    for i, t in enumerate(thr):
        lines.append(t)
        if i % 4 == 0:
            lines += gen_segment(rng, False)
    return lines


# ------------------------------------------------------------------------------------------------ oracle (the property, independent of the model)
def parse_file_line(l, flags):
    """-> (seq|None, dir|None, levelname|None, text) or None"""
    pos = 0
    seq = d = lv = None
    if 's' in flags:
        m = re.match(r'(\d{7,}) ', l)
        if not m:
            return None
        seq = int(m.group(1)); pos = m.end()
    if 'd' in flags:
        d = l[pos:pos + 3]
        if d not in (' in', 'out') or l[pos + 3:pos + 4] != ' ':
            return None
        pos += 4
    if 'l' in flags:
        lv = l[pos:pos + 5]
        if lv not in LEVEL_NAMES or l[pos + 5:pos + 6] != ' ':
            return None
        pos += 6
    return seq, d, lv, l[pos:]


class Oracle:
    def __init__(self):
        self.live = False
        self.stats = dict(segments=0, scripted_calls=0, files_checked=0, thr_runs=0, thr_lines=0, thr_stop_modes={}, empty_line_segments=0,
                          lines_required_written=0, split_stop=0, real_stop=0, dtor_stop=0)

    def start(self, w):
        try:
            lv = int(w[2])
        except ValueError:
            return False
        if w[1] not in ('file', 'pipe') or not (0 <= lv <= 31) or (w[3] != '-' and re.sub('[sdl]', '', w[3])):
            return False
        self.live, self.pipe, self.levels, self.flags = True, w[1] == 'pipe', lv, ('' if w[3] == '-' else w[3])
        self.calls = {}          # text -> (pid, n, level, val, accepted, before_stop)
        self.order = []          # accepted texts in call order
        self.stop_begun = False  # request_stop() / stop() / destructor has begun
        self.empty = False       # a producer submitted an empty line (known finding class)
        self.npid = {}
        self.stats['segments'] += 1
        return True

    def check_file(self, out, final):
        """the property on the file content"""
        if not out.startswith('file='):
            return 'no file content'
        body = out[5:]
        if body.endswith(' hang'):
            return 'the destructor (stop()) did not return'
        if body == '?':
            return None
        phys = [] if body == '-' else body.split('|')
        # a submitted text ending in a line feed (`^` in the script) occupies its own physical line plus an empty one
        flines, i = [], 0
        while i < len(phys):
            fl = phys[i]
            pr0 = parse_file_line(fl, self.flags) if fl != '~' else None
            if pr0 is not None and (pr0[3] + '^') in self.calls and i + 1 < len(phys) and phys[i + 1] == '~':
                flines.append((fl, pr0[3] + '^'))
                i += 2
            else:
                flines.append((fl, None))
                i += 1
        seen = {}
        last = {}
        cnt = {True: 0, False: 0}
        for fl, logical in flines:
            if fl == '~':
                return 'an empty line was written'
            pr = parse_file_line(fl, self.flags)
            if pr is None:
                return 'unparseable line %r' % fl
            seq, d, lv, text = pr
            if logical is not None:
                text = logical
            c = self.calls.get(text)
            if c is None:
                return 'a line that was never submitted was written: %r' % fl
            pid, n, level, val, accepted, before = c
            if not accepted:
                return 'a line at a disabled level was written: %r' % fl
            if text in seen:
                return 'line written twice: %r' % text
            seen[text] = 1
            if last.get(pid, -1) >= n:
                return 'lines of producer %d out of submission order at %r' % (pid, text)
            last[pid] = n
            if d is not None and d != (' in' if val else 'out'):
                return 'direction column wrong in %r' % fl
            if lv is not None and lv != LEVEL_NAMES[level]:
                return 'level column wrong in %r' % fl
            if seq is not None:
                k = (val != 0) if 'd' in self.flags else True
                cnt[k] += 1
                if seq != cnt[k]:
                    return 'sequence numbers not consecutive in file order at %r (expected %d)' % (fl, cnt[k])
        if final:
            self.stats['files_checked'] += 1
            for text in self.order:
                if self.calls[text][5]:
                    self.stats['lines_required_written'] += 1
                    if text not in seen:
                        return 'line %r was accepted before stop but is not in the file' % text
        return None

    def __call__(self, line, out):
        w = line.split()
        if out.startswith(('abort', 'skipped', 'throw')):
            return (False, None)
        if not w:
            return (None, None)
        if w[0] == 'thr':
            return self.thr(w, out)
        if w[0] == 'quick':
            self.live = False
            return (len(w) == 3 and out == 'quick ok=%s of %s' % (w[1], w[1]), None)
        if w[0] == 'djoin':
            self.live = False
            return (out == 'dtor=prompt join=0', None)
        if w[0] == 'new':
            if not (len(w) == 4 and self.start(w)):
                return (out == 'bad-op', None)
            return (out == 'ok', None)
        if not self.live:
            return (out == 'bad-op', None)
        klass = 'empty-line' if self.empty else None
        if w[0] in ('send', 'enq'):
            if len(w) != 5 or not all(re.fullmatch(r'\d+', x) for x in w[1:4]) or int(w[2]) > 4:
                return (out == 'bad-op', None)
            pid, level, val = int(w[1]), int(w[2]), int(w[3])
            accepted = w[0] == 'enq' or bool(self.levels >> level & 1)
            self.stats['scripted_calls'] += 1
            if w[4] == '-':
                if accepted:
                    self.empty = True
                    self.stats['empty_line_segments'] += 1
            else:
                n = self.npid.get(pid, 0)
                self.npid[pid] = n + 1
                self.calls[w[4]] = (pid, n, level, val, accepted, not self.stop_begun)
                if accepted:
                    self.order.append(w[4])
            # the call reports success exactly when the line was accepted; a disabled level reports true by contract (logger.hpp)
            return (out == 'ret=1', None)
        if w[0] == 'take':
            # send() by a producer that is descheduled between its queue ticket and the publication of its element
            if len(w) != 5 or not all(re.fullmatch(r'\d+', x) for x in w[1:4]) or int(w[2]) > 4 or w[4] == '-':
                return (out == 'bad-op', None)
            pid, level, val = int(w[1]), int(w[2]), int(w[3])
            accepted = bool(self.levels >> level & 1)
            n = self.npid.get(pid, 0)
            self.npid[pid] = n + 1
            self.stats['stalled_takes'] = self.stats.get('stalled_takes', 0) + 1
            if not accepted:
                self.calls[w[4]] = (pid, n, level, val, False, not self.stop_begun)
                return (out == 'ret=1', None)
            self.pending = getattr(self, 'pending', {})
            self.pending[pid] = (w[4], n, level, val)
            self.calls[w[4]] = (pid, n, level, val, True, False)       # not accepted before stop unless published before stop
            return (out == 'ok', None)
        if w[0] == 'publish':
            pend = getattr(self, 'pending', {})
            if len(w) != 2 or not w[1].isdigit() or int(w[1]) not in pend:
                return (out == 'bad-op', None)
            text, n, level, val = pend.pop(int(w[1]))
            self.calls[text] = (int(w[1]), n, level, val, True, not self.stop_begun)    # send() returns now
            self.order.append(text)
            return (out == 'ret=1', None)
        if w[0] == 'run':
            return (out in ('parked', 'exited'), klass)
        if w[0] == 'flag':
            self.stop_begun = True
            self.stats['split_stop'] += 1
            return (out == 'ok', None)
        if w[0] == 'sentinel':
            return (out == 'ok', None)
        if w[0] == 'join':
            return (out == 'joined', klass)
        if w[0] == 'stop':
            if out == 'bad-op':
                return (True, None)
            self.stop_begun = True
            self.stats['real_stop'] += 1
            return (out == 'stopped', klass)
        if w[0] == 'dump':
            why = self.check_file(out, False)
            self.why = why
            return (why is None, klass)
        if w[0] == 'close':
            if not self.stop_begun:
                self.stats['dtor_stop'] += 1
            self.stop_begun = True
            why = self.check_file(out, True)
            self.why = why
            self.live = False
            return (why is None, klass)
        return (out == 'bad-op', None)

    def thr(self, w, out):
        self.live = False
        if out == 'bad-op':
            return (True, None)
        if out == 'hang':
            return (False, None)
        try:
            parts = out.split(';')
            glob = dict(x.split('=') for x in parts[-1].split()[1:])
            ok = int(glob['seqbad']) == 0 and int(glob['junk']) == 0
            tot = 0
            for p in parts[:-1]:
                d = dict(x.split('=') for x in p.split()[1:])
                d = {k: int(v) for k, v in d.items()}
                tot += d['sent'] + d['filt']
                ok = ok and d['ret1'] == d['sent'] and d['earlymiss'] == 0 and d['dup'] == 0 and d['ord'] == 1 and d['ffound'] == 0 \
                    and d['found'] >= d['early'] and d['found'] <= d['sent']
                if w[6] == 'after':
                    ok = ok and d['early'] == d['sent']
            if len(parts) - 1 != int(w[4]):
                ok = False
        except (ValueError, KeyError, IndexError):
            return (False, None)
        self.stats['thr_runs'] += 1
        self.stats['thr_lines'] += tot
        self.stats['thr_stop_modes'][w[6]] = self.stats['thr_stop_modes'].get(w[6], 0) + 1
        return (ok, None)


def run(res, replay=None):
    rng = vlib.rng_for('C28', res.seed)
    errs = gen_facts.generate(['logger_facts'])
    if replay:
        lines = [l.strip() for l in open(replay) if l.strip() and not l.startswith('#')]
    else:
        lines = vlib.corpus_lines('C28') + gen(rng, res.tier == 'thorough')
    res.assumptions += [
        'the queue is the specification of property C30 (tickets in CAS order, pops in ticket order, "empty" exactly when the push holding the next ticket has not completed); '
        'Logger::_msg_queue is not re-verified here',
        'scripted segments with a stalled producer (ops take / publish: the harness performs the two halves of ff::uMPMC_Ptr_Queue::push itself, between them other sends, stop() statements and writer runs); atomic steps: level test + element construction + ticket of try_push; completion of the push; loop condition; try_pop; process_logline (numbering + one stream write); '
        'request_stop(); join = the writer thread has left operator()',
        'the model is the code WITH the two proposed fix: commits (writer loop `for (;;)`, `return try_push(le)`); on the base commit the corpus witnesses fail (lost_on_stop, inverted_return)',
        'scripted part: the real writer thread is parked inside the interposed clock_nanosleep (harness/vclock.hpp) whenever its try_pop failed and released for one run at a time; '
        'flag/sentinel/join replay the three statements of stop() (text of stop() checked by gen_facts.logger_facts)',
        'free-running part: judged by the property oracle only; "accepted before stop" = the producer saw its send() return while the harness had not yet called stop()',
        'not modelled: buffer/nolf/compress flags, thread/timestamp/location columns, XmlFileLogger, BCLogger, set_levels/set_flags/set_positions while running, rotation (C29), a second stop() on the same object',
        'try_push never fails in this build (ff::uMPMC_Ptr_Queue::push always returns true): the rejected branch of the model is not exercised']
    res.cov['rule'] = ('scripted segments new..close: 1-4 producers ids, 1..30 ops (send/enqueue at all 5 levels against masks incl. 0 and 31, direction values, run, dump, real stop(), '
                       'stop split into flag/sentinel/join at random positions, destructor-only stop), FileLogger 80% / PipeLogger 20%, column sets {s,sd,sdl,sl,d,l,dl,-}; a malformed stream; '
                       'free-running: 1-8 producer threads x 1..6000 lines, stop() after join / mid-stream at 0..100% / at start; distinct by script text; non-trivial = segment with >= 1 accepted line, every thr run')
    ora = Oracle()
    seg = []

    def nontrivial(l):
        if l.startswith('thr'):
            return l
        if l.startswith('new'):
            del seg[:]
        seg.append(l)
        if l == 'close' and any(x.startswith(('send', 'enq')) for x in seg):
            return '\n'.join(seg)
        return None

    # vlib.run_harness bounds the WHOLE script by max(60, 3 * per_line_timeout + 0.01 * lines) seconds; the threaded runs take
    # minutes on a loaded machine, so the bound is raised for this stream (decide_stream has no parameter for it).  A stop() /
    # destructor / join that does not return is detected inside the harness (its own watchdogs print `hang`).
    orig_run = vlib.run_harness
    vlib.run_harness = lambda exe, ls, **kw: orig_run(exe, ls, **dict(kw, per_line_timeout=600.0))
    try:
        r = _decide(res, lines, ora, nontrivial, errs)
    finally:
        vlib.run_harness = orig_run
    res.cov['c28'] = ora.stats


def _decide(res, lines, ora, nontrivial, errs):
    return vlib.decide_stream(res, module='Fix8Model.Props.C28', theorems=THEOREMS, stream='log', harness_name='logh',
                           lines=lines, oracle=ora, nontrivial=nontrivial,
                           harness_kw=dict(need_lib=True, extra_flags=['-ldl']), stateful=True,
                           compare=lambda l, a, b: True if l.startswith('thr ') and b == 'free-running' else a == b,
                           extra_obligation_problems=errs, segment_start=lambda x: x.startswith(('new', 'thr')))
